(* C01: executable models, faithful to the code as it is, of
     - LongReadAssigner.categorize_exon_elongation_subtype            (src/long_read_assigner.py)
     - PolyAVerifier.verify_read_ends with everything it calls        (src/polya_verification.py)
   Both functions attach an `event_info` to the events they create (the elongation length, the polyA position), so the events
   here are the records `xev` = Corrector.event + info.
   Python semantics kept: negative indexing (split_exons[-1] when no common exon is found - the "Odd case" warning), chained
   comparison a == b == 1, range(k, -1, -1), math.inf for an absent position in check_if_close (option), the assert of
   correct_polya_positions (Raises AssertionError), plain arithmetic with the sentinel -1 in detect_reference_exons_beyond_polya,
   `del matching_events[event_to_remove]` = removal of the LAST elongation event of the polyA side, isoform_id None = identity.
   shift_polya / shift_polyt are the C16 models (PolyA2.v): verify_polya only calls them with 0 <= count < len(read_exons). *)
From Coq Require Import ZArith NArith QArith List Bool Lia ZifyBool.
From IQ Require Import CorrSupport Intervals Junctions AssignerDefs.
From IQ.gen Require Import Tables Prims.
Require IQ.Corrector.
Require IQ.PolyA2.
Import ListNotations. Open Scope Z_scope.

(* ---------------------------------------------------------------- events with info *)
Record xev := mkx { x_type : MES; x_iso : iv; x_read : iv; x_info : Z }.
Definition xe (t:MES) (info:Z) : xev := mkx t undefined_region undefined_region info.         (* MatchEvent(t, event_info=info) *)
Definition of_event (e:event) : xev := mkx (e_type e) (e_iso e) (e_read e) 0.
Definition xev_eqb (a b:xev) : bool :=
  MES_eqb (x_type a) (x_type b) && iv_eqb (x_iso a) (x_iso b) && iv_eqb (x_read a) (x_read b) && (x_info a =? x_info b).
Definition xevs_eqb := list_eqb xev_eqb.
Definition has_ty (t:MES) (e:xev) : bool := MES_eqb (x_type e) t.
Definition has_type (t:MES) (l:list xev) : bool := existsb (has_ty t) l.
Definition xmem (e:xev) (l:list xev) : bool := existsb (xev_eqb e) l.

Ltac dif := match goal with
  | |- context [if ?c then _ else _] => let E := fresh "E" in destruct c eqn:E
  | H: context [if ?c then _ else _] |- _ => let E := fresh "E" in destruct c eqn:E end.

(* ================================================================ 1. categorize_exon_elongation_subtype *)
(* for i in idx: if isoform_profile[i] == read_profile[i] == 1: return i  (both lists are indexed before the comparison) *)
Fixpoint scan (isop rp:list Z) (idx:list Z) : outcome Z :=
  match idx with
  | [] => Ok (-1)
  | i :: t => match pyidx isop i, pyidx rp i with
              | Some a, Some b => if (a =? b) && (b =? 1) then Ok i else scan isop rp t
              | _, _ => Raises IndexError
              end
  end.
Definition range_down (a:Z) : list Z := rev (zrange 0 (a + 1)).               (* range(a, -1, -1) *)
Definition common_first (split:list iv) (isop:list Z) (prange:iv) (rp:list Z) (rrange:iv) : outcome Z :=
  scan isop rp (zrange (Z.max (fst prange) (fst rrange)) (lenz split)).
Definition common_last (isop:list Z) (prange:iv) (rp:list Z) (rrange:iv) : outcome Z :=
  scan isop rp (range_down (Z.min (snd prange - 1) (snd rrange - 1))).

(* what the second half of the function looks at: the two common split-exon indices (possibly -1), the terminal read exons, and
   the split exons at those indices (Python indexing: index -1 is the LAST split exon) *)
Record eview := mkV { v_cfe : Z; v_cle : Z; v_fe : iv; v_le : iv; v_sf : iv; v_sl : iv }.
Definition elong_view (split:list iv) (isop:list Z) (prange:iv) (rp:list Z) (rrange:iv) (rfeat:list iv) : outcome eview :=
  match common_first split isop prange rp rrange, common_last isop prange rp rrange with
  | Ok cfe, Ok cle =>
    match pyidx rfeat 0, pyidx split cfe, pyidx rfeat (-1), pyidx split cle with
    | Some fe, Some sf, Some le, Some sl => Ok (mkV cfe cle fe le sf sl)
    | _, _, _, _ => Raises IndexError
    end
  | Raises k, _ => Raises k
  | _, Raises k => Raises k
  end.
Definition extra_left (v:eview) : Z := fst (v_sf v) - fst (v_fe v).
Definition extra_right (v:eview) : Z := snd (v_le v) - snd (v_sl v).

Definition emit_side (P:params) (terminal:bool) (extra:Z) (t_precise t_match t_major t_minor:MES) : list xev :=
  if terminal then
    (if Z.abs extra <=? p_minor_ext P then [xe (if Z.abs extra <=? p_delta P then t_precise else t_match) extra] else []) ++
    (if extra >? p_minor_ext P then [xe t_major extra] else if extra >? p_delta P then [xe t_minor extra] else [])
  else if (p_minor_ext P >=? extra) && (extra >? p_delta P) then [xe t_minor extra] else [].
Definition emit_left (P:params) (prange:iv) (v:eview) : list xev :=
  if py_overlaps (v_fe v) (v_sf v) then
    emit_side P (v_cfe v =? fst prange) (extra_left v)
              MES_terminal_site_match_left_precise MES_terminal_site_match_left MES_major_exon_elongation_left MES_exon_elongation_left
  else [].
Definition emit_right (P:params) (prange:iv) (v:eview) : list xev :=
  if py_overlaps (v_le v) (v_sl v) then
    emit_side P (v_cle v =? snd prange - 1) (extra_right v)
              MES_terminal_site_match_right_precise MES_terminal_site_match_right MES_major_exon_elongation_right MES_exon_elongation_right
  else [].
Definition emit (P:params) (prange:iv) (v:eview) : list xev := emit_left P prange v ++ emit_right P prange v.

Definition elongation_subtype (P:params) (split:list iv) (isop:list Z) (prange:iv) (rp:list Z) (rrange:iv) (rfeat:list iv) : outcome (list xev) :=
  match elong_view split isop prange rp rrange rfeat with
  | Ok v => Ok (emit P prange v)
  | Raises k => Raises k
  end.

(* ---------------------------------------------------------------- decidable specification (evaluated on the implementation's output) *)
Definition elongation_type_list : list MES :=
  [MES_terminal_site_match_left; MES_terminal_site_match_left_precise; MES_terminal_site_match_right; MES_terminal_site_match_right_precise;
   MES_exon_elongation_left; MES_exon_elongation_right; MES_major_exon_elongation_left; MES_major_exon_elongation_right].
Definition major_left_cond (P:params) (prange:iv) (v:eview) : bool :=
  py_overlaps (v_fe v) (v_sf v) && (v_cfe v =? fst prange) && (extra_left v >? p_minor_ext P).
Definition major_right_cond (P:params) (prange:iv) (v:eview) : bool :=
  py_overlaps (v_le v) (v_sl v) && (v_cle v =? snd prange - 1) && (extra_right v >? p_minor_ext P).
Definition is_minor_elong (e:xev) : bool := has_ty MES_exon_elongation_left e || has_ty MES_exon_elongation_right e.
Definition elong_spec (P:params) (prange:iv) (v:eview) (evs:list xev) : bool :=
  forallb (fun e => mem (x_type e) elongation_type_list) evs &&
  Bool.eqb (has_type MES_major_exon_elongation_left evs) (major_left_cond P prange v) &&
  Bool.eqb (has_type MES_major_exon_elongation_right evs) (major_right_cond P prange v) &&
  (negb ((p_delta P <=? p_minor_ext P) && (extra_left v <=? p_delta P) && (extra_right v <=? p_delta P)) || forallb (fun e => ev_consistent (x_type e)) evs) &&
  forallb (fun e => negb (is_minor_elong e) || ((p_delta P <? x_info e) && (x_info e <=? p_minor_ext P))) evs.

(* ================================================================ 2. PolyAVerifier.verify_read_ends *)
Record polya := mkPA { pa_ext_a : Z; pa_ext_t : Z; pa_int_a : Z; pa_int_t : Z }.     (* PolyAInfo(external A, external T, internal A, internal T) *)

Definition is_elong_right (e:xev) : bool := has_ty MES_major_exon_elongation_right e || has_ty MES_exon_elongation_right e.
Definition is_elong_left (e:xev) : bool := has_ty MES_major_exon_elongation_left e || has_ty MES_exon_elongation_left e.
(* event_to_remove = index of the LAST event satisfying f; del matching_events[event_to_remove] *)
Fixpoint remove_last (f:xev -> bool) (l:list xev) : list xev :=
  match l with
  | [] => []
  | e :: t => if f e && negb (existsb f t) then t else e :: remove_last f t
  end.
Definition countz (f:xev -> bool) (l:list xev) : Z := lenz (filter f l).

(* check_if_close; None = math.inf *)
Definition dist_to (iso_end pos:Z) : option Z := if pos =? -1 then None else Some (Z.abs (iso_end - pos)).
Definition le_inf (a b:option Z) : bool := match a, b with _, None => true | None, Some _ => false | Some x, Some y => x <=? y end.
Definition le_fin (a:option Z) (k:Z) : bool := match a with None => false | Some x => x <=? k end.
Definition check_if_close (P:params) (iso_end ext int:Z) (evs:list xev) (ty:MES) : option (list xev) :=
  let de := dist_to iso_end ext in let di := dist_to iso_end int in
  if le_fin di (p_apa_delta P) && le_inf di de then Some (evs ++ [xe ty int])
  else if le_fin de (p_apa_delta P) && negb (le_inf di de) then Some (evs ++ [xe ty ext])
  else None.

Fixpoint count_while {A} (f:A -> bool) (l:list A) : nat :=
  match l with e :: t => if f e then Datatypes.S (count_while f t) else O | [] => O end.
Definition missed_ok (P:params) (tlen d:Z) : bool :=
  ((tlen <=? p_max_fake_terminal_exon_len P) && (d <=? p_max_fake_terminal_exon_len P)) ||
  ((tlen <=? p_max_missed_exon_len P) && (Z.abs (tlen - d) <=? p_delta P)).
Definition tem (t:MES) (k:Z) : xev := mkx t (k, k) undefined_region 0.                        (* MatchEvent(t, (k, k)) *)

(* detect_reference_exons_beyond_polya *)
Definition beyond_polya (P:params) (iso:list iv) (ext int:Z) (evs:list xev) : list xev * Z * Z :=
  let pos := if negb (int =? -1) then int else ext in
  let tc := count_while (fun e => fst e >=? pos) (rev iso) in
  let n := length iso in
  if (tc =? n)%nat || (tc =? 0)%nat then (evs, ext, int) else
  let tlen := total (skipn (n - tc) iso) in
  let anchor := snd (nth (n - tc - 1) iso (0,0)) in
  let d := Z.min (Z.abs (anchor - ext)) (Z.abs (anchor - int)) in
  if missed_ok P tlen d then
    let last_end := snd (last iso (0,0)) in
    (evs ++ map (fun i => tem MES_terminal_exon_misalignment_right (lenz iso - 2 - i)) (zrange 0 (Z.of_nat tc)), last_end, last_end)
  else (evs, ext, int).
(* detect_reference_exons_before_polyt *)
Definition before_polyt (P:params) (iso:list iv) (ext int:Z) (evs:list xev) : list xev * Z * Z :=
  let pos := if negb (int =? -1) then int else ext in
  let tc := count_while (fun e => snd e <=? pos) iso in
  let n := length iso in
  if (tc =? 0)%nat || (tc =? n)%nat then (evs, ext, int) else
  let tlen := total (firstn tc iso) in
  let anchor := fst (nth tc iso (0,0)) in
  let d := Z.min (Z.abs (anchor - ext)) (Z.abs (anchor - int)) in
  if missed_ok P tlen d then
    let first_start := fst (hd (0,0) iso) in
    (evs ++ map (fun i => tem MES_terminal_exon_misalignment_left i) (zrange 0 (Z.of_nat tc)), first_start, first_start)
  else (evs, ext, int).

Definition final_event (P:params) (iso_end ext int:Z) (t_apa t_ok:MES) : xev :=
  let pos := if int =? -1 then ext else int in
  xe (if Z.abs (pos - iso_end) >? p_apa_delta P then t_apa else t_ok) pos.

(* verify_polya (called with external != -1 or internal != -1) *)
Definition verify_polya (P:params) (iso rex:list iv) (pa:polya) (evs:list xev) : outcome (list xev) :=
  match iso with
  | [] => Raises IndexError
  | _ =>
    let iso_end := snd (last iso (0,0)) in
    let fake := countz (has_ty MES_fake_terminal_exon_right) evs in
    let mis := countz (has_ty MES_terminal_exon_misalignment_right) evs in
    let evs1 := remove_last is_elong_right evs in
    match check_if_close P iso_end (pa_ext_a pa) (pa_int_a pa) evs1 MES_correct_polya_site_right with
    | Some r => Ok r
    | None =>
      if negb (fake <? lenz rex) then Raises AssertionError else
      let ext1 := PolyA2.shift_polya rex fake (pa_ext_a pa) in
      let int1 := PolyA2.shift_polya rex fake (pa_int_a pa) in
      let c := if 0 <? mis then (evs1, iso_end, iso_end) else beyond_polya P iso ext1 int1 evs1 in
      let evs2 := fst (fst c) in let ext2 := snd (fst c) in let int2 := snd c in
      match check_if_close P iso_end ext2 int2 evs2 MES_correct_polya_site_right with
      | Some r => Ok r
      | None => Ok (evs2 ++ [final_event P iso_end ext2 int2 MES_alternative_polya_site_right MES_correct_polya_site_right])
      end
    end
  end.
Definition verify_polyt (P:params) (iso rex:list iv) (pa:polya) (evs:list xev) : outcome (list xev) :=
  match iso with
  | [] => Raises IndexError
  | _ =>
    let iso_start := fst (hd (0,0) iso) in
    let fake := countz (has_ty MES_fake_terminal_exon_left) evs in
    let mis := countz (has_ty MES_terminal_exon_misalignment_left) evs in
    let evs1 := remove_last is_elong_left evs in
    match check_if_close P iso_start (pa_ext_t pa) (pa_int_t pa) evs1 MES_correct_polya_site_left with
    | Some r => Ok r
    | None =>
      if negb (fake <? lenz rex) then Raises AssertionError else
      let ext1 := PolyA2.shift_polyt rex fake (pa_ext_t pa) in
      let int1 := PolyA2.shift_polyt rex fake (pa_int_t pa) in
      let c := if 0 <? mis then (evs1, iso_start, iso_start) else before_polyt P iso ext1 int1 evs1 in
      let evs2 := fst (fst c) in let ext2 := snd (fst c) in let int2 := snd c in
      match check_if_close P iso_start ext2 int2 evs2 MES_correct_polya_site_left with
      | Some r => Ok r
      | None => Ok (evs2 ++ [final_event P iso_start ext2 int2 MES_alternative_polya_site_left MES_correct_polya_site_left])
      end
    end
  end.

(* check_internal_polya / check_internal_polyt: the first incomplete intron retention of the polyA side *)
Definition check_internal (t_ir t_new:MES) (int:Z) (evs:list xev) : list xev * bool :=
  if int =? -1 then (evs, false) else
  match find (has_ty t_ir) evs with
  | Some e => (evs ++ [mkx t_new (x_iso e) undefined_region int], true)
  | None => (evs, false)
  end.

(* strand: 1 = '+', -1 = '-', anything else = another strand string ('.'); has_iso = (isoform_id is not None) *)
Definition verify_body (P:params) (strand:Z) (iso rex:list iv) (pa:polya) (evs:list xev) : outcome (list xev) :=
  if strand =? 1 then
    let '(evs1, internal) := check_internal MES_incomplete_intron_retention_right MES_internal_polya_right (pa_int_a pa) evs in
    if negb internal && (negb (pa_ext_a pa =? -1) || negb (pa_int_a pa =? -1)) then verify_polya P iso rex pa evs1 else Ok evs1
  else if strand =? -1 then
    let '(evs1, internal) := check_internal MES_incomplete_intron_retention_left MES_internal_polya_left (pa_int_t pa) evs in
    if negb internal && (negb (pa_ext_t pa =? -1) || negb (pa_int_t pa =? -1)) then verify_polyt P iso rex pa evs1 else Ok evs1
  else Ok evs.
Definition verify_read_ends (P:params) (has_iso:bool) (strand:Z) (iso rex:list iv) (pa:polya) (evs:list xev) : outcome (list xev) :=
  if negb has_iso then Ok evs else
  match verify_body P strand iso rex pa evs with
  | Ok [] => Ok [xe MES_none_ 0]
  | r => r
  end.

(* ---------------------------------------------------------------- decidable specification *)
Definition polya_new_types : list MES :=
  [MES_correct_polya_site_left; MES_correct_polya_site_right; MES_alternative_polya_site_left; MES_alternative_polya_site_right;
   MES_internal_polya_left; MES_internal_polya_right; MES_terminal_exon_misalignment_left; MES_terminal_exon_misalignment_right; MES_none_].
Definition new_type (e:xev) : bool := mem (x_type e) polya_new_types.
Definition elong_side (strand:Z) (e:xev) : bool :=
  if strand =? 1 then is_elong_right e else if strand =? -1 then is_elong_left e else false.
Definition close_to (P:params) (iso_end ext int:Z) : bool :=
  (negb (ext =? -1) && (Z.abs (iso_end - ext) <=? p_apa_delta P)) || (negb (int =? -1) && (Z.abs (iso_end - int) <=? p_apa_delta P)).
Definition polya_close (P:params) (strand:Z) (iso:list iv) (pa:polya) : bool :=
  if strand =? 1 then close_to P (snd (last iso (0,0))) (pa_ext_a pa) (pa_int_a pa)
  else if strand =? -1 then close_to P (fst (hd (0,0) iso)) (pa_ext_t pa) (pa_int_t pa) else false.
Definition is_apa (e:xev) : bool := has_ty MES_alternative_polya_site_left e || has_ty MES_alternative_polya_site_right e.
Definition verify_spec (P:params) (strand:Z) (iso:list iv) (pa:polya) (evs out:list xev) : bool :=
  negb (length out =? 0)%nat &&
  forallb (fun e => xmem e evs || new_type e) out &&
  forallb (fun e => xmem e out || elong_side strand e) evs &&
  (negb (polya_close P strand iso pa) || forallb (fun e => negb (is_apa e) || xmem e evs) out).

(* the shape of every successful result: the input (possibly minus the last elongation event of the polyA side) followed by events
   of the polyA kinds *)
Definition shape (f:xev -> bool) (evs out:list xev) : Prop :=
  exists base added, out = base ++ added /\ (base = evs \/ base = remove_last f evs) /\ Forall (fun e => new_type e = true) added.

(* ---------------------------------------------------------------- theorems *)
