(* C07 — the lock protocol behind --resume, generically.

   Files are drawn from any type F with a decidable equality; a state maps a file to its content (None = absent).
   A *unit of work* is a list of truncating writes of its outputs with their intended contents followed by the creation of
   its lock; on resume a unit is skipped iff its lock exists.  `lock_protocol_sound_any`: for any sequence of pairwise
   distinct units with pairwise disjoint file sets and no stale lock, a crash inside any unit that leaves the outputs of
   that unit in an ARBITRARY state (absent, half written, several of them open at once, complete) and everything else
   untouched is repaired by re-interpreting the sequence with the guards: the result is pointwise the state of the
   uninterrupted run.  `lock_protocol_sound` is the special case "j complete writes, the next one possibly garbage". *)
From Coq Require Import List Bool Lia.
Import ListNotations.

Section Protocol.
Variable F : Type.                       (* file names *)
Variable feqb : F -> F -> bool.
Hypothesis feqb_spec : forall a b, feqb a b = true <-> a = b.
Variable C : Type.                       (* contents *)
Variable lockc : C.                      (* what a lock file contains *)
Variable garbagec : C.                   (* a half-written file *)

Lemma feqb_refl a : feqb a a = true.
Proof. apply feqb_spec; reflexivity. Qed.

Definition st := F -> option C.
Definition write (s:st) (f:F) (c:C) : st := fun g => if feqb g f then Some c else s g.
Definition eqst (a b:st) := forall f, a f = b f.

Record unit_ := mkunit { outs : list (F * C); lock : F }.
Definition run_outs (s:st) (o:list (F*C)) : st := fold_left (fun s e => write s (fst e) (snd e)) o s.
Definition run_unit (s:st) (u:unit_) : st := write (run_outs s (outs u)) (lock u) lockc.
(* on resume a unit is skipped iff its lock exists *)
Definition resume_unit (s:st) (u:unit_) : st := match s (lock u) with Some _ => s | None => run_unit s u end.
Definition run_all (s:st) (us:list unit_) : st := fold_left run_unit us s.
Definition resume_all (s:st) (us:list unit_) : st := fold_left resume_unit us s.

(* a crash inside unit u after j complete writes; the (j+1)-th file may be left with garbage *)
Definition crash_in (s:st) (u:unit_) (j:nat) (garbage:bool) : st :=
  let s1 := run_outs s (firstn j (outs u)) in
  match garbage, nth_error (outs u) j with
  | true, Some e => write s1 (fst e) garbagec
  | _, _ => s1
  end.
(* the general crash: c is any state that differs from s at most on the outputs of u (never on a lock) *)
Definition crashed_inside (s:st) (u:unit_) (c:st) := forall g, ~ In g (map fst (outs u)) -> c g = s g.

Definition files (u:unit_) : list F := lock u :: map fst (outs u).

(* ---------- pointwise characterisation: the last write to a file wins ---------- *)
Fixpoint last_write (g:F) (o:list (F*C)) : option C :=
  match o with [] => None | e::t => match last_write g t with Some c => Some c | None => if feqb g (fst e) then Some (snd e) else None end end.
Lemma run_outs_char o : forall s g, run_outs s o g = match last_write g o with Some c => Some c | None => s g end.
Proof. induction o as [|e t IH]; intros s g; [reflexivity|]. cbn [run_outs fold_left last_write]. fold (run_outs (write s (fst e) (snd e)) t).
  rewrite IH. destruct (last_write g t); [reflexivity|]. unfold write. destruct (feqb g (fst e)); reflexivity. Qed.
Lemma last_write_none g o : ~ In g (map fst o) -> last_write g o = None.
Proof. induction o as [|e t IH]; intros H; [reflexivity|]. cbn [last_write]. rewrite IH by (intros X; apply H; right; exact X).
  destruct (feqb g (fst e)) eqn:E; [apply feqb_spec in E; exfalso; apply H; left; symmetry; exact E|reflexivity]. Qed.
Lemma last_write_some g o : In g (map fst o) -> last_write g o <> None.
Proof. induction o as [|e t IH]; intros H; [destruct H|]. cbn [last_write]. destruct (last_write g t) eqn:E; [discriminate|].
  destruct H as [H|H]; [|exfalso; exact (IH H eq_refl)]. simpl in H. subst g. rewrite feqb_refl. discriminate. Qed.

Definition intended (u:unit_) (g:F) : option C := if feqb g (lock u) then Some lockc else last_write g (outs u).
Lemma run_unit_char s u g : run_unit s u g = match intended u g with Some c => Some c | None => s g end.
Proof. unfold run_unit, intended, write. destruct (feqb g (lock u)); [reflexivity|apply run_outs_char]. Qed.
Lemma intended_none u g : ~ In g (files u) -> intended u g = None.
Proof. intros H. unfold intended. destruct (feqb g (lock u)) eqn:E; [apply feqb_spec in E; exfalso; apply H; left; symmetry; exact E|].
  apply last_write_none. intros X; apply H; right; exact X. Qed.
Lemma run_unit_cong s s' u : eqst s s' -> eqst (run_unit s u) (run_unit s' u).
Proof. intros H g. rewrite !run_unit_char. destruct (intended u g); [reflexivity|apply H]. Qed.
Lemma run_all_cong us : forall s s', eqst s s' -> eqst (run_all s us) (run_all s' us).
Proof. induction us as [|u t IH]; intros s s' H; [exact H|]. cbn [run_all fold_left]. apply IH, run_unit_cong, H. Qed.
Lemma run_all_other us : forall s g, (forall u, In u us -> ~ In g (files u)) -> run_all s us g = s g.
Proof. induction us as [|u t IH]; intros s g H; [reflexivity|]. cbn [run_all fold_left]. fold (run_all (run_unit s u) t).
  rewrite IH by (intros v Hv; apply H; right; exact Hv). rewrite run_unit_char, intended_none; [reflexivity|apply H; left; reflexivity]. Qed.

(* the special crash touches only outputs of the interrupted unit, never a lock *)
Lemma crash_other s u j gb : crashed_inside s u (crash_in s u j gb).
Proof. intros g H. unfold crash_in.
  assert (A: run_outs s (firstn j (outs u)) g = s g).
  { rewrite run_outs_char, last_write_none; [reflexivity|]. intros X. apply H.
    rewrite <- (firstn_skipn j (outs u)), map_app. apply in_or_app. left; exact X. }
  destruct gb; [|exact A]. destruct (nth_error (outs u) j) as [e|] eqn:E; [|exact A].
  unfold write. destruct (feqb g (fst e)) eqn:E2; [|exact A]. apply feqb_spec in E2. exfalso. apply H. subst g.
  apply in_map. eapply nth_error_In; eauto. Qed.

(* restarting the interrupted unit from the crash state gives exactly what the uninterrupted unit gives *)
Lemma rerun_after_crash s u c : crashed_inside s u c -> eqst (run_unit c u) (run_unit s u).
Proof. intros HC g. rewrite !run_unit_char. destruct (intended u g) eqn:E; [reflexivity|].
  apply HC. intros X. unfold intended in E. destruct (feqb g (lock u)); [discriminate|].
  exact (last_write_some g (outs u) X E). Qed.

(* ---------- the protocol theorem ---------- *)
Definition disjoint_units (us:list unit_) := forall u v g, In u us -> In v us -> u <> v -> In g (files u) -> In g (files v) -> False.
Definition lock_apart (u:unit_) := ~ In (lock u) (map fst (outs u)).

Lemma resume_skips_done : forall pre s, (forall u, In u pre -> exists c, s (lock u) = Some c) -> resume_all s pre = s.
Proof. induction pre as [|u t IH]; intros s H; [reflexivity|]. cbn [resume_all fold_left]. fold (resume_all (resume_unit s u) t).
  destruct (H u (or_introl eq_refl)) as [c Hc]. unfold resume_unit at 1. rewrite Hc. apply IH. intros v Hv. apply H. right; exact Hv. Qed.

Lemma resume_runs_missing : forall post s s', eqst s s' -> NoDup post -> disjoint_units post ->
  (forall u, In u post -> s (lock u) = None) -> eqst (resume_all s post) (run_all s' post).
Proof. induction post as [|u t IH]; intros s s' H ND DJ HL; [exact H|].
  cbn [resume_all run_all fold_left]. fold (resume_all (resume_unit s u) t). fold (run_all (run_unit s' u) t).
  unfold resume_unit at 1. rewrite (HL u (or_introl eq_refl)).
  inversion ND; subst. apply IH; [apply run_unit_cong, H|assumption| |].
  - intros a b g Ha Hb. apply DJ; right; assumption.
  - intros v Hv. rewrite run_unit_char, intended_none; [apply HL; right; exact Hv|].
    intros X. apply (DJ v u (lock v)); [right; exact Hv|left; reflexivity|intros ->; contradiction|left; reflexivity|exact X]. Qed.

Lemma lock_written : forall pre s0 v, In v pre -> NoDup pre -> disjoint_units pre -> run_all s0 pre (lock v) = Some lockc.
Proof. induction pre as [|w t IH]; intros s0 v Hv ND DJ; [destruct Hv|].
  cbn [run_all fold_left]. fold (run_all (run_unit s0 w) t). inversion ND; subst.
  destruct Hv as [->|Hv].
  - rewrite run_all_other; [rewrite run_unit_char; unfold intended; rewrite feqb_refl; reflexivity|].
    intros x Hx X. apply (DJ v x (lock v)); [left; reflexivity|right; exact Hx|intros ->; contradiction|left; reflexivity|exact X].
  - apply IH; [exact Hv|assumption|]. intros a b g Ha Hb. apply DJ; right; assumption. Qed.

Lemma NoDup_app_inv {A} (l l':list A) : NoDup (l ++ l') -> NoDup l /\ NoDup l' /\ (forall x, In x l -> ~ In x l').
Proof. induction l as [|a t IH]; intros H; [split; [constructor|split; [exact H|intros x []]]|].
  simpl in H. inversion H; subst. destruct (IH H3) as (I1 & I2 & I3). split; [|split; [exact I2|]].
  - constructor; [intros X; apply H2; apply in_or_app; left; exact X|exact I1].
  - intros x [->|Hx]; [intros X; apply H2; apply in_or_app; right; exact X|apply I3, Hx]. Qed.

Theorem lock_protocol_sound_any : forall pre u post s0 c,
  NoDup (pre ++ u :: post) -> disjoint_units (pre ++ u :: post) -> lock_apart u ->
  (forall v, In v (pre ++ u :: post) -> s0 (lock v) = None) ->
  crashed_inside (run_all s0 pre) u c ->
  eqst (resume_all c (pre ++ u :: post)) (run_all s0 (pre ++ u :: post)).
Proof. intros pre u post s0 c ND DJ LA HL HC.
  assert (Hu: In u (pre ++ u :: post)) by (apply in_or_app; right; left; reflexivity).
  assert (Hnotpre: ~ In u pre) by (intros X; apply NoDup_remove_2 in ND; apply ND; apply in_or_app; left; exact X).
  assert (Hnotpost: ~ In u post) by (intros X; apply NoDup_remove_2 in ND; apply ND; apply in_or_app; right; exact X).
  destruct (NoDup_app_inv pre (u :: post) ND) as (NDpre & NDupost & Hsep).
  assert (NDpost: NoDup post) by (inversion NDupost; assumption).
  assert (DJpre: disjoint_units pre) by (intros a b g Ha Hb; apply DJ; apply in_or_app; left; assumption).
  assert (DJpost: disjoint_units post) by (intros a b g Ha Hb; apply DJ; apply in_or_app; right; right; assumption).
  unfold resume_all, run_all. rewrite !fold_left_app. cbn [fold_left].
  fold (run_all s0 pre). fold (run_all s0 pre) in HC. set (s1 := run_all s0 pre) in *.
  fold (resume_all c pre).
  (* 1. completed units are skipped *)
  assert (Hpre: resume_all c pre = c).
  { apply resume_skips_done. intros v Hv. exists lockc. rewrite HC.
    - apply lock_written; assumption.
    - intros X. apply (DJ v u (lock v)); [apply in_or_app; left; exact Hv|exact Hu|intros ->; contradiction|left; reflexivity|right; exact X]. }
  rewrite Hpre. fold (resume_all (resume_unit c u) post). fold (run_all (run_unit s1 u) post).
  (* 2. the interrupted unit has no lock, so it is re-run from scratch *)
  assert (Hlock: c (lock u) = None).
  { rewrite HC by exact LA. unfold s1. rewrite run_all_other; [apply HL, Hu|].
    intros v Hv X. apply (DJ u v (lock u)); [exact Hu|apply in_or_app; left; exact Hv|intros ->; contradiction|left; reflexivity|exact X]. }
  unfold resume_unit at 1. rewrite Hlock.
  (* 3. later units were never started: their locks are absent, they run on an equal state *)
  apply resume_runs_missing; [apply rerun_after_crash, HC|exact NDpost|exact DJpost|].
  intros v Hv. rewrite run_unit_char, intended_none.
  - rewrite HC.
    + unfold s1. rewrite run_all_other; [apply HL; apply in_or_app; right; right; exact Hv|].
      intros x Hx X. apply (DJ v x (lock v)); [apply in_or_app; right; right; exact Hv|apply in_or_app; left; exact Hx| |left; reflexivity|exact X].
      intros ->. apply (Hsep x Hx). right; exact Hv.
    + intros X. apply (DJ v u (lock v)); [apply in_or_app; right; right; exact Hv|exact Hu|intros ->; contradiction|left; reflexivity|right; exact X].
  - intros X. apply (DJ v u (lock v)); [apply in_or_app; right; right; exact Hv|exact Hu|intros ->; contradiction|left; reflexivity|exact X].
Qed.

Theorem lock_protocol_sound : forall pre u post s0 j gb,
  NoDup (pre ++ u :: post) -> disjoint_units (pre ++ u :: post) -> lock_apart u ->
  (forall v, In v (pre ++ u :: post) -> s0 (lock v) = None) ->
  eqst (resume_all (crash_in (run_all s0 pre) u j gb) (pre ++ u :: post)) (run_all s0 (pre ++ u :: post)).
Proof. intros. apply lock_protocol_sound_any; try assumption. apply crash_other. Qed.

(* a crash between two units (nothing half done) is the case "inside the next unit, before its first write" *)
Corollary lock_protocol_sound_between : forall pre u post s0,
  NoDup (pre ++ u :: post) -> disjoint_units (pre ++ u :: post) -> lock_apart u ->
  (forall v, In v (pre ++ u :: post) -> s0 (lock v) = None) ->
  eqst (resume_all (run_all s0 pre) (pre ++ u :: post)) (run_all s0 (pre ++ u :: post)).
Proof. intros. apply lock_protocol_sound_any; try assumption. intros g _. reflexivity. Qed.

(* The hypothesis "the lock is written last" is necessary: if the lock exists while an output of the unit is not what the
   uninterrupted run writes, the resumed run keeps the wrong file for ever. *)
Lemma lock_first_not_repaired : forall u (s:st) x, s (lock u) = Some x -> eqst (resume_all s [u]) s.
Proof. intros u s x H f. cbn. unfold resume_unit. rewrite H. reflexivity. Qed.

End Protocol.

Arguments mkunit {F C}. Arguments outs {F C}. Arguments lock {F C}.
