(* C17: tie between the naming constants of the hand-written model Ids.v and TranscriptNaming (src/common.py).
   The lemma is stated for arbitrary strings; props/C17.v instantiates it with the TN_ constants of gen/Extra.v (regenerated from the
   source on every check by tools/translate_extra.py) and discharges the four equalities by eq_refl: an edit of a constant in the source
   makes that theorem, and only it, fail. *)
From Coq Require Import ZArith List Bool.
From IQ Require Import Ids.
Import ListNotations. Open Scope Z_scope.

Lemma naming_constants_bridge (tp ngp nic nnic : str) :
  Ids.transcript_prefix = tp -> Ids.novel_gene_prefix = ngp -> Ids.nic_suffix = nic -> Ids.nnic_suffix = nnic ->
  Ids.transcript_prefix = tp /\ Ids.novel_gene_prefix = ngp /\ Ids.nic_suffix = nic /\ Ids.nnic_suffix = nnic /\
  (* TranscriptNaming.transcript_prefix + str(n) + "." + chr_id + suffix,  TranscriptNaming.novel_gene_prefix + chr_id + "_" + str(n) *)
  (forall n chr is_nic, transcript_id n chr is_nic = tp ++ print_dec n ++ 46 :: chr ++ (if is_nic then nic else nnic)) /\
  (forall chr n, novel_gene_id chr n = ngp ++ chr ++ 95 :: print_dec n).
Proof. intros H1 H2 H3 H4. subst. repeat (split; [reflexivity|]). split; intros; reflexivity. Qed.
