(* C07 — the pipeline as a PROGRAM of file-system operations generated from the chromosome list, its crash/resume semantics,
   and the instance of the generic lock protocol (Resume.v).

   Anchors: src/dataset_processor.py (process_sample, collect_reads, collect_reads_in_parallel, resolve_multimappers,
   process_assigned_reads, construct_models_in_parallel, merge_assignments, merge_transcript_models, clean-up),
   src/file_utils.py (merge_files, merge_counts), src/long_read_counter.py (file handling of the counters),
   src/assignment_io.py / src/transcript_printer.py (printers closed by their destructors), isoquant.py (--resume).

   Two levels:
   (1) UNIT level (for every chromosome list, by proof): the read-group unit, the stage-1 unit of every chromosome, the
       resolve unit and the stage-2 unit of every chromosome satisfy the premises of `lock_protocol_sound_any`
       (`pipeline_units_wf`), hence every crash inside any of them resumes to the uninterrupted state
       (`resume_ok_before_merge`); the hierarchical guards of the source (save_lock skips the whole collection, the
       stage-1 guard re-checks its files) coincide with skip-iff-lock on every state a crash can produce
       (`resume_pipeline_eq`).
   (2) OPERATION level (executable): the program with opens / closes / appends / removals / reads in source order, the
       mutation counter of the harness wrapper, `crash k` before or right after the k-th mutation (buffers of files that
       are still open are lost), `resume` = the same program with the skip-if-locked guards evaluated on the crash state.
       This level is what the harness compares with the logged trace of the real run and with the real outcome of
       crash + --resume at every mutation point; its theorems are computed for small chromosome lists. *)
From Coq Require Import NArith List Bool Lia.
From IQ Require Import Resume.
Import ListNotations. Open Scope N_scope.

(* ------------------------------------------------------------------ file names *)
Inductive fname :=
| Ext (n:N)                                   (* anything outside <out>/<prefix>/: log, .params, ~/.config, index files *)
| RGPart (r:N) | RGLock                       (* aux/<prefix>.read_group_<ref>, aux/<prefix>.read_group_lock *)
| Save (c:N) | Groups (c:N) | Bamstat (c:N) | Collected (c:N)      (* aux/<prefix>.save_<chr>{,_groups,_bamstat,_collected} *)
| Multi (c:N) | Info | SaveLock               (* aux/<prefix>.save_multimappers_<chr>, .save_info, .save_lock *)
| Final (k:N) | Part (k:N) (c:N)              (* <prefix>.<kind>, <prefix>_<chr>.<kind> *)
| ReadStat (c:N) | TrStat (c:N) | Processed (c:N).                 (* aux/<prefix>.save_<chr>_{read_stat,transcript_stat,processed} *)

Definition fname_eqb (a b:fname) : bool :=
  match a, b with
  | Ext x, Ext y | RGPart x, RGPart y | Save x, Save y | Groups x, Groups y | Bamstat x, Bamstat y | Collected x, Collected y
  | Multi x, Multi y | Final x, Final y | ReadStat x, ReadStat y | TrStat x, TrStat y | Processed x, Processed y => x =? y
  | RGLock, RGLock | Info, Info | SaveLock, SaveLock => true
  | Part k c, Part k' c' => (k =? k') && (c =? c')
  | _, _ => false
  end.
Lemma fname_eqb_spec a b : fname_eqb a b = true <-> a = b.
Proof. destruct a, b; cbn; split; intros H; try discriminate; try reflexivity;
  try (apply N.eqb_eq in H; subst; reflexivity); try (inversion H; subst; apply N.eqb_refl).
  - apply andb_true_iff in H. destruct H as [H1 H2]. apply N.eqb_eq in H1, H2. subst; reflexivity.
  - inversion H; subst. rewrite !N.eqb_refl. reflexivity. Qed.
Lemma fname_eqb_refl a : fname_eqb a a = true.
Proof. apply fname_eqb_spec; reflexivity. Qed.

(* contents are sequences of tokens: T f = "the data the pipeline computes for f" *)
Inductive tok := T (f:fname) | Bad | Garbage.
Definition tok_eqb (a b:tok) : bool :=
  match a, b with T f, T g => fname_eqb f g | Bad, Bad | Garbage, Garbage => true | _, _ => false end.
Fixpoint toks_eqb (a b:list tok) : bool :=
  match a, b with [] , [] => true | x::s, y::t => tok_eqb x y && toks_eqb s t | _, _ => false end.

(* ------------------------------------------------------------------ configuration *)
Inductive cstep := COpen (k:N) | CTouch (k:N).
   (* creation of an output: a printer opens it and keeps it open; a counter truncates it (open 'w' + close) *)
Inductive dstep := DCounterU (counts stats:N) | DCounterG (counts linear:N) | DReadStat | DTrStat.
   (* dumps at the end of stage 2, in source order *)
Inductive mstep := MPrinter (k:N) | MCounterU (counts stats tpm:N) | MCounterG (counts linear tpm:N).
   (* merge_files / merge_counts + convert_counts_to_tpm, in source order *)

Record cfg := mkcfg {
  setup : list N;            (* the external mutations before the sample is processed *)
  rg_parts : list N;         (* --read_group file:..: one split table per BAM reference (chromosomes keep their number) *)
  rg_file : bool;
  chrs : list N;             (* processing order (get_chr_list: by length) *)
  merge_order : list N;      (* natural sort of the per-chromosome file names (merge_files) *)
  creation : list cstep;
  dumps : list dstep;
  merges : list mstep;
  has_models : bool;
  keep_tmp : bool;
  cleanup : list fname;      (* removal order of the clean-up (glob order is unspecified: taken from the trace) *)
  fix_close : bool;          (* outputs are closed before their lock is created (fixes/C07_close_before_lock.diff) *)
  fix_proc : bool;           (* _processed locks are dropped before the first merge (fixes/C07_drop_processed_locks...) *)
  reuse : bool               (* --read_assignments <saves of an earlier --keep_tmp run>: no read collection, no clean-up; the save,
                                multimapper and info files (and the stage-2 statistics and locks) live next to the SUPPLIED prefix *)
}.

(* ================================================================== (1) UNIT LEVEL *)
Definition content := list tok.
Notation unit_ := (Resume.unit_ fname content).
Definition own (f:fname) : fname * content := (f, [T f]).

Definition part_kinds_c (s:cstep) : list N := match s with COpen k | CTouch k => [k] end.
Definition part_kinds_d (s:dstep) : list N := match s with DCounterU _ st => [st] | DCounterG _ _ => [] | _ => [] end.
Definition part_kinds (cf:cfg) : list N := flat_map part_kinds_c (creation cf) ++ flat_map part_kinds_d (dumps cf).

Definition rg_unit (cf:cfg) : unit_ := mkunit (map (fun r => own (RGPart r)) (rg_parts cf)) RGLock.
Definition stage1_unit (c:N) : unit_ := mkunit [own (Save c); own (Groups c); own (Bamstat c)] (Collected c).
Definition resolve_unit (cf:cfg) : unit_ := mkunit (map (fun c => own (Multi c)) (chrs cf) ++ [own Info]) SaveLock.
Definition stage2_unit (cf:cfg) (c:N) : unit_ :=
  mkunit (map (fun k => own (Part k c)) (part_kinds cf) ++ [own (ReadStat c)] ++ (if has_models cf then [own (TrStat c)] else [])) (Processed c).
Definition pipeline_units (cf:cfg) : list unit_ :=
  rg_unit cf :: map stage1_unit (chrs cf) ++ resolve_unit cf :: map (stage2_unit cf) (chrs cf).

(* every file of a unit carries the tag of its unit *)
Inductive tag := TRG | TS1 (c:N) | TRes | TS2 (c:N).
Definition owner (f:fname) : option tag :=
  match f with
  | RGPart _ | RGLock => Some TRG
  | Save c | Groups c | Bamstat c | Collected c => Some (TS1 c)
  | Multi _ | Info | SaveLock => Some TRes
  | Part _ c | ReadStat c | TrStat c | Processed c => Some (TS2 c)
  | Ext _ | Final _ => None
  end.
Definition is_lock (f:fname) : bool := match f with RGLock | Collected _ | SaveLock | Processed _ => true | _ => false end.

Definition tagged (t:tag) (u:unit_) := forall g, In g (files fname content u) -> owner g = Some t.
Definition outs_no_lock (u:unit_) := is_lock (lock u) = true /\ forall g, In g (map fst (outs u)) -> is_lock g = false.

Lemma in_map_own g l (f:N -> fname) : In g (map fst (map (fun x => own (f x)) l)) -> exists x, In x l /\ g = f x.
Proof. rewrite map_map. cbn. intros H. apply in_map_iff in H. destruct H as (x & E & I). exists x; split; [exact I|symmetry; exact E]. Qed.

Lemma rg_tagged cf : tagged TRG (rg_unit cf) /\ outs_no_lock (rg_unit cf).
Proof. split.
  - intros g [<-|H]; [reflexivity|]. apply in_map_own in H. destruct H as (x & _ & ->). reflexivity.
  - split; [reflexivity|]. intros g H. apply in_map_own in H. destruct H as (x & _ & ->). reflexivity. Qed.
Lemma stage1_tagged c : tagged (TS1 c) (stage1_unit c) /\ outs_no_lock (stage1_unit c).
Proof. split; [|split; [reflexivity|]]; intros g H; cbn in H; repeat (destruct H as [<-|H]; [reflexivity|]); destruct H. Qed.
Lemma resolve_tagged cf : tagged TRes (resolve_unit cf) /\ outs_no_lock (resolve_unit cf).
Proof. split.
  - intros g [<-|H]; [reflexivity|]. cbn [resolve_unit outs] in H. rewrite map_app in H. apply in_app_or in H. destruct H as [H|H].
    + apply in_map_own in H. destruct H as (x & _ & ->). reflexivity.
    + destruct H as [<-|[]]. reflexivity.
  - split; [reflexivity|]. intros g H. cbn [resolve_unit outs] in H. rewrite map_app in H. apply in_app_or in H. destruct H as [H|H].
    + apply in_map_own in H. destruct H as (x & _ & ->). reflexivity.
    + destruct H as [<-|[]]. reflexivity. Qed.
Lemma stage2_outs cf c g : In g (map fst (outs (stage2_unit cf c))) -> (exists k, g = Part k c) \/ g = ReadStat c \/ g = TrStat c.
Proof. cbn [stage2_unit outs]. rewrite !map_app. intros H. apply in_app_or in H. destruct H as [H|H].
  - apply (in_map_own g (part_kinds cf) (fun k => Part k c)) in H. destruct H as (k & _ & ->). left; exists k; reflexivity.
  - apply in_app_or in H. destruct H as [H|H]; [destruct H as [<-|[]]; right; left; reflexivity|].
    destruct (has_models cf); [destruct H as [<-|[]]; right; right; reflexivity|destruct H]. Qed.
Lemma stage2_tagged cf c : tagged (TS2 c) (stage2_unit cf c) /\ outs_no_lock (stage2_unit cf c).
Proof. split.
  - intros g [<-|H]; [reflexivity|]. apply stage2_outs in H. destruct H as [(k & ->)|[->| ->]]; reflexivity.
  - split; [reflexivity|]. intros g H. apply stage2_outs in H. destruct H as [(k & ->)|[->| ->]]; reflexivity. Qed.

(* the tag of each unit of the pipeline, positionally *)
Definition pipeline_tags (cf:cfg) : list tag := TRG :: map TS1 (chrs cf) ++ TRes :: map TS2 (chrs cf).

Lemma pipeline_tagged cf : Forall2 (fun t u => tagged t u /\ outs_no_lock u) (pipeline_tags cf) (pipeline_units cf).
Proof. unfold pipeline_tags, pipeline_units. constructor; [apply rg_tagged|].
  apply Forall2_app.
  - induction (chrs cf) as [|c l IH]; cbn; constructor; [apply stage1_tagged|exact IH].
  - constructor; [apply resolve_tagged|]. induction (chrs cf) as [|c l IH]; cbn; constructor; [apply stage2_tagged|exact IH]. Qed.

Lemma NoDup_app_intro {A} (l l':list A) : NoDup l -> NoDup l' -> (forall x, In x l -> ~ In x l') -> NoDup (l ++ l').
Proof. induction 1 as [|a t Hn _ IH]; intros N' D; [exact N'|]. cbn. constructor.
  - intros H. apply in_app_or in H. destruct H as [H|H]; [contradiction|exact (D a (or_introl eq_refl) H)].
  - apply IH; [exact N'|]. intros x Hx. apply D. right; exact Hx. Qed.
Lemma NoDup_map_inj {A B} (f:A -> B) l : (forall x y, f x = f y -> x = y) -> NoDup l -> NoDup (map f l).
Proof. intros inj. induction 1 as [|a t Hn _ IH]; cbn; constructor; [|exact IH].
  intros H. apply in_map_iff in H. destruct H as (x & E & I). apply inj in E. subst; contradiction. Qed.

Lemma pipeline_tags_nodup cf : NoDup (chrs cf) -> NoDup (pipeline_tags cf).
Proof. intros ND. unfold pipeline_tags.
  assert (N1: NoDup (map TS1 (chrs cf))) by (apply NoDup_map_inj; [intros x y E; inversion E; reflexivity|exact ND]).
  assert (N2: NoDup (map TS2 (chrs cf))) by (apply NoDup_map_inj; [intros x y E; inversion E; reflexivity|exact ND]).
  constructor.
  - intros H. apply in_app_or in H. destruct H as [H|[H|H]]; try discriminate; apply in_map_iff in H; destruct H as (x & E & _); discriminate.
  - apply NoDup_app_intro; [exact N1| |].
    + constructor; [|exact N2]. intros H. apply in_map_iff in H. destruct H as (x & E & _). discriminate.
    + intros t H1 [H2|H2]; apply in_map_iff in H1; destruct H1 as (x & E & _); subst t; [discriminate|].
      apply in_map_iff in H2. destruct H2 as (y & E & _). discriminate. Qed.

(* generic: positionally tagged units with pairwise distinct tags are pairwise distinct and have disjoint file sets *)
Lemma tagged_wf : forall ts (us:list unit_), Forall2 (fun t u => tagged t u /\ outs_no_lock u) ts us -> NoDup ts ->
  NoDup us /\ disjoint_units fname content us /\ Forall (lock_apart fname content) us /\
  (forall u, In u us -> exists t, In t ts /\ tagged t u).
Proof. induction 1 as [|t u ts us [Ht Hl] _ IH]; intros ND.
  - repeat split; [constructor|intros u v g []|constructor|intros u []].
  - inversion ND as [|? ? Hnt NDt]; subst. destruct (IH NDt) as (I1 & I2 & I3 & I4).
    assert (Hfresh: forall v, In v us -> forall g, In g (files fname content u) -> In g (files fname content v) -> False).
    { intros v Hv g Gu Gv. destruct (I4 v Hv) as (t' & Ht' & Tv). pose proof (Ht g Gu) as E1. pose proof (Tv g Gv) as E2.
      rewrite E1 in E2. inversion E2; subst. contradiction. }
    repeat split.
    + constructor; [|exact I1]. intros Hu. apply (Hfresh u Hu (lock u)); left; reflexivity.
    + intros a b g [<-|Ha] [<-|Hb] Hab Ga Gb.
      * apply Hab; reflexivity.
      * exact (Hfresh b Hb g Ga Gb).
      * exact (Hfresh a Ha g Gb Ga).
      * exact (I2 a b g Ha Hb Hab Ga Gb).
    + constructor; [|exact I3]. intros H. destruct Hl as [L1 L2]. rewrite (L2 _ H) in L1. discriminate.
    + intros v [<-|Hv]; [exists t; split; [left; reflexivity|exact Ht]|].
      destruct (I4 v Hv) as (t' & Ht' & Tv). exists t'; split; [right; exact Ht'|exact Tv]. Qed.

Theorem pipeline_units_wf : forall cf, NoDup (chrs cf) ->
  NoDup (pipeline_units cf) /\ disjoint_units fname content (pipeline_units cf) /\ Forall (lock_apart fname content) (pipeline_units cf).
Proof. intros cf ND. destruct (tagged_wf _ _ (pipeline_tagged cf) (pipeline_tags_nodup cf ND)) as (A & B & D & _). repeat split; assumption. Qed.

(* unit-level semantics instantiated: a lock file is empty *)
Definition ust := Resume.st fname content.
Definition u_run_all : ust -> list unit_ -> ust := run_all fname fname_eqb content [].
Definition u_resume_all : ust -> list unit_ -> ust := resume_all fname fname_eqb content [].
Definition u_resume_unit : ust -> unit_ -> ust := resume_unit fname fname_eqb content [].
Definition u_run_unit : ust -> unit_ -> ust := run_unit fname fname_eqb content [].
Definition u_eq : ust -> ust -> Prop := eqst fname content.

(* every crash up to the end of stage 2: whichever unit was being executed (pre ++ u :: post is any split of the pipeline's
   units) and whatever the crash did to the outputs of that unit, the resumed run reaches the uninterrupted state *)
Theorem resume_ok_before_merge : forall cf pre u post (s0 c:ust),
  NoDup (chrs cf) -> pipeline_units cf = pre ++ u :: post ->
  (forall v, In v (pipeline_units cf) -> s0 (lock v) = None) ->
  crashed_inside fname content (u_run_all s0 pre) u c ->
  u_eq (u_resume_all c (pipeline_units cf)) (u_run_all s0 (pipeline_units cf)).
Proof. intros cf pre u post s0 c ND E HL HC. destruct (pipeline_units_wf cf ND) as (A & B & D).
  rewrite E in *. apply (lock_protocol_sound_any fname fname_eqb fname_eqb_spec content []); try assumption.
  rewrite Forall_forall in D. apply D. apply in_or_app. right; left; reflexivity. Qed.

(* The guards of the source are hierarchical: save_lock skips the whole collection (stage-1 units and the resolve unit).
   On every state in which "save_lock present" implies "every _collected lock present" - in particular on every state the
   protocol can reach, because save_lock is created after them - this is the flat skip-iff-lock-exists interpretation. *)
Definition resume_pipeline (cf:cfg) (s:ust) : ust :=
  let s1 := u_resume_unit s (rg_unit cf) in
  let s2 := match s1 SaveLock with
            | Some _ => s1
            | None => u_resume_unit (u_resume_all s1 (map stage1_unit (chrs cf))) (resolve_unit cf)
            end in
  u_resume_all s2 (map (stage2_unit cf) (chrs cf)).

Lemma resume_pipeline_eq : forall cf (s:ust),
  (s SaveLock <> None -> forall c, In c (chrs cf) -> s (Collected c) <> None) ->
  resume_pipeline cf s = u_resume_all s (pipeline_units cf).
Proof. intros cf s H. unfold resume_pipeline, pipeline_units, u_resume_all, resume_all. cbn [fold_left].
  rewrite fold_left_app. cbn [fold_left].
  fold (u_resume_unit s (rg_unit cf)). set (s1 := u_resume_unit s (rg_unit cf)).
  assert (K: forall g, owner g <> Some TRG -> s1 g = s g).
  { intros g Hg. unfold s1, u_resume_unit, resume_unit. destruct (s (lock (rg_unit cf))); [reflexivity|].
    rewrite run_unit_char by exact fname_eqb_spec. rewrite intended_none; [reflexivity|exact fname_eqb_spec|].
    intros I. apply Hg. exact (proj1 (rg_tagged cf) g I). }
  fold (resume_all fname fname_eqb content [] s1 (map stage1_unit (chrs cf))).
  destruct (s1 SaveLock) as [x|] eqn:E; [|reflexivity].
  assert (S1: resume_all fname fname_eqb content [] s1 (map stage1_unit (chrs cf)) = s1).
  { apply resume_skips_done. intros u Hu. apply in_map_iff in Hu. destruct Hu as (c & <- & Hc). cbn [stage1_unit lock].
    rewrite K by discriminate. rewrite K in E by discriminate.
    destruct (s (Collected c)) eqn:E2; [eexists; reflexivity|]. exfalso. apply (H ltac:(rewrite E; discriminate) c Hc). exact E2. }
  rewrite S1. replace (resume_unit fname fname_eqb content [] s1 (resolve_unit cf)) with s1; [reflexivity|].
  unfold resume_unit. cbn [resolve_unit lock]. rewrite E. reflexivity. Qed.

(* ================================================================== (2) OPERATION LEVEL *)
Inductive op :=
| ExtMut (n:N)                                              (* a mutation outside the sample directory: no effect on the model state *)
| OpenW (f:fname) | OpenA (f:fname)                         (* open(f,'w') / open(f,'a'): the handle stays open *)
| Touch (f:fname)                                           (* open(f,'w').close() *)
| Remove (f:fname)                                          (* os.remove: raises when f is absent *)
| RemoveIfExists (f:fname)                                  (* if os.path.exists(f): os.remove(f) *)
| Put (f:fname)                                             (* write the data of f into the most recent handle on f (buffered) *)
| Close (f:fname)                                           (* close the most recent handle on f: its buffer reaches the file *)
| CopyIfExists (dst src:fname)                              (* merge_files: shutil.copyfileobj(src, handle of dst) unless src is absent *)
| Require (f:fname).                                        (* open f for reading and parse it: raises when absent or cut short *)
Inductive stmt := Do (o:op) | IfAll (g:list fname) (th el:list stmt) | Fresh (l:list stmt).
   (* IfAll g th el: `if args.resume and all files of g exist: th else: el`;  Fresh l: `if not args.resume: l` *)

Record fstate := mkf { fcontent : content; torn : bool }.
Definition fsys := list (fname * fstate).
Fixpoint get (s:fsys) (f:fname) : option fstate :=
  match s with [] => None | (g,v)::t => if fname_eqb f g then Some v else get t f end.
Fixpoint upd (s:fsys) (f:fname) (v:fstate) : fsys :=
  match s with [] => [(f,v)] | (g,w)::t => if fname_eqb f g then (g,v)::t else (g,w)::upd t f v end.
Fixpoint del (s:fsys) (f:fname) : fsys :=
  match s with [] => [] | (g,w)::t => if fname_eqb f g then del t f else (g,w)::del t f end.

Inductive status := Running | Stopped | Failed.
Record xs := mkxs {
  fs : fsys; hs : list (fname * content); taint : bool; stat : status;
  budget : option nat; stop_after : bool; resuming : bool;
  tlog : list (N * fname * list fname) }.     (* reversed: (kind, file, files open before the operation); kind 0 'w', 1 'a', 2 remove, 3 external *)

Definition set_fs x v := mkxs v (hs x) (taint x) (stat x) (budget x) (stop_after x) (resuming x) (tlog x).
Definition set_hs x v := mkxs (fs x) v (taint x) (stat x) (budget x) (stop_after x) (resuming x) (tlog x).
Definition set_stat x v := mkxs (fs x) (hs x) (taint x) v (budget x) (stop_after x) (resuming x) (tlog x).
Definition set_taint x := mkxs (fs x) (hs x) true (stat x) (budget x) (stop_after x) (resuming x) (tlog x).
Definition ticked x (b:option nat) kind f := mkxs (fs x) (hs x) (taint x) (stat x) b (stop_after x) (resuming x) ((kind, f, map fst (hs x)) :: tlog x).

(* a counted mutation: stops the run before it (budget exhausted) or right after it (stop_after) *)
Definition tick (kind:N) (f:fname) (x:xs) (k:xs -> xs) : xs :=
  match budget x with
  | None => k (ticked x None kind f)
  | Some O => set_stat x Stopped
  | Some (S n) => let x' := k (ticked x (Some n) kind f) in
                  match n, stop_after x, stat x' with O, true, Running => set_stat x' Stopped | _, _, _ => x' end
  end.

Fixpoint buf_add (h:list (fname * content)) (f:fname) (d:content) : list (fname * content) :=
  match h with [] => [] | (g,b)::t => if fname_eqb f g then (g, b ++ d)::t else (g,b)::buf_add t f d end.
Fixpoint buf_take (h:list (fname * content)) (f:fname) : option content * list (fname * content) :=
  match h with [] => (None, []) | (g,b)::t => if fname_eqb f g then (Some b, t) else let (r, t') := buf_take t f in (r, (g,b)::t') end.

Definition step (o:op) (x:xs) : xs :=
  match stat x with
  | Running =>
    match o with
    | ExtMut n => tick 3 (Ext n) x (fun x => x)
    | OpenW f => tick 0 f x (fun x => set_hs (set_fs x (upd (fs x) f (mkf [] false))) ((f, []) :: hs x))
    | OpenA f => tick 1 f x (fun x => set_hs (match get (fs x) f with Some _ => x | None => set_fs x (upd (fs x) f (mkf [] false)) end) ((f, []) :: hs x))
    | Touch f => tick 0 f x (fun x => set_fs x (upd (fs x) f (mkf [] false)))
    | Remove f => tick 2 f x (fun x => match get (fs x) f with Some _ => set_fs x (del (fs x) f) | None => set_stat x Failed end)
    | RemoveIfExists f => match get (fs x) f with Some _ => tick 2 f x (fun x => set_fs x (del (fs x) f)) | None => x end
    | Put f => set_hs x (buf_add (hs x) f [if taint x then Bad else T f])
    | Close f => let (b, h') := buf_take (hs x) f in
                 match b with
                 | None => x
                 | Some b => let old := match get (fs x) f with Some v => v | None => mkf [] false end in
                             set_hs (set_fs x (upd (fs x) f (mkf (fcontent old ++ b) (torn old)))) h'
                 end
    | CopyIfExists d s => match get (fs x) s with
                          | None => x
                          | Some v => set_hs x (buf_add (hs x) d (fcontent v ++ if torn v then [Garbage] else []))
                          end
    | Require f => match get (fs x) f with
                   | None => set_stat x Failed
                   | Some v => if torn v then set_stat x Failed else if toks_eqb (fcontent v) [T f] then x else set_taint x
                   end
    end
  | _ => x
  end.

Definition all_exist (s:fsys) (g:list fname) : bool := forallb (fun f => match get s f with Some _ => true | None => false end) g.

Fixpoint run_stmt (s:stmt) (x:xs) : xs :=
  match s with
  | Do o => step o x
  | IfAll g th el =>
      match stat x with
      | Running => (fix go (l:list stmt) (x:xs) : xs := match l with [] => x | a::t => go t (run_stmt a x) end)
                     (if resuming x && all_exist (fs x) g then th else el) x
      | _ => x
      end
  | Fresh l =>
      match stat x with
      | Running => if resuming x then x
                   else (fix go (l:list stmt) (x:xs) : xs := match l with [] => x | a::t => go t (run_stmt a x) end) l x
      | _ => x
      end
  end.
Definition run (p:list stmt) (x:xs) : xs := fold_left (fun x s => run_stmt s x) p x.

(* ------------------------------------------------------------------ the program *)
Definition ds (l:list op) : list stmt := map Do l.
Definition creation_ops (mk:N -> fname) (l:list cstep) : list op :=
  flat_map (fun s => match s with COpen k => [OpenW (mk k); Put (mk k)] | CTouch k => [Touch (mk k)] end) l.
Definition opened (mk:N -> fname) (l:list cstep) : list fname :=
  flat_map (fun s => match s with COpen k => [mk k] | CTouch _ => [] end) l.
Definition dump_ops (c:N) (d:dstep) : list op :=
  match d with
  | DCounterU cn st => [OpenA (Part cn c); Put (Part cn c); OpenW (Part st c); Put (Part st c); Close (Part st c); Close (Part cn c)]
  | DCounterG cn ln => [OpenA (Part cn c); OpenA (Part ln c); Put (Part cn c); Put (Part ln c); Close (Part cn c); Close (Part ln c)]
  | DReadStat => [OpenW (ReadStat c); Put (ReadStat c); Close (ReadStat c)]
  | DTrStat => [OpenW (TrStat c); Put (TrStat c); Close (TrStat c)]
  end.
Definition merge_kind (cf:cfg) (k:N) : list op :=
  map (fun c => CopyIfExists (Final k) (Part k c)) (merge_order cf) ++ map (fun c => Remove (Part k c)) (merge_order cf).
Definition merge_ops (cf:cfg) (m:mstep) : list op :=
  match m with
  | MPrinter k => merge_kind cf k
  | MCounterU cn st tp => [OpenA (Final cn)] ++ merge_kind cf cn ++ flat_map (fun c => [Require (Part st c); Remove (Part st c)]) (chrs cf) ++
                          [Put (Final cn); Close (Final cn); OpenW (Final tp); Put (Final tp); Close (Final tp)]
  | MCounterG cn ln tp => [OpenA (Final cn)] ++ merge_kind cf cn ++ [OpenA (Final ln)] ++ merge_kind cf ln ++
                          [Close (Final cn); Close (Final ln); OpenW (Final tp); Put (Final tp); Close (Final tp)]
  end.

(* collect_reads_in_parallel *)
Definition stage1 (cf:cfg) (c:N) : list stmt :=
  (if rg_file cf then [Do (Require (RGPart c))] else []) ++
  [IfAll [Collected c; Groups c; Save c]
     (ds [Require (Groups c); Require (Bamstat c); Require (Save c)])
     (ds ([OpenW (Save c); OpenW (Save c); Put (Save c); OpenW (Groups c); Put (Groups c); Close (Groups c);
           OpenW (Bamstat c); Put (Bamstat c); Close (Bamstat c)] ++
          (if fix_close cf then [Close (Save c); Close (Save c); Touch (Collected c)]
           else [Touch (Collected c); Close (Save c); Close (Save c)])))].
(* prepare_multimapper_dict + resolve_multimappers + the info file *)
Definition resolve_ops (cf:cfg) : list op :=
  map (fun c => Require (Save c)) (chrs cf) ++
  map (fun c => OpenW (Multi c)) (chrs cf) ++ map (fun c => Put (Multi c)) (chrs cf) ++ map (fun c => Close (Multi c)) (chrs cf) ++
  [OpenW Info; Put Info; Close Info; Touch SaveLock].
(* construct_models_in_parallel *)
Definition stage2 (cf:cfg) (c:N) : list stmt :=
  [Do (Require (Multi c));
   IfAll [Processed c]
     (ds (Require (ReadStat c) :: (if has_models cf then [Require (TrStat c)] else [])))
     (ds (creation_ops (fun k => Part k c) (creation cf) ++ [Require (Save c)] ++ flat_map (dump_ops c) (dumps cf) ++
          (let closes := map Close (opened (fun k => Part k c) (creation cf)) in
           if fix_close cf then closes ++ [Touch (Processed c)] else Touch (Processed c) :: closes)))].

Definition program (cf:cfg) : list stmt :=
  ds (map ExtMut (setup cf)) ++
  [IfAll [RGLock] []
     (ds ([RemoveIfExists RGLock] ++ map (fun r => OpenW (RGPart r)) (rg_parts cf) ++ map (fun r => Put (RGPart r)) (rg_parts cf) ++
          map (fun r => Close (RGPart r)) (rg_parts cf) ++ [Touch RGLock]))] ++
  (if reuse cf then []
   else [IfAll [SaveLock] []
           (Fresh (ds (RemoveIfExists SaveLock :: map (fun c => RemoveIfExists (Collected c)) (chrs cf) ++ map (fun c => RemoveIfExists (Processed c)) (chrs cf))) ::
            flat_map (stage1 cf) (chrs cf) ++ ds (resolve_ops cf))]) ++
  [Do (Require Info)] ++
  ds (creation_ops Final (creation cf)) ++
  flat_map (stage2 cf) (chrs cf) ++
  ds ((if fix_proc cf then map (fun c => RemoveIfExists (Processed c)) (chrs cf) else []) ++
      flat_map (merge_ops cf) (merges cf) ++
      map Close (opened Final (creation cf)) ++
      (if keep_tmp cf || reuse cf then [] else map RemoveIfExists (cleanup cf))).

(* ------------------------------------------------------------------ clean run, crash, resume, verdict *)
Definition init (res:bool) (s:fsys) (b:option nat) (sa:bool) : xs := mkxs s [] false Running b sa res [].
(* what a run starts from: nothing - or, with --read_assignments, the files an earlier --keep_tmp run of the same code left
   next to its save prefix (its read-group files live in its own sample directory and are not part of the saves) *)
Definition producer (cf:cfg) : cfg :=
  mkcfg (setup cf) (rg_parts cf) (rg_file cf) (chrs cf) (merge_order cf) (creation cf) (dumps cf) (merges cf) (has_models cf) true []
        (fix_close cf) (fix_proc cf) false.
Definition init_fs (cf:cfg) : fsys :=
  if reuse cf
  then filter (fun e => match owner (fst e) with Some TRG | None => false | Some _ => true end) (fs (run (program (producer cf)) (init false [] None false)))
  else [].
Definition clean_run (cf:cfg) : xs := run (program cf) (init false (init_fs cf) None false).
(* the mutation trace of the clean run, in order *)
Definition ticks (cf:cfg) : list (N * fname * list fname) := rev (tlog (clean_run cf)).
Definition n_mutations (cf:cfg) : nat := length (tlog (clean_run cf)).

(* kill -9 before (after = false) or right after (after = true) the k-th mutation (k >= 1): buffers are lost *)
Definition crash_run (cf:cfg) (k:nat) (after:bool) : xs :=
  run (program cf) (init false (init_fs cf) (Some (if after then k else pred k)) after).
Definition crash_fs (x:xs) : fsys :=
  fold_left (fun s h => match snd h, get s (fst h) with
                        | _ :: _, Some v => upd s (fst h) (mkf (fcontent v) true)
                        | _, _ => s end) (hs x) (fs x).
Definition resume_run (cf:cfg) (k:nat) (after:bool) : xs :=
  run (program cf) (init true (crash_fs (crash_run cf k after)) None false).

(* ---- a run that starts in a folder holding the leftovers `s0` of an EARLIER run (other options: every left-over content is
   stale, i.e. not what this run computes); `early` = the stage locks are dropped before .params is rewritten
   (fixes/C07_fresh_start_drops_stale_locks.diff), so that no kill point of interest sees them *)
Definition stale (s:fsys) : fsys := map (fun e => (fst e, mkf [Bad] false)) s.
Definition drop_locks (s:fsys) : fsys := filter (fun e => negb (is_lock (fst e))) s.
Definition leftovers (cf1:cfg) (k1:nat) (after1:bool) : fsys := stale (crash_fs (crash_run cf1 k1 after1)).
Definition start_fs (early:bool) (s0:fsys) : fsys := if early then drop_locks s0 else s0.
Definition run_over (early:bool) (s0:fsys) (cf:cfg) : xs := run (program cf) (init false (start_fs early s0) None false).
Definition crash_over (early:bool) (s0:fsys) (cf:cfg) (k:nat) (after:bool) : xs :=
  run (program cf) (init false (start_fs early s0) (Some (if after then k else pred k)) after).
Definition resume_over (early:bool) (s0:fsys) (cf:cfg) (k:nat) (after:bool) : xs :=
  run (program cf) (init true (crash_fs (crash_over early s0 cf k after)) None false).

Definition is_final (f:fname) : bool := match f with Final _ => true | _ => false end.
Definition fstate_eqb (a b:option fstate) : bool :=
  match a, b with
  | None, None => true
  | Some v, Some w => toks_eqb (fcontent v) (fcontent w) && Bool.eqb (torn v) (torn w)
  | _, _ => false
  end.
Definition same_on (p:fname -> bool) (a b:fsys) : bool :=
  forallb (fun e => if p (fst e) then fstate_eqb (get a (fst e)) (get b (fst e)) else true) (a ++ b).

Inductive outcome := Identical | Fails | Differs.
Definition verdict (clean:fsys) (r:xs) : outcome :=
  match stat r with Failed => Fails | _ => if same_on is_final (fs r) clean then Identical else Differs end.
Definition outcome_of (cf:cfg) (k:nat) (after:bool) : outcome := verdict (fs (clean_run cf)) (resume_run cf k after).
Definition outcome_eqb (a b:outcome) : bool :=
  match a, b with Identical, Identical | Fails, Fails | Differs, Differs => true | _, _ => false end.

(* ------------------------------------------------------------------ comparing with a logged trace *)
Fixpoint count_f (f:fname) (l:list fname) : nat := match l with [] => O | g::t => (if fname_eqb f g then 1 else 0)%nat + count_f f t end.
Definition bag_eqb (a b:list fname) : bool :=
  Nat.eqb (length a) (length b) && forallb (fun f => Nat.eqb (count_f f a) (count_f f b)) a.
Definition tick_eqb (a b:N * fname * list fname) : bool :=
  (fst (fst a) =? fst (fst b)) && fname_eqb (snd (fst a)) (snd (fst b)) && bag_eqb (snd a) (snd b).
Fixpoint ticks_eqb (a b:list (N * fname * list fname)) : bool :=
  match a, b with [], [] => true | x::s, y::t => tick_eqb x y && ticks_eqb s t | _, _ => false end.
(* first index (from 1) at which the traces differ; 0 = equal *)
Fixpoint first_diff (a b:list (N * fname * list fname)) (i:nat) : nat :=
  match a, b with
  | [], [] => O
  | x::s, y::t => if tick_eqb x y then first_diff s t (S i) else i
  | _, _ => i
  end.

(* the clean-up list must be exactly the auxiliary files that exist when the clean-up starts *)
Definition with_keep (cf:cfg) : cfg :=
  mkcfg (setup cf) (rg_parts cf) (rg_file cf) (chrs cf) (merge_order cf) (creation cf) (dumps cf) (merges cf) (has_models cf) true (cleanup cf)
        (fix_close cf) (fix_proc cf) (reuse cf).
Definition aux_left (cf:cfg) : list fname :=
  map fst (filter (fun e => match owner (fst e) with Some _ => true | None => false end) (fs (clean_run (with_keep cf)))).
Definition cleanup_ok (cf:cfg) : bool := keep_tmp cf || reuse cf || bag_eqb (cleanup cf) (aux_left cf).
(* locks first: no data file is removed while a lock is still to be removed *)
Fixpoint locks_first (l:list fname) : bool :=
  match l with [] => true | f::t => (is_lock f || negb (existsb is_lock t)) && locks_first t end.

(* ------------------------------------------------------------------ merge_files is not a unit *)
(* A unit can be re-run from any state its own interruption leaves (rerun_after_crash).  merge_files cannot: run again on
   the state it produced itself it raises in os.remove - for every chromosome list, every output kind and every state. *)
Definition exec (l:list op) (x:xs) : xs := fold_left (fun x o => step o x) l x.
Lemma run_ds l : forall x, run (ds l) x = exec l x.
Proof. unfold run, ds, exec. induction l as [|o t IH]; intros x; cbn; [reflexivity|apply IH]. Qed.
Lemma exec_app a b x : exec (a ++ b) x = exec b (exec a x).
Proof. unfold exec. apply fold_left_app. Qed.
Lemma step_stuck o x : stat x <> Running -> step o x = x.
Proof. unfold step. destruct (stat x); congruence. Qed.
Lemma exec_stuck l : forall x, stat x <> Running -> exec l x = x.
Proof. induction l as [|o t IH]; intros x H; cbn; [reflexivity|]. rewrite step_stuck by exact H. apply IH, H. Qed.

Lemma get_del_same s f : get (del s f) f = None.
Proof. induction s as [|[g v] t IH]; cbn; [reflexivity|]. destruct (fname_eqb f g) eqn:E; [exact IH|]. cbn. rewrite E. exact IH. Qed.
Lemma get_del_none s f g : get s g = None -> get (del s f) g = None.
Proof. induction s as [|[h v] t IH]; cbn; [reflexivity|]. destruct (fname_eqb g h) eqn:E; [discriminate|]. intros H.
  destruct (fname_eqb f h); [exact (IH H)|]. cbn. rewrite E. exact (IH H). Qed.

Lemma exec_cons o l x : exec (o :: l) x = exec l (step o x).
Proof. reflexivity. Qed.

Lemma copies_preserve k l : forall x,
  fs (exec (map (fun c => CopyIfExists (Final k) (Part k c)) l) x) = fs x /\
  stat (exec (map (fun c => CopyIfExists (Final k) (Part k c)) l) x) = stat x /\
  budget (exec (map (fun c => CopyIfExists (Final k) (Part k c)) l) x) = budget x.
Proof. induction l as [|c t IH]; intros x; [repeat split|]. cbn [map]. rewrite exec_cons.
  set (x1 := step (CopyIfExists (Final k) (Part k c)) x).
  assert (A: fs x1 = fs x /\ stat x1 = stat x /\ budget x1 = budget x).
  { unfold x1, step. destruct (stat x) eqn:S; [|repeat split; exact S..].
    destruct (get (fs x) (Part k c)); cbn; repeat split; exact S. }
  destruct A as (A1 & A2 & A3). destruct (IH x1) as (B1 & B2 & B3). rewrite B1, B2, B3, A1, A2, A3. repeat split. Qed.

Lemma removes_result k l : forall x, stat x = Running -> budget x = None ->
  budget (exec (map (fun c => Remove (Part k c)) l) x) = None /\
  (stat (exec (map (fun c => Remove (Part k c)) l) x) = Failed \/
   (stat (exec (map (fun c => Remove (Part k c)) l) x) = Running /\
    (forall c, In c l -> get (fs (exec (map (fun c => Remove (Part k c)) l) x)) (Part k c) = None) /\
    (forall g, get (fs x) g = None -> get (fs (exec (map (fun c => Remove (Part k c)) l) x)) g = None))).
Proof. induction l as [|c t IH]; intros x S B.
  - split; [exact B|]. right. repeat split; [exact S|intros c []|auto].
  - cbn [map]. rewrite exec_cons. set (x1 := step (Remove (Part k c)) x).
    destruct (get (fs x) (Part k c)) eqn:G.
    + assert (E: x1 = set_fs (ticked x None 2 (Part k c)) (del (fs x) (Part k c))).
      { unfold x1, step. rewrite S. unfold tick. rewrite B. cbn [ticked fs]. rewrite G. reflexivity. }
      assert (S1: stat x1 = Running) by (rewrite E; exact S). assert (B1: budget x1 = None) by (rewrite E; reflexivity).
      assert (F1: fs x1 = del (fs x) (Part k c)) by (rewrite E; reflexivity).
      destruct (IH x1 S1 B1) as (Hb & Hs). split; [exact Hb|]. destruct Hs as [Hf|(Hr & Ha & Hm)]; [left; exact Hf|right].
      repeat split; [exact Hr| |].
      * intros c' [<-|I]; [apply Hm; rewrite F1; apply get_del_same|apply Ha, I].
      * intros g Hg. apply Hm. rewrite F1. apply get_del_none, Hg.
    + assert (E: x1 = set_stat (ticked x None 2 (Part k c)) Failed).
      { unfold x1, step. rewrite S. unfold tick. rewrite B. cbn [ticked fs]. rewrite G. reflexivity. }
      assert (S1: stat x1 = Failed) by (rewrite E; reflexivity).
      rewrite exec_stuck by (rewrite S1; discriminate). split; [rewrite E; reflexivity|left; exact S1]. Qed.

Theorem merge_not_a_unit : forall cf k x, merge_order cf <> [] -> stat x = Running -> budget x = None ->
  stat (run (ds (merge_kind cf k ++ merge_kind cf k)) x) = Failed.
Proof. intros cf k x NE S B. rewrite run_ds. unfold merge_kind. rewrite !exec_app.
  set (cp := map (fun c => CopyIfExists (Final k) (Part k c)) (merge_order cf)).
  set (rm := map (fun c => Remove (Part k c)) (merge_order cf)).
  destruct (copies_preserve k (merge_order cf) x) as (A1 & A2 & A3). fold cp in A1, A2, A3. set (y1 := exec cp x) in *.
  assert (S1: stat y1 = Running) by (rewrite A2; exact S). assert (B1: budget y1 = None) by (rewrite A3; exact B).
  destruct (removes_result k (merge_order cf) y1 S1 B1) as (Hb & Hs). fold rm in Hb, Hs. set (y2 := exec rm y1) in *.
  destruct Hs as [Hf|(Hr & Ha & _)].
  - assert (N2: stat y2 <> Running) by (rewrite Hf; discriminate). rewrite (exec_stuck cp y2 N2). rewrite (exec_stuck rm y2 N2). exact Hf.
  - destruct (copies_preserve k (merge_order cf) y2) as (C1 & C2 & C3). fold cp in C1, C2, C3. set (y3 := exec cp y2) in *.
    unfold rm. destruct (merge_order cf) as [|c0 t] eqn:MO; [contradiction|]. cbn [map]. rewrite exec_cons.
    assert (E: step (Remove (Part k c0)) y3 = set_stat (ticked y3 None 2 (Part k c0)) Failed).
    { unfold step. rewrite C2, Hr. unfold tick. rewrite C3, Hb. cbn [ticked fs]. rewrite C1, (Ha c0 (or_introl eq_refl)). reflexivity. }
    rewrite E. rewrite exec_stuck by (cbn; discriminate). reflexivity. Qed.
