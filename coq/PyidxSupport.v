(* Intervals.pyidx (Python indexing with wrap-around, None = IndexError) in terms of py_index / py_index_ok of gen/Loops.v (fixed support text
   of tools/translate_loops.py). *)
From Coq Require Import ZArith NArith List Bool Lia ZifyBool.
From IQ.gen Require Import Prims Loops.
From IQ Require Import CorrSupport Intervals.
Import ListNotations. Open Scope Z_scope.

Lemma pyidx_spec {A} (l:list A) i d : pyidx l i = if py_index_ok l i then Some (py_index l i d) else None.
Proof. unfold pyidx, py_index_ok, py_index. set (n := Z.of_nat (length l)).
  destruct (Z.ltb_spec i 0) as [Hn|Hn].
  - replace (0 <=? i) with false by lia. cbn [andb]. destruct (Z.leb_spec (- n) i) as [H|H]; cbn [andb].
    + replace (i <? n) with true by lia. apply nth_error_nth'. lia.
    + reflexivity.
  - replace (0 <=? i) with true by lia. cbn [andb]. destruct (Z.ltb_spec i n) as [H|H].
    + replace (- n <=? i) with true by lia. cbn [andb]. apply nth_error_nth'. lia.
    + rewrite andb_false_r. reflexivity. Qed.

