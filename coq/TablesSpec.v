From IQ.gen Require Import Tables. From Coq Require Import NArith List Bool QArith. Import ListNotations.
(* values fit into two bytes and are pairwise distinct: re-proved on every regeneration *)
Lemma MES_values_fit : forallb (fun x => N.ltb (MES_value x) 65536) MES_all = true. Proof. vm_compute. reflexivity. Qed.
Lemma MES_values_distinct : NoDup (map MES_value MES_all).
Proof. apply (NoDup_count_occ' N.eq_dec). intros x H. vm_compute in H. repeat (destruct H as [H|H]; [subst; vm_compute; reflexivity|]). destruct H. Qed.
Definition mem (x:MES) l := existsb (MES_eqb x) l.
Lemma major_never_consistent : forallb (fun x => negb (mem x MES_all_major_events && mem x MES_is_consistent)) MES_all = true. Proof. vm_compute. reflexivity. Qed.
Lemma costs_in_unit_interval : forallb (fun x => match MES_cost x with Some q => Qle_bool 0 q && Qle_bool q 1 | None => true end) MES_all = true. Proof. vm_compute. reflexivity. Qed.
Eval vm_compute in MES_without_cost.
