(* C19: decidable set-theoretic specifications (evaluated on the implementation's outputs by the correspondence,
   and the statements of the theorems in IntervalsProofs.v). *)
From Coq Require Import ZArith NArith List Bool Lia ZifyBool.
From IQ.gen Require Import Prims.
From IQ Require Import CorrSupport Intervals.
Import ListNotations. Open Scope Z_scope.

Definition inb (a:iv) (p:Z) : bool := (fst a <=? p) && (p <=? snd a).
Definition cover (l:list iv) (p:Z) : bool := existsb (fun a => inb a p) l.
Fixpoint count_in (lo:Z) (n:nat) (P:Z -> bool) : Z :=
  match n with O => 0 | Datatypes.S k => (if P lo then 1 else 0) + count_in (lo + 1) k P end.
Fixpoint forall_in (lo:Z) (n:nat) (P:Z -> bool) : bool :=
  match n with O => true | Datatypes.S k => P lo && forall_in (lo + 1) k P end.

Definition lo_of (l:list iv) (d:Z) : Z := fold_left (fun m a => Z.min m (Z.min (fst a) (snd a))) l d.
Definition hi_of (l:list iv) (d:Z) : Z := fold_left (fun m a => Z.max m (Z.max (fst a) (snd a))) l d.
(* a window that contains every coordinate of the given lists, with a margin *)
Definition win_lo (ls:list (list iv)) (extra:list Z) : Z := fold_left Z.min extra (fold_left (fun m l => lo_of l m) ls 0) - 2.
Definition win_n (ls:list (list iv)) (extra:list Z) : nat :=
  Z.to_nat (fold_left Z.max extra (fold_left (fun m l => hi_of l m) ls 0) + 2 - win_lo ls extra + 1).

(* strictly increasing, disjoint, well-formed *)
Fixpoint sdb (l:list iv) : bool :=
  match l with [] => true | a :: t => (fst a <=? snd a) && match t with [] => true | b :: _ => snd a <? fst b end && sdb t end.
Fixpoint sd (l:list iv) : Prop :=
  match l with [] => True | a::t => fst a <= snd a /\ match t with [] => True | b::_ => snd a < fst b end /\ sd t end.
(* blocks separated by at least one base *)
Fixpoint gapped (l:list iv) : bool :=
  match l with [] => true | a :: t => (fst a <=? snd a) && match t with [] => true | b :: _ => snd a + 1 <? fst b end && gapped t end.

Definition spec_total (l:list iv) (v:Z) : bool := v =? count_in (win_lo [l] []) (win_n [l] []) (cover l).
Definition spec_sum_to (l:list iv) (pos v:Z) : bool :=
  v =? count_in (win_lo [l] [pos]) (win_n [l] [pos]) (fun p => cover l p && (p <? pos)).
Definition spec_sum_from (l:list iv) (pos v:Z) : bool :=
  v =? count_in (win_lo [l] [pos]) (win_n [l] [pos]) (fun p => cover l p && (pos <? p)).
Definition spec_inter_union (A B:list iv) (iu:Z*Z) : bool :=
  (fst iu =? count_in (win_lo [A;B] []) (win_n [A;B] []) (fun p => cover A p && cover B p)) &&
  (snd iu =? count_in (win_lo [A;B] []) (win_n [A;B] []) (fun p => cover A p || cover B p)).
Definition spec_merge (A B l:list iv) : bool :=
  sdb l && forall_in (win_lo [A;B;l] []) (win_n [A;B;l] []) (fun p => Bool.eqb (cover l p) (cover A p || cover B p)).
Definition spec_bin_search (l:list iv) (pos idx:Z) : bool :=
  let n := Z.of_nat (length l) in
  match l with [] => false | a :: _ =>
    if (pos <? fst a) || (pos >? snd (last l a)) then idx =? -1
    else (0 <=? idx) && (idx <? n) && (fst (nthz l idx (0,0)) <=? pos) && ((idx =? n - 1) || (pos <? fst (nthz l (idx + 1) (0,0)))) end.
Definition spec_bin_search_rev (l:list iv) (pos idx:Z) : bool :=
  let n := Z.of_nat (length l) in
  match l with [] => false | a :: _ =>
    if (pos <? fst a) || (pos >? snd (last l a)) then idx =? -1
    else (0 <=? idx) && (idx <? n) && (pos <=? snd (nthz l idx (0,0))) && ((idx =? 0) || (snd (nthz l (idx - 1) (0,0)) <? pos)) end.
(* junctions of blocks = the uncovered positions strictly between the first and the last block *)
Definition spec_jfb (blocks J:list iv) : bool :=
  sdb J && match blocks with [] => (length J =? 0)%nat | a :: _ =>
    forall_in (win_lo [blocks;J] []) (win_n [blocks;J] [])
      (fun p => Bool.eqb (cover J p) (negb (cover blocks p) && (snd a <? p) && (p <? fst (last blocks a)))) end.
(* exons of (region, introns) = region minus introns *)
Definition spec_get_exons (r:iv) (J E:list iv) : bool :=
  sdb E && forall_in (win_lo [J;E;[r]] []) (win_n [J;E;[r]] []) (fun p => Bool.eqb (cover E p) (inb r p && negb (cover J p))).

(* split_exons: the blocks are disjoint, cover exactly the union, and every block is inside or disjoint from every exon *)
Definition spec_split (exons blocks:list iv) : bool :=
  sdb blocks && forall_in (win_lo [exons;blocks] []) (win_n [exons;blocks] []) (fun p => Bool.eqb (cover blocks p) (cover exons p)) &&
  forallb (fun b => forallb (fun e => py_contains e b || negb (py_overlaps e b)) exons) blocks.
(* the only deviation: an inverted empty block (p+1,p) where one exon ends at p, another starts at p+1 and a third covers both *)
Definition empty_block_shape (exons:list iv) (b:iv) : bool :=
  (fst b =? snd b + 1) && existsb (fun e => snd e =? snd b) exons && existsb (fun e => fst e =? fst b) exons &&
  existsb (fun e => (fst e <=? snd b) && (fst b <=? snd e)) exons.
Definition spec_split_modulo_empty (exons blocks:list iv) : bool :=
  let real := filter (fun b => fst b <=? snd b) blocks in
  spec_split exons real && forallb (fun b => (fst b <=? snd b) || empty_block_shape exons b) blocks.

(* isoform profile: 1 iff the isoform has the feature (cmp), -2 iff the feature does not overlap the isoform span, else -1 *)
Definition spec_isoform_profile (cmp:iv -> iv -> bool) (K F:list iv) (region:iv) (prof:list Z) : bool :=
  (length prof =? length K)%nat &&
  forallb (fun kp => let '(k, v) := kp in
     if existsb (fun f => cmp f k) F then v =? 1 else if py_overlaps k region then v =? -1 else v =? -2) (combine K prof).

(* read profiles, overlapping constructor.  eqd = comparator (equal within delta). *)
Section ReadSpec.
Variable cmp : iv -> iv -> bool.
Variable absent : iv -> iv -> bool.
Variable delta : Z.
Definition closest (K:list iv) (r k:iv) : bool := forallb (fun k' => negb (cmp r k') || (match_delta r k <=? match_delta r k')) K.
(* feature k is "matched": some read feature equals it within delta and k is a closest candidate of that read feature *)
Definition matched (K R:list iv) (k:iv) : bool := existsb (fun r => cmp r k && closest K r k) R.
(* hypotheses of the clean statement *)
Definition H1 (K:list iv) : bool := forallb (fun k => delta <? snd k - fst k + 1) K.                      (* features longer than delta *)
Fixpoint H2 (R:list iv) : bool := match R with a :: ((b :: _) as t) => (snd a + delta <? fst b) && H2 t | _ => true end.  (* read features more than delta apart *)
Definition spec_gene_present (K R:list iv) (gp:list Z) (polya polyt:Z) : bool :=
  forallb (fun kg => let '(k, g) := kg in
     if negb (polyt =? -1) && (snd k <? polyt - delta) then g =? -2
     else if negb (polya =? -1) && (fst k >? polya + delta) then g =? -2
     else Bool.eqb (g =? 1) (matched K R k)) (combine K gp).
(* soundness half, which holds without H1/H2: a 1 always has a matching read feature; read side: 1 iff it matches something *)
Definition spec_sound (K R:list iv) (gp rp:list Z) : bool :=
  forallb (fun kg => let '(k, g) := kg in negb (g =? 1) || existsb (fun r => cmp r k) R) (combine K gp) &&
  forallb (fun rv => let '(r, v) := rv in Bool.eqb (v =? 1) (existsb (fun k => cmp r k) K)) (combine R rp).
End ReadSpec.
