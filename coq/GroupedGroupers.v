(* Models of the read groupers of src/read_groups.py as total functions alignment -> group name (strings = lists of code points):
   AlignmentTagReadGrouper, ReadIdSplitReadGrouper (current and after fixes/C09_read_id_default_group.diff), ReadTableGrouper behind
   split_read_group_table (the table is parsed, re-written per chromosome as "id<TAB>group" and parsed again), FileNameGrouper. *)
From Coq Require Import ZArith List Bool Lia.
Import ListNotations.
Open Scope Z_scope.

Notation str := (list Z).
Definition NA : str := [78; 65].
Fixpoint str_eqb (a b:str) : bool := match a, b with [], [] => true | x :: s, y :: t => (x =? y) && str_eqb s t | _, _ => false end.
Lemma str_eqb_eq a b : str_eqb a b = true <-> a = b.
Proof. revert b. induction a as [|x s IH]; destruct b as [|y t]; cbn [str_eqb]; split; intros H; try reflexivity; try discriminate.
  - apply andb_true_iff in H. destruct H as [H1 H2]. apply Z.eqb_eq in H1. apply IH in H2. congruence.
  - inversion H; subst. rewrite Z.eqb_refl. cbn. apply IH. reflexivity. Qed.

(* ---------------------------------------------------------------- tag *)
(* get_tag raises KeyError when the tag is absent *)
Definition tag_group (tag_value:option str) : str := match tag_value with Some v => v | None => NA end.

(* ---------------------------------------------------------------- Python's str.split(delim) for a non-empty delimiter *)
Fixpoint is_prefix (d s:str) : bool :=
  match d, s with [], _ => true | x :: d', y :: s' => (x =? y) && is_prefix d' s' | _ :: _, [] => false end.
(* left-to-right, non-overlapping; cur is the reversed current piece, acc the reversed list of finished pieces *)
Fixpoint split_go (fuel:nat) (d s cur:str) (acc:list str) : list str :=
  match fuel with
  | O => rev (rev cur :: acc)
  | Datatypes.S fuel' =>
    match s with
    | [] => rev (rev cur :: acc)
    | c :: t => if is_prefix d s then split_go fuel' d (skipn (length d) s) [] (rev cur :: acc)
                else split_go fuel' d t (c :: cur) acc
    end
  end.
Definition split (d s:str) : list str := split_go (Datatypes.S (length s)) d s [] [].

(* ---------------------------------------------------------------- read id *)
(* ReadIdSplitReadGrouper.get_group_id, current code: None when the delimiter is missing *)
Definition read_id_group_cur (d name:str) : option str :=
  match split d name with [_] => None | pieces => Some (last pieces []) end.
(* repaired: the default group *)
Definition read_id_group (d name:str) : str := match read_id_group_cur d name with Some g => g | None => NA end.

(* ---------------------------------------------------------------- table *)
(* str.strip() on ASCII: \t \n \v \f \r, FS GS RS US, space *)
Definition is_ws (c:Z) : bool := (c =? 32) || ((9 <=? c) && (c <=? 13)) || ((28 <=? c) && (c <=? 31)).
Fixpoint lstrip (s:str) : str := match s with c :: t => if is_ws c then lstrip t else s | [] => [] end.
Definition strip (s:str) : str := rev (lstrip (rev (lstrip s))).
(* load_table: one line -> optional (read id, group) *)
Definition parse_line (rc gc:nat) (delim line:str) : option (str * str) :=
  let l := strip line in
  match l with
  | [] => None
  | c :: _ => if c =? 35 then None
              else let cols := split delim l in
                   if Nat.leb (length cols) (Nat.max rc gc) then None else Some (nth rc cols [], nth gc cols [])
  end.
Definition load_table (rc gc:nat) (delim:str) (lines:list str) : list (str * str) :=
  flat_map (fun l => match parse_line rc gc delim l with Some p => [p] | None => [] end) lines.
(* dict semantics: the last line of a read id wins *)
Fixpoint lookup_last (tbl:list (str * str)) (name:str) : option str :=
  match tbl with [] => None | p :: t => match lookup_last t name with Some g => Some g | None => if str_eqb (fst p) name then Some (snd p) else None end end.
(* --read_group file:F:rc:gc:delim for a read of the chromosome at hand: split_read_group_table writes "name\tgroup\n" into the
   per-chromosome file, ReadTableGrouper(file, 0, 1, '\t') parses it again *)
Definition table_group (rc gc:nat) (delim:str) (lines:list str) (name:str) : str :=
  match lookup_last (load_table rc gc delim lines) name with
  | None => NA
  | Some g => match parse_line 0 1 [9] (name ++ [9] ++ g) with
              | Some (n', g') => if str_eqb n' name then g' else NA
              | None => NA
              end
  end.

(* ---------------------------------------------------------------- file name *)
(* os.path.basename and os.path.splitext()[0] *)
Fixpoint after_last_slash (s acc:str) : str := match s with [] => acc | c :: t => if c =? 47 then after_last_slash t t else after_last_slash t acc end.
Definition basename (p:str) : str := after_last_slash p p.
Fixpoint last_dot (s:str) (i:nat) (best:option nat) : option nat :=
  match s with [] => best | c :: t => last_dot t (Datatypes.S i) (if c =? 46 then Some i else best) end.
Definition splitext_root (b:str) : str :=
  match last_dot b 0 None with
  | None => b
  | Some i => if forallb (fun c => c =? 46) (firstn i b) then b else firstn i b
  end.
Definition readable_name (path:str) : str := splitext_root (basename path).
Fixpoint lookup_first (tbl:list (str * str)) (name:str) : option str :=
  match tbl with [] => None | p :: t => if str_eqb (fst p) name then Some (snd p) else lookup_first t name end.
(* FileNameGrouper.__init__ without readable_names_dict: every file of a library is labelled by the library's first file *)
Definition names_dict (libs:list (list str)) : list (str * str) :=
  rev (flat_map (fun lib => match lib with [] => [] | f0 :: _ => map (fun f => (f, readable_name f0)) lib end) libs).
Definition file_name_group (dict:list (str * str)) (filename:option str) : str :=
  match filename with
  | None => NA
  | Some f => match lookup_first dict f with Some l => l | None => match f with [] => NA | _ => f end end
  end.

(* ---------------------------------------------------------------- correspondence support *)
Definition ostr_eqb (a b:option str) : bool := match a, b with Some x, Some y => str_eqb x y | None, None => true | _, _ => false end.
Fixpoint occurs (d s:str) : bool := is_prefix d s || match s with [] => false | _ :: t => occurs d t end.

(* ====================================================================================================================
   Theorems: every grouper returns a group, the default group NA when the read carries none.
   ==================================================================================================================== *)
Lemma is_prefix_app : forall d s, is_prefix d s = true -> s = d ++ skipn (length d) s.
Proof. induction d as [|x d IH]; intros s H; [reflexivity|]. destruct s as [|y s]; [discriminate|]. cbn [is_prefix] in H.
  apply andb_true_iff in H. destruct H as [H1 H2]. apply Z.eqb_eq in H1. subst y. cbn [length skipn app]. f_equal. apply IH, H2. Qed.
Lemma is_prefix_refl_app : forall d b, is_prefix d (d ++ b) = true.
Proof. induction d as [|x d IH]; intros b; [reflexivity|]. cbn [app is_prefix]. rewrite Z.eqb_refl, IH. reflexivity. Qed.
Lemma occurs_spec d : forall s, occurs d s = true <-> exists a b, s = a ++ d ++ b.
Proof. induction s as [|c t IH]; cbn [occurs].
  - rewrite orb_false_r. split.
    + intros H. exists [], []. destruct d; [reflexivity|discriminate].
    + intros [a [b H]]. destruct a; [|discriminate]. destruct d; [reflexivity|discriminate].
  - split.
    + intros H. apply orb_true_iff in H. destruct H as [H|H].
      * exists [], (skipn (length d) (c :: t)). apply is_prefix_app, H.
      * apply IH in H. destruct H as [a [b H]]. exists (c :: a), b. rewrite H. reflexivity.
    + intros [a [b H]]. destruct a as [|x a].
      * cbn [app] in H. rewrite H, is_prefix_refl_app. reflexivity.
      * cbn [app] in H. inversion H; subst. apply orb_true_iff. right. apply IH. exists a, b. reflexivity. Qed.

Lemma last_rev_cons (x:str) acc : last (rev (x :: acc)) [] = x.
Proof. cbn [rev]. apply last_last. Qed.
Lemma split_go_len d : forall fuel s cur acc, (Datatypes.S (length acc) <= length (split_go fuel d s cur acc))%nat.
Proof. induction fuel as [|f IH]; intros s cur acc; cbn [split_go].
  - rewrite rev_length. cbn. lia.
  - destruct s as [|c t]; [rewrite rev_length; cbn; lia|].
    destruct (is_prefix d (c :: t)); [specialize (IH (skipn (length d) (c :: t)) [] (rev cur :: acc)); cbn [length] in IH; lia|apply IH]. Qed.
Lemma split_go_nooccur d : forall fuel s cur acc, (length s < fuel)%nat -> occurs d s = false ->
  split_go fuel d s cur acc = rev ((rev cur ++ s) :: acc).
Proof. induction fuel as [|f IH]; intros s cur acc L O; [lia|]. cbn [split_go]. destruct s as [|c t]; [rewrite app_nil_r; reflexivity|].
  cbn [occurs] in O. apply orb_false_iff in O. destruct O as [O1 O2]. rewrite O1. rewrite IH by (cbn [length] in L; try lia; exact O2).
  cbn [rev]. rewrite <- app_assoc. reflexivity. Qed.
Lemma skipn_length_lt (d s:str) : d <> [] -> s <> [] -> (length (skipn (length d) s) < length s)%nat.
Proof. intros Hd Hs. rewrite skipn_length. destruct d; [contradiction|]. destruct s; [contradiction|]. cbn [length]. lia. Qed.
Lemma split_go_occurs d : d <> [] -> forall fuel s cur acc, (length s < fuel)%nat -> occurs d s = true ->
  let r := split_go fuel d s cur acc in
  (Datatypes.S (Datatypes.S (length acc)) <= length r)%nat /\ exists pre, s = pre ++ d ++ last r [] /\ occurs d (last r []) = false.
Proof. intros Hd. induction fuel as [|f IH]; intros s cur acc L O; [lia|]. cbn [split_go].
  destruct s as [|c t]; [cbn [occurs] in O; destruct d; [contradiction|discriminate]|].
  destruct (is_prefix d (c :: t)) eqn:P.
  - set (rest := skipn (length d) (c :: t)).
    assert (LR: (length rest < f)%nat) by (pose proof (skipn_length_lt d (c :: t) Hd ltac:(discriminate)); unfold rest; cbn [length] in *; lia).
    assert (ES: c :: t = d ++ rest) by (apply is_prefix_app, P).
    destruct (occurs d rest) eqn:OR.
    + destruct (IH rest [] (rev cur :: acc) LR OR) as [A [pre [B C]]]. cbv zeta. split; [cbn [length] in A; lia|].
      exists (d ++ pre). split; [|exact C]. rewrite ES at 1. rewrite B at 1. rewrite <- !app_assoc. reflexivity.
    + cbv zeta. rewrite (split_go_nooccur d f rest [] (rev cur :: acc) LR OR). cbn [rev app]. split.
      * rewrite !app_length, rev_length. cbn [length]. lia.
      * rewrite last_last. exists []. split; [exact ES|exact OR].
  - cbn [occurs] in O. rewrite P in O. cbn [orb] in O. cbn [length] in L.
    destruct (IH t (c :: cur) acc ltac:(lia) O) as [A [pre [B C]]]. cbv zeta. split; [exact A|].
    exists (c :: pre). split; [|exact C]. cbn [app]. f_equal. exact B. Qed.

(* read id without the delimiter: the default group (after the repair) *)
Theorem read_id_group_default d name : occurs d name = false -> read_id_group d name = NA.
Proof. intros O. unfold read_id_group, read_id_group_cur, split. rewrite (split_go_nooccur d (Datatypes.S (length name)) name [] [] (Nat.lt_succ_diag_r _) O). reflexivity. Qed.
(* read id with the delimiter: the group is the suffix after the last (left-to-right, non-overlapping) delimiter and contains no delimiter *)
Theorem read_id_group_suffix d name : d <> [] -> occurs d name = true ->
  exists pre, name = pre ++ d ++ read_id_group d name /\ occurs d (read_id_group d name) = false.
Proof. intros Hd O. unfold read_id_group, read_id_group_cur, split.
  destruct (split_go_occurs d Hd (Datatypes.S (length name)) name [] [] (Nat.lt_succ_diag_r _) O) as [A B]. cbv zeta in A, B.
  destruct (split_go (Datatypes.S (length name)) d name [] []) as [|p1 [|p2 ps]] eqn:E; cbn [length] in A; try lia. exact B. Qed.
(* the code before the repair returns None *)
Example read_id_group_current_code_refuted : read_id_group_cur [95] [114; 101; 97; 100; 49] = None /\ read_id_group [95] [114; 101; 97; 100; 49] = NA.
Proof. vm_compute. split; reflexivity. Qed.

Theorem tag_group_total : tag_group None = NA /\ forall v, tag_group (Some v) = v.
Proof. split; reflexivity. Qed.
Theorem table_group_default rc gc delim lines name : lookup_last (load_table rc gc delim lines) name = None -> table_group rc gc delim lines name = NA.
Proof. intros H. unfold table_group. rewrite H. reflexivity. Qed.
Theorem file_name_group_total dict : file_name_group dict None = NA /\
  (forall f, lookup_first dict f = None -> file_name_group dict (Some f) = match f with [] => NA | _ => f end) /\
  (forall f l, lookup_first dict f = Some l -> file_name_group dict (Some f) = l).
Proof. split; [reflexivity|]. split; intros; unfold file_name_group; rewrite H; reflexivity. Qed.
