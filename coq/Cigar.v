From Coq Require Import ZArith NArith List Bool Lia ZifyBool.
Import ListNotations. Open Scope Z_scope.
Notation iv := (Z*Z)%type.

Inductive op := M | I | D | N | S | H | P | EQ | X.
Definition is_match o := match o with M|EQ|X => true | _ => false end.
Definition is_idm o := match o with M|EQ|X|I|D => true | _ => false end.
Definition is_sep o := match o with N|S => true | _ => false end.
Notation cop := (op * Z)%type.

(* ---------- model of get_read_blocks (reference blocks and read blocks) ---------- *)
Record st := mk { rp : Z; fp : Z; cur : option (Z*Z); hm : bool; out : list (iv*iv) }.

Definition close (s:st) : st :=
  match cur s with
  | Some (f0, r0) => mk (rp s) (fp s) None false
                        (if hm s then out s ++ [((f0, fp s - 1), (r0, rp s - 1))] else out s)
  | None => s
  end.

Definition step (s:st) (c:cop) : st :=
  let '(o, n) := c in
  match cur s with
  | None =>
    if is_idm o then
      let s' := mk (rp s) (fp s) (Some (fp s, rp s)) (hm s) (out s) in
      match o with
      | I => mk (rp s + n) (fp s) (cur s') (hm s') (out s')
      | D => mk (rp s) (fp s + n) (cur s') (hm s') (out s')
      | _ => mk (rp s + n) (fp s + n) (cur s') true (out s')
      end
    else match o with
      | N => mk (rp s) (fp s + n) None (hm s) (out s)
      | S => mk (rp s + n) (fp s) None (hm s) (out s)
      | _ => s end
  | Some _ =>
    if is_match o then mk (rp s + n) (fp s + n) (cur s) true (out s)
    else match o with
      | I => mk (rp s + n) (fp s) (cur s) (hm s) (out s)
      | D => mk (rp s) (fp s + n) (cur s) (hm s) (out s)
      | N => let s' := close s in mk (rp s') (fp s' + n) (cur s') (hm s') (out s')
      | S => let s' := close s in mk (rp s' + n) (fp s') (cur s') (hm s') (out s')
      | _ => s end
  end.

Definition get_read_blocks (ref_start:Z) (ops:list cop) : list (iv*iv) :=
  out (close (fold_left step ops (mk 0 (ref_start+1) None false []))).

(* ---------- independent SAM-style specification ---------- *)
Definition reflen (c:cop) : Z := match fst c with M|EQ|X|D|N => snd c | _ => 0 end.
Definition qrylen (c:cop) : Z := match fst c with M|EQ|X|I|S => snd c | _ => 0 end.
Fixpoint sumf (f:cop->Z) (l:list cop) : Z := match l with [] => 0 | c::t => f c + sumf f t end.
Definition has_match (l:list cop) : bool := existsb (fun c => is_match (fst c)) l.

(* split at separators: list of (run, optional separator that ends it) *)
Fixpoint runs_aux (acc:list cop) (l:list cop) : list (list cop * option cop) :=
  match l with
  | [] => [(rev acc, None)]
  | c::t => if is_sep (fst c) then (rev acc, Some c) :: runs_aux [] t else runs_aux (c::acc) t
  end.
Definition runs l := runs_aux [] l.

Fixpoint blocks_of (f r:Z) (rs:list (list cop * option cop)) : list (iv*iv) :=
  match rs with
  | [] => []
  | (run, sep)::t =>
    let f' := f + sumf reflen run in let r' := r + sumf qrylen run in
    (if has_match run then [((f, f'-1), (r, r'-1))] else []) ++
    blocks_of (f' + match sep with Some c => reflen c | None => 0 end)
              (r' + match sep with Some c => qrylen c | None => 0 end) t
  end.
Definition sam_blocks (ref_start:Z) (ops:list cop) := blocks_of (ref_start+1) 0 (runs ops).

(* sanity *)

(* ---------- proof: model = spec ---------- *)
Definition no_sep (l:list cop) := forallb (fun c => negb (is_sep (fst c))) l = true.

(* folding a separator-free run *)
Lemma run_fold : forall run s, no_sep run ->
  let s' := fold_left step run s in
  rp s' = rp s + sumf qrylen run /\ fp s' = fp s + sumf reflen run /\ out s' = out s /\
  match cur s with
  | Some c => cur s' = Some c /\ hm s' = hm s || has_match run
  | None => (has_match run = true -> cur s' = Some (fp s, rp s)) /\ hm s' = hm s || has_match run
  end.
Proof.
  induction run as [|[o n] t IH]; intros s Hns; cbn [fold_left].
  - cbv zeta. simpl. destruct (cur s); rewrite orb_false_r; repeat split; auto; try lia; try discriminate.
  - unfold no_sep in Hns. cbn [forallb fst] in Hns. apply andb_prop in Hns. destruct Hns as [Ho Ht]. assert (Hsep: is_sep o = false) by (destruct (is_sep o); [discriminate Ho|reflexivity]). clear Ho.
    specialize (IH (step s (o,n)) Ht). cbv zeta in IH. destruct IH as (Hr & Hf & Ho' & Hc).
    cbn [sumf has_match existsb fst]. fold (has_match t).
    destruct (cur s) as [c|] eqn:Ec.
    + (* block open *)
      assert (Hs: cur (step s (o,n)) = Some c /\ hm (step s (o,n)) = hm s || is_match o
                  /\ rp (step s (o,n)) = rp s + qrylen (o,n) /\ fp (step s (o,n)) = fp s + reflen (o,n)
                  /\ out (step s (o,n)) = out s).
      { unfold step. rewrite Ec. destruct o; simpl in Hsep; try discriminate Hsep; cbn; rewrite ?orb_false_r, ?orb_true_r;
          repeat split; auto; lia. }
      destruct Hs as (H1 & H2 & H3 & H4 & H5). rewrite H1 in Hc. destruct Hc as [Hc1 Hc2].
      repeat split; try congruence; try lia.
    + (* no block open *)
      destruct (is_idm o) eqn:Ei.
      * assert (Hs: cur (step s (o,n)) = Some (fp s, rp s) /\ hm (step s (o,n)) = hm s || is_match o
                  /\ rp (step s (o,n)) = rp s + qrylen (o,n) /\ fp (step s (o,n)) = fp s + reflen (o,n)
                  /\ out (step s (o,n)) = out s).
        { unfold step. rewrite Ec. destruct o; simpl in Hsep, Ei; try discriminate Hsep; try discriminate Ei; cbn; rewrite ?orb_false_r, ?orb_true_r;
            repeat split; auto; lia. }
        destruct Hs as (H1 & H2 & H3 & H4 & H5). rewrite H1 in Hc. destruct Hc as [Hc1 Hc2].
        repeat split; try congruence; try lia.
      * assert (Hs: step s (o,n) = s).
        { unfold step. rewrite Ec. destruct o; simpl in Hsep, Ei; try discriminate Hsep; try discriminate Ei; reflexivity. }
        rewrite Hs in *. rewrite Ec in Hc. destruct Hc as [Hc1 Hc2].
        assert (Hm: is_match o = false) by (destruct o; simpl in Ei; try discriminate Ei; reflexivity).
        assert (Hq: qrylen (o,n) = 0 /\ reflen (o,n) = 0) by (destruct o; simpl in Ei, Hsep; try discriminate Ei; try discriminate Hsep; split; reflexivity).
        rewrite Hm. simpl. repeat split; try lia; auto.
Qed.

Lemma no_sep_app l c : no_sep l -> is_sep (fst c) = false -> no_sep (l ++ [c]).
Proof. unfold no_sep. intros H1 H2. rewrite forallb_app, H1. simpl. rewrite H2. reflexivity. Qed.

Lemma close_out s : out (close s) =
  match cur s with Some (f0, r0) => if hm s then out s ++ [((f0, fp s - 1), (r0, rp s - 1))] else out s | None => out s end.
Proof. unfold close. destruct (cur s) as [[f0 r0]|]; reflexivity. Qed.

Lemma main : forall l acc s0, cur s0 = None -> hm s0 = false -> no_sep (rev acc) ->
  out (close (fold_left step l (fold_left step (rev acc) s0))) =
  out s0 ++ blocks_of (fp s0) (rp s0) (runs_aux acc l).
Proof.
  induction l as [|c t IH]; intros acc s0 Hc Hh Hns.
  - cbn [fold_left runs_aux blocks_of].
    pose proof (run_fold (rev acc) s0 Hns) as R. cbv zeta in R. destruct R as (Hr & Hf & Ho & Hcur).
    rewrite Hc, Hh in Hcur. destruct Hcur as [Hcur Hhm]. simpl in Hhm.
    rewrite close_out, Ho, Hhm, Hr, Hf.
    destruct (has_match (rev acc)) eqn:Em.
    + rewrite (Hcur eq_refl). rewrite app_nil_r. reflexivity.
    + rewrite app_nil_r. destruct (cur (fold_left step (rev acc) s0)) as [[? ?]|]; reflexivity.
  - cbn [fold_left runs_aux]. destruct (is_sep (fst c)) eqn:Es.
    + (* separator: close the run *)
      pose proof (run_fold (rev acc) s0 Hns) as R. cbv zeta in R. destruct R as (Hr & Hf & Ho & Hcur).
      rewrite Hc, Hh in Hcur. destruct Hcur as [Hcur Hhm]. simpl in Hhm.
      set (s := fold_left step (rev acc) s0) in *.
      set (s1 := step s c).
      assert (H1: cur s1 = None /\ hm s1 = false /\ fp s1 = fp s + reflen c /\ rp s1 = rp s + qrylen c /\
                  out s1 = out s0 ++ (if has_match (rev acc) then [((fp s0, fp s - 1), (rp s0, rp s - 1))] else [])).
      { subst s1. destruct c as [o n]. unfold step.
        destruct (has_match (rev acc)) eqn:Em.
        - rewrite (Hcur eq_refl). destruct o; simpl in Es; try discriminate Es; cbn; unfold close;
          rewrite (Hcur eq_refl), Hhm; cbn; rewrite Ho; repeat split; lia.
        - destruct (cur s) as [[f0 r0]|] eqn:Ecs; destruct o; simpl in Es; try discriminate Es; cbn; unfold close;
          rewrite ?Ecs, ?Hhm; cbn; rewrite ?Ho, ?app_nil_r; repeat split; auto; lia. }
      destruct H1 as (A1 & A2 & A3 & A4 & A5).
      change (fold_left step t s1) with (fold_left step t (fold_left step (rev []) s1)).
      rewrite (IH [] s1 A1 A2 eq_refl). cbn [blocks_of]. rewrite A5, A3, A4, Hf, Hr, <- app_assoc. reflexivity.
    + (* ordinary op: extend the run *)
      replace (fold_left step t (step (fold_left step (rev acc) s0) c))
        with (fold_left step t (fold_left step (rev (c::acc)) s0))
        by (cbn [rev]; rewrite fold_left_app; reflexivity).
      apply IH; auto. cbn [rev]. apply no_sep_app; assumption.
Qed.

Theorem blocks_are_sam_blocks ref_start ops : get_read_blocks ref_start ops = sam_blocks ref_start ops.
Proof. unfold get_read_blocks, sam_blocks, runs.
  change (fold_left step ops {| rp := 0; fp := ref_start + 1; cur := None; hm := false; out := [] |})
    with (fold_left step ops (fold_left step (rev []) {| rp := 0; fp := ref_start + 1; cur := None; hm := false; out := [] |})).
  rewrite main by reflexivity. reflexivity. Qed.
Print Assumptions blocks_are_sam_blocks.
