(* Transcript-MODEL count tables (property C02): faithful model of the read bookkeeping of
   src/graph_based_model_construction.py GraphBasedModelConstructor —
     transcript_read_ids      defaultdict(list): model id -> read assignments stored for it            (m_tri, insertion order)
     read_assignment_counts   defaultdict(int):  read id  -> number of models the read is stored for   (m_rac, insertion order)
     transcript_model_storage the models that will be reported                                          (m_models)
   with the four places that change them (transcript_model_storage.append, save_assigned_read, delete_from_storage,
   assign_reads_to_models), of forward_counts (which turns the bookkeeping into calls of the transcript-model counter:
   add_read_info_raw / add_unassigned / add_confirmed_features, modelled in CountingCounter.v as the events ERaw / EUnassigned /
   EConfirm) and of transcript_printer.GFFPrinter.dump_read_assignments (the lines of transcript_model_reads.tsv).
   Identifiers (models, reads, groups) are integers; a read id is assumed non-empty (add_read_info_raw tests `not read_id`).
   The verdict of the LongReadAssigner on a read (the list of models it is consistent with, or "not consistent") is an INPUT. *)
From Coq Require Import ZArith NArith QArith List Bool Lia.
From IQ Require Import Counting CountingCounter.
Import ListNotations.
Open Scope Z_scope.

Notation entry := (Z * Z * Z)%type.          (* (model, read id, read group): one element of transcript_read_ids[model] *)
Definition e_m (e:entry) : Z := fst (fst e).
Definition e_r (e:entry) : Z := snd (fst e).
Definition e_g (e:entry) : Z := snd e.

Record mstate := mkms { m_tri : list (Z * list (Z * Z)); m_rac : list (Z * Z); m_models : list Z }.
Definition ms_empty : mstate := mkms [] [] [].

(* ---------------------------------------------------------------- defaultdict(int) / defaultdict(list) *)
Fixpoint rac_get (c:list (Z * Z)) (r:Z) : Z := match c with [] => 0 | p :: t => if fst p =? r then snd p else rac_get t r end.
(* c[r] = f(c[r]); a missing key is created with f(0) at the end *)
Fixpoint rac_upd (c:list (Z * Z)) (r:Z) (f:Z -> Z) : list (Z * Z) :=
  match c with [] => [(r, f 0)] | p :: t => if fst p =? r then (fst p, f (snd p)) :: t else p :: rac_upd t r f end.
Definition rac_touch (c:list (Z * Z)) (r:Z) := rac_upd c r (fun v => v).        (* a read access creates the key *)
Fixpoint tri_append (t:list (Z * list (Z * Z))) (m:Z) (a:Z * Z) : list (Z * list (Z * Z)) :=
  match t with [] => [(m, [a])] | p :: u => if fst p =? m then (fst p, snd p ++ [a]) :: u else p :: tri_append u m a end.
Fixpoint tri_get (t:list (Z * list (Z * Z))) (m:Z) : list (Z * Z) := match t with [] => [] | p :: u => if fst p =? m then snd p else tri_get u m end.
Fixpoint tri_del (t:list (Z * list (Z * Z))) (m:Z) : list (Z * list (Z * Z)) := match t with [] => [] | p :: u => if fst p =? m then u else p :: tri_del u m end.
(* for transcript_id in transcript_read_ids.keys(): for read_assignment in transcript_read_ids[transcript_id] *)
Definition flat (t:list (Z * list (Z * Z))) : list entry := flat_map (fun p => map (fun a => (fst p, fst a, snd a)) (snd p)) t.

(* ---------------------------------------------------------------- the places that change the bookkeeping *)
Inductive op :=
  | OModel (m:Z)                                       (* transcript_model_storage.append(new_model) *)
  | OSave (r g m:Z)                                    (* save_assigned_read(read_assignment, transcript_id) *)
  | ODelete (m:Z)                                      (* delete_from_storage(transcript_id); the model is left out of the filtered storage *)
  | OAssign (res:list (Z * Z * option (list Z))).      (* assign_reads_to_models: per read of the storage (id, group, verdict);
                                                          verdict None = not consistent, Some ms = consistent with the models ms *)
Definition save (st:mstate) (r g m:Z) : mstate :=
  mkms (tri_append (m_tri st) m (r, g)) (rac_upd (m_rac st) r (fun v => v + 1)) (m_models st).
Definition delete (st:mstate) (m:Z) : mstate :=
  mkms (tri_del (m_tri st) m) (fold_left (fun c a => rac_upd c (fst a) (fun v => v - 1)) (tri_get (m_tri st) m) (m_rac st))
       (filter (fun x => negb (x =? m)) (m_models st)).
Definition assign_one (st:mstate) (x:Z * Z * option (list Z)) : mstate :=
  let '(r, g, o) := x in
  let c := rac_touch (m_rac st) r in
  if 0 <? rac_get c r then mkms (m_tri st) c (m_models st)                                   (* assigned earlier: skipped *)
  else match o with
       | None => mkms (m_tri st) (rac_upd c r (fun _ => 0)) (m_models st)
       | Some ms => fold_left (fun s m => save s r g m) ms (mkms (m_tri st) c (m_models st))    (* counts[r] += 1 and append, once per matched model *)
       end.
Definition assign (st:mstate) (res:list (Z * Z * option (list Z))) : mstate :=
  match m_models st with
  | [] => mkms (m_tri st) (fold_left (fun c x => rac_upd c (fst (fst x)) (fun _ => 0)) res (m_rac st)) []
  | _ => fold_left assign_one res st
  end.
Definition exec (st:mstate) (o:op) : mstate :=
  match o with
  | OModel m => mkms (m_tri st) (m_rac st) (m_models st ++ [m])
  | OSave r g m => save st r g m
  | ODelete m => delete st m
  | OAssign res => assign st res
  end.
Definition process (ops:list op) : mstate := fold_left exec ops ms_empty.

(* ---------------------------------------------------------------- forward_counts *)
Notation ambmap := (list (Z * (Z * list Z))).           (* ambiguous_assignments: read id -> [group, model, model, ...] *)
Fixpoint amb_add (a:ambmap) (r g m:Z) : ambmap :=
  match a with
  | [] => [(r, (g, [m]))]
  | p :: t => if fst p =? r then (fst p, (fst (snd p), snd (snd p) ++ [m])) :: t else p :: amb_add t r g m
  end.
Definition raw1 (e:entry) : event := ERaw true [e_m e] (e_g e).
Definition raw_amb (p:Z * (Z * list Z)) : event := ERaw true (snd (snd p)) (fst (snd p)).
(* first loop; the counter calls of this loop are collected in the middle component *)
Definition pass1_step (acc:list (Z * Z) * list event * ambmap) (e:entry) : list (Z * Z) * list event * ambmap :=
  let '(c, u, a) := acc in
  let c' := rac_touch c (e_r e) in
  if rac_get c' (e_r e) =? 1 then (c', u ++ [raw1 e], a) else (c', u, amb_add a (e_r e) (e_g e) (e_m e)).
Definition fc_pass1 (st:mstate) := fold_left pass1_step (flat (m_tri st)) (m_rac st, [], []).
Definition zeros (c:list (Z * Z)) : Z := Z.of_nat (length (filter (fun p => snd p =? 0) c)).
Definition forward_counts (st:mstate) : list event :=
  let '(c, u, a) := fc_pass1 st in
  u ++ map raw_amb a ++ [EUnassigned (zeros c); EConfirm (m_models st)].
(* read_assignment_counts as forward_counts leaves it (dump_read_assignments runs afterwards) *)
Definition fc_rac (st:mstate) : list (Z * Z) := fst (fst (fc_pass1 st)).

(* ---------------------------------------------------------------- transcript_model_reads.tsv *)
Definition r2t_lines (st:mstate) : list (Z * option Z) :=
  map (fun e => (e_r e, Some (e_m e))) (flat (m_tri st)) ++ flat_map (fun p => if snd p =? 0 then [(fst p, None)] else []) (fc_rac st).

(* what a reader of transcript_model_reads.tsv (the pipeline-level check, harness model_events) reconstructs: per read id, in order of first
   appearance, the list of its models; the '*' lines as unassigned reads; every reported model confirmed *)
Fixpoint nodup_first (l:list Z) : list Z := match l with [] => [] | x :: t => x :: filter (fun y => negb (y =? x)) (nodup_first t) end.
Definition line_models (lines:list (Z * option Z)) (r:Z) : list Z := flat_map (fun l => if fst l =? r then opt_list (snd l) else []) lines.
Definition line_reads (lines:list (Z * option Z)) : list Z := flat_map (fun l => match snd l with Some _ => [fst l] | None => [] end) lines.
Definition stars (lines:list (Z * option Z)) : Z := Z.of_nat (length (filter (fun l => match snd l with None => true | Some _ => false end) lines)).
Definition events_from_r2t (lines:list (Z * option Z)) (grp:Z -> Z) (models:list Z) : list event :=
  map (fun r => ERaw true (line_models lines r) (grp r)) (nodup_first (line_reads lines)) ++ [EUnassigned (stars lines); EConfirm models].

(* ---------------------------------------------------------------- declarative side *)
Definition entries (st:mstate) (r:Z) : list entry := filter (fun e => e_r e =? r) (flat (m_tri st)).
Definition ms_of (st:mstate) (r:Z) : list Z := map e_m (entries st r).             (* the models the read is assigned to *)
Definition grp_of (st:mstate) (r:Z) : Z := match entries st r with e :: _ => e_g e | [] => 0 end.
Definition reads (st:mstate) : list Z := map fst (m_rac st).
(* documented weight of a read assigned to the models ms: 1 when it is one model, the ambiguous-read weight of the strategy for k > 1 models *)
Definition model_weight (s:strategy) (ms:list Z) : Q := match ms with [_] => 1%Q | _ => documented s Ambiguous (length ms) end.
Definition model_contrib (s:strategy) (st:mstate) (f:Z) (gsel:option Z) (r:Z) : Q :=
  if gsel_ok gsel (grp_of st r) then (inject_Z (zcount f (ms_of st r)) * model_weight s (ms_of st r))%Q else 0%Q.
(* cell of model f (restricted to the reads of group gsel): the weighted sum over the reads when f is reported, 0 otherwise *)
Definition model_cell (s:strategy) (st:mstate) (f:Z) (gsel:option Z) : Q :=
  if memz f (m_models st) then qsum' (map (model_contrib s st f gsel) (reads st)) else 0%Q.
(* the bookkeeping invariant: read_assignment_counts[r] is the number of stored (model, r) pairs *)
Definition consistent (st:mstate) : Prop :=
  NoDup (reads st) /\ forall r, rac_get (m_rac st) r = Z.of_nat (length (entries st r)).
Definition has_entries (st:mstate) (r:Z) : bool := match entries st r with [] => false | _ => true end.
Definition evt_of (st:mstate) (r:Z) : event := ERaw true (ms_of st r) (grp_of st r).
(* one add_read_info_raw call per read that is stored for some model, then add_unassigned, then add_confirmed_features *)
Definition canon_events (st:mstate) : list event :=
  map (evt_of st) (filter (has_entries st) (reads st)) ++ [EUnassigned (zeros (m_rac st)); EConfirm (m_models st)].

(* the statistics lines: reads stored for two or more models / for no model *)
Definition n_amb_spec (st:mstate) : Z := Z.of_nat (length (filter (fun r => (1 <? length (ms_of st r))%nat) (reads st))).
Definition n_nofeat_spec (st:mstate) : Z := Z.of_nat (length (filter (fun r => negb (has_entries st r)) (reads st))).

(* the same cell written over the INPUT of one assignment round on fresh bookkeeping: res lists, per read of the storage, its id, its group and the
   assigner's verdict; every read with its group, the number of times model f is among its models, and the documented weight for that many models *)
Definition rid (x:Z * Z * option (list Z)) : Z := fst (fst x).
Definition rgrp (x:Z * Z * option (list Z)) : Z := snd (fst x).
Definition rms (x:Z * Z * option (list Z)) : list Z := match snd x with Some ms => ms | None => [] end.
Definition input_contrib (s:strategy) (f:Z) (gsel:option Z) (x:Z * Z * option (list Z)) : Q :=
  if gsel_ok gsel (rgrp x) then (inject_Z (zcount f (rms x)) * model_weight s (rms x))%Q else 0%Q.
Definition input_cell (s:strategy) (res:list (Z * Z * option (list Z))) (models:list Z) (f:Z) (gsel:option Z) : Q :=
  if memz f models then qsum' (map (input_contrib s f gsel) res) else 0%Q.
Definition assigned (models:list Z) (res:list (Z * Z * option (list Z))) : mstate := fold_left assign_one res (mkms [] [] models).

(* sequences of bookkeeping steps as process() issues them: reads are saved for / assigned to models of the storage only *)
Definition legal_op (st:mstate) (o:op) : Prop :=
  match o with
  | OSave _ _ m => In m (m_models st)
  | OAssign res => forall r g ms, In (r, g, Some ms) res -> forall m, In m ms -> In m (m_models st)
  | _ => True
  end.
Fixpoint legal (st:mstate) (ops:list op) : Prop := match ops with [] => True | o :: t => legal_op st o /\ legal (exec st o) t end.
(* decidable form *)
Definition legal_opb (st:mstate) (o:op) : bool :=
  match o with
  | OSave _ _ m => memz m (m_models st)
  | OAssign res => forallb (fun x => match snd x with Some ms => forallb (fun m => memz m (m_models st)) ms | None => true end) res
  | _ => true
  end.
Fixpoint legalb (st:mstate) (ops:list op) : bool := match ops with [] => true | o :: t => legal_opb st o && legalb (exec st o) t end.
