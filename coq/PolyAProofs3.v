(* C16, "removing terminal polyA/polyT exons moves the recorded tail position onto the retained exon": an implementation-independent
   statement of WHERE the position lands, proved of the code-faithful models shift_polya / shift_polyt / add_polya_info of PolyA2.v.

   Reading of the clause.  The removed exons are aligned read bases that really continue the retained exon.  The recorded position is
   therefore re-expressed as  (boundary of the retained exon) +- (number of bases of the removed exons lying between that boundary and the
   old position):
     polyA:  new = end of the last retained exon    +  #{ bases of the removed exons LEFT of the old position }
     polyT:  new = start of the first retained exon  -  #{ bases of the removed exons RIGHT of the old position }
   where the outermost removed exon (the last one for polyA, the first one for polyT) counts as continuing beyond the alignment (the clipped
   tail continues the read), so that positions beyond the end of the read are covered.
   The statement is made for positions that are `clear` of the introns between removed exons (see clear_a / clear_t): a position strictly
   inside such an intron does not identify a read base, and the property does not say where it should go. *)
From Coq Require Import ZArith List Bool Lia ZifyBool.
From IQ Require Import PolyA PolyA2.
Import ListNotations. Open Scope Z_scope.

(* number of positions of the closed interval e that are < pos / > pos *)
Definition bases_lt (pos:Z) (e:iv) : Z := Z.max 0 (Z.min pos (snd e + 1) - fst e).
Definition bases_gt (pos:Z) (e:iv) : Z := Z.max 0 (snd e - Z.max pos (fst e - 1)).
Fixpoint sumZ (f:iv -> Z) (l:list iv) : Z := match l with [] => 0 | e :: t => f e + sumZ f t end.

(* the removed exons are given OUTERMOST FIRST (polyA: last exon of the read first; polyT: first exon of the read first) *)
Definition tail_dist_a (pos:Z) (removed:list iv) : Z :=
  match removed with [] => 0 | o :: inner => Z.max 0 (pos - fst o) + sumZ (bases_lt pos) inner end.
Definition head_dist_t (pos:Z) (removed:list iv) : Z :=
  match removed with [] => 0 | o :: inner => Z.max 0 (snd o - pos) + sumZ (bases_gt pos) inner end.

(* well-formed, strictly ordered removed exons (outermost first), and the position is not inside the intron between two of them:
   polyA: not (end of the inner exon + 1 < pos <= start of the outer exon); polyT: not (end of the outer exon <= pos < start of the inner exon - 1) *)
Fixpoint chain_a (pos:Z) (prev:iv) (l:list iv) : bool :=
  match l with [] => true
  | e :: t => (snd e <? fst prev) && (fst e <=? snd e) && ((fst prev <? pos) || (pos <=? snd e + 1)) && chain_a pos e t end.
Fixpoint chain_t (pos:Z) (prev:iv) (l:list iv) : bool :=
  match l with [] => true
  | e :: t => (snd prev <? fst e) && (fst e <=? snd e) && ((pos <? snd prev) || (fst e - 1 <=? pos)) && chain_t pos e t end.
Definition clear_a (pos:Z) (removed:list iv) : bool := match removed with [] => true | o :: inner => chain_a pos o inner end.
Definition clear_t (pos:Z) (removed:list iv) : bool := match removed with [] => true | o :: inner => chain_t pos o inner end.

(* ---------- the loops of shift_polya / shift_polyt compute these sums ---------- *)
Lemma fold_a_inner pos : forall l prev d, chain_a pos prev l = true -> 0 <= d -> (d = 0 -> pos <= fst prev) -> (0 < d -> fst prev < pos) ->
  fold_left (dist_step_a pos) l d = d + sumZ (bases_lt pos) l.
Proof. induction l as [|e t IH]; intros prev d Hc Hd H0 H1; cbn [fold_left sumZ]; [lia|].
  cbn [chain_a] in Hc. apply andb_prop in Hc. destruct Hc as [Hc Hct]. apply andb_prop in Hc. destruct Hc as [Hc Hg].
  apply andb_prop in Hc. destruct Hc as [Hs Hw].
  rewrite (IH e (dist_step_a pos d e) Hct); unfold dist_step_a, bases_lt, ilen;
    destruct (fst e >? pos) eqn:E1; destruct (d =? 0) eqn:E2; lia. Qed.

Lemma fold_a pos l : clear_a pos l = true -> fold_left (dist_step_a pos) l 0 = tail_dist_a pos l.
Proof. destruct l as [|o inner]; [reflexivity|]. cbn [fold_left clear_a tail_dist_a]. intros Hc.
  rewrite (fold_a_inner pos inner o (dist_step_a pos 0 o) Hc); unfold dist_step_a; change (0 =? 0) with true; cbv iota;
    destruct (fst o >? pos) eqn:E1; lia. Qed.

Lemma fold_t_inner pos : forall l prev d, chain_t pos prev l = true -> 0 <= d -> (d = 0 -> snd prev <= pos) -> (0 < d -> pos < snd prev) ->
  fold_left (dist_step_t pos) l d = d + sumZ (bases_gt pos) l.
Proof. induction l as [|e t IH]; intros prev d Hc Hd H0 H1; cbn [fold_left sumZ]; [lia|].
  cbn [chain_t] in Hc. apply andb_prop in Hc. destruct Hc as [Hc Hct]. apply andb_prop in Hc. destruct Hc as [Hc Hg].
  apply andb_prop in Hc. destruct Hc as [Hs Hw].
  rewrite (IH e (dist_step_t pos d e) Hct); unfold dist_step_t, bases_gt, ilen;
    destruct (snd e <? pos) eqn:E1; destruct (d =? 0) eqn:E2; lia. Qed.

Lemma fold_t pos l : clear_t pos l = true -> fold_left (dist_step_t pos) l 0 = head_dist_t pos l.
Proof. destruct l as [|o inner]; [reflexivity|]. cbn [fold_left clear_t head_dist_t]. intros Hc.
  rewrite (fold_t_inner pos inner o (dist_step_t pos 0 o) Hc); unfold dist_step_t; change (0 =? 0) with true; cbv iota;
    destruct (snd o <? pos) eqn:E1; lia. Qed.

Lemma nth_is_last_of_drop_last (exons:list iv) k : 0 < k < Z.of_nat (length exons) ->
  nth (length exons - Z.to_nat k - 1) exons (0,0) = last (drop_last k exons) (0,0).
Proof. intros Hk. unfold drop_last. set (m := (length exons - Z.to_nat k)%nat).
  assert (Hm: (0 < m <= length exons)%nat) by (unfold m; lia).
  rewrite <- (firstn_skipn m exons) at 1.
  rewrite app_nth1 by (rewrite firstn_length; lia).
  assert (Hl: length (firstn m exons) = m) by (rewrite firstn_length; lia).
  generalize dependent (firstn m exons). intros l Hl.
  destruct (exists_last (l:=l)) as [l' [x Hx]]; [intros ->; simpl in Hl; lia|]. subst l.
  rewrite last_last. rewrite app_length in Hl. cbn [length] in Hl.
  rewrite app_nth2 by lia. replace (m - 1 - length l')%nat with 0%nat by lia. reflexivity. Qed.

Lemma nth_is_hd_of_drop_first (exons:list iv) k : 0 < k < Z.of_nat (length exons) ->
  nth (Z.to_nat k) exons (0,0) = hd (0,0) (drop_first k exons).
Proof. intros Hk. unfold drop_first.
  rewrite <- (firstn_skipn (Z.to_nat k) exons) at 1.
  rewrite app_nth2 by (rewrite firstn_length; lia).
  rewrite firstn_length. replace (Z.to_nat k - Nat.min (Z.to_nat k) (length exons))%nat with 0%nat by lia.
  destruct (skipn (Z.to_nat k) exons); reflexivity. Qed.

(* polyA: the new position is the end of the last retained exon plus the number of removed read bases left of the old position *)
Theorem shift_polya_spec exons k pos : 0 < k < Z.of_nat (length exons) -> pos <> -1 ->
  let removed := rev (skipn (length exons - Z.to_nat k) exons) in
  clear_a pos removed = true ->
  shift_polya exons k pos = snd (last (drop_last k exons) (0,0)) + tail_dist_a pos removed.
Proof. intros Hk Hp removed Hc. unfold shift_polya.
  replace ((k =? 0) || (k =? Z.of_nat (length exons)) || (pos =? -1)) with false by lia.
  rewrite (nth_is_last_of_drop_last exons k Hk). fold removed. rewrite (fold_a pos removed Hc). reflexivity. Qed.

(* polyT: the new position is the start of the first retained exon minus the number of removed read bases right of the old position *)
Theorem shift_polyt_spec exons k pos : 0 < k < Z.of_nat (length exons) -> pos <> -1 ->
  let removed := firstn (Z.to_nat k) exons in
  clear_t pos removed = true ->
  shift_polyt exons k pos = fst (hd (0,0) (drop_first k exons)) - head_dist_t pos removed.
Proof. intros Hk Hp removed Hc. unfold shift_polyt.
  replace ((k =? 0) || (k =? Z.of_nat (length exons)) || (pos =? -1)) with false by lia.
  rewrite (nth_is_hd_of_drop_first exons k Hk). fold removed. rewrite (fold_t pos removed Hc). reflexivity. Qed.

(* ---------- the decidable form evaluated by the correspondence on the IMPLEMENTATION's output ----------
   input: exon list and the four recorded positions; output: retained exons, new positions, (polyA exons removed, polyT exons removed).
   For each side on which exons were removed, both recorded positions of that side (internal and external) that are set (<> -1) and clear
   must be where the statement above puts them.  polyT exons are removed after the polyA exons, from what the polyA step left. *)
Definition moved_a (ex:list iv) (a pos pos':Z) : bool :=
  let removed := rev (skipn (length ex - Z.to_nat a) ex) in
  (pos =? -1) || negb (clear_a pos removed) || (pos' =? snd (last (drop_last a ex) (0,0)) + tail_dist_a pos removed).
Definition moved_t (ex:list iv) (t pos pos':Z) : bool :=
  let removed := firstn (Z.to_nat t) ex in
  (pos =? -1) || negb (clear_t pos removed) || (pos' =? fst (hd (0,0) (drop_first t ex)) - head_dist_t pos removed).
Definition tail_spec (ex:list iv) (p:pinfo) (r:list iv * pinfo * (Z * Z)) : bool :=
  let p' := snd (fst r) in let a := fst (snd r) in let t := snd (snd r) in
  let ex1 := if 0 <? a then drop_last a ex else ex in
  (negb ((0 <? a) && (a <? Z.of_nat (length ex))) || (moved_a ex a (int_a p) (int_a p') && moved_a ex a (ext_a p) (ext_a p'))) &&
  (negb ((0 <? t) && (t <? Z.of_nat (length ex1))) || (moved_t ex1 t (int_t p) (int_t p') && moved_t ex1 t (ext_t p) (ext_t p'))).

Lemma moved_a_shift ex a pos : 0 < a < Z.of_nat (length ex) -> moved_a ex a pos (shift_polya ex a pos) = true.
Proof. intros Ha. unfold moved_a. destruct (pos =? -1) eqn:Ep; [reflexivity|]. cbn [orb].
  destruct (clear_a pos (rev (skipn (length ex - Z.to_nat a) ex))) eqn:Ec; [|reflexivity]. cbn [negb orb].
  rewrite (shift_polya_spec ex a pos Ha ltac:(lia) Ec). apply Z.eqb_refl. Qed.
Lemma moved_t_shift ex t pos : 0 < t < Z.of_nat (length ex) -> moved_t ex t pos (shift_polyt ex t pos) = true.
Proof. intros Ht. unfold moved_t. destruct (pos =? -1) eqn:Ep; [reflexivity|]. cbn [orb].
  destruct (clear_t pos (firstn (Z.to_nat t) ex)) eqn:Ec; [|reflexivity]. cbn [negb orb].
  rewrite (shift_polyt_spec ex t pos Ht ltac:(lia) Ec). apply Z.eqb_refl. Qed.

(* the model of AlignmentInfo.add_polya_info satisfies it, for every exon list, every four positions and every max_fake_terminal_exon_len *)
Theorem tail_spec_model max_fake ex p : tail_spec ex p (add_polya_info max_fake ex p) = true.
Proof. unfold add_polya_info. destruct (correct_read_info2 max_fake ex (int_a p) (int_t p)) as [a t].
  destruct (0 <? a) eqn:Ea; destruct (0 <? t) eqn:Et; unfold tail_spec; cbn [fst snd ext_a ext_t int_a int_t]; rewrite ?Ea, ?Et; cbn [andb negb orb].
  - apply andb_true_intro; split.
    + destruct (a <? Z.of_nat (length ex)) eqn:E; [|reflexivity]. cbn [negb orb]. rewrite !moved_a_shift by lia. reflexivity.
    + destruct (t <? Z.of_nat (length (drop_last a ex))) eqn:E; [|reflexivity]. cbn [negb orb]. rewrite !moved_t_shift by lia. reflexivity.
  - destruct (a <? Z.of_nat (length ex)) eqn:E; [|reflexivity]. cbn [negb orb]. rewrite !moved_a_shift by lia. reflexivity.
  - destruct (t <? Z.of_nat (length ex)) eqn:E; [|reflexivity]. cbn [negb orb]. rewrite !moved_t_shift by lia. reflexivity.
  - reflexivity. Qed.

(* non-vacuity: positions inside the removed exons, two removed exons on each side *)
Example tail_spec_examples :
  (* polyA at 505 in the fake exon (500,530): 5 bases of it precede the position *)
  shift_polya [(100,200);(300,400);(500,530)] 1 505 = 405 /\ clear_a 505 [(500,530)] = true /\ tail_dist_a 505 [(500,530)] = 5 /\
  (* two removed exons: all 11 bases of (500,510) and 3 bases of (600,640) precede 603 *)
  shift_polya [(100,200);(300,400);(500,510);(600,640)] 2 603 = 414 /\ clear_a 603 [(600,640);(500,510)] = true /\
  (* polyT at 125 in the fake exon (100,130): 5 bases of it follow the position *)
  shift_polyt [(100,130);(300,400);(500,600)] 1 125 = 295 /\ clear_t 125 [(100,130)] = true /\ head_dist_t 125 [(100,130)] = 5 /\
  shift_polyt [(100,130);(200,210);(300,400)] 2 125 = 284 /\ clear_t 125 [(100,130);(200,210)] = true /\
  (* the seeded variant `polyt_pos - exon[0]` would give 300 - 25 = 275 here *)
  fst (hd (0,0) (drop_first 1 [(100,130);(300,400);(500,600)])) - (125 - 100) = 275.
Proof. vm_compute. repeat split; reflexivity. Qed.

(* a position strictly inside an intron between removed exons is outside the statement: the code counts intron bases there *)
Example tail_spec_not_clear :
  clear_a 560 [(600,640);(500,510)] = false /\ shift_polya [(100,200);(300,400);(500,510);(600,640)] 2 560 = 460 /\
  400 + tail_dist_a 560 [(600,640);(500,510)] = 411.
Proof. vm_compute. repeat split; reflexivity. Qed.
Print Assumptions tail_spec_model.
