(* GffMultiSpec.v — decidable forms of the C03 whole-printer / whole-file statements, evaluated by the check on the
   implementation's output (harness/props/c03.py, correspondence "files"), and the proof that the model's own output passes. *)
From Coq Require Import ZArith NArith List Bool Lia ZifyBool Permutation.
From IQ Require Import CorrSupport Exons Gff GffThm GffMulti GffFiles.
Import ListNotations. Open Scope Z_scope.

Definition line_eqb (a b:line) : bool :=
  match a, b with
  | GeneL a1 a2 a3 a4 a5 a6, GeneL b1 b2 b3 b4 b5 b6 => zs_eqb [a1;a2;a3;a4;a5;a6] [b1;b2;b3;b4;b5;b6]
  | TrL a1 a2 a3 a4 a5 a6, TrL b1 b2 b3 b4 b5 b6 => zs_eqb [a1;a2;a3;a4;a5;a6] [b1;b2;b3;b4;b5;b6]
  | FeatL a1 a2 a3 a4 a5 a6 a7 a8, FeatL b1 b2 b3 b4 b5 b6 b7 b8 => zs_eqb [a1;a2;a3;a4;a5;a6;a7;a8] [b1;b2;b3;b4;b5;b6;b7;b8]
  | _, _ => false end.
Definition lines_eqb := list_eqb line_eqb.
Definition count_line (l:line) (ls:list line) : nat := length (filter (line_eqb l) ls).
(* multiset equality *)
Definition same_lines (a b:list line) : bool :=
  Nat.eqb (length a) (length b) && forallb (fun l => Nat.eqb (count_line l a) (count_line l b)) a.
Definition line_chr (l:line) : Z := match l with GeneL c _ _ _ _ _ => c | TrL c _ _ _ _ _ => c | FeatL c _ _ _ _ _ _ _ => c end.

(* the first call holding a valid model of g: (calls before, that call, calls after) *)
Fixpoint split_first (g:Z) (calls:list (ginfo * list tmodel)) : option (list (ginfo * list tmodel) * (ginfo * list tmodel) * list (ginfo * list tmodel)) :=
  match calls with
  | [] => None
  | c :: t => match valid_of g (snd c) with
              | [] => match split_first g t with Some (pre, x, post) => Some (c :: pre, x, post) | None => None end
              | _ => Some ([], c, t)
              end
  end.
Definition is_nil {A} (l:list A) : bool := match l with [] => true | _ => false end.
(* C03_gene_contains_all_transcripts_iff for one gene line of a printer's output *)
Definition gene_line_ok (calls:list (ginfo * list tmodel)) (ls:list line) (l:line) : bool :=
  match l with
  | GeneL c s e st g n =>
      match split_first g calls with
      | None => false
      | Some (pre, (gi, storage), post) =>
          iv_eqb (s, e) (call_range gi g (valid_of g storage)) && (n =? Z.of_nat (length (valid_of g storage))) &&
          Bool.eqb (forallb (fun l' => match l' with TrL _ s' e' _ g' _ => negb (g' =? g) || contains_b (s, e) (s', e') | _ => true end) ls)
                   (forallb (fun call => forallb (fun m => contains_b (s, e) (tregion (t_exons m))) (valid_of g (snd call))) post) &&
          Bool.eqb (n =? trcount g ls) (forallb (fun call => is_nil (valid_of g (snd call))) post)
      end
  | _ => true
  end.
Definition printer_life_ok (calls:list (ginfo * list tmodel)) (ls:list line) : bool := forallb (gene_line_ok calls ls) ls.
(* every gene line contains all transcript lines of its gene and counts them (what a single-call printer guarantees) *)
Definition gene_lines_complete (ls:list line) : bool :=
  forallb (fun l => match l with
                    | GeneL _ s e _ g n => forallb (fun l' => match l' with TrL _ s' e' _ g' _ => negb (g' =? g) || contains_b (s, e) (s', e') | _ => true end) ls && (n =? trcount g ls)
                    | _ => true end) ls.

(* every transcript line's gene has exactly one gene line in the file *)
Definition genes_once (ls:list line) : bool :=
  forallb (fun l => match l with TrL _ _ _ _ g _ => Nat.eqb (length (filter (Z.eqb g) (glines ls))) 1 | _ => true end) ls.

(* ---- the whole-file case of the check: chromosomes, and the two merged files as written by the implementation *)
Fixpoint all_ok {A} (l:list (outcome A)) : option (list A) :=
  match l with [] => Some [] | Ok a :: t => match all_ok t with Some r => Some (a :: r) | None => None end | Raises _ :: _ => None end.
Definition files_check (c:list chrom * (list line * list line)) : bool :=
  let chrs := fst c in
  match all_ok (map models_part chrs), all_ok (map extended_part chrs) with
  | Some mls, Some els => lines_eqb (merged sfx_models chrs mls) (fst (snd c)) && lines_eqb (merged sfx_extended chrs els) (snd (snd c))
  | _, _ => false
  end.
Definition files_prop (c:list chrom * (list line * list line)) : bool :=
  let chrs := fst c in let mfile := fst (snd c) in let efile := snd (snd c) in
  same_lines (filter nongene efile) (flat_map emit_model (all_refs chrs ++ all_novel chrs)) &&
  same_lines (filter nongene mfile) (flat_map emit_model (all_known_printed chrs ++ all_novel chrs)) &&
  Bool.eqb (nodup_z (tids efile)) (nodup_z (map t_id (all_refs chrs ++ all_novel chrs))) &&
  gene_lines_complete efile && genes_once efile && genes_once mfile &&
  forallb (fun ch => printer_life_ok (c_calls ch) (filter (fun l => line_chr l =? g_chr (c_gi ch)) mfile)) chrs.

(* ---- the model's own output passes gene_line_ok *)
Lemma split_first_spec g : forall pre x post, (forall call, In call pre -> valid_of g (snd call) = []) -> valid_of g (snd x) <> [] ->
  split_first g (pre ++ x :: post) = Some (pre, x, post).
Proof. induction pre as [|c t IH]; intros x post Hp Hx; cbn [app split_first].
  - destruct (valid_of g (snd x)); [congruence|reflexivity].
  - rewrite (Hp c (or_introl eq_refl)). rewrite (IH x post (fun call H => Hp call (or_intror H)) Hx). reflexivity. Qed.
Lemma contains_b_spec a b : contains_b a b = true <-> contains a b.
Proof. unfold contains_b, contains. lia. Qed.
Lemma bool_eqb_iff (a b:bool) : (a = true <-> b = true) -> Bool.eqb a b = true.
Proof. destruct a, b; cbn; intuition. Qed.

Theorem printer_life_ok_model calls p ls : dumps [] calls = Ok (p, ls) -> printer_life_ok calls ls = true.
Proof. intros H. unfold printer_life_ok. apply forallb_forall. intros l Hl. destruct l as [c s e st g n| |]; try reflexivity.
  destruct (gene_contains_all_transcripts_iff _ _ _ _ _ _ _ _ _ H Hl) as (pre & gi & storage & post & E & Hpre & Hv & Hr & _ & I1 & Hn & I2).
  unfold gene_line_ok. rewrite E at 1. rewrite (split_first_spec g pre (gi, storage) post Hpre Hv).
  rewrite <- Hr. unfold iv_eqb at 1. cbn [fst snd]. rewrite !Z.eqb_refl. cbn [andb]. rewrite <- Hn, Z.eqb_refl. cbn [andb].
  apply andb_true_iff. split; apply bool_eqb_iff.
  - rewrite !forallb_forall. split.
    + intros K call Hc. apply forallb_forall. intros m Hm. apply contains_b_spec. refine (proj1 I1 _ call m Hc Hm).
      intros c' s' e' st' t L. specialize (K _ L). cbn in K. rewrite Z.eqb_refl in K. cbn in K. apply contains_b_spec in K. exact K.
    + intros K l' L. destruct l' as [|c' s' e' st' g' t|]; try reflexivity. destruct (g' =? g) eqn:G; [|reflexivity]. cbn [negb orb].
      assert (g' = g) by lia. subst g'. apply contains_b_spec. unfold contains. cbn [fst snd]. refine (proj2 I1 _ c' s' e' st' t L).
      intros call m Hc Hm. specialize (K call Hc). rewrite forallb_forall in K. apply contains_b_spec, K, Hm.
  - rewrite Z.eqb_eq, forallb_forall. rewrite I2. split.
    + intros K call Hc. rewrite (K call Hc). reflexivity.
    + intros K call Hc. specialize (K call Hc). destruct (valid_of g (snd call)); [reflexivity|discriminate]. Qed.
Print Assumptions printer_life_ok_model.

Example files_check_example :
  let chrs := [ex_c10; ex_c2] in
  match all_ok (map models_part chrs), all_ok (map extended_part chrs) with
  | Some mls, Some els => files_check (chrs, (merged sfx_models chrs mls, merged sfx_extended chrs els)) && files_prop (chrs, (merged sfx_models chrs mls, merged sfx_extended chrs els)) && Nat.eqb (length (merged sfx_extended chrs els)) 14
  | _, _ => false end = true.
Proof. vm_compute. reflexivity. Qed.
