(* C01: executable model of src/junction_comparator.py JunctionComparator.compare_junctions, faithful to the code as it is.

     phase 1  the two-pointer sweep over read junctions R and isoform junctions I that marks junctions matched within delta (1),
              contradictory (-1) or untouched (0) and collects the contradictory region pairs           (sweep, term_read, term_iso)
     phase 2  typing of every contradictory pair (compare_overlapping_contradictional_regions, classify_skipped_exons,
              classify_single_intron_alternation, are_suspicious_introns), flanking events (add_extra_out_exon_events),
              mono-exonic reads (get_mono_exon_subtype)

   The loop-free interval predicates are the TRANSLATED ones (gen/Prims.v); event classes, costs and the tolerance presets come
   from gen/Tables.v.  Both are regenerated from the source on every check.  Events are the records of Corrector.v (C14), so that
   C14's hypothesis on event regions can be discharged here.
   Domain: junction lists as IsoQuant builds them (start <= end, sorted, at least one base between consecutive junctions, inside
   their region); list accesses are total (default (0,0)) - on that domain the code raises no exception, which the unit
   correspondence confirms by mapping every exception of the real function to `Raises`.
   Float tests are re-expressed exactly over Q (DESIGN Appendix B); `known` stands for are_known_introns (profile of the selected
   read junctions against the gene's introns), instantiated with the C19 model of the overlapping-profile constructor. *)
From Coq Require Import ZArith NArith QArith Qround List Bool Lia ZifyBool.
From IQ Require Import CorrSupport Intervals.
From IQ.gen Require Import Tables Prims.
Require IQ.Corrector.
Import ListNotations. Open Scope Z_scope.

Notation event := Corrector.event.
Notation mkev := Corrector.mkev.
Notation e_type := Corrector.e_type.
Notation e_iso := Corrector.e_iso.
Notation e_read := Corrector.e_read.

(* ---------------------------------------------------------------- parameters (isoquant.py set_matching_options) *)
Record params := mkP {
  p_delta : Z; p_max_intron_shift : Z; p_max_missed_exon_len : Z; p_max_fake_terminal_exon_len : Z;
  p_susp_abs : Z; p_susp_rel : Q;
  p_minor_ext : Z; p_major_ext : Z; p_min_abs_exon_overlap : Z; p_min_rel_exon_overlap : Q; p_micro_intron_length : Z;
  p_max_intron_abs_diff : Z; p_max_intron_rel_diff : Q; p_apa_delta : Z; p_minimal_exon_overlap : Z }.

(* the options a preset yields; `d` is the effective delta (the preset's unless --delta is given) *)
Definition params_of_delta (s:MSP) (d:Z) : params :=
  mkP d (ms_max_intron_shift s) (ms_max_missed_exon_len s) (ms_max_fake_terminal_exon_len s)
      (ms_max_suspicious_intron_abs_len s) (ms_max_suspicious_intron_rel_len s)
      MO_minor_exon_extension MO_major_exon_extension MO_min_abs_exon_overlap MO_min_rel_exon_overlap MO_micro_intron_length
      (MO_max_intron_abs_diff s) MO_max_intron_rel_diff MO_apa_delta MO_minimal_exon_overlap.
Definition params_of (s:MSP) : params := params_of_delta s (ms_delta s).

(* SupplementaryMatchConstants *)
Definition absent : Z := SMC_absent_position.
Definition undefined_region : iv := (SMC_undefined_position, SMC_undefined_position).
Definition extra_left_region : iv := (SMC_extra_left_mod_position, SMC_extra_left_mod_position).
Definition extra_right_region : iv := (SMC_extra_right_mod_position, SMC_extra_right_mod_position).
Definition ev0 (t:MES) : event := mkev t undefined_region undefined_region.      (* MatchEvent(t) *)

(* ---------------------------------------------------------------- junction lists *)
Definition J (l:list iv) (k:Z) : iv := nthz l k (0,0).
Definition lenz {A} (l:list A) : Z := Z.of_nat (length l).
(* exon number k (0..n) of a region with n junctions: get_exon(region, l, k) = get_preceding_exon_from_junctions(region, l, k)
   = get_following_exon_from_junctions(region, l, k - 1); position -1 of the Python calls is n resp. n - 1 *)
Definition exon (reg:iv) (l:list iv) (k:Z) : iv :=
  ((if k =? 0 then fst reg else snd (J l (k - 1)) + 1), (if k =? lenz l then snd reg else fst (J l k) - 1)).
(* [l[k] for k in range(a, b + 1)] for 0 <= a *)
Definition seg (l:list iv) (a b:Z) : list iv := firstn (Z.to_nat (b - a + 1)) (skipn (Z.to_nat a) l).
Fixpoint zrange_n (a:Z) (m:nat) : list Z := match m with O => [] | Datatypes.S m' => a :: zrange_n (a + 1) m' end.
Definition zrange (a b:Z) : list Z := zrange_n a (Z.to_nat (b - a)).       (* range(a, b) *)
Definition zsum (l:list Z) : Z := fold_left Z.add l 0.

(* Python's round() of a rational: half to even *)
Definition qround (q:Q) : Z :=
  let f := Qfloor (q + (1 # 2)) in
  if Qeq_bool (q + (1 # 2)) (inject_Z f) && Z.odd f then f - 1 else f.

(* ---------------------------------------------------------------- phase 1: the sweep *)
Notation cpair := (iv * iv)%type.       (* (read region, isoform region) of a contradictory area; a first component may be `absent` *)
Definition flush (cur:option cpair) : list cpair := match cur with Some c => [c] | None => [] end.

Section Sweep.
Variable delta : Z.
Variables rreg ireg : iv.

(* "check terminating regions", read side: rm is the mark the head already carries; ipos is the final isoform position *)
Fixpoint term_read (R:list iv) (rpos ipos rm:Z) : list Z * list cpair :=
  match R with
  | [] => ([], [])
  | r :: R' =>
    if py_overlaps ireg r then
      let '(rp, ps) := term_read R' (rpos + 1) ipos 0 in
      (-1 :: rp, (if rm =? -1 then [] else [((rpos, rpos), (absent, ipos))]) ++ ps)
    else (rm :: map (fun _ => 0) R', [])
  end.
Fixpoint term_iso (I:list iv) (rpos ipos im:Z) : list Z * list cpair :=
  match I with
  | [] => ([], [])
  | i :: I' =>
    if py_overlaps rreg i then
      let '(ip, ps) := term_iso I' rpos (ipos + 1) 0 in
      (-1 :: ip, (if im =? -1 then [] else [((absent, rpos), (ipos, ipos))]) ++ ps)
    else (im :: map (fun _ => 0) I', [])
  end.
(* after the main loop at least one list is exhausted, so the read position the isoform loop uses is the one reached *)
Definition terminal (R I:list iv) (rpos ipos rm im:Z) (cur:option cpair) : list Z * list Z * list cpair :=
  let '(rp, ps1) := term_read R rpos ipos rm in
  let '(ip, ps2) := term_iso I rpos ipos im in
  (rp, ip, flush cur ++ ps1 ++ ps2).

(* main loop.  R, I: the junctions from the current positions on; rm, im: marks already put on the two heads (0 or -1);
   cur: current_contradictory_region.  Result: marks of R, marks of I, the pairs appended from here on (in order). *)
Fixpoint sweep (fuel:nat) (R I:list iv) (rpos ipos rm im:Z) (cur:option cpair) {struct fuel} : list Z * list Z * list cpair :=
  match R, I with
  | r :: R', i :: I' =>
    match fuel with
    | O => ([], [], [])
    | Datatypes.S f =>
      if py_equal_ranges i r delta then
        let '(rp, ip, ps) := sweep f R' I' (rpos + 1) (ipos + 1) 0 0 None in
        (1 :: rp, 1 :: ip, flush cur ++ ps)
      else if py_overlaps i r then
        let cur' := match cur with
                    | None => ((rpos, rpos), (ipos, ipos))
                    | Some c => ((fst (fst c), rpos), (fst (snd c), ipos)) end in
        if snd r <? snd i then
          let '(rp, ip, ps) := sweep f R' I (rpos + 1) ipos 0 (-1) (Some cur') in (-1 :: rp, ip, ps)
        else
          let '(rp, ip, ps) := sweep f R I' rpos (ipos + 1) (-1) 0 (Some cur') in (rp, -1 :: ip, ps)
      else if py_left_of i r then
        let flag := (0 <? rpos) || py_overlaps rreg i in
        let newp := if flag && negb (im =? -1) then [((absent, rpos), (ipos, ipos))] else [] in
        let '(rp, ip, ps) := sweep f R I' rpos (ipos + 1) rm 0 None in
        (rp, (if flag then -1 else im) :: ip, flush cur ++ newp ++ ps)
      else
        let flag := (0 <? ipos) || py_overlaps ireg r in
        let newp := if flag && negb (rm =? -1) then [((rpos, rpos), (absent, ipos))] else [] in
        let '(rp, ip, ps) := sweep f R' I (rpos + 1) ipos 0 im None in
        ((if flag then -1 else rm) :: rp, ip, flush cur ++ newp ++ ps)
    end
  | _, _ => terminal R I rpos ipos rm im cur
  end.

Definition phase1 (R I:list iv) : list Z * list Z * list cpair := sweep (length R + length I) R I 0 0 0 0 None.
End Sweep.

(* ---------------------------------------------------------------- phase 2: typing *)
Section Typing.
Variable P : params.
Variable known : list iv -> bool.        (* are_known_introns on the selected read junctions *)
Variables (rreg:iv) (R:list iv) (ireg:iv) (I:list iv).
Let delta := p_delta P.
Let nR := lenz R.
Let nI := lenz I.

Definition suspicious (a b:Z) : bool :=
  let s := seg R a b in
  if existsb (fun j => py_interval_len j >? p_susp_abs P) s then false
  else
    let ti := total s in
    let te := zsum (map (fun k => py_interval_len (exon rreg R k)) (zrange a (b + 1))) + py_interval_len (exon rreg R (b + 1)) in
    Qle_bool (inject_Z ti) (inject_Z te * p_susp_rel P).

Definition similar_len (diff rl il:Z) : bool :=
  (diff <=? p_max_intron_abs_diff P) && Qle_bool (inject_Z diff) (p_max_intron_rel_diff P * inject_Z (Z.max rl il)).

Definition min_overlap (iso_exon:iv) : Z :=
  Z.max 1 (Z.min (p_min_abs_exon_overlap P) (qround (p_min_rel_exon_overlap P * inject_Z (py_interval_len iso_exon)))).

Definition is_novel_alt (t:MES) : bool :=
  MES_eqb t MES_intron_alternation_novel || MES_eqb t MES_alt_left_site_novel || MES_eqb t MES_alt_right_site_novel.

Definition single_alternation (rc ic:Z) (similar rknown:bool) : MES :=
  let r := J R rc in let i := J I ic in
  if similar then
    (if Z.abs (fst i - fst r) <=? p_max_intron_shift P then MES_intron_shift
     else if rknown then MES_intron_migration else MES_intron_alternation_novel)
  else
    let e0 := if rknown then MES_intron_alternation_known else MES_intron_alternation_novel in
    let e1 :=
      if Z.abs (fst i - fst r) <=? delta then
        (if py_overlaps_at_least (exon rreg R (rc + 1)) (exon ireg I (ic + 1)) (min_overlap (exon ireg I (ic + 1)))
         then (if rknown then MES_alt_right_site_known else MES_alt_right_site_novel) else e0)
      else if Z.abs (snd i - snd r) <=? delta then
        (if py_overlaps_at_least (exon rreg R rc) (exon ireg I ic) (min_overlap (exon ireg I ic))
         then (if rknown then MES_alt_left_site_known else MES_alt_left_site_novel) else e0)
      else e0 in
    if is_novel_alt e1 && suspicious rc rc then MES_intron_retention else e1.

Definition skipped_exons (ia ib:Z) (similar rknown similar_bounds:bool) : option MES :=
  let tel := zsum (map (fun k => fst (J I (k + 1)) - snd (J I k) + 1) (zrange ia ib)) in
  if similar then
    Some (if tel <=? p_max_missed_exon_len P then MES_exon_misalignment else if rknown then MES_exon_merge_known else MES_exon_merge_novel)
  else if similar_bounds then Some (if rknown then MES_exon_skipping_known else MES_exon_skipping_novel)
  else None.

(* both regions present *)
Definition both_present (ra rb ia ib:Z) : MES :=
  let rl := total (seg R ra rb) in let il := total (seg I ia ib) in
  let diff := Z.abs (rl - il) in
  let similar := similar_len diff rl il in
  let rknown := known (seg R ra rb) in
  let surrounded := py_overlaps (exon rreg R ra) (exon ireg I ia) && py_overlaps (exon rreg R (rb + 1)) (exon ireg I (ib + 1)) in
  let rls := fst (J R ra) in let rrs := snd (J R rb) in let ils := fst (J I ia) in let irs := snd (J I ib) in
  let sim_l := Z.abs (rls - ils) <=? 2 * delta in
  let sim_r := Z.abs (rrs - irs) <=? 2 * delta in
  let sim_b := sim_l && sim_r in
  let read_inside := py_contains_approx (ils, irs) (rls, rrs) delta in
  let iso_inside := py_contains_approx (rls, rrs) (ils, irs) delta in
  let ev : option MES :=
    if surrounded && (rb =? ra) && (ib =? ia) then Some (single_alternation ra ia similar rknown)
    else if (1 <? nR) && (rb =? ra) && (ib =? ia) &&
            (((ra =? 0) && (ia =? 0) && sim_r) || ((ra =? nR - 1) && (ia =? nI - 1) && sim_l)) then
      let '(re, ie) := if (ra =? 0) && (ia =? 0) then (exon rreg R 0, exon ireg I 0) else (exon rreg R nR, exon ireg I nI) in
      Some (if Z.abs (py_interval_len re - py_interval_len ie) <? 2 * delta
            then (if ra =? 0 then MES_terminal_exon_misalignment_left else MES_terminal_exon_misalignment_right)
            else if rknown then MES_terminal_exon_shift_known else MES_terminal_exon_shift_novel)
    else if surrounded && sim_b && ((rb - ra =? ib - ia) && (1 <=? ib - ia)) && (diff <=? 2 * delta) then
      Some (if rknown then MES_mutually_exclusive_exons_known else MES_mutually_exclusive_exons_novel)
    else if surrounded && read_inside && (rb =? ra) && (ia <? ib) then skipped_exons ia ib similar rknown sim_b
    else if surrounded && sim_b && (ra <? rb) && (ib =? ia) then
      Some (if rknown then MES_exon_gain_known else if suspicious ra rb then MES_intron_retention else MES_exon_gain_novel)
    else if surrounded && similar && iso_inside && (ra <? rb) && (ib =? ia) then
      Some (if rknown then MES_exon_detach_known else MES_exon_detach_novel)
    else None in
  match ev with
  | Some t => t
  | None => if rknown then MES_alternative_structure_known
            else if surrounded && suspicious ra rb then MES_intron_retention else MES_alternative_structure_novel
  end.

(* compare_overlapping_contradictional_regions *)
Definition type_pair (c:cpair) : option event :=
  let '((ra, rb), (ia, ib)) := c in
  if ra =? absent then
    let oi := J I ia in
    if py_contains rreg oi then
      Some (mkev (if (py_interval_len oi <=? p_micro_intron_length P) && py_contains_well_inside (exon rreg R rb) oi (p_minimal_exon_overlap P)
                  then MES_fake_micro_intron_retention else MES_intron_retention) (ia, ib) (ra, rb))
    else if py_overlaps_at_least rreg oi (p_minor_ext P) then
      Some (mkev (if fst oi <=? fst rreg then MES_incomplete_intron_retention_left else MES_incomplete_intron_retention_right) (ia, ib) (ra, rb))
    else None
  else if ia =? absent then
    if known (seg R ra rb) then Some (mkev MES_extra_intron_known (ia, ib) (ra, rb))
    else if suspicious ra rb then Some (mkev MES_none_ (ia, ib) (ra, rb))
    else if (ra =? 0) && (py_interval_len (exon rreg R 0) <=? p_max_fake_terminal_exon_len P) then
      Some (mkev MES_fake_terminal_exon_left extra_left_region (ra, rb))
    else if (rb =? nR - 1) && (py_interval_len (exon rreg R nR) <=? p_max_fake_terminal_exon_len P) then
      Some (mkev MES_fake_terminal_exon_right extra_right_region (ra, rb))
    else Some (mkev MES_extra_intron_novel (ia, ib) (ra, rb))
  else Some (mkev (both_present ra rb ia ib) (ia, ib) (ra, rb)).

Definition detect (ps:list cpair) : list event :=
  flat_map (fun c => match type_pair c with Some e => [e] | None => [] end) ps.

(* add_extra_out_exon_events: the events appended for a read-side profile rp *)
Fixpoint flank_left (pos:Z) (rp:list Z) : list event :=       (* rp = profile from position pos on *)
  match rp with
  | v :: t => if v =? 0 then mkev MES_extra_intron_flanking_left extra_left_region (pos, pos) :: flank_left (pos + 1) t else []
  | [] => []
  end.
Fixpoint flank_right (pos:Z) (rrp:list Z) : list event :=     (* rrp = reversed profile from position pos downwards *)
  match rrp with
  | v :: t => if v =? 0 then mkev MES_extra_intron_flanking_right extra_right_region (pos, pos) :: flank_right (pos - 1) t else []
  | [] => []
  end.
Definition extra_out (rp:list Z) : list event :=
  let all0 := forallb (Z.eqb 0) rp in
  let first_left := fst (J R 0) <? fst ireg in
  let extra_left := (hd 1 rp =? 0) && (negb all0 || first_left) in
  let extra_right := (last rp 1 =? 0) && (negb all0 || negb first_left) in
  (if extra_left then
     if py_interval_len (exon rreg R 0) <=? p_max_fake_terminal_exon_len P
     then mkev MES_fake_terminal_exon_left extra_left_region (0, 0) :: flank_left 1 (tl rp)
     else flank_left 0 rp
   else []) ++
  (if extra_right then
     if py_interval_len (exon rreg R nR) <=? p_max_fake_terminal_exon_len P
     then mkev MES_fake_terminal_exon_right extra_right_region (nR - 1, nR - 1) :: flank_right (nR - 2) (tl (rev rp))
     else flank_right (nR - 1) (rev rp)
   else []).

(* get_mono_exon_subtype *)
Fixpoint mono_events (k:Z) (l:list iv) : list event :=
  match l with
  | [] => []
  | i :: t =>
    (if py_contains rreg i then
       [mkev (if (py_interval_len i <=? p_micro_intron_length P) && py_contains_well_inside rreg i (p_minimal_exon_overlap P)
              then MES_fake_micro_intron_retention else MES_unspliced_intron_retention) (k, k) (absent, 0)]
     else if py_overlaps_at_least rreg i (p_minor_ext P) && negb (py_contains i rreg) then
       [mkev (if fst i <=? fst rreg then MES_incomplete_intron_retention_left else MES_incomplete_intron_retention_right) (k, k) (absent, 0)]
     else []) ++ mono_events (k + 1) t
  end.
Definition mono_exon_subtype : list event :=
  match I with
  | [] => [ev0 MES_mono_exon_match]
  | _ => match mono_events 0 I with [] => [ev0 MES_mono_exonic] | evs => evs end
  end.

Definition has_m1 (l:list Z) : bool := existsb (Z.eqb (-1)) l.

(* the events computed from the outcome of phase 1 *)
Definition events_of (ph:list Z * list Z * list cpair) : list event :=
  let '(rp, ip, ps) := ph in
  let ev1 := if has_m1 rp || has_m1 ip then detect ps else [] in
  let ev2 := if (hd 1 rp =? 0) || (last rp 1 =? 0) then ev1 ++ extra_out rp else ev1 in
  match ev2 with [] => [ev0 MES_none_] | _ => ev2 end.

Definition compare_junctions : list event :=
  match R with
  | [] => mono_exon_subtype
  | _ => events_of (phase1 delta rreg ireg R I)
  end.
End Typing.

(* ---------------------------------------------------------------- are_known_introns, with the C19 model of the profile constructor *)
(* JunctionComparator's constructor: comparator equal_ranges(delta), absence_condition contains, mapped_region (0,0), no polyA *)
Definition known_introns (delta:Z) (K:list iv) (gene_region:iv) (sel:list iv) : bool :=
  match overlapping_profile (fun r k => py_equal_ranges r k delta) py_contains 0 K gene_region sel (0, 0) (-1) (-1) with
  | Some (_, rp, _) => forallb (Z.eqb 1) rp
  | None => false
  end.

Definition compare_junctions_gene (P:params) (K:list iv) (gene_region:iv) (rreg:iv) (R:list iv) (ireg:iv) (I:list iv) : list event :=
  compare_junctions P (known_introns (p_delta P) K gene_region) rreg R ireg I.

(* ---------------------------------------------------------------- comparison helpers for the correspondence *)
Definition event_eqb (a b:event) : bool :=
  MES_eqb (e_type a) (e_type b) && iv_eqb (e_iso a) (e_iso b) && iv_eqb (e_read a) (e_read b).
Definition events_eqb := list_eqb event_eqb.
Definition cpair_eqb (a b:cpair) : bool := iv_eqb (fst a) (fst b) && iv_eqb (snd a) (snd b).

(* ---------------------------------------------------------------- decidable specification of the comparator's output *)
(* the read junctions are, within delta, the isoform junctions number k .. k+|R|-1 *)
Fixpoint chain_eq (delta:Z) (R I:list iv) : bool :=
  match R, I with
  | [], _ => true
  | r :: R', i :: I' => py_equal_ranges i r delta && chain_eq delta R' I'
  | _ :: _, [] => false
  end.
(* ... the read region does not reach the isoform junctions before and after them (the read ends lie in the flanking exons),
   and the first read exon is at least delta long (otherwise a tiny preceding isoform junction can be delta-equal to the first
   read junction and the sweep pairs them) *)
Definition chain_at (delta:Z) (rreg:iv) (R I:list iv) (k:nat) : bool :=
  chain_eq delta R (skipn k I) &&
  forallb (fun i => snd i <? fst rreg) (firstn k I) &&
  forallb (fun i => snd rreg <? fst i) (skipn (k + length R) I) &&
  (fst rreg + delta <=? fst (hd (0,0) R)).
Definition chain_match (delta:Z) (rreg:iv) (R I:list iv) : bool :=
  existsb (chain_at delta rreg R I) (seq 0 (Datatypes.S (length I))).

Definition read_region_ok (n:Z) (r:iv) : bool :=
  iv_eqb r undefined_region ||
  (if fst r =? absent then (0 <=? snd r) && (snd r <=? n) else (0 <=? fst r) && (fst r <=? snd r) && (snd r <? n)).
Definition iso_region_ok (n:Z) (r:iv) : bool :=
  iv_eqb r undefined_region || iv_eqb r extra_left_region || iv_eqb r extra_right_region ||
  (if fst r =? absent then (0 <=? snd r) && (snd r <=? n) else (0 <=? fst r) && (fst r <=? snd r) && (snd r <? n)).
Definition regions_ok (nR nI:Z) (evs:list event) : bool :=
  forallb (fun e => read_region_ok nR (e_read e) && iso_region_ok nI (e_iso e)) evs.

(* read junction number k is covered by the read region of some event *)
Definition covered (evs:list event) (k:Z) : bool :=
  existsb (fun e => let r := e_read e in negb (fst r =? absent) && negb (iv_eqb r undefined_region) && (fst r <=? k) && (k <=? snd r)) evs.
Fixpoint flagged_from (delta:Z) (ireg:iv) (I:list iv) (evs:list event) (k:Z) (R:list iv) : bool :=
  match R with
  | [] => true
  | r :: R' => (negb (py_overlaps ireg r) || existsb (fun i => py_equal_ranges i r delta) I || covered evs k) && flagged_from delta ireg I evs (k + 1) R'
  end.
Definition junctions_wf (l:list iv) : bool :=
  forallb (fun j => fst j <=? snd j) l && forallb (fun p => snd (fst p) + 1 <? fst (snd p)) (combine l (tl l)).
Definition inside_region (reg:iv) (l:list iv) : bool := forallb (fun j => (fst reg <? fst j) && (snd j <? snd reg)) l.

Definition cj_spec (P:params) (rreg:iv) (R:list iv) (ireg:iv) (I:list iv) (evs:list event) : bool :=
  let d := p_delta P in
  regions_ok (lenz R) (lenz I) evs &&
  (negb (junctions_wf R && junctions_wf I && inside_region rreg R && inside_region ireg I) ||
   match R with
   | [] => true
   | _ => (negb (chain_match d rreg R I) || events_eqb evs [ev0 MES_none_]) &&
          (negb (forallb (fun i => d <=? py_interval_len i) I) || flagged_from d ireg I evs 0 R)
   end).
