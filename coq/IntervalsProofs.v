(* C19: proofs about the models of Intervals.v (which call the TRANSLATED predicates of gen/Prims.v). *)
From Coq Require Import ZArith NArith List Bool Lia ZifyBool.
From IQ.gen Require Import Prims.
From IQ Require Import CorrSupport Intervals IntervalsSpec.
Import ListNotations. Open Scope Z_scope.

(* ---------- pairwise intersection sum ---------- *)
Definition isect (a b:iv) : Z := Z.max 0 (Z.min (snd a) (snd b) - Z.max (fst a) (fst b) + 1).
Fixpoint row (a:iv) (B:list iv) : Z := match B with [] => 0 | b::t => isect a b + row a t end.
Fixpoint pairs (A B:list iv) : Z := match A with [] => 0 | a::t => row a B + pairs t B end.

Lemma pairs_nil_r A : pairs A [] = 0. Proof. induction A; simpl; auto. Qed.
Lemma pairs_cons_r A b B : pairs A (b::B) = pairs A [b] + pairs A B.
Proof. induction A as [|a t IH]; simpl; [reflexivity|]. rewrite IH. lia. Qed.

Lemma sd_tail a t : sd (a::t) -> sd t.
Proof. cbn [sd]. tauto. Qed.
Lemma sd_after a B : sd (a::B) -> Forall (fun b => snd a < fst b) B.
Proof. revert a; induction B as [|b t IH]; intros a H; constructor.
 - simpl in H. lia.
 - simpl in H. destruct H as (Ha & Hab & Hb & Hbt & Ht).
   assert (Hs: sd (b::t)) by (simpl; auto). specialize (IH b Hs).
   eapply Forall_impl; [|exact IH]. simpl. intros; lia. Qed.
Lemma row_zero a B : Forall (fun b => snd a < fst b) B -> row a B = 0.
Proof. induction 1; simpl; [reflexivity|]. rewrite IHForall. unfold isect. lia. Qed.
Lemma col_zero b A : Forall (fun a => snd b < fst a) A -> pairs A [b] = 0.
Proof. induction 1; simpl; [reflexivity|]. rewrite IHForall. unfold isect. lia. Qed.
Lemma Forall_lt_trans (x y:Z) (l:list iv) : x <= y -> Forall (fun c => y < fst c) l -> Forall (fun c => x < fst c) l.
Proof. intros H F. eapply Forall_impl; [|exact F]. simpl; intros; lia. Qed.

Lemma total_cons a t : total (a :: t) = ilen a + total t.
Proof. cbn [total]. unfold py_interval_len, ilen. lia. Qed.
Lemma total_nonneg_sd l : sd l -> 0 <= total l.
Proof. induction l as [|a t IH]; [simpl; lia|]. rewrite total_cons. intros (H1 & _ & H3). specialize (IH H3). unfold ilen. lia. Qed.

(* ---------- the intersection sweep of read_coverage_fraction ---------- *)
Theorem inter_f_pairs : forall n A B, (length A + length B <= n)%nat -> sd A -> sd B -> inter_f n A B = pairs A B.
Proof.
  induction n as [|n IH]; intros A B Hn HA HB.
  - destruct A; [reflexivity|simpl in Hn; lia].
  - destruct A as [|a A']; [reflexivity|]. destruct B as [|b B']; [simpl; rewrite pairs_nil_r; reflexivity|].
    cbn [inter_f].
    pose proof (sd_after _ _ HA) as FA. pose proof (sd_after _ _ HB) as FB.
    assert (HA': sd A') by (simpl in HA; tauto). assert (HB': sd B') by (simpl in HB; tauto).
    assert (Ha: fst a <= snd a) by (simpl in HA; tauto). assert (Hb: fst b <= snd b) by (simpl in HB; tauto).
    simpl in Hn.
    destruct (py_overlaps a b) eqn:Eo; unfold py_overlaps in Eo.
    + destruct (snd b <? snd a) eqn:E1.
      * rewrite IH by (simpl; auto; lia). rewrite (pairs_cons_r (a::A') b B'). cbn [pairs row].
        rewrite (col_zero b A') by (eapply Forall_lt_trans; [|exact FA]; lia).
        unfold isect. lia.
      * rewrite IH by (simpl; auto; lia). cbn [pairs row].
        rewrite (row_zero a B') by (eapply Forall_lt_trans; [|exact FB]; lia).
        unfold isect. lia.
    + destruct (py_left_of b a) eqn:E1; unfold py_left_of in E1.
      * rewrite IH by (simpl; auto; lia). rewrite (pairs_cons_r (a::A') b B'). cbn [pairs row].
        rewrite (col_zero b A') by (eapply Forall_lt_trans; [|exact FA]; lia).
        unfold isect. lia.
      * rewrite IH by (simpl; auto; lia). cbn [pairs row].
        rewrite (row_zero a B') by (eapply Forall_lt_trans; [|exact FB]; lia).
        unfold isect. lia.
Qed.

Theorem coverage_fraction_spec R I : sd R -> sd I -> R <> [] -> coverage_fraction R I = Ok (pairs R I, total R).
Proof. intros HR HI Hne. unfold coverage_fraction.
  assert (0 < total R).
  { destruct R as [|a t]; [congruence|]. rewrite total_cons. simpl in HR. destruct HR as (H1 & _ & H3).
    pose proof (total_nonneg_sd t H3). unfold ilen. lia. }
  replace (total R =? 0) with false by lia. rewrite inter_f_pairs by (auto; lia). reflexivity. Qed.

(* ---------- the two accumulators of jaccard_similarity, with the `included` flags ---------- *)
Definition inv (A B:list iv) (i1 i2:bool) : Prop :=
  (i1 = true -> i2 = true -> False) /\
  (i1 = true -> match A, B with a::_, b::_ => fst a <= fst b | _, _ => True end) /\
  (i2 = true -> match A, B with a::_, b::_ => fst b <= fst a | _, _ => True end).

Theorem jac_f_spec : forall n A B i1 i2, (length A + length B < n)%nat -> sd A -> sd B -> inv A B i1 i2 ->
  jac_f n A B i1 i2 = Some (pairs A B, rest i1 A + rest i2 B - pairs A B).
Proof.
  induction n as [|n IH]; intros A B i1 i2 Hn HA HB (Hx & H1 & H2); [lia|].
  destruct A as [|a A'].
  { cbn [jac_f pairs]. f_equal. f_equal. unfold rest. destruct i1; simpl; lia. }
  destruct B as [|b B'].
  { cbn [jac_f]. rewrite pairs_nil_r. f_equal. f_equal. unfold rest. destruct i2; simpl; lia. }
  cbn [jac_f].
  pose proof (sd_after _ _ HA) as FA. pose proof (sd_after _ _ HB) as FB.
  assert (HA': sd A') by (simpl in HA; tauto). assert (HB': sd B') by (simpl in HB; tauto).
  assert (Ha: fst a <= snd a) by (simpl in HA; tauto). assert (Hb: fst b <= snd b) by (simpl in HB; tauto).
  assert (HhA: match A' with [] => True | a' :: _ => snd a < fst a' end) by (simpl in HA; tauto).
  assert (HhB: match B' with [] => True | b' :: _ => snd b < fst b' end) by (simpl in HB; tauto).
  simpl in Hn.
  destruct (py_overlaps a b) eqn:Eo; unfold py_overlaps in Eo.
  - assert (Hnb: i1 && i2 = false) by (destruct i1, i2; try reflexivity; exfalso; apply Hx; reflexivity). rewrite Hnb.
    destruct (snd b <? snd a) eqn:E1.
    + rewrite IH; [| simpl; lia | assumption | assumption |].
      * rewrite (pairs_cons_r (a::A') b B'). cbn [pairs row].
        rewrite (col_zero b A') by (eapply Forall_lt_trans; [|exact FA]; lia).
        f_equal. f_equal; [unfold isect; lia|].
        unfold rest, isect; cbn [tl]; rewrite !total_cons; unfold ilen.
        destruct i1, i2; simpl; try (exfalso; apply Hx; reflexivity);
          try specialize (H1 eq_refl); try specialize (H2 eq_refl); simpl in *; lia.
      * repeat split; try discriminate. intros _. destruct B' as [|b' B'']; [exact I|].
        destruct i1, i2; try (exfalso; apply Hx; reflexivity);
          try specialize (H1 eq_refl); try specialize (H2 eq_refl); simpl in *; lia.
    + rewrite IH; [| simpl; lia | assumption | assumption |].
      * cbn [pairs row]. rewrite (row_zero a B') by (eapply Forall_lt_trans; [|exact FB]; lia).
        f_equal. f_equal; [unfold isect; lia|].
        unfold rest, isect; cbn [tl]; rewrite !total_cons; unfold ilen.
        destruct i1, i2; simpl; try (exfalso; apply Hx; reflexivity);
          try specialize (H1 eq_refl); try specialize (H2 eq_refl); simpl in *; lia.
      * repeat split; try discriminate. intros _. destruct A' as [|a' A'']; [exact I|]. simpl in *; lia.
  - destruct (py_left_of b a) eqn:E1; unfold py_left_of in E1.
    + assert (i1 = false) by (destruct i1; [specialize (H1 eq_refl); simpl in H1; lia|reflexivity]). subst i1.
      rewrite IH; [| simpl; lia | assumption | assumption |].
      * rewrite (pairs_cons_r (a::A') b B'). cbn [pairs row].
        rewrite (col_zero b A') by (eapply Forall_lt_trans; [|exact FA]; lia).
        f_equal. f_equal; [unfold isect; lia|].
        unfold rest, isect; cbn [tl]; rewrite !total_cons; unfold ilen. destruct i2; simpl; lia.
      * repeat split; try discriminate.
    + assert (i2 = false) by (destruct i2; [specialize (H2 eq_refl); simpl in H2; lia|reflexivity]). subst i2.
      rewrite IH; [| simpl; lia | assumption | assumption |].
      * cbn [pairs row]. rewrite (row_zero a B') by (eapply Forall_lt_trans; [|exact FB]; lia).
        f_equal. f_equal; [unfold isect; lia|].
        unfold rest, isect; cbn [tl]; rewrite !total_cons; unfold ilen. destruct i1; simpl; lia.
      * repeat split; try discriminate.
Qed.

Lemma col_bound b : forall (L:list iv) (lo:Z), sd L -> (forall x, In x L -> lo <= fst x) -> fst b <= snd b ->
  pairs L [b] <= Z.max 0 (snd b - Z.max lo (fst b) + 1).
Proof. induction L as [|x L' IHL]; intros lo HS Hlo Hb; [simpl; lia|].
  cbn [pairs row]. assert (HS': sd L') by (simpl in HS; tauto).
  pose proof (sd_after _ _ HS) as FA.
  assert (H: forall y, In y L' -> snd x + 1 <= fst y) by (intros y Hy; rewrite Forall_forall in FA; specialize (FA y Hy); lia).
  specialize (IHL (snd x + 1) HS' H Hb). pose proof (Hlo x (or_introl eq_refl)). simpl in HS. unfold isect. lia. Qed.
Lemma col_le_len A b : sd A -> fst b <= snd b -> pairs A [b] <= ilen b.
Proof. intros HS Hb. destruct A as [|a t]; [simpl; unfold ilen; lia|].
  pose proof (col_bound b (a::t) (fst a) HS) as G.
  assert (H: forall x, In x (a::t) -> fst a <= fst x).
  { intros x [->|Hx]; [lia|]. pose proof (sd_after _ _ HS) as FA. rewrite Forall_forall in FA. specialize (FA x Hx). simpl in HS. lia. }
  specialize (G H Hb). unfold ilen. lia. Qed.
Lemma pairs_le_total_r A : sd A -> forall B, sd B -> pairs A B <= total B.
Proof. intros HA. induction B as [|b B' IH]; intros HB; [rewrite pairs_nil_r; simpl; lia|].
  rewrite pairs_cons_r, total_cons. assert (HB': sd B') by (simpl in HB; tauto).
  specialize (IH HB'). pose proof (col_le_len A b HA ltac:(simpl in HB; tauto)). lia. Qed.
Lemma row_col x Y : row x Y = pairs Y [x].
Proof. induction Y as [|y Y' IHY]; [reflexivity|]. cbn [row pairs]. rewrite IHY. unfold isect. lia. Qed.
Lemma pairs_sym : forall X Y, pairs X Y = pairs Y X.
Proof. induction X as [|x X' IHX]; intros Y; [simpl; rewrite pairs_nil_r; reflexivity|].
  cbn [pairs]. rewrite IHX. rewrite (pairs_cons_r Y x X'), row_col. lia. Qed.
Lemma total_pos l : sd l -> l <> [] -> 0 < total l.
Proof. intros HS Hne. destruct l as [|a t]; [congruence|]. rewrite total_cons. simpl in HS. destruct HS as (H1 & _ & H3).
  pose proof (total_nonneg_sd t H3). unfold ilen. lia. Qed.

(* Jaccard: the pair accumulated is (sum of pairwise intersections, |A| + |B| - that); the asserts never fire on separated lists *)
Theorem jaccard_spec A B : sd A -> sd B -> (A <> [] \/ B <> []) ->
  jaccard A B = Ok (pairs A B, total A + total B - pairs A B) /\ 0 < total A + total B - pairs A B.
Proof. intros HA HB Hne. unfold jaccard.
  rewrite jac_f_spec; [| lia | assumption | assumption | repeat split; discriminate].
  unfold rest.
  assert (Hpos: 0 < total A + total B - pairs A B).
  { pose proof (pairs_le_total_r A HA B HB) as H1. pose proof (pairs_le_total_r B HB A HA) as H2. rewrite pairs_sym in H2.
    pose proof (total_nonneg_sd A HA). pose proof (total_nonneg_sd B HB).
    destruct Hne as [Hne|Hne]; [pose proof (total_pos A HA Hne)|pose proof (total_pos B HB Hne)]; lia. }
  split; [|exact Hpos].
  replace (total A + total B - pairs A B =? 0) with false by lia. reflexivity. Qed.

(* ---------- prefix sum ---------- *)
Fixpoint below (l:list iv) (pos:Z) : Z := match l with [] => 0 | a::t => Z.max 0 (Z.min (snd a) (pos - 1) - fst a + 1) + below t pos end.
Lemma below_zero l pos : sd l -> (match l with a::_ => pos <= fst a | [] => True end) -> below l pos = 0.
Proof. induction l as [|a t IH]; intros HS H; [reflexivity|]. cbn [below].
  pose proof (sd_after _ _ HS) as FA. assert (HS': sd t) by (simpl in HS; tauto).
  rewrite IH; [lia|exact HS'|]. destruct t as [|b t']; [exact Logic.I|]. inversion FA; subst. simpl in HS. lia. Qed.
Lemma sitp_loop_below l pos : sd l -> sitp_loop l pos = below l pos.
Proof. induction l as [|a t IH]; intros HS; [reflexivity|]. cbn [sitp_loop below].
  assert (HS': sd t) by (simpl in HS; tauto). assert (Ha: fst a <= snd a) by (simpl in HS; tauto).
  destruct (fst a <? pos) eqn:E.
  - rewrite IH by exact HS'. destruct ((fst a <=? pos) && (pos <=? snd a)) eqn:E2; lia.
  - rewrite (below_zero t pos HS'); [lia|]. destruct t as [|b t']; [exact Logic.I|]. simpl in HS. lia. Qed.
Lemma below_all l pos : sd l -> (forall a, In a l -> snd a < pos) -> below l pos = total l.
Proof. induction l as [|a t IH]; intros HS H; [reflexivity|]. cbn [below]. rewrite total_cons.
  assert (HS': sd t) by (simpl in HS; tauto). rewrite IH; [|exact HS'|intros x Hx; apply H; right; exact Hx].
  pose proof (H a (or_introl eq_refl)). simpl in HS. unfold ilen. lia. Qed.
Lemma sd_last_max l a : sd (a::l) -> forall x, In x (a::l) -> snd x <= snd (last (a::l) a).
Proof. revert a. induction l as [|b t IH]; intros a HS x Hx.
  - destruct Hx as [->|[]]. simpl. lia.
  - assert (HS': sd (b::t)) by (eapply sd_tail; exact HS).
    change (last (a :: b :: t) a) with (last (b :: t) a).
    assert (E: last (b::t) a = last (b::t) b) by (clear; revert b; induction t; intros; [reflexivity|]; cbn [last] in *; destruct t; auto).
    rewrite E. destruct Hx as [->|Hx].
    + specialize (IH b HS' b (or_introl eq_refl)). simpl in HS. lia.
    + apply IH; assumption. Qed.

(* sum_intervals_to_point returns the number of covered positions strictly below pos (as a sum over the disjoint intervals) *)
Theorem sum_to_point_spec l pos : sd l -> l <> [] -> sum_to_point l pos = Ok (below l pos).
Proof. intros HS Hne. destruct l as [|a t]; [congruence|]. unfold sum_to_point. f_equal.
  destruct (pos <=? fst a) eqn:E1.
  - symmetry. apply below_zero; [exact HS|lia].
  - destruct (pos >? snd (last (a :: t) a)) eqn:E2.
    + symmetry. apply below_all; [exact HS|]. intros x Hx. pose proof (sd_last_max t a HS x Hx). lia.
    + apply sitp_loop_below, HS. Qed.

(* ---------- junctions / exons ---------- *)
Fixpoint mono (l:list iv) : Prop :=
  match l with [] => True | a::t => fst a <= snd a /\ match t with [] => True | b::_ => fst a <= fst b end /\ mono t end.
Lemma mono_lower a t : mono (a::t) -> Forall (fun b => fst a <= fst b) t.
Proof. revert a; induction t as [|b t IH]; intros a H; constructor.
 - simpl in H. lia.
 - simpl in H. destruct H as (_ & Hab & Hb). specialize (IH b Hb). eapply Forall_impl; [|exact IH]. simpl; intros; lia. Qed.
Lemma jfb_lower b t : mono (b::t) -> Forall (fun e => fst b < fst e) (jfb (b::t)).
Proof. revert b; induction t as [|c t IH]; intros b Hm; [constructor|].
  cbn [jfb]. simpl in Hm. destruct Hm as (Hb & Hbc & Hc & Hct & Hmt).
  assert (Hmc: mono (c::t)) by (simpl; auto).
  apply Forall_app. split.
  - destruct (snd b + 1 <? fst c); constructor; [simpl; lia|constructor].
  - specialize (IH c Hmc). eapply Forall_impl; [|exact IH]. simpl. intros e He. lia. Qed.
Lemma sd_cons_forall e l : fst e <= snd e -> Forall (fun x => snd e < fst x) l -> sd l -> sd (e::l).
Proof. intros He Hf Hs. simpl. split; [exact He|]. split; [|exact Hs]. destruct l; [exact Logic.I|]. inversion Hf; assumption. Qed.
Theorem jfb_sd : forall a t, mono t -> Forall (fun b => fst a <= fst b) t -> sd (jfb (a::t)).
Proof. intros a t; revert a; induction t as [|b t IH]; intros a Hm Hf; [exact Logic.I|].
  cbn [jfb]. simpl in Hm. destruct Hm as (Hb & Hbt & Hmt).
  assert (Hmb: mono (b::t)) by (simpl; auto).
  specialize (IH b Hmt (mono_lower b t Hmb)).
  destruct (snd a + 1 <? fst b) eqn:E; cbn [app]; [|exact IH].
  apply sd_cons_forall; [simpl; lia| |exact IH].
  pose proof (jfb_lower b t Hmb) as L.
  eapply Forall_impl; [|exact L]. simpl. intros e He. lia. Qed.
(* exons built from ANY well-formed, start-ordered intron list are well-formed, strictly increasing and disjoint *)
Theorem get_exons_wf r introns : mono introns ->
  Forall (fun i => fst r - 1 <= fst i /\ fst i <= snd r + 1) introns -> fst r <= snd r + 2 ->
  sd (get_exons r introns).
Proof. intros Hm Hf Hr. unfold get_exons. apply jfb_sd.
  - clear Hr. induction introns as [|i t IH]; [simpl; lia|].
    inversion Hf; subst. simpl in Hm. destruct Hm as (Hi & Hit & Hmt). specialize (IH Hmt H2).
    cbn [app]. simpl. split; [exact Hi|]. split; [|exact IH].
    destruct t as [|j t']; cbn [app]; [simpl; lia|exact Hit].
  - apply Forall_app. split; [eapply Forall_impl; [|exact Hf]; simpl; intros; lia|constructor; [simpl; lia|constructor]]. Qed.

(* junctions -> exons -> the same blocks, for blocks separated by at least one base *)
Fixpoint gappedP (l:list iv) : Prop :=
  match l with [] => True | a::t => fst a <= snd a /\ match t with [] => True | b::_ => snd a + 1 < fst b end /\ gappedP t end.
Lemma jfb_gapped_cons a b t : gappedP (a::b::t) -> jfb (a::b::t) = (snd a + 1, fst b - 1) :: jfb (b::t).
Proof. intros H. cbn [jfb]. simpl in H. replace (snd a + 1 <? fst b) with true by lia. reflexivity. Qed.
Lemma jfb_cons2 a b t : jfb (a::b::t) = (if snd a + 1 <? fst b then [(snd a + 1, fst b - 1)] else []) ++ jfb (b::t).
Proof. reflexivity. Qed.
Lemma jfb_head_fst x x' y L : jfb ((x, y) :: L) = jfb ((x', y) :: L).
Proof. destruct L; reflexivity. Qed.
Lemma last_cons_default {A} (b:A) t a : last (b::t) a = last (b::t) b.
Proof. revert b; induction t as [|c t IH]; intros b; [reflexivity|]. cbn [last] in *. destruct t; auto. Qed.
Lemma roundtrip_aux : forall t a s, gappedP (a::t) -> s <= snd a ->
  jfb ((s - 1, s - 1) :: jfb (a::t) ++ [(snd (last (a::t) a) + 1, snd (last (a::t) a) + 1)]) = (s, snd a) :: t.
Proof. induction t as [|b t IH]; intros a s H Hs.
  - cbn [jfb app last fst snd]. replace (s - 1 + 1 <? snd a + 1) with true by lia. cbn [app]. f_equal. f_equal; lia.
  - rewrite (jfb_gapped_cons a b t H). assert (Hg: gappedP (b::t)) by (cbn [gappedP] in H; cbn [gappedP]; tauto).
    change (last (a :: b :: t) a) with (last (b :: t) a). rewrite last_cons_default.
    rewrite <- app_comm_cons. rewrite jfb_cons2. cbn [fst snd].
    replace (s - 1 + 1 <? snd a + 1) with true by lia. cbn [app].
    f_equal; [f_equal; lia|].
    specialize (IH b (fst b) Hg ltac:(cbn [gappedP] in Hg; lia)).
    rewrite (jfb_head_fst (snd a + 1) (fst b - 1) (fst b - 1)). rewrite IH. destruct b; reflexivity. Qed.
Theorem junctions_exons_roundtrip blocks a : gappedP (a::blocks) ->
  get_exons (fst a, snd (last (a::blocks) a)) (jfb (a::blocks)) = a :: blocks.
Proof. intros H. unfold get_exons. cbn [fst snd].
  rewrite (roundtrip_aux blocks a (fst a) H) by (cbn [gappedP] in H; lia). destruct a; reflexivity. Qed.

(* ---------- binary searches: partial correctness (whatever index the loop returns satisfies the specification) ---------- *)
Lemma pyidx_nonneg {A} (l:list A) i x d : 0 <= i -> pyidx l i = Some x -> i < Z.of_nat (length l) /\ nthz l i d = x.
Proof. unfold pyidx, nthz. intros Hi H.
  destruct ((0 <=? i) && (i <? Z.of_nat (length l))) eqn:E.
  - split; [lia|]. apply nth_error_nth. exact H.
  - replace ((i <? 0) && (- Z.of_nat (length l) <=? i)) with false in H by lia. discriminate. Qed.

Theorem bs_loop_sound : forall fuel l pos ind step i, bs_loop fuel l pos ind step = Some i -> 0 <= i ->
  i + 1 < Z.of_nat (length l) /\ fst (nthz l i (0,0)) <= pos < fst (nthz l (i + 1) (0,0)).
Proof. induction fuel as [|f IH]; intros l pos ind step i H Hi; [discriminate|]. cbn [bs_loop] in H.
  destruct (pyidx l ind) as [a|] eqn:Ea; [|discriminate]. destruct (pyidx l (ind + 1)) as [b|] eqn:Eb; [|discriminate].
  destruct ((fst a <=? pos) && (pos <? fst b)) eqn:E.
  - inversion H; subst ind.
    destruct (pyidx_nonneg l i a (0,0) Hi Ea) as [_ Ha]. destruct (pyidx_nonneg l (i + 1) b (0,0) ltac:(lia) Eb) as [Hl Hb].
    rewrite Ha, Hb. lia.
  - destruct (pos <? fst a); eapply IH; eauto. Qed.

Theorem bsr_loop_sound : forall fuel l pos ind step i, bsr_loop fuel l pos ind step = Some i -> 1 <= i ->
  i < Z.of_nat (length l) /\ snd (nthz l (i - 1) (0,0)) < pos <= snd (nthz l i (0,0)).
Proof. induction fuel as [|f IH]; intros l pos ind step i H Hi; [discriminate|]. cbn [bsr_loop] in H.
  destruct (pyidx l (ind - 1)) as [a|] eqn:Ea; [|discriminate]. destruct (pyidx l ind) as [b|] eqn:Eb; [|discriminate].
  destruct ((snd a <? pos) && (pos <=? snd b)) eqn:E.
  - inversion H; subst ind.
    destruct (pyidx_nonneg l (i - 1) a (0,0) ltac:(lia) Ea) as [_ Ha]. destruct (pyidx_nonneg l i b (0,0) ltac:(lia) Eb) as [Hl Hb].
    rewrite Ha, Hb. lia.
  - destruct (pos >? snd b); eapply IH; eauto. Qed.
