(* C13: link between the counters and the C19 profile characterisation.
   1. the sweep model Intervals.overlapping_profile (gene side) equals, for EVERY start-sorted feature list and every read, the list of declarative
      per-feature values FeatureCounts.feat_value (Profile.value completed with tie elimination and polyA/polyT masking);
   2. under H1 (features longer than delta) and H2 (read features more than delta apart) the per-feature value is the clean statement:
      include iff contained within delta, exclude iff spanned without being contained. *)
From Coq Require Import ZArith NArith List Bool Lia ZifyBool.
From IQ.gen Require Import Prims.
From IQ Require Import CorrSupport Intervals IntervalsSpec Profile FeatureCounts.
Import ListNotations. Open Scope Z_scope.

Section Bridge.
Variable delta : Z.
Variable absent : iv -> iv -> bool.
Variable mapped : iv.
Notation cmpd := (FeatureCounts.eqd delta).
Notation ini0 := (FeatureCounts.ini absent mapped).

(* per-feature value and match index against the REMAINING read features, rpos = index of the first remaining one *)
Definition pv (k:iv) (R:list iv) (rpos:Z) : Z :=
  match reach k R rpos with
  | None => ini0 k
  | Some (i, r) => if snd k <? fst r then (if 0 <? i then -1 else ini0 k) else if cmpd r k then 1 else ini0 k
  end.
Definition mi (k:iv) (R:list iv) (rpos:Z) : option Z :=
  match reach k R rpos with Some (i, r) => if negb (snd k <? fst r) && cmpd r k then Some i else None | None => None end.
Fixpoint mlist (K R:list iv) (gpos rpos:Z) : list (Z * Z) :=
  match K with [] => [] | k :: K' => (match mi k R rpos with Some i => [(i, gpos)] | None => [] end) ++ mlist K' R (gpos + 1) rpos end.

Lemma pv0 (k:iv) (R:list iv) : pv k R 0 = pre_value delta absent mapped k R. Proof. reflexivity. Qed.
Lemma mi0 (k:iv) (R:list iv) : mi k R 0 = match_idx delta k R. Proof. reflexivity. Qed.

Lemma reach_drop (k k' r:iv) (R:list iv) (i:Z) : fst k <= fst k' -> snd r <? fst k = true -> reach k' (r :: R) i = reach k' R (i + 1).
Proof. intros H1 H2. cbn [reach]. replace (snd r <? fst k') with true by lia. reflexivity. Qed.
Lemma mlist_nil K : forall g i, mlist K [] g i = [].
Proof. induction K as [|k t IH]; intros g i; [reflexivity|]. cbn [mlist]. rewrite IH. reflexivity. Qed.
Lemma mlist_drop (k r:iv) (R:list iv) : forall K g i, Forall (fun k' => fst k <= fst k') K -> snd r <? fst k = true -> mlist K (r :: R) g i = mlist K R g (i + 1).
Proof. induction K as [|k' t IH]; intros g i HF H; [reflexivity|]. inversion HF; subst. cbn [mlist]. unfold mi. rewrite (reach_drop k k' r R i H2 H). rewrite IH by assumption. reflexivity. Qed.
Lemma pv_drop (k r:iv) (R K:list iv) (i:Z) : Forall (fun k' => fst k <= fst k') K -> snd r <? fst k = true -> map (fun k' => pv k' (r :: R) i) K = map (fun k' => pv k' R (i + 1)) K.
Proof. intros HF H. apply map_ext_in. intros k' Hk. rewrite Forall_forall in HF. unfold pv. rewrite (reach_drop k k' r R i (HF _ Hk) H). reflexivity. Qed.

(* the state machine of Intervals.v, gene side and match list, for every start-sorted K *)
Lemma ovs_char : forall fuel K R gpos rpos rv gacc racc m, starts_sorted K -> length rv = length R -> (length K + length R < fuel)%nat -> 0 <= rpos ->
  exists RP, ovs cmpd absent fuel mapped K (map ini0 K) gpos R rv rpos gacc racc m = Some (rev gacc ++ map (fun k => pv k R rpos) K, RP, m ++ mlist K R gpos rpos).
Proof.
  induction fuel as [|fuel IH]; intros K R gpos rpos rv gacc racc m HS HL HF Hr; [lia|].
  destruct K as [|k K'].
  - eexists. cbn [ovs map mlist]. rewrite !app_nil_r. reflexivity.
  - destruct R as [|r R'].
    + destruct rv; [|discriminate]. eexists. cbn [ovs map]. rewrite mlist_nil, !app_nil_r. change (pv k [] rpos) with (ini0 k).
      replace (map (fun k0 : iv => pv k0 [] rpos) K') with (map ini0 K') by (apply map_ext; reflexivity). reflexivity.
    + destruct rv as [|rvh rv']; [discriminate|]. change (map ini0 (k :: K')) with (ini0 k :: map ini0 K'). cbn [ovs].
      pose proof (starts_lower k K' HS) as HLow. assert (HS': starts_sorted K') by (simpl in HS; tauto).
      assert (HFk: Forall (fun k' => fst k <= fst k') (k :: K')) by (constructor; [lia|exact HLow]).
      destruct (snd r <? fst k) eqn:E1.
      * destruct (IH (k :: K') R' gpos (rpos + 1) rv' gacc ((if (rvh =? 0) && (0 <? gpos) then -1 else rvh) :: racc) m HS) as (RP & HRP); [simpl in HL; lia|simpl in *; lia|lia|].
        exists RP. change (map ini0 (k :: K')) with (ini0 k :: map ini0 K') in HRP. rewrite HRP.
        rewrite (pv_drop k r R' (k :: K') rpos HFk E1), (mlist_drop k r R' (k :: K') gpos rpos HFk E1). reflexivity.
      * assert (Rk: reach k (r :: R') rpos = Some (rpos, r)) by (cbn [reach]; rewrite E1; reflexivity).
        destruct (snd k <? fst r) eqn:E2; [|destruct (cmpd r k) eqn:E3].
        -- destruct (IH K' (r :: R') (gpos + 1) rpos (rvh :: rv') ((if 0 <? rpos then -1 else ini0 k) :: gacc) racc m HS') as (RP & HRP); [exact HL|simpl in *; lia|lia|].
           exists RP. rewrite HRP. cbn [rev map mlist]. unfold pv at 2, mi at 1. rewrite Rk, E2. cbn [negb andb app]. rewrite <- app_assoc. reflexivity.
        -- destruct (IH K' (r :: R') (gpos + 1) rpos (1 :: rv') (1 :: gacc) racc (m ++ [(rpos, gpos)]) HS') as (RP & HRP); [simpl in *; lia|simpl in *; lia|lia|].
           exists RP. rewrite HRP. cbn [rev map mlist]. unfold pv at 2, mi at 1. rewrite Rk, E2, E3. cbn [negb andb app]. rewrite <- !app_assoc. reflexivity.
        -- destruct (IH K' (r :: R') (gpos + 1) rpos (rvh :: rv') ((if absent mapped k then -1 else ini0 k) :: gacc) racc m HS') as (RP & HRP); [exact HL|simpl in *; lia|lia|].
           exists RP. rewrite HRP. cbn [rev map mlist]. unfold pv at 2, mi at 1. rewrite Rk, E2, E3. cbn [negb andb app]. rewrite <- app_assoc.
           replace (if absent mapped k then -1 else ini0 k) with (ini0 k) by (unfold FeatureCounts.ini; destruct (absent mapped k); reflexivity). reflexivity.
Qed.
End Bridge.

(* ------------------------------------------------------------------ tie elimination and masking *)
Lemma setz_nth : forall (l:list Z) i v j, nth_error (setz l i v) j = match nth_error l j with None => None | Some x => Some (if (i =? j)%nat then v else x) end.
Proof. induction l as [|x t IH]; intros i v j; [destruct i, j; reflexivity|]. destruct i as [|i], j as [|j]; cbn [setz nth_error]; try reflexivity.
  - destruct (nth_error t j); reflexivity.
  - rewrite IH. reflexivity. Qed.
Lemma fold_cond (c:Z * Z -> bool) : forall es g j,
  nth_error (fold_left (fun g e => if c e then setz g (Z.to_nat (snd e)) (-1) else g) es g) j =
  match nth_error g j with None => None | Some v => Some (if existsb (fun e => (Z.to_nat (snd e) =? j)%nat && c e) es then -1 else v) end.
Proof. induction es as [|e t IH]; intros g j; cbn [fold_left existsb]; [destruct (nth_error g j); reflexivity|]. rewrite IH. destruct (c e) eqn:E.
  - rewrite setz_nth. destruct (nth_error g j); [|reflexivity]. rewrite andb_true_r. destruct (Z.to_nat (snd e) =? j)%nat; cbn [orb]; [destruct (existsb _ t); reflexivity|reflexivity].
  - rewrite andb_false_r. reflexivity. Qed.
Lemma fold_min_lt (f:Z * Z -> Z) t : forall l b, fold_left (fun b x => Z.min b (f x)) l b < t <-> b < t \/ exists x, In x l /\ f x < t.
Proof. induction l as [|a l IH]; intros b; cbn [fold_left]; [split; [auto|intros [H|(x & [] & _)]; exact H]|]. rewrite IH. split.
  - intros [H|(x & Hx & Hf)]; [destruct (Z.min_spec b (f a)) as [(_ & E)|(_ & E)]; rewrite E in H; [left; exact H|right; exists a; split; [left; reflexivity|exact H]]|right; exists x; split; [right; exact Hx|exact Hf]].
  - intros [H|(x & [Hx|Hx] & Hf)]; [left; lia|subst; left; lia|right; exists x; auto]. Qed.
Lemma two_distinct {A} (a b:A) l : In a l -> In b l -> a <> b -> (2 <= length l)%nat.
Proof. destruct l as [|x [|y t]]; cbn [length In]; [tauto| |lia]. intros [H1|[]] [H2|[]] H; congruence. Qed.

Definition dd (K R:list iv) (x:Z * Z) : Z := match_delta (nthz R (fst x) (0, 0)) (nthz K (snd x) (0, 0)).
Definition econd (K R:list iv) (m:list (Z * Z)) (e:Z * Z) : bool :=
  let grp := filter (fun e' => fst e' =? fst e) m in
  let best := fold_left (fun b x => Z.min b (dd K R x)) grp (dd K R e) in
  (1 <? Z.of_nat (length grp)) && (best <? dd K R e).
Lemma elim_unfold K R m g : elim K R m g = fold_left (fun g e => if econd K R m e then setz g (Z.to_nat (snd e)) (-1) else g) m g.
Proof. reflexivity. Qed.
Lemma econd_char K R m e : In e m -> econd K R m e = existsb (fun x => (fst x =? fst e) && (dd K R x <? dd K R e)) m.
Proof. intros He. unfold econd. apply eq_iff_eq_true. rewrite andb_true_iff, existsb_exists, Z.ltb_lt, Z.ltb_lt, fold_min_lt. split.
  - intros (_ & [H|(x & Hx & Hf)]); [lia|]. apply filter_In in Hx. exists x. split; [tauto|]. lia.
  - intros (x & Hx & Hc). assert (Hx': In x (filter (fun e' => fst e' =? fst e) m)) by (apply filter_In; split; [exact Hx|lia]).
    assert (He': In e (filter (fun e' => fst e' =? fst e) m)) by (apply filter_In; split; [exact He|lia]).
    split; [|right; exists x; split; [exact Hx'|lia]]. assert (x <> e) by (intros ->; lia). pose proof (two_distinct x e _ Hx' He' H). lia. Qed.

Lemma nth_error_ext {A} : forall (l1 l2:list A), (forall j, nth_error l1 j = nth_error l2 j) -> l1 = l2.
Proof. induction l1 as [|a t IH]; intros [|b u] H; [reflexivity|specialize (H 0%nat); discriminate|specialize (H 0%nat); discriminate|].
  pose proof (H 0%nat) as H0. cbn in H0. inversion H0; subst. f_equal. apply IH. intros j. exact (H (S j)). Qed.

Section Bridge2.
Variable delta : Z.
Variable absent : iv -> iv -> bool.
Variable mapped : iv.

Lemma mlist_In (K R:list iv) : forall g0 i j, In (i, j) (mlist delta K R g0 0) <->
  g0 <= j /\ exists k, nth_error K (Z.to_nat (j - g0)) = Some k /\ mi delta k R 0 = Some i.
Proof. induction K as [|k0 t IH]; intros g0 i j; cbn [mlist].
  - split; [intros []|intros (_ & k & H & _); destruct (Z.to_nat (j - g0)); discriminate].
  - rewrite in_app_iff, IH. split.
    + intros [H|(H1 & k & H2 & H3)].
      * destruct (mi delta k0 R 0) as [i0|] eqn:E; [|destruct H]. destruct H as [H|[]]. inversion H; subst. split; [lia|]. exists k0. replace (j - j) with 0 by lia. split; [reflexivity|exact E].
      * split; [lia|]. exists k. split; [|exact H3]. replace (Z.to_nat (j - g0)) with (S (Z.to_nat (j - (g0 + 1)))) by lia. exact H2.
    + intros (H1 & k & H2 & H3). destruct (Z.eq_dec j g0) as [->|Hne].
      * left. replace (g0 - g0) with 0 in H2 by lia. cbn in H2. inversion H2; subst. rewrite H3. left. reflexivity.
      * right. split; [lia|]. exists k. split; [|exact H3]. replace (Z.to_nat (j - g0)) with (S (Z.to_nat (j - (g0 + 1)))) in H2 by lia. exact H2. Qed.

Lemma elim_value (K R:list iv) j k : nth_error K j = Some k ->
  nth_error (elim K R (mlist delta K R 0 0) (map (fun k => pv delta absent mapped k R 0) K)) j =
  Some (if demoted delta K R k then -1 else pre_value delta absent mapped k R).
Proof.
  intros Hk. set (m := mlist delta K R 0 0). rewrite elim_unfold, fold_cond, nth_error_map, Hk. cbn [option_map]. f_equal. rewrite pv0.
  assert (Hex: existsb (fun e => (Z.to_nat (snd e) =? j)%nat && econd K R m e) m = demoted delta K R k); [|rewrite Hex; reflexivity].
  apply eq_iff_eq_true. rewrite existsb_exists. unfold demoted. split.
  - intros ([i j'] & Hin & Hc). cbn [fst snd] in Hc. apply andb_true_iff in Hc. destruct Hc as (Hj & Hc). rewrite (econd_char K R m _ Hin) in Hc.
    apply existsb_exists in Hc. destruct Hc as ([i2 j2] & Hin2 & Hc2). cbn [fst snd] in Hc2. unfold m in Hin, Hin2. apply mlist_In in Hin, Hin2.
    destruct Hin as (Hj0 & k1 & Hn1 & Hm1). destruct Hin2 as (Hj2 & k2 & Hn2 & Hm2). rewrite Z.sub_0_r in Hn1, Hn2.
    assert (Z.to_nat j' = j) by lia. subst j. rewrite Hn1 in Hk. inversion Hk; subst k1. rewrite <- mi0, Hm1.
    apply existsb_exists. exists k2. split; [eapply nth_error_In; exact Hn2|]. rewrite <- mi0, Hm2. assert (i2 = i) by lia. subst i2. rewrite Z.eqb_refl. cbn [andb].
    unfold dd in Hc2. cbn [fst snd] in Hc2. unfold nthz at 2 4 in Hc2. rewrite (nth_error_nth _ _ _ Hn1), (nth_error_nth _ _ _ Hn2) in Hc2. lia.
  - rewrite <- mi0. destruct (mi delta k R 0) as [i|] eqn:Em; [|discriminate]. intros Hd. apply existsb_exists in Hd. destruct Hd as (k2 & Hk2 & Hc).
    rewrite <- mi0 in Hc. destruct (mi delta k2 R 0) as [i2|] eqn:Em2; [|discriminate]. apply andb_true_iff in Hc. destruct Hc as (Hi & Hlt). assert (i2 = i) by lia. subst i2.
    destruct (In_nth_error _ _ Hk2) as (j2 & Hn2).
    assert (HinE: In (i, Z.of_nat j) m) by (apply mlist_In; split; [lia|exists k; rewrite Z.sub_0_r, Nat2Z.id; auto]).
    assert (HinX: In (i, Z.of_nat j2) m) by (apply mlist_In; split; [lia|exists k2; rewrite Z.sub_0_r, Nat2Z.id; auto]).
    exists (i, Z.of_nat j). split; [exact HinE|]. cbn [fst snd]. rewrite Nat2Z.id, Nat.eqb_refl. cbn [andb]. rewrite (econd_char K R m _ HinE).
    apply existsb_exists. exists (i, Z.of_nat j2). split; [exact HinX|]. cbn [fst snd]. rewrite Z.eqb_refl. cbn [andb].
    unfold dd. cbn [fst snd]. unfold nthz at 2 4. rewrite !Nat2Z.id, (nth_error_nth _ _ _ Hk), (nth_error_nth _ _ _ Hn2). lia.
Qed.

Lemma elim_length K R : forall m g, length (elim K R m g) = length g.
Proof. intros m g. rewrite elim_unfold. generalize (econd K R m). intros c. revert g. induction m as [|e t IH]; intros g; [reflexivity|]. cbn [fold_left]. rewrite IH.
  destruct (c e); [|reflexivity]. generalize (Z.to_nat (snd e)). revert g. induction g as [|x u IHg]; intros [|n]; cbn [setz length]; try reflexivity. rewrite IHg. reflexivity. Qed.

Lemma mark_polya_map (f:iv -> Z) polya polyt : forall K, mark_polya delta K (map f K) polya polyt = map (fun k => if masked delta polya polyt k then -2 else f k) K.
Proof. unfold mark_polya. induction K as [|k t IH]; [reflexivity|]. cbn [map combine]. rewrite IH. f_equal. unfold masked.
  destruct (negb (polya =? -1) && (fst k >? polya + delta)); destruct (negb (polyt =? -1) && (snd k <? polyt - delta)); reflexivity. Qed.

(* the gene-side output of the sweep model, for every start-sorted feature list, read and polyA/polyT position *)
Theorem overlapping_gene_profile_char K gene_region R polya polyt : starts_sorted K ->
  exists rp rg, overlapping_profile (eqd delta) absent delta K gene_region R mapped polya polyt =
                Some (map (feat_value delta absent mapped K R polya polyt) K, rp, rg).
Proof.
  intros HS. unfold overlapping_profile.
  destruct (ovs_char delta absent mapped (S (length K + length R)) K R 0 0 (map (fun r => if absent gene_region r then -1 else 0) R) [] [] [] HS) as (RP & HRP);
    [rewrite map_length; reflexivity|lia|lia|].
  change (map (fun k => if absent mapped k then -1 else 0) K) with (map (ini absent mapped) K). rewrite HRP. cbn [rev app].
  assert (E: elim K R (mlist delta K R 0 0) (map (fun k => pv delta absent mapped k R 0) K) =
             map (fun k => if demoted delta K R k then -1 else pre_value delta absent mapped k R) K).
  { apply nth_error_ext. intros j. rewrite nth_error_map. destruct (nth_error K j) as [k|] eqn:Ek; cbn [option_map].
    - apply elim_value. exact Ek.
    - apply nth_error_None. rewrite elim_length, map_length. apply nth_error_None. exact Ek. }
  rewrite E, mark_polya_map. do 2 eexists. reflexivity.
Qed.
End Bridge2.

(* the counting constructors: total on non-empty block lists, and equal to the declarative per-feature values *)
Theorem gene_profile_char kd d absd K gr blocks polya polyt : starts_sorted K -> blocks <> [] ->
  gene_profile kd d absd K gr blocks polya polyt = Some (map (rec_value kd d absd K blocks polya polyt) K).
Proof.
  intros HS Hb. unfold gene_profile, rec_value. destruct blocks as [|b0 t]; [congruence|].
  destruct (overlapping_gene_profile_char d (kind_absent kd absd) (rec_mapped kd d (b0 :: t)) K gr (rec_features kd (b0 :: t)) polya polyt HS) as (rp & rg & H).
  rewrite H. reflexivity.
Qed.
Print Assumptions gene_profile_char.

(* ------------------------------------------------------------------ the clean statement under H1 / H2 *)
Lemma forallb_false_existsb {A} (f:A -> bool) : forall l, forallb f l = false -> existsb (fun x => negb (f x)) l = true.
Proof. induction l as [|x t IH]; cbn [forallb existsb]; [discriminate|]. destruct (f x); cbn [andb negb orb]; [exact IH|reflexivity]. Qed.

Section Clean.
Variable delta : Z.
Variable absent : iv -> iv -> bool.
Variable mapped : iv.
Hypothesis Hd : 0 <= delta.
Definition wfR (R:list iv) : Prop := Forall (fun r => fst r <= snd r) R.

Lemma H2_after : forall t a, wfR (a :: t) -> H2 delta (a :: t) = true -> Forall (fun x => snd a + delta < fst x) t.
Proof. induction t as [|b t IH]; intros a W H; constructor.
  - cbn [H2] in H. lia.
  - cbn [H2] in H. apply andb_true_iff in H. destruct H as (Hab & Hb). inversion W; subst. inversion H2; subst.
    specialize (IH b H2 Hb). eapply Forall_impl; [|exact IH]. cbn. intros x Hx. lia. Qed.
Lemma H2_tail a t : H2 delta (a :: t) = true -> H2 delta t = true.
Proof. destruct t; [reflexivity|]. cbn [H2]. intros H. apply andb_true_iff in H. tauto. Qed.

Lemma reach_spec (k:iv) : forall R i0 i r, reach k R i0 = Some (i, r) ->
  exists n, i = i0 + Z.of_nat n /\ nth_error R n = Some r /\ (snd r <? fst k) = false.
Proof. induction R as [|a t IH]; intros i0 i r H; cbn [reach] in H; [discriminate|]. destruct (snd a <? fst k) eqn:E.
  - destruct (IH _ _ _ H) as (n & Hi & Hn & Hs). exists (S n). split; [lia|]. split; [exact Hn|exact Hs].
  - inversion H; subst. exists 0%nat. split; [lia|]. split; [reflexivity|exact E]. Qed.
Lemma reach_at (k:iv) : forall R i0 n r, wfR R -> H2 delta R = true -> nth_error R n = Some r -> fst r <= fst k + delta -> (snd r <? fst k) = false ->
  reach k R i0 = Some (i0 + Z.of_nat n, r).
Proof. induction R as [|a t IH]; intros i0 n r W H Hn Hf Hs; [destruct n; discriminate|]. destruct n as [|n]; cbn [nth_error] in Hn; cbn [reach].
  - inversion Hn; subst. rewrite Hs. f_equal. f_equal. lia.
  - pose proof (H2_after t a W H) as HA. rewrite Forall_forall in HA. pose proof (HA r (nth_error_In _ _ Hn)).
    replace (snd a <? fst k) with true by lia. inversion W; subst. rewrite (IH (i0 + 1) n r H4 (H2_tail _ _ H) Hn Hf Hs). f_equal. f_equal. lia. Qed.

Lemma eqd_facts (r k:iv) : eqd delta r k = true -> delta < snd k - fst k + 1 -> fst r <= fst k + delta /\ (snd r <? fst k) = false /\ (snd k <? fst r) = false.
Proof. unfold eqd, py_equal_ranges. intros H L. lia. Qed.

Lemma in_gap_In (k:iv) : forall R, in_gap R k = true -> exists x, In x R /\ snd x < fst k.
Proof. induction R as [|a [|b t] IH]; cbn [in_gap]; try discriminate. intros H. apply orb_true_iff in H. destruct H as [H|H].
  - exists a. split; [left; reflexivity|lia].
  - destruct (IH H) as (x & Hx & Hl). exists x. split; [right; exact Hx|exact Hl]. Qed.
Lemma reach_ge (k:iv) R i0 i r : reach k R i0 = Some (i, r) -> i0 <= i.
Proof. intros H. destruct (reach_spec k R i0 i r H) as (n & Hi & _). lia. Qed.
Lemma in_gap_reach (k:iv) : fst k <= snd k -> forall R i0, wfR R -> H2 delta R = true ->
  (in_gap R k = true <-> exists i r, reach k R i0 = Some (i, r) /\ snd k < fst r /\ i0 < i).
Proof.
  intros Hk. induction R as [|a [|b t] IH]; intros i0 W H.
  - cbn. split; [discriminate|intros (i & r & Hc & _); discriminate].
  - cbn [in_gap reach]. split; [discriminate|]. intros (i & r & Hc & _ & Hi). destruct (snd a <? fst k); [discriminate|]. inversion Hc. lia.
  - assert (Wt: wfR (b :: t)) by (inversion W; assumption). pose proof (H2_tail _ _ H) as Ht. specialize (IH (i0 + 1) Wt Ht).
    pose proof (H2_after _ a W H) as HA. rewrite Forall_forall in HA.
    assert (Wb: fst b <= snd b) by (inversion Wt; assumption).
    change (in_gap (a :: b :: t) k) with ((snd a <? fst k) && (snd k <? fst b) || in_gap (b :: t) k).
    change (reach k (a :: b :: t) i0) with (if snd a <? fst k then reach k (b :: t) (i0 + 1) else Some (i0, a)).
    destruct (snd a <? fst k) eqn:Ea.
    + rewrite orb_true_iff, IH. cbn [andb]. split.
      * intros [Hb|(i & r & Hc & Hs & Hi)]; [|exists i, r; split; [exact Hc|split; [exact Hs|lia]]].
        exists (i0 + 1), b. cbn [reach]. replace (snd b <? fst k) with false by lia. split; [reflexivity|]. split; lia.
      * intros (i & r & Hc & Hs & Hi). destruct (Z.eq_dec i (i0 + 1)) as [->|Hne].
        -- left. cbn [reach] in Hc. destruct (snd b <? fst k) eqn:Eb; [apply reach_ge in Hc; lia|]. inversion Hc; subst. lia.
        -- right. exists i, r. split; [exact Hc|]. split; [exact Hs|]. pose proof (reach_ge _ _ _ _ _ Hc). lia.
    + cbn [andb orb]. split.
      * intros Hg. destruct (in_gap_In k _ Hg) as (x & Hx & Hl). pose proof (HA x Hx). unfold wfR in Wt. rewrite Forall_forall in Wt.
        pose proof (Wt x Hx). lia.
      * intros (i & r & Hc & _ & Hi). inversion Hc. lia.
Qed.

Lemma In_H1 K k : H1 delta K = true -> In k K -> delta < snd k - fst k + 1.
Proof. unfold H1. rewrite forallb_forall. intros H Hk. specialize (H k Hk). lia. Qed.

(* the value of a known feature against a read, in the clean form *)
Theorem value_clean K R polya polyt k : wfR R -> H2 delta R = true -> H1 delta K = true -> In k K ->
  feat_value delta absent mapped K R polya polyt k =
  if masked delta polya polyt k then -2
  else if matched (eqd delta) K R k then 1
  else if absent mapped k || in_gap R k || near delta R k then -1 else 0.
Proof.
  intros W HH2 HH1 Hk. unfold feat_value. destruct (masked delta polya polyt k); [reflexivity|].
  pose proof (In_H1 K k HH1 Hk) as Lk.
  destruct (near delta R k) eqn:En.
  - (* a read feature equals k within delta *)
    unfold near in En. apply existsb_exists in En. destruct En as (r & Hr & Er). destruct (In_nth_error _ _ Hr) as (n & Hn).
    destruct (eqd_facts r k Er Lk) as (F1 & F2 & F3).
    pose proof (reach_at k R 0 n r W HH2 Hn F1 F2) as Rk. rewrite Z.add_0_l in Rk.
    assert (Pk: pre_value delta absent mapped k R = 1) by (unfold pre_value; rewrite Rk, F3, Er; reflexivity).
    assert (Mk: match_idx delta k R = Some (Z.of_nat n)) by (unfold match_idx; rewrite Rk, F3, Er; reflexivity).
    assert (Nr: nthz R (Z.of_nat n) (0, 0) = r) by (unfold nthz; rewrite Nat2Z.id; apply nth_error_nth; exact Hn).
    (* matched = closest candidate of r ; demoted = not closest *)
    assert (Hm: matched (eqd delta) K R k = closest (eqd delta) K r k).
    { unfold matched. apply eq_iff_eq_true. rewrite existsb_exists. split.
      - intros (r' & Hr' & Hc). apply andb_true_iff in Hc. destruct Hc as (E' & C'). destruct (In_nth_error _ _ Hr') as (n' & Hn').
        destruct (eqd_facts r' k E' Lk) as (G1 & G2 & _). pose proof (reach_at k R 0 n' r' W HH2 Hn' G1 G2) as Rk'. rewrite Rk in Rk'. inversion Rk'; subst. exact C'.
      - intros C. exists r. split; [exact Hr|]. rewrite Er, C. reflexivity. }
    assert (Hdm: demoted delta K R k = negb (closest (eqd delta) K r k)).
    { unfold demoted. rewrite Mk, Nr. unfold closest. apply eq_iff_eq_true. rewrite negb_true_iff, existsb_exists. split.
      - intros (k' & Hk' & Hc). destruct (match_idx delta k' R) as [i'|] eqn:Em'; [|discriminate]. apply andb_true_iff in Hc. destruct Hc as (Hi & Hlt).
        unfold match_idx in Em'. destruct (reach k' R 0) as [[i2 r2]|] eqn:Er2; [|discriminate].
        destruct (negb (snd k' <? fst r2) && eqd delta r2 k') eqn:Ec2; [|discriminate]. inversion Em'; subst i2. apply andb_true_iff in Ec2. destruct Ec2 as (_ & E2).
        destruct (reach_spec k' R 0 i' r2 Er2) as (n2 & Hi2 & Hn2 & _). assert (n2 = n) by lia. subst n2. rewrite Hn in Hn2. inversion Hn2; subst r2.
        apply not_true_is_false. intros Hall. rewrite forallb_forall in Hall. specialize (Hall k' Hk'). rewrite E2 in Hall. cbn [negb orb] in Hall. lia.
      - intros Hnot. destruct (forallb _ K) eqn:Ef in Hnot; [discriminate|]. clear Hnot.
        pose proof (forallb_false_existsb _ _ Ef) as Hex.
        apply existsb_exists in Hex. destruct Hex as (k' & Hk' & Hc). rewrite negb_orb, negb_involutive in Hc. apply andb_true_iff in Hc. destruct Hc as (E' & Hlt).
        exists k'. split; [exact Hk'|]. destruct (eqd_facts r k' E' (In_H1 K k' HH1 Hk')) as (G1 & G2 & G3).
        pose proof (reach_at k' R 0 n r W HH2 Hn G1 G2) as Rk'. rewrite Z.add_0_l in Rk'. unfold match_idx. rewrite Rk', G3, E'. cbn [negb andb]. rewrite Z.eqb_refl. cbn [andb]. lia. }
    rewrite Hdm, Hm, Pk. destruct (closest (eqd delta) K r k); cbn [negb]; [reflexivity|]. rewrite !orb_true_r. reflexivity.
  - (* no read feature equals k within delta *)
    assert (Hall: forall r, In r R -> eqd delta r k = false).
    { intros r Hr. destruct (eqd delta r k) eqn:E; [|reflexivity]. exfalso. assert (near delta R k = true) by (apply existsb_exists; exists r; auto). congruence. }
    assert (Hm: matched (eqd delta) K R k = false).
    { unfold matched. apply not_true_is_false. intros H. apply existsb_exists in H. destruct H as (r & Hr & Hc). rewrite (Hall r Hr) in Hc. discriminate. }
    rewrite Hm, orb_false_r.
    assert (Wk: fst k <= snd k) by lia.
    pose proof (in_gap_reach k Wk R 0 W HH2) as IG.
    unfold demoted, match_idx, pre_value. destruct (reach k R 0) as [[i r]|] eqn:Er.
    + destruct (reach_spec k R 0 i r Er) as (n & Hi & Hn & _). rewrite (Hall r (nth_error_In _ _ Hn)), andb_false_r.
      destruct (snd k <? fst r) eqn:E1.
      * destruct (0 <? i) eqn:E2.
        -- replace (in_gap R k) with true; [rewrite orb_true_r; reflexivity|]. symmetry. apply IG. exists i, r. split; [reflexivity|]. split; lia.
        -- replace (in_gap R k) with false; [rewrite orb_false_r; reflexivity|]. symmetry. apply not_true_is_false. intros Hg. apply IG in Hg. destruct Hg as (i' & r' & Hc & _ & Hi'). inversion Hc; subst. lia.
      * replace (in_gap R k) with false; [rewrite orb_false_r; reflexivity|]. symmetry. apply not_true_is_false. intros Hg. apply IG in Hg. destruct Hg as (i' & r' & Hc & Hs & _). inversion Hc; subst. lia.
    + replace (in_gap R k) with false; [rewrite orb_false_r; reflexivity|]. symmetry. apply not_true_is_false. intros Hg. apply IG in Hg. destruct Hg as (i' & r' & Hc & _). discriminate.
Qed.
End Clean.
Print Assumptions value_clean.

(* ------------------------------------------------------------------ in terms of the two counting constructors *)
Definition Hreads (kd:kind) (d:Z) (blocks:list iv) : Prop := wfR (rec_features kd blocks) /\ H2 d (rec_features kd blocks) = true.

Theorem rec_value_clean kd d absd K blocks polya polyt k : 0 <= d -> Hreads kd d blocks -> H1 d K = true -> In k K ->
  rec_value kd d absd K blocks polya polyt k = clean_value kd d absd K blocks polya polyt k.
Proof. intros Hd (W & HH2) HH1 Hk. unfold rec_value, clean_value. apply value_clean; assumption. Qed.

(* include iff the read contains the feature within delta; exclude iff it spans it without containing it *)
Theorem include_iff_contains_within_delta kd d absd K blocks polya polyt k : 0 <= d -> Hreads kd d blocks -> H1 d K = true -> In k K ->
  (rec_value kd d absd K blocks polya polyt k = 1 <->
   masked d polya polyt k = false /\ matched (eqd d) K (rec_features kd blocks) k = true).
Proof. intros Hd HR HH1 Hk. rewrite (rec_value_clean kd d absd K blocks polya polyt k Hd HR HH1 Hk). unfold clean_value.
  destruct (masked d polya polyt k); [split; [discriminate|intros (H & _); discriminate]|].
  destruct (matched (eqd d) K (rec_features kd blocks) k); [split; auto|]. split; [|intros (_ & H); discriminate].
  destruct (kind_absent kd absd (rec_mapped kd d blocks) k || in_gap (rec_features kd blocks) k || near d (rec_features kd blocks) k); discriminate. Qed.
Theorem exclude_iff_spans_without kd d absd K blocks polya polyt k : 0 <= d -> Hreads kd d blocks -> H1 d K = true -> In k K ->
  (rec_value kd d absd K blocks polya polyt k = -1 <->
   masked d polya polyt k = false /\ matched (eqd d) K (rec_features kd blocks) k = false /\
   (kind_absent kd absd (rec_mapped kd d blocks) k = true \/ in_gap (rec_features kd blocks) k = true \/ near d (rec_features kd blocks) k = true)).
Proof. intros Hd HR HH1 Hk. rewrite (rec_value_clean kd d absd K blocks polya polyt k Hd HR HH1 Hk). unfold clean_value.
  destruct (masked d polya polyt k); [split; [discriminate|intros (H & _); discriminate]|].
  destruct (matched (eqd d) K (rec_features kd blocks) k); [split; [discriminate|intros (_ & H & _); discriminate]|].
  destruct (kind_absent kd absd (rec_mapped kd d blocks) k); cbn [orb]; [split; auto|].
  destruct (in_gap (rec_features kd blocks) k); cbn [orb]; [split; auto|].
  destruct (near d (rec_features kd blocks) k); [split; auto|]. split; [discriminate|]. intros (_ & _ & [H|[H|H]]); discriminate. Qed.

(* strict reading (without the `a farther candidate of a read feature` clause): needs that no other annotated feature is within 2 delta of k *)
Definition H3 (d:Z) (K:list iv) (k:iv) : bool := forallb (fun k' => iv_eqb k' k || negb (py_equal_ranges k' k (2 * d))) K.
Lemma near_matched d K R k : H3 d K k = true -> near d R k = true -> matched (eqd d) K R k = true.
Proof. unfold near, matched. intros HH3 Hn. apply existsb_exists in Hn. destruct Hn as (r & Hr & Er). apply existsb_exists. exists r. split; [exact Hr|]. rewrite Er. cbn [andb].
  unfold closest. apply forallb_forall. intros k' Hk'. unfold H3 in HH3. rewrite forallb_forall in HH3. specialize (HH3 k' Hk').
  destruct (eqd d r k') eqn:E'; [|reflexivity]. cbn [negb orb]. unfold eqd, py_equal_ranges in *. unfold iv_eqb in HH3. unfold match_delta. lia. Qed.
Theorem exclude_iff_spans_without_partial kd d absd K blocks polya polyt k : 0 <= d -> Hreads kd d blocks -> H1 d K = true -> In k K -> H3 d K k = true ->
  (rec_value kd d absd K blocks polya polyt k = -1 <->
   masked d polya polyt k = false /\ matched (eqd d) K (rec_features kd blocks) k = false /\
   (kind_absent kd absd (rec_mapped kd d blocks) k = true \/ in_gap (rec_features kd blocks) k = true)).
Proof. intros Hd HR HH1 Hk HH3. rewrite (exclude_iff_spans_without kd d absd K blocks polya polyt k Hd HR HH1 Hk). split.
  - intros (M & Hm & [H|[H|H]]); [auto|auto|]. rewrite (near_matched d K _ k HH3 H) in Hm. discriminate.
  - intros (M & Hm & [H|H]); auto. Qed.

(* ------------------------------------------------------------------ feature lists of a gene cluster are start-sorted *)
Fixpoint lsorted (l:list iv) : Prop := match l with a :: ((b :: _) as t) => iv_leb a b = true /\ lsorted t | _ => True end.
Lemma ivinsert_lsorted x : forall l, lsorted l -> lsorted (ivinsert x l).
Proof. induction l as [|a t IH]; intros H; [exact Logic.I|]. cbn [ivinsert]. destruct (iv_leb x a) eqn:E; [cbn [lsorted]; auto|].
  destruct t as [|b t']; [cbn [ivinsert lsorted]; split; [unfold iv_leb in *; lia|exact Logic.I]|].
  cbn [lsorted] in H. destruct H as (Hab & Ht). specialize (IH Ht). cbn [ivinsert] in *. destruct (iv_leb x b) eqn:E2; cbn [lsorted] in *; [split; [unfold iv_leb in *; lia|split; assumption]|split; assumption]. Qed.
Lemma ivsort_lsorted l : lsorted (ivsort l).
Proof. induction l as [|a t IH]; [exact Logic.I|]. cbn [ivsort]. apply ivinsert_lsorted. exact IH. Qed.
Lemma lsorted_starts : forall l, lsorted l -> starts_sorted l.
Proof. induction l as [|a [|b t] IH]; intros H; cbn [starts_sorted]; auto. cbn [lsorted] in H. destruct H as (Hab & Ht). split; [unfold iv_leb in Hab; lia|apply IH; exact Ht]. Qed.
Theorem exon_features_sorted isos : starts_sorted (exon_features isos).
Proof. apply lsorted_starts, ivsort_lsorted. Qed.

(* ------------------------------------------------------------------ counters fed by the constructors: the count of feature i is the number of reads ... *)
Definition rd := (Z * list iv * Z * Z)%type.        (* group, blocks, external polyA, external polyT *)
Definition read_call (kd:kind) (d absd:Z) (K:list iv) (gr:iv) (pm:list finfo) (ignore:bool) (na:Z) (r:rd) : call :=
  let '(g, b, pa, pt) := r in (match gene_profile kd d absd K gr b pa pt with Some p => p | None => [] end, pm, if ignore then na else g).
Definition count_reads (P:rd -> bool) (reads:list rd) : Z := Z.of_nat (length (filter P reads)).
Definition read_has (kd:kind) (d absd:Z) (K:list iv) (ignore:bool) (na g:Z) (k:iv) (v:Z) (r:rd) : bool :=
  let '(g', b, pa, pt) := r in ((if ignore then na else g') =? g) && (rec_value kd d absd K b pa pt k =? v).

Theorem counts_of_gene_cluster kd d absd chr isos id0 K gr reads ignore na st :
  starts_sorted K -> (forall r, In r reads -> snd (fst (fst r)) <> []) ->
  run_calls (init_state ignore na) (map (read_call kd d absd K gr (feature_properties d chr isos id0 K) ignore na) reads) = Some st ->
  forall i k g gid, nth_error K i = Some k -> gfind g (cs_groups st) = Some gid ->
    nget (id0 + Z.of_nat i + 1) gid (cs_incl st) = count_reads (read_has kd d absd K ignore na g k 1) reads /\
    nget (id0 + Z.of_nat i + 1) gid (cs_excl st) = count_reads (read_has kd d absd K ignore na g k (-1)) reads.
Proof.
  intros HS Hb Hrun i k g gid Hk Hg. set (pm := feature_properties d chr isos id0 K) in *.
  destruct (run_calls_tally _ _ _ (ginv_init ignore na) Hrun) as (_ & _ & _ & _ & _ & C). destruct (C (id0 + Z.of_nat i + 1) g gid Hg) as (C1 & C2).
  destruct (profile_position_is_feature d chr isos id0 K) as (_ & ND & Pos). destruct (Pos i k Hk) as (p & Hp & _ & _ & Hid). fold pm in ND, Hp.
  assert (Hall: forall c, In c (map (read_call kd d absd K gr pm ignore na) reads) -> if (fun _ : call => true) c then snd (fst c) = pm else forall f, In f (snd (fst c)) -> fi_id f <> fi_id p).
  { intros c Hc. apply in_map_iff in Hc. destruct Hc as ([[[g' b] pa] pt] & <- & _). reflexivity. }
  assert (Hrw: forall v, tally v (map (read_call kd d absd K gr pm ignore na) reads) (id0 + Z.of_nat i + 1) g = count_reads (read_has kd d absd K ignore na g k v) reads).
  { intros v. rewrite <- Hid. rewrite (tally_is_number_of_reads v i g pm p (fun _ => true) _ Hp ND Hall). clear - Hb HS Hk. unfold count_reads.
    induction reads as [|[[[g' b] pa] pt] t IH]; [reflexivity|]. cbn [map reads_with filter]. rewrite IH by (intros r Hr; apply Hb; right; exact Hr).
    unfold read_call. cbn [fst snd andb]. pose proof (Hb _ (or_introl eq_refl)) as Hne. cbn [fst snd] in Hne.
    rewrite (gene_profile_char kd d absd K gr b pa pt HS Hne), nth_error_map, Hk. cbn [option_map read_has].
    destruct ((if ignore then na else g') =? g); cbn [andb]; [|reflexivity]. destruct (rec_value kd d absd K b pa pt k =? v); cbn [length]; lia. }
  rewrite C1, C2, !Hrw. unfold init_state. cbn [cs_incl cs_excl nget]. split; lia.
Qed.
Print Assumptions counts_of_gene_cluster.
