(* C19: Intervals.preceding_exon is get_preceding_exon_from_junctions of src/common.py as regenerated into gen/Loops.v (tools/translate_loops.py, on every check):
   Python indexing with wrap-around as py_index, the exception-freedom condition as py_..._pre.  For all inputs, exceptions included. *)
From Coq Require Import ZArith NArith List Bool Lia ZifyBool.
From IQ.gen Require Import Prims Loops.
From IQ Require Import CorrSupport Intervals PyidxSupport.
Import ListNotations. Open Scope Z_scope.

Theorem preceding_exon_is_the_source reg J p :
  Intervals.preceding_exon reg J p =
  if negb (p <=? Z.of_nat (length J)) then Raises AssertionError
  else if py_get_preceding_exon_from_junctions_pre reg J p then Ok (py_get_preceding_exon_from_junctions reg J p) else Raises IndexError.
Proof. unfold preceding_exon, py_get_preceding_exon_from_junctions_pre, py_get_preceding_exon_from_junctions.
  rewrite (pyidx_spec J p (0, 0)), (pyidx_spec J (p - 1) (0, 0)).
  destruct (p <=? Z.of_nat (length J)); cbn [negb andb]; [|reflexivity].
  destruct (p =? 0).
  - destruct (p =? Z.of_nat (length J)); [reflexivity|]. destruct (py_index_ok J p); reflexivity.
  - destruct (py_index_ok J (p - 1)); cbn [andb]; [|reflexivity].
    destruct (p =? Z.of_nat (length J)); [reflexivity|]. destruct (py_index_ok J p); reflexivity. Qed.
