(* C04 - novel transcripts are evidence-backed, correctly labelled and non-redundant.

   Model of src/intron_graph.py (IntronCollector, IntronGraph) and of the novel-model part of
   src/graph_based_model_construction.py, faithful to the code as it is:

   1. an ABSTRACT TRANSITION SYSTEM over (pending read introns, vertex set, substitution map, discarded set, edges) whose steps are
      the mutators of IntronCollector / IntronGraph with their pre- and post-conditions:
        collect_introns                       -> init
        cluster_introns (three inline effects)-> AddVertex / ClusterSubst / ClusterDiscard
        IntronGraph.add_edge                  -> AddEdge           (single look-up in the correction map, as the code does)
        IntronGraph.collapse_vertex           -> Collapse          (rewires edges, then IntronCollector.add_substitute)
        IntronCollector.add_substitute        -> AddSubstitute
        IntronCollector.discard               -> Discard
        del outgoing_edges[v] / outgoing_edges[u] = set()  -> DropOut / CutOut
        IntronCollector.simplify_correction_map -> SimplifyMap     (a function of the state)
      Which vertex is collapsed into which (collapse_vertex_set, singleton dead ends, isolates) is NOT modelled: any sequence of
      steps is allowed; the theorems of GraphProofs.v hold for all of them.  [Snap] compares the state with a logged snapshot of the
      real objects and [Raw] is a mutation performed outside every known mutator: they make trace validation fail-closed.
   2. path threading (IntronPathProcessor.thread_introns) and get_known_spliced_isoforms;
   3. the decision sequence of construct_fl_isoforms as a total function [decide] (assigner verdict and canonical strands are inputs),
      StrandDetector.get_strand / get_clean_strand, select_reference_gene, nic/nnic typing;
   4. the model store (transcript_model_storage, transcript_read_ids, internal_counter) with save_assigned_read,
      delete_from_storage, assign_reads_to_models, the survival test of filter_transcripts and the structure of
      detect_similar_isoforms;
   5. the decidable output specification novel_ok of DESIGN Appendix E, evaluated on parsed output files. *)
From Coq Require Import ZArith NArith List Bool Lia ZifyBool.
From IQ Require Import Exons.
Import ListNotations. Open Scope Z_scope.

(* ------------------------------------------------------------------ finite sets of introns as lists *)
Definition iv_eqb (a b : iv) : bool := (fst a =? fst b) && (snd a =? snd b).
Definition mem (x : iv) (l : list iv) : bool := existsb (iv_eqb x) l.
Definition remove_iv (x : iv) (l : list iv) : list iv := filter (fun y => negb (iv_eqb x y)) l.
Definition subset (a b : list iv) : bool := forallb (fun x => mem x b) a.
Definition same_set (a b : list iv) : bool := subset a b && subset b a.

Definition pr_eqb (a b : iv * iv) : bool := iv_eqb (fst a) (fst b) && iv_eqb (snd a) (snd b).
Definition mem2 (x : iv * iv) (l : list (iv * iv)) : bool := existsb (pr_eqb x) l.
Definition same_set2 (a b : list (iv * iv)) : bool := forallb (fun x => mem2 x b) a && forallb (fun x => mem2 x a) b.

Fixpoint assoc (k : iv) (m : list (iv * iv)) : option iv :=
  match m with [] => None | (k', v) :: t => if iv_eqb k k' then Some v else assoc k t end.
Definition keys (m : list (iv * iv)) : list iv := map fst m.
(* IntronCollector.substitute / the look-ups of add_edge: ONE look-up *)
Definition subst1 (m : list (iv * iv)) (x : iv) : iv := match assoc x m with Some y => y | None => x end.

Fixpoint chain_eqb (a b : list iv) : bool :=
  match a, b with [] , [] => true | x :: s, y :: t => iv_eqb x y && chain_eqb s t | _, _ => false end.
Definition mem_chain (c : list iv) (l : list (list iv)) : bool := existsb (chain_eqb c) l.

(* ------------------------------------------------------------------ the abstract graph system *)
Record gstate := mkG {
  pend  : list iv;            (* collected read introns not yet seen by cluster_introns (with repetitions) *)
  vert  : list iv;            (* keys of clustered_introns *)
  smap  : list (iv * iv);     (* intron_correction_map, OLDEST entry first *)
  disc  : list iv;            (* discarded_introns *)
  edges : list (iv * iv) }.   (* (u, v) : v in outgoing_edges[u], introns only *)

(* a read as the graph sees it: (multimapper, corrected_introns) *)
Definition read := (bool * list iv)%type.
(* collect_introns: reads without introns and multimappers are skipped *)
Definition collected (reads : list read) : list (list iv) :=
  map snd (filter (fun r => negb (fst r) && negb (match snd r with [] => true | _ => false end)) reads).
Definition read_introns (reads : list read) : list iv := concat (collected reads).
Definition init (reads : list read) : gstate := mkG (read_introns reads) [] [] [] [].

Inductive op :=
| AddVertex (i : iv) | ClusterSubst (i s : iv) | ClusterDiscard (i : iv)
| AddEdge (a b : iv) | Collapse (a b : iv) | AddSubstitute (a b : iv) | Discard (i : iv)
| DropOut (v : iv) | CutOut (u : iv) | SimplifyMap
| Snap (V : list iv) (M : list (iv * iv)) (D : list iv) (E : list (iv * iv))
| Touch (i : iv)
| Raw.

(* the chain of substitutions applied in the order in which they were recorded; under the invariant (a substitute is a vertex when
   it is recorded, a key never is) this is the fixpoint `while subs in map: subs = map[subs]` of simplify_correction_map *)
Fixpoint resolve (m : list (iv * iv)) (x : iv) : iv :=
  match m with [] => x | (k, v) :: t => if iv_eqb x k then resolve t v else resolve t x end.

(* edges after collapse_vertex(a, b): predecessors of a now point to b, b inherits the successors of a; outgoing_edges[a] itself stays
   until it is deleted (DropOut) *)
Definition rename_edges (a b : iv) (E : list (iv * iv)) : list (iv * iv) :=
  map (fun e => if iv_eqb (snd e) a then (fst e, b) else e) E ++
  map (fun e => (b, snd e)) (filter (fun e => iv_eqb (fst e) a) E).

(* simplify_correction_map: every key is re-pointed to the end of its chain; keys whose chain ends in a discarded intron are
   discarded themselves and leave the map *)
Definition simplify (s : gstate) : gstate :=
  let m := smap s in
  let dead := map fst (filter (fun e => mem (resolve m (snd e)) (disc s)) m) in
  mkG (pend s)
      (filter (fun v => negb (mem v dead)) (vert s))
      (map (fun e => (fst e, resolve m (snd e))) (filter (fun e => negb (mem (resolve m (snd e)) (disc s))) m))
      (dead ++ disc s)
      (edges s).

Definition is_nil {A} (l : list A) : bool := match l with [] => true | _ => false end.

Definition step (s : gstate) (o : op) : option gstate :=
  match o with
  | AddVertex i =>            (* clustered_introns[i] = count, first time *)
      if mem i (pend s) then Some (mkG (remove_iv i (pend s)) (i :: vert s) (smap s) (disc s) (edges s)) else None
  | ClusterSubst i x =>       (* intron_correction_map[i] = x for a similar intron x already clustered *)
      if mem i (pend s) && mem x (vert s) then Some (mkG (remove_iv i (pend s)) (vert s) (smap s ++ [(i, x)]) (disc s) (edges s)) else None
  | ClusterDiscard i =>
      if mem i (pend s) then Some (mkG (remove_iv i (pend s)) (vert s) (smap s) (i :: disc s) (edges s)) else None
  | AddEdge a b =>
      let a' := subst1 (smap s) a in let b' := subst1 (smap s) b in
      if is_nil (pend s) && mem a' (vert s) && mem b' (vert s) then Some (mkG (pend s) (vert s) (smap s) (disc s) ((a', b') :: edges s)) else None
  | Collapse a b =>
      if mem a (vert s) && mem b (vert s) && negb (iv_eqb a b)
      then Some (mkG (pend s) (remove_iv a (vert s)) (smap s ++ [(a, b)]) (disc s) (rename_edges a b (edges s))) else None
  | AddSubstitute a b =>
      if mem a (vert s) && mem b (vert s) && negb (iv_eqb a b)
      then Some (mkG (pend s) (remove_iv a (vert s)) (smap s ++ [(a, b)]) (disc s) (edges s)) else None
  | Discard i =>              (* IntronCollector.discard: discarded.add(i); del clustered_introns[i] if present *)
      if mem i (vert s) then Some (mkG (pend s) (remove_iv i (vert s)) (smap s) (i :: disc s) (edges s))
      else if mem i (keys (smap s))
           (* a collapsed intron that a defaultdict look-up had re-created as a zero-coverage key (Touch) is discarded: from now on thread_introns
              refuses it whatever the correction map says, so its entry is dead - the model drops the entry (snapshots are compared modulo dead entries) *)
           then Some (mkG (pend s) (vert s) (filter (fun e => negb (iv_eqb (fst e) i)) (smap s)) (i :: disc s) (edges s))
           else None
  | DropOut v | CutOut v =>
      Some (mkG (pend s) (vert s) (smap s) (disc s) (filter (fun e => negb (iv_eqb (fst e) v)) (edges s)))
  | SimplifyMap => Some (simplify s)
  | Snap V M D E =>
      (* clustered_introns may hold, besides the vertices, zero-coverage keys re-created by look-ups (Touch): removed introns;
         the logged map may hold dead entries of discarded keys *)
      if subset (vert s) V && subset V (vert s ++ keys (smap s) ++ disc s) &&
         same_set2 (filter (fun e => negb (mem (fst e) (disc s))) M) (smap s) && same_set D (disc s) && same_set2 E (edges s) then Some s else None
  | Touch i =>                (* clustered_introns[i] read for a missing key: the defaultdict creates it with count 0; i must be an intron the system
                                 has seen.  The vertex set of the model does not change: the key carries no coverage and no read threads to it *)
      if mem i (vert s ++ keys (smap s) ++ disc s) then Some s else None
  | Raw => None
  end.

Fixpoint run (s : gstate) (ops : list op) : option gstate :=
  match ops with [] => Some s | o :: t => match step s o with Some s' => run s' t | None => None end end.

(* every substitute is a current vertex: holds after simplify_correction_map *)
Definition simplifiedb (s : gstate) : bool := forallb (fun e => mem (snd e) (vert s)) (smap s).

(* trace validation: the logged sequence is a run (every precondition holds, every snapshot agrees), clustering has seen every
   collected intron, the map is simplified and the final vertex set is the logged one *)
Definition valid_trace (reads : list read) (ops : list op) (final_vertices : list iv) : bool :=
  match run (init reads) ops with
  | Some s => is_nil (pend s) && simplifiedb s && same_set final_vertices (vert s)
  | None => false
  end.
(* index of the first rejected step, for diagnostics *)
Fixpoint first_rejected (s : gstate) (ops : list op) (i : nat) : option nat :=
  match ops with [] => None | o :: t => match step s o with Some s' => first_rejected s' t (Datatypes.S i) | None => Some i end end.

(* ------------------------------------------------------------------ path threading *)
(* IntronPathProcessor.thread_introns *)
Fixpoint thread (s : gstate) (l : list iv) : option (list iv) :=
  match l with
  | [] => Some []
  | i :: t => if mem i (disc s) then None
              else match thread s t with Some p => Some (subst1 (smap s) i :: p) | None => None end
  end.
(* get_known_spliced_isoforms: the keys of known_isoforms_in_graph (an isoform without introns or with a discarded intron has no path) *)
Definition known_paths (s : gstate) (refs : list (list iv)) : list (list iv) :=
  flat_map (fun c => match c with [] => [] | _ => match thread s c with Some (x :: p) => [x :: p] | _ => [] end end) refs.

(* ------------------------------------------------------------------ strands *)
Inductive strand := Plus | Minus | Dot.
Definition strand_eqb (a b : strand) : bool :=
  match a, b with Plus, Plus | Minus, Minus | Dot, Dot => true | _, _ => false end.
Definition is_dot (a : strand) : bool := strand_eqb a Dot.

(* StrandDetector.count_canonical_sites: sd is strand_dict completed by get_intron_strand *)
Definition count_sites (sd : iv -> strand) (l : list iv) : Z * Z :=
  (Z.of_nat (length (filter (fun i => strand_eqb (sd i) Plus) l)), Z.of_nat (length (filter (fun i => strand_eqb (sd i) Minus) l))).
Definition clean_strand_of (f r : Z) : strand :=
  if (f =? 0) && (0 <? r) then Minus else if (0 <? f) && (r =? 0) then Plus else Dot.
Definition strand_of (f r : Z) (has_polya has_polyt : bool) : strand :=
  if f =? r then (if has_polya && negb has_polyt then Plus else if has_polyt && negb has_polya then Minus else Dot)
  else if r <? f then Plus else Minus.
Definition get_clean_strand sd l := let '(f, r) := count_sites sd l in clean_strand_of f r.
Definition get_strand sd l a t := let '(f, r) := count_sites sd l in strand_of f r a t.

(* ------------------------------------------------------------------ construct_fl_isoforms: the decision for one full-length path *)
Inductive level := OnlyCanonical | OnlyStranded | ReportAll.
Record params := mkP { min_novel_count : Z; min_known_count : Z; require_monointronic_polya : bool; report_level : level;
                       use_technical_replicas : bool }.

(* what the decision reads from gene_info / the constructor *)
Record gctx := mkC {
  g_empty : bool;                          (* gene_info.empty() *)
  g_strands : list (Z * strand);           (* gene_info.gene_strands, genes numbered in the order of their ids *)
  g_known : list iv;                       (* known_introns *)
  g_known_paths : list (list iv) }.        (* keys of known_isoforms_in_graph *)

Record pathin := mkPath {
  p_range : iv;                            (* (path[0][1], path[-1][1]) *)
  p_polyt : bool; p_polya : bool;          (* path[0][0] == VERTEX_polyt, path[-1][0] == VERTEX_polya *)
  p_introns : list iv;                     (* path[1:-1] *)
  p_count : Z;                             (* path_storage.paths[path] *)
  p_matching : option Z;                   (* is_matching_assignment: index of the reference isoform *)
  p_fwd : Z; p_rev : Z;                    (* count_canonical_sites(intron_path) *)
  p_votes : list (Z * Z);                  (* gene_counts of select_reference_gene: (gene, number of path introns of that gene) *)
  p_groups : Z }.                          (* number of distinct read groups of the path's reads *)

Inductive gene := RefGene (g : Z) | NovelGene.
Inductive decision := Skip | KnownRef (k : Z) | Novel (st : strand) (g : gene) (nic : bool).

Fixpoint zassoc {A} (k : Z) (l : list (Z * A)) : option A :=
  match l with [] => None | (k', v) :: t => if k =? k' then Some v else zassoc k t end.

(* select_reference_gene: the first gene in descending (votes, id) order whose strand is compatible = the maximum among the compatible ones *)
Definition vote_lt (a b : Z * Z) : bool := (snd a <? snd b) || ((snd a =? snd b) && (fst a <? fst b)).
Definition best_vote (c : gctx) (st : strand) (votes : list (Z * Z)) : option (Z * Z) :=
  fold_left (fun best v =>
               let ok := match zassoc (fst v) (g_strands c) with Some gs => is_dot st || strand_eqb gs st | None => false end in
               if ok then match best with None => Some v | Some b => if vote_lt b v then Some v else best end else best)
            votes None.
Definition select_reference_gene (c : gctx) (votes : list (Z * Z)) (st : strand) : option Z :=
  if g_empty c then None else match best_vote c st votes with Some v => Some (fst v) | None => None end.

Definition n_exons (p : pathin) : Z := Z.of_nat (length (get_exons (p_range p) (p_introns p))).

Definition decide (P : params) (c : gctx) (p : pathin) : decision :=
  match p_matching p with
  | Some k => KnownRef k                                         (* reference isoform branch: never a novel model *)
  | None =>
    if mem_chain (p_introns p) (g_known_paths c) then Skip        (* "intron chain still matches" *)
    else
      let st := strand_of (p_fwd p) (p_rev p) (p_polya p) (p_polyt p) in
      let cl := clean_strand_of (p_fwd p) (p_rev p) in
      if p_count p <? min_novel_count P then Skip
      else if (n_exons p =? 2) && ((require_monointronic_polya P && negb (p_polya p || p_polyt p)) || is_dot cl) then Skip
      else if match report_level P with OnlyCanonical => is_dot cl | OnlyStranded => is_dot st | ReportAll => false end then Skip
      else if use_technical_replicas P && (p_groups p <=? 1) then Skip
      else match select_reference_gene c (p_votes p) st with
           | None => Novel st NovelGene (forallb (fun i => mem i (g_known c)) (p_introns p))
           | Some g => Novel (if is_dot st then match zassoc g (g_strands c) with Some gs => gs | None => Dot end else st) (RefGene g)
                             (forallb (fun i => mem i (g_known c)) (p_introns p))
           end
  end.

(* the novel chains produced from a list of full-length paths (construct_fl_isoforms iterates over the SET fl_paths) *)
Definition is_novel (d : decision) : bool := match d with Novel _ _ _ => true | _ => false end.
Definition novel_chains (P : params) (c : gctx) (paths : list pathin) : list (list iv) :=
  map p_introns (filter (fun p => is_novel (decide P c p)) paths).

(* ------------------------------------------------------------------ detect_similar_isoforms (structure only; the assigner is an oracle) *)
Record nmodel := mkM { m_id : Z; m_known : bool; m_nexons : Z; m_chain : list iv }.
Definition zmem (x : Z) (l : list Z) : bool := existsb (Z.eqb x) l.
(* inner loop for one candidate container `big`: the models it absorbs *)
Definition absorbed_by (matches : nmodel -> nmodel -> bool) (storage : list nmodel) (big : nmodel) (sub : list Z) : list Z :=
  fold_left (fun sub m =>
               if m_known m || (m_id m =? m_id big) || zmem (m_id m) sub || (m_nexons m =? 1) || is_nil (m_chain m) || (m_nexons big <? m_nexons m) then sub
               else if matches m big then m_id m :: sub else sub) storage sub.
Definition detect_similar (matches : nmodel -> nmodel -> bool) (storage : list nmodel) : list Z :=
  fold_left (fun sub big => if (m_nexons big <=? 2) || zmem (m_id big) sub then sub else absorbed_by matches storage big sub) storage [].

(* ------------------------------------------------------------------ the model store *)
Record store := mkS {
  models : list (Z * bool);        (* transcript_model_storage: (id, is novel) *)
  rtab   : list (Z * Z);           (* transcript_read_ids flattened: (transcript, read) *)
  cnt    : Z -> Z }.               (* internal_counter *)
Definition store0 : store := mkS [] [] (fun _ => 0).
Definition ids (s : store) : list Z := map fst (models s).
Definition upd (f : Z -> Z) (k v : Z) : Z -> Z := fun x => if x =? k then v else f x.
Definition nreads (s : store) (t : Z) : Z := Z.of_nat (length (filter (fun e => fst e =? t) (rtab s))).

Inductive sop :=
| SAdd (t : Z) (novel : bool)              (* transcript_model_storage.append(new_model) *)
| SSave (t r : Z)                          (* save_assigned_read *)
| SDel (t : Z)                             (* delete_from_storage + leaving the storage list *)
| SAssign (r : Z) (ts : list Z)            (* assign_reads_to_models, consistent assignment to the models ts *)
| SModels (l : list Z)                     (* logged storage: must agree *)
| SCut (mnc : Z)                           (* post-condition of filter_transcripts: every novel model has internal_counter >= min_novel_count *)
| SCnt (t c : Z).                          (* logged internal_counter value: must agree *)

Definition sstep (s : store) (o : sop) : option store :=
  match o with
  | SAdd t nv => if zmem t (ids s) then None else Some (mkS (models s ++ [(t, nv)]) (rtab s) (cnt s))
  | SSave t r => if zmem t (ids s) then Some (mkS (models s) (rtab s ++ [(t, r)]) (upd (cnt s) t (cnt s t + 1))) else None
  | SDel t => match zassoc t (models s) with
              | Some true => Some (mkS (filter (fun m => negb (fst m =? t)) (models s)) (filter (fun e => negb (fst e =? t)) (rtab s)) (upd (cnt s) t 0))
              | _ => None end
  | SAssign r ts =>
      if forallb (fun t => zmem t (ids s)) ts
      then Some (mkS (models s) (rtab s ++ map (fun t => (t, r)) ts) (match ts with [t] => upd (cnt s) t (cnt s t + 1) | _ => cnt s end))
      else None
  | SModels l => if forallb (fun t => zmem t l) (ids s) && forallb (fun t => zmem t (ids s)) l then Some s else None
  | SCut mnc => if forallb (fun m => negb (snd m) || (mnc <=? cnt s (fst m))) (models s) then Some s else None
  | SCnt t c => if cnt s t =? c then Some s else None
  end.
Fixpoint srun (s : store) (ops : list sop) : option store :=
  match ops with [] => Some s | o :: t => match sstep s o with Some s' => srun s' t | None => None end end.
(* operations that may follow filter_transcripts: the second assign_reads_to_models, deletions, logged checks *)
Definition late_op (o : sop) : bool := match o with SAssign _ _ | SDel _ | SModels _ | SCnt _ _ | SCut _ => true | _ => false end.

(* the first pass of filter_transcripts over the store: oracles for to_substitute, the (rounded-up) relative cut-off and the mapq test *)
Definition filter_pass (mnc : Z) (subst : list Z) (cut : Z -> Z) (bad_mapq : Z -> bool) (s : store) : store :=
  fold_left (fun st m =>
               let t := fst m in
               if negb (snd m) then st
               else if zmem t subst || (cnt st t <? Z.max mnc (cut t)) || bad_mapq t
                    then mkS (filter (fun x => negb (fst x =? t)) (models st)) (filter (fun e => negb (fst e =? t)) (rtab st)) (upd (cnt st) t 0)
                    else st)
            (models s) s.

(* the rows of transcript_model_reads.tsv: (read, transcript), -1 standing for "*" *)
Definition r2t_rows (s : store) (unassigned : list Z) : list (Z * Z) := map (fun e => (snd e, fst e)) (rtab s) ++ map (fun r => (r, -1)) unassigned.

(* trace validation of the store *)
Definition valid_store (ops : list sop) (final : list Z) (table : list (Z * Z)) : bool :=
  match srun store0 ops with
  | Some s => forallb (fun t => zmem t final) (ids s) && forallb (fun t => zmem t (ids s)) final &&
              forallb (fun e => zmem (fst e) (ids s)) table &&                                     (* every row names a stored model *)
              forallb (fun m => negb (snd m) || (1 <=? nreads s (fst m))) (models s) &&            (* every novel model has a row *)
              forallb (fun e => existsb (fun x => (fst x =? fst e) && (snd x =? snd e)) (rtab s)) table &&
              forallb (fun e => existsb (fun x => (fst x =? fst e) && (snd x =? snd e)) table) (rtab s)
  | None => false
  end.

(* ------------------------------------------------------------------ novel_ok (DESIGN Appendix E): evaluated on parsed output files *)
(* per (run, chromosome) *)
Record octx := mkO {
  o_bed_introns : list iv;          (* introns of the rows of corrected_reads.bed of the chromosome *)
  o_ref_introns : list iv;          (* introns of the input annotation on the chromosome *)
  o_ref_chains : list (list iv);    (* non-empty intron chains of the reference transcripts of the chromosome *)
  o_annotation_free : bool }.
(* one novel model of transcript_models.gtf *)
Record omodel := mkOM {
  om_strand : Z;                    (* 0 '+', 1 '-', 2 '.', 9 anything else *)
  om_suffix : Z;                    (* 0 .nic, 1 .nnic, 2 neither *)
  om_gene_novel : bool;             (* gene id starts with novel_gene_ *)
  om_exons : list iv;               (* sorted *)
  om_rows : Z }.                    (* lines of transcript_model_reads.tsv naming it *)
Definition om_introns (m : omodel) : list iv := jfb (om_exons m).

Definition cl_support (c : octx) (m : omodel) : bool := subset (om_introns m) (o_bed_introns c).
Definition cl_reads (m : omodel) : bool := 1 <=? om_rows m.
Definition cl_strand (m : omodel) : bool := (om_strand m =? 0) || (om_strand m =? 1).
Definition cl_suffix (c : octx) (m : omodel) : bool :=
  is_nil (om_introns m) ||
  (if subset (om_introns m) (o_ref_introns c) then om_suffix m =? 0 else om_suffix m =? 1).
Definition cl_not_reference (c : octx) (m : omodel) : bool := is_nil (om_introns m) || negb (mem_chain (om_introns m) (o_ref_chains c)).
(* others: the other novel models of the same chromosome *)
Definition same_chain_same_strand (m o : omodel) : bool := (om_strand m =? om_strand o) && chain_eqb (om_introns m) (om_introns o).
Definition cl_distinct (m : omodel) (others : list omodel) : bool := is_nil (om_introns m) || negb (existsb (same_chain_same_strand m) others).
Definition cl_annotation_free (c : octx) (m : omodel) : bool := negb (o_annotation_free c) || (om_gene_novel m && negb (om_suffix m =? 2)).

Definition novel_ok (c : octx) (m : omodel) (others : list omodel) : bool :=
  cl_support c m && cl_reads m && cl_strand m && cl_suffix c m && cl_not_reference c m && cl_distinct m others && cl_annotation_free c m.

(* structural description of the two deviations that are by design (known findings):
   every duplicate of the chain differs in a terminal coordinate, or the models have at most two exons *)
Definition ends_of (m : omodel) : Z * Z := (match om_exons m with e :: _ => fst e | [] => 0 end, snd (last (om_exons m) (0, 0))).
Definition alt_end_duplicates (m : omodel) (others : list omodel) : bool :=
  forallb (fun o => negb (same_chain_same_strand m o) ||
                    (Z.of_nat (length (om_exons m)) <=? 2) || negb ((fst (ends_of m) =? fst (ends_of o)) && (snd (ends_of m) =? snd (ends_of o)))) others.
(* sharper description of the duplicates the algorithm is specified to leave: models of at most two exons (detect_similar_isoforms never
   compares them), or longer pairs for which the assigner - replayed on the pair in both directions the way detect_similar_isoforms calls
   it - gives no matching assignment.  A longer pair that the assigner WOULD collapse in some direction is not the known deviation.
   verdict = Some (m matches o, o matches m), None when no verdict is available *)
Definition left_by_design (m : omodel) (ov : omodel * option (bool * bool)) : bool :=
  negb (same_chain_same_strand m (fst ov)) || (Z.of_nat (length (om_exons m)) <=? 2) ||
  match snd ov with Some (a, b) => negb a && negb b | None => false end.
Definition duplicates_left_by_design (m : omodel) (others : list (omodel * option (bool * bool))) : bool := forallb (left_by_design m) others.
(* table clause: every transcript named in the read table is in the GTF; in an annotation-free run every transcript of the GTF is novel *)
Definition table_ok (table_tids gtf_tids : list Z) : bool := forallb (fun t => (t =? -1) || zmem t gtf_tids) table_tids.

(* ------------------------------------------------------------------ what is evaluated on logged traces of real runs *)
(* gene_counts of select_reference_gene: ig is intron_genes, genes the gene ids *)
Definition gene_votes (ig : list (iv * list Z)) (genes : list Z) (ip : list iv) : list (Z * Z) :=
  filter (fun v => 0 <? snd v)
         (map (fun g => (g, Z.of_nat (length (filter (fun i => existsb (fun e => iv_eqb (fst e) i && zmem g (snd e)) ig) ip)))) genes).

Definition same_chains (a b : list (list iv)) : bool := forallb (fun c => mem_chain c b) a && forallb (fun c => mem_chain c a) b.

Record region := mkR {
  r_reads : list read;                         (* every read of the region: (multimapper, corrected_introns) *)
  r_ops : list op;                             (* logged mutator calls and snapshots, in order *)
  r_final : list iv * list (iv * iv) * list iv;(* clustered_introns keys, intron_correction_map, discarded_introns when the graph is finished *)
  r_refs : list (list iv);                     (* gene_info.all_isoforms_introns values *)
  r_known : list (list iv);                    (* keys of known_isoforms_in_graph as computed by the implementation *)
  r_threads : list (list iv * list iv);        (* (corrected_introns of a read of a full-length path, intron part of that path) *)
  r_touched : list iv }.                       (* keys re-created in clustered_introns (count 0) by defaultdict look-ups of attach_terminal_positions:
                                                  `clustered_introns[i] for i in outgoing_edges[intron] / incoming_edges[intron]` with a stale edge to a removed vertex *)
Definition endpoints (E : list (iv * iv)) : list iv := map fst E ++ map snd E.

Definition region_check (r : region) : bool :=
  let '(V, M, D) := r_final r in
  match run (init (r_reads r)) (r_ops r) with
  | Some s => is_nil (pend s) && simplifiedb s && same_set V (vert s ++ r_touched r) &&
              same_set2 (filter (fun e => negb (mem (fst e) (disc s))) M) (smap s) && same_set D (disc s) &&
              subset (r_touched r) (vert s ++ keys (smap s) ++ disc s) &&      (* a re-created key is an intron the system has seen: removed (discarded / collapsed) or present *)
              same_chains (known_paths s (r_refs r)) (r_known r) &&
              forallb (fun t => match thread s (fst t) with Some p => chain_eqb p (snd t) | None => false end) (r_threads r)
  | None => false
  end.
(* the property clauses on the implementation's own final state: vertices are read introns, substitutes are vertices, full-length
   paths run through vertices *)
Definition region_prop (r : region) : bool :=
  let '(V, M, D) := r_final r in
  subset V (read_introns (r_reads r)) && forallb (fun e => mem (snd e) V) M && forallb (fun t => subset (snd t) V) (r_threads r).

Inductive outcome := ONone | OKnown | ONovel (st : strand) (g : gene) (nic : bool) (suffix : Z).
Record dcase := mkD {
  d_params : params; d_ctx : gctx; d_ig : list (iv * list Z); d_path : pathin;   (* p_votes is recomputed from d_ig *)
  d_verts : list iv; d_refs : list (list iv); d_out : outcome }.
Definition gene_eqb (a b : gene) : bool := match a, b with RefGene x, RefGene y => x =? y | NovelGene, NovelGene => true | _, _ => false end.
Definition with_votes (d : dcase) : pathin :=
  let p := d_path d in
  mkPath (p_range p) (p_polyt p) (p_polya p) (p_introns p) (p_count p) (p_matching p) (p_fwd p) (p_rev p)
         (gene_votes (d_ig d) (map fst (g_strands (d_ctx d))) (p_introns p)) (p_groups p).
Definition decision_check (d : dcase) : bool :=
  match decide (d_params d) (d_ctx d) (with_votes d), d_out d with
  | Skip, ONone => true
  | KnownRef _, (ONone | OKnown) => true
  | Novel st g nic, ONovel st' g' nic' _ => strand_eqb st st' && gene_eqb g g' && Bool.eqb nic nic'
  | _, _ => false
  end.
Definition decision_prop (d : dcase) : bool :=
  let p := d_path d in
  subset (p_introns p) (d_verts d) &&
  match p_matching p with Some k => (0 <=? k) && (k <? Z.of_nat (length (d_refs d))) | None => true end &&
  match d_out d with
  | ONovel st g nic sfx =>
      (if nic then sfx =? 0 else sfx =? 1) &&
      Bool.eqb nic (subset (p_introns p) (g_known (d_ctx d))) &&
      negb (mem_chain (p_introns p) (d_refs d)) &&
      (match report_level (d_params d) with ReportAll => true | _ => negb (is_dot st) end) &&
      (negb (g_empty (d_ctx d)) || gene_eqb g NovelGene)
  | OKnown => negb (g_empty (d_ctx d))
  | ONone => true
  end.

Definition store_prop (final : list (Z * bool)) (table : list (Z * Z)) : bool :=
  forallb (fun e => zmem (fst e) (map fst final)) table &&
  forallb (fun m => negb (snd m) || existsb (fun e => fst e =? fst m) table) final.

(* region-level packaging of the cases (shared context stated once) *)
Record rdecisions := mkRD {
  rd_params : params; rd_ctx : gctx; rd_verts : list iv; rd_refs : list (list iv);
  rd_items : list (list (iv * list Z) * pathin * outcome) }.
Definition rd_case (r : rdecisions) (it : list (iv * list Z) * pathin * outcome) : dcase :=
  mkD (rd_params r) (rd_ctx r) (fst (fst it)) (snd (fst it)) (rd_verts r) (rd_refs r) (snd it).
Definition rdecisions_check (r : rdecisions) : bool := forallb (fun it => decision_check (rd_case r it)) (rd_items r).
Definition rdecisions_prop (r : rdecisions) : bool := forallb (fun it => decision_prop (rd_case r it)) (rd_items r).

Fixpoint each_with_others {A} (f : A -> list A -> bool) (before l : list A) : bool :=
  match l with [] => true | x :: t => f x (before ++ t) && each_with_others f (before ++ [x]) t end.
(* novel_ok for all novel models of one chromosome of one run *)
Definition novel_ok_all (c : octx) (ms : list omodel) : bool := each_with_others (novel_ok c) [] ms.

(* the loop `while subs in self.intron_correction_map: subs = self.intron_correction_map[subs]` with explicit fuel *)
Fixpoint chase (fuel : nat) (m : list (iv * iv)) (x : iv) : iv :=
  match fuel with O => x | Datatypes.S f => match assoc x m with Some y => chase f m y | None => x end end.

(* the second pass of filter_transcripts: detect_similar_isoforms on the survivors, every novel model in to_substitute is deleted *)
Definition filter_pass2 (subst : list Z) (s : store) : store :=
  fold_left (fun st m =>
               let t := fst m in
               if snd m && zmem t subst
               then mkS (filter (fun x => negb (fst x =? t)) (models st)) (filter (fun e => negb (fst e =? t)) (rtab st)) (upd (cnt st) t 0)
               else st)
            (models s) s.
(* filter_transcripts as a whole *)
Definition filter_transcripts_model (mnc : Z) (subst1_ : list Z) (cut : Z -> Z) (bad_mapq : Z -> bool) (subst2 : list Z) (s : store) : store :=
  filter_pass2 subst2 (filter_pass mnc subst1_ cut bad_mapq s).
