(* C16 / C11: the PolyAFinder parameters the hand-written finder model (Cigar2.find_polya_tail / find_polyt_head, parametric in
   w, need, fnum, fden and the window) is instantiated with are the defaults of src/polya_finder.py; gen/Extra.v is regenerated from the
   source on every check (tools/translate_extra.py). *)
From Coq Require Import ZArith QArith Qround List Bool.
From IQ.gen Require Import Extra.
Import ListNotations. Open Scope Z_scope.

(* the parameters (w, need, fnum, fden) and the (from, to, entire) windows with which Cigar2.find_polya_tail / find_polyt_head are
   instantiated (props/C11.v examples; harness/props/c16.py: windows (2, 2w, false) and (4w, 2, true), need = int(w * fraction)) *)
Theorem finder_defaults_are_the_sources :
  PF_window_size = 16 /\ PF_polyA_count = 12 /\
  (Qnum PF_min_polya_fraction, Z.pos (Qden PF_min_polya_fraction)) = (3, 4) /\
  PF_polyA_count = Qfloor (inject_Z PF_window_size * PF_min_polya_fraction) /\
  PF_polya_external = (2, 2 * PF_window_size, false) /\ PF_polya_internal = (4 * PF_window_size, 2, true) /\
  PF_polyt_external = (2, 2 * PF_window_size, false) /\ PF_polyt_internal = (4 * PF_window_size, 2, true).
Proof. repeat split. Qed.
