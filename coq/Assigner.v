(* C01: the decision layers of src/long_read_assigner.py over the GENERATED tables (gen/Tables.v is rebuilt from the source on
   every check, so every lemma below is re-proved against the current enums, class sets, costs and presets):
     - classify_assignment and the table facts it relies on
     - the tolerance presets of isoquant.py set_matching_options against the documentation (docs/cmd.md)
     - the implementation-independent, decidable specification evaluated on read_assignments.tsv of real runs:
       compatible / follows / far / assignment_ok (DESIGN Appendix E)
   Models of categorize_exon_elongation_subtype, PolyAVerifier.verify_read_ends and select_best_among_inconsistent are in
   AssignerEnds.v. *)
From Coq Require Import ZArith NArith QArith List Bool Lia ZifyBool.
From IQ Require Import CorrSupport Intervals Junctions JunctionsProofs.
From IQ Require Export AssignerDefs.
From IQ.gen Require Import Tables Prims.
Import ListNotations. Open Scope Z_scope.

(* ---------------------------------------------------------------- table facts (each is an obligation on the regenerated tables) *)

Lemma consistent_major_disjoint : forallb (fun x => negb (ev_consistent x && ev_major x)) MES_all = true. Proof. vm_compute. reflexivity. Qed.
Lemma consistent_minor_disjoint : forallb (fun x => negb (ev_consistent x && ev_minor x)) MES_all = true. Proof. vm_compute. reflexivity. Qed.
Lemma minor_major_disjoint : forallb (fun x => negb (ev_minor x && ev_major x)) MES_all = true. Proof. vm_compute. reflexivity. Qed.
Lemma intronic_subset_major : forallb (fun x => implb (ev_intronic x) (ev_major x)) MES_all = true. Proof. vm_compute. reflexivity. Qed.
(* intronic = major minus the documented non-intronic events (polyA/TSS sites, exon elongations) *)
Lemma intronic_is_major_minus_nonintronic :
  forallb (fun x => Bool.eqb (ev_intronic x) (ev_major x && negb (mem x MES_nonintronic_events))) MES_all = true. Proof. vm_compute. reflexivity. Qed.
(* major = novel-in-catalog events + novel-not-in-catalog events *)
Lemma major_is_nic_or_nnic :
  forallb (fun x => Bool.eqb (ev_major x) (mem x MES_nic_event_types || mem x MES_nnic_event_types)) MES_all = true. Proof. vm_compute. reflexivity. Qed.
Lemma unclassified_are : unclassified = [MES_undefined; MES_antisense; MES_aligned_polya_tail]. Proof. vm_compute. reflexivity. Qed.
Lemma consistent_as_documented : same_set MES_is_consistent
  [MES_none_; MES_mono_exon_match; MES_fsm; MES_ism_left; MES_ism_right; MES_ism_internal; MES_mono_exonic;
   MES_terminal_site_match_left; MES_terminal_site_match_left_precise; MES_terminal_site_match_right; MES_terminal_site_match_right_precise;
   MES_correct_polya_site_left; MES_correct_polya_site_right] = true. Proof. vm_compute. reflexivity. Qed.
Lemma minor_as_documented : same_set MES_is_minor_error
  [MES_intron_shift; MES_exon_misalignment; MES_fake_terminal_exon_left; MES_fake_terminal_exon_right;
   MES_terminal_exon_misalignment_left; MES_terminal_exon_misalignment_right; MES_exon_elongation_left; MES_exon_elongation_right;
   MES_fake_micro_intron_retention] = true. Proof. vm_compute. reflexivity. Qed.
(* every retained intron, skipped / extra exon, alternative site, alternative structure and distant end is a major inconsistency *)
Lemma structural_changes_are_major : forallb ev_major
  [MES_intron_retention; MES_unspliced_intron_retention; MES_incomplete_intron_retention_left; MES_incomplete_intron_retention_right;
   MES_exon_skipping_known; MES_exon_skipping_novel; MES_exon_merge_known; MES_exon_merge_novel; MES_exon_gain_known; MES_exon_gain_novel;
   MES_exon_detach_known; MES_exon_detach_novel; MES_extra_intron_known; MES_extra_intron_novel; MES_extra_intron_flanking_left; MES_extra_intron_flanking_right;
   MES_alt_left_site_known; MES_alt_left_site_novel; MES_alt_right_site_known; MES_alt_right_site_novel;
   MES_intron_migration; MES_intron_alternation_known; MES_intron_alternation_novel; MES_mutually_exclusive_exons_known; MES_mutually_exclusive_exons_novel;
   MES_terminal_exon_shift_known; MES_terminal_exon_shift_novel; MES_alternative_structure_known; MES_alternative_structure_novel;
   MES_major_exon_elongation_left; MES_major_exon_elongation_right; MES_alternative_polya_site_left; MES_alternative_polya_site_right;
   MES_alternative_tss_left; MES_alternative_tss_right; MES_internal_polya_left; MES_internal_polya_right] = true. Proof. vm_compute. reflexivity. Qed.

Lemma costs_in_unit_interval : cost_ok (fun _ q => Qle_bool 0 q && Qle_bool q 1) = true. Proof. vm_compute. reflexivity. Qed.
Lemma costs_defined : forallb (fun x => match MES_cost x with Some _ => true | None => MES_eqb x MES_antisense end) MES_all = true. Proof. vm_compute. reflexivity. Qed.
Lemma consistent_cost_zero : cost_ok (fun x q => negb (ev_consistent x) || Qeq_bool q 0) = true. Proof. vm_compute. reflexivity. Qed.
Lemma major_cost_at_least_half : cost_ok (fun x q => negb (ev_major x) || Qle_bool (1 # 2) q) = true. Proof. vm_compute. reflexivity. Qed.
Lemma minor_cost_positive_at_most_fifth : cost_ok (fun x q => negb (ev_minor x) || (Qle_bool q (1 # 5) && negb (Qle_bool q 0))) = true. Proof. vm_compute. reflexivity. Qed.

(* assignment types *)
Lemma type_classes : RAT_is_consistent = [RAT_unique; RAT_unique_minor_difference; RAT_ambiguous] /\
  forallb (fun t => negb (rmem t RAT_is_consistent && rmem t RAT_is_inconsistent)) RAT_all = true /\
  forallb (fun t => implb (rmem t RAT_is_unique) (rmem t RAT_is_consistent)) RAT_all = true.
Proof. repeat split; vm_compute; reflexivity. Qed.

(* ---------------------------------------------------------------- classification theorems *)
Lemma consistent_not_major x : ev_consistent x = true -> ev_major x = false.
Proof. intros H. pose proof consistent_major_disjoint as D. rewrite forallb_forall in D. specialize (D x (all_listed x)).
  rewrite H in D. simpl in D. destruct (ev_major x); [discriminate|reflexivity]. Qed.

Theorem major_event_never_consistent amb ev : existsb ev_major ev = true -> type_consistent (classify amb ev) = false.
Proof. intros H. unfold classify.
  assert (forallb ev_consistent ev = false).
  { destruct (forallb ev_consistent ev) eqn:E; [|reflexivity]. rewrite forallb_forall in E. apply existsb_exists in H. destruct H as [x [Hx Hm]].
    rewrite (consistent_not_major x (E x Hx)) in Hm. discriminate. }
  rewrite H0, H. destruct amb; [reflexivity|]. destruct (existsb ev_intronic ev); reflexivity. Qed.

Theorem classify_consistent_iff amb ev :
  type_consistent (classify amb ev) = true <->
  forallb ev_consistent ev = true \/ (existsb ev_major ev = false /\ existsb ev_minor ev = true).
Proof. unfold classify. destruct (forallb ev_consistent ev) eqn:E1.
  - split; [intros _; left; reflexivity|intros _; destruct amb; reflexivity].
  - destruct (existsb ev_major ev) eqn:E2.
    + split; [|intros [H|[H _]]; discriminate]. destruct amb; [discriminate|]. destruct (existsb ev_intronic ev); discriminate.
    + destruct (existsb ev_minor ev) eqn:E3.
      * split; [intros _; right; split; reflexivity|intros _; destruct amb; reflexivity].
      * split; [discriminate|intros [H|[_ H]]; discriminate]. Qed.

Theorem intronic_vs_non_intronic ev : existsb ev_major ev = true ->
  (classify false ev = RAT_inconsistent <-> existsb ev_intronic ev = true) /\
  (classify false ev = RAT_inconsistent_non_intronic <-> existsb ev_intronic ev = false).
Proof. intros H. unfold classify.
  assert (E: forallb ev_consistent ev = false).
  { destruct (forallb ev_consistent ev) eqn:E; [|reflexivity]. rewrite forallb_forall in E. apply existsb_exists in H. destruct H as [x [Hx Hm]].
    rewrite (consistent_not_major x (E x Hx)) in Hm. discriminate. }
  rewrite E, H. destruct (existsb ev_intronic ev); split; split; intros; try reflexivity; discriminate. Qed.

(* a read that follows the isoform's intron chain: the comparator's [none] is classified as a consistent assignment *)
Theorem chain_match_consistent : forall P known rreg R ireg II amb, 0 <= p_delta P -> R <> [] -> junctions_wf II = true ->
  chain_match (p_delta P) rreg R II = true ->
  type_consistent (classify amb (map e_type (compare_junctions P known rreg R ireg II))) = true.
Proof. intros P known rreg R ireg II amb H0 H1 H2 H3. rewrite (chain_match_no_contradiction P known rreg R ireg II H0 H1 H2 H3).
  destruct amb; vm_compute; reflexivity. Qed.

Lemma presets_as_documented : presets_documented = true. Proof. vm_compute. reflexivity. Qed.
Lemma presets_sane : forallb (fun n => preset_sane (MS_preset n)) MSN_all = true. Proof. vm_compute. reflexivity. Qed.
Lemma presets_monotone : msp_le MS_exact MS_precise && msp_le MS_precise MS_default && msp_le MS_default MS_loose = true. Proof. vm_compute. reflexivity. Qed.
Lemma presets_listed : forall n, In n MSN_all. Proof. destruct n; vm_compute; tauto. Qed.

