(* C01: the decision layers of src/long_read_assigner.py over the GENERATED tables (gen/Tables.v is rebuilt from the source on
   every check, so every lemma below is re-proved against the current enums, class sets, costs and presets):
     - classify_assignment and the table facts it relies on
     - the tolerance presets of isoquant.py set_matching_options against the documentation (docs/cmd.md)
     - the implementation-independent, decidable specification evaluated on read_assignments.tsv of real runs:
       compatible / follows / far / assignment_ok (DESIGN Appendix E)
   Models of categorize_exon_elongation_subtype, PolyAVerifier.verify_read_ends and select_best_among_inconsistent are in
   AssignerEnds.v. *)
From Coq Require Import ZArith NArith QArith List Bool Lia ZifyBool.
From IQ Require Import CorrSupport Intervals Junctions JunctionsProofs.
From IQ.gen Require Import Tables Prims.
Import ListNotations. Open Scope Z_scope.

Definition mem (x:MES) (l:list MES) : bool := existsb (MES_eqb x) l.
Definition rmem (x:RAT) (l:list RAT) : bool := existsb (RAT_eqb x) l.
Definition ev_consistent x := mem x MES_is_consistent.
Definition ev_major x := mem x MES_is_major_inconsistency.
Definition ev_intronic x := mem x MES_is_intronic_inconsistency.
Definition ev_minor x := mem x MES_is_minor_error.
Definition type_consistent (t:RAT) : bool := rmem t RAT_is_consistent.

(* ---------------------------------------------------------------- classify_assignment *)
(* on the event types of the selected isoforms; `ambiguous` = more than one selected isoform *)
Definition classify (ambiguous:bool) (ev:list MES) : RAT :=
  if forallb ev_consistent ev then (if ambiguous then RAT_ambiguous else RAT_unique)
  else if existsb ev_major ev then
         (if ambiguous then RAT_inconsistent_ambiguous
          else if existsb ev_intronic ev then RAT_inconsistent else RAT_inconsistent_non_intronic)
  else if existsb ev_minor ev then (if ambiguous then RAT_ambiguous else RAT_unique_minor_difference)
  else RAT_noninformative.

(* ---------------------------------------------------------------- table facts (each is an obligation on the regenerated tables) *)
Lemma all_listed : forall x, In x MES_all. Proof. destruct x; vm_compute; tauto. Qed.
Lemma MES_eqb_eq a b : MES_eqb a b = true <-> a = b.
Proof. split; [|intros ->; unfold MES_eqb; apply N.eqb_refl]. destruct a; destruct b; vm_compute; intros H; try reflexivity; discriminate H. Qed.

Lemma consistent_major_disjoint : forallb (fun x => negb (ev_consistent x && ev_major x)) MES_all = true. Proof. vm_compute. reflexivity. Qed.
Lemma consistent_minor_disjoint : forallb (fun x => negb (ev_consistent x && ev_minor x)) MES_all = true. Proof. vm_compute. reflexivity. Qed.
Lemma minor_major_disjoint : forallb (fun x => negb (ev_minor x && ev_major x)) MES_all = true. Proof. vm_compute. reflexivity. Qed.
Lemma intronic_subset_major : forallb (fun x => implb (ev_intronic x) (ev_major x)) MES_all = true. Proof. vm_compute. reflexivity. Qed.
(* intronic = major minus the documented non-intronic events (polyA/TSS sites, exon elongations) *)
Lemma intronic_is_major_minus_nonintronic :
  forallb (fun x => Bool.eqb (ev_intronic x) (ev_major x && negb (mem x MES_nonintronic_events))) MES_all = true. Proof. vm_compute. reflexivity. Qed.
(* major = novel-in-catalog events + novel-not-in-catalog events *)
Lemma major_is_nic_or_nnic :
  forallb (fun x => Bool.eqb (ev_major x) (mem x MES_nic_event_types || mem x MES_nnic_event_types)) MES_all = true. Proof. vm_compute. reflexivity. Qed.
(* the event types outside the three classes: classify_assignment answers `noninformative` (with a warning) if only these occur *)
Definition unclassified : list MES := filter (fun x => negb (ev_consistent x || ev_minor x || ev_major x)) MES_all.
Lemma unclassified_are : unclassified = [MES_undefined; MES_antisense; MES_aligned_polya_tail]. Proof. vm_compute. reflexivity. Qed.
(* docs/formats.md: consistent events, alignment artifacts (+ minor exon elongation) - as sets *)
Definition same_set (a b:list MES) : bool := forallb (fun x => mem x b) a && forallb (fun x => mem x a) b.
Lemma consistent_as_documented : same_set MES_is_consistent
  [MES_none_; MES_mono_exon_match; MES_fsm; MES_ism_left; MES_ism_right; MES_ism_internal; MES_mono_exonic;
   MES_terminal_site_match_left; MES_terminal_site_match_left_precise; MES_terminal_site_match_right; MES_terminal_site_match_right_precise;
   MES_correct_polya_site_left; MES_correct_polya_site_right] = true. Proof. vm_compute. reflexivity. Qed.
Lemma minor_as_documented : same_set MES_is_minor_error
  [MES_intron_shift; MES_exon_misalignment; MES_fake_terminal_exon_left; MES_fake_terminal_exon_right;
   MES_terminal_exon_misalignment_left; MES_terminal_exon_misalignment_right; MES_exon_elongation_left; MES_exon_elongation_right;
   MES_fake_micro_intron_retention] = true. Proof. vm_compute. reflexivity. Qed.
(* every retained intron, skipped / extra exon, alternative site, alternative structure and distant end is a major inconsistency *)
Lemma structural_changes_are_major : forallb ev_major
  [MES_intron_retention; MES_unspliced_intron_retention; MES_incomplete_intron_retention_left; MES_incomplete_intron_retention_right;
   MES_exon_skipping_known; MES_exon_skipping_novel; MES_exon_merge_known; MES_exon_merge_novel; MES_exon_gain_known; MES_exon_gain_novel;
   MES_exon_detach_known; MES_exon_detach_novel; MES_extra_intron_known; MES_extra_intron_novel; MES_extra_intron_flanking_left; MES_extra_intron_flanking_right;
   MES_alt_left_site_known; MES_alt_left_site_novel; MES_alt_right_site_known; MES_alt_right_site_novel;
   MES_intron_migration; MES_intron_alternation_known; MES_intron_alternation_novel; MES_mutually_exclusive_exons_known; MES_mutually_exclusive_exons_novel;
   MES_terminal_exon_shift_known; MES_terminal_exon_shift_novel; MES_alternative_structure_known; MES_alternative_structure_novel;
   MES_major_exon_elongation_left; MES_major_exon_elongation_right; MES_alternative_polya_site_left; MES_alternative_polya_site_right;
   MES_alternative_tss_left; MES_alternative_tss_right; MES_internal_polya_left; MES_internal_polya_right] = true. Proof. vm_compute. reflexivity. Qed.

(* costs: defined for every type that can be scored, in [0,1]; consistent events are free; every major event costs at least 1/2,
   every minor error at most 1/5 - a major event always outweighs two minor errors *)
Definition cost_ok (f:MES -> Q -> bool) : bool := forallb (fun x => match MES_cost x with Some q => f x q | None => true end) MES_all.
Lemma costs_in_unit_interval : cost_ok (fun _ q => Qle_bool 0 q && Qle_bool q 1) = true. Proof. vm_compute. reflexivity. Qed.
Lemma costs_defined : forallb (fun x => match MES_cost x with Some _ => true | None => MES_eqb x MES_antisense end) MES_all = true. Proof. vm_compute. reflexivity. Qed.
Lemma consistent_cost_zero : cost_ok (fun x q => negb (ev_consistent x) || Qeq_bool q 0) = true. Proof. vm_compute. reflexivity. Qed.
Lemma major_cost_at_least_half : cost_ok (fun x q => negb (ev_major x) || Qle_bool (1 # 2) q) = true. Proof. vm_compute. reflexivity. Qed.
Lemma minor_cost_positive_at_most_fifth : cost_ok (fun x q => negb (ev_minor x) || (Qle_bool q (1 # 5) && negb (Qle_bool q 0))) = true. Proof. vm_compute. reflexivity. Qed.

(* assignment types *)
Lemma type_classes : RAT_is_consistent = [RAT_unique; RAT_unique_minor_difference; RAT_ambiguous] /\
  forallb (fun t => negb (rmem t RAT_is_consistent && rmem t RAT_is_inconsistent)) RAT_all = true /\
  forallb (fun t => implb (rmem t RAT_is_unique) (rmem t RAT_is_consistent)) RAT_all = true.
Proof. repeat split; vm_compute; reflexivity. Qed.

(* ---------------------------------------------------------------- classification theorems *)
Lemma consistent_not_major x : ev_consistent x = true -> ev_major x = false.
Proof. intros H. pose proof consistent_major_disjoint as D. rewrite forallb_forall in D. specialize (D x (all_listed x)).
  rewrite H in D. simpl in D. destruct (ev_major x); [discriminate|reflexivity]. Qed.

Theorem major_event_never_consistent amb ev : existsb ev_major ev = true -> type_consistent (classify amb ev) = false.
Proof. intros H. unfold classify.
  assert (forallb ev_consistent ev = false).
  { destruct (forallb ev_consistent ev) eqn:E; [|reflexivity]. rewrite forallb_forall in E. apply existsb_exists in H. destruct H as [x [Hx Hm]].
    rewrite (consistent_not_major x (E x Hx)) in Hm. discriminate. }
  rewrite H0, H. destruct amb; [reflexivity|]. destruct (existsb ev_intronic ev); reflexivity. Qed.

Theorem classify_consistent_iff amb ev :
  type_consistent (classify amb ev) = true <->
  forallb ev_consistent ev = true \/ (existsb ev_major ev = false /\ existsb ev_minor ev = true).
Proof. unfold classify. destruct (forallb ev_consistent ev) eqn:E1.
  - split; [intros _; left; reflexivity|intros _; destruct amb; reflexivity].
  - destruct (existsb ev_major ev) eqn:E2.
    + split; [|intros [H|[H _]]; discriminate]. destruct amb; [discriminate|]. destruct (existsb ev_intronic ev); discriminate.
    + destruct (existsb ev_minor ev) eqn:E3.
      * split; [intros _; right; split; reflexivity|intros _; destruct amb; reflexivity].
      * split; [discriminate|intros [H|[_ H]]; discriminate]. Qed.

(* a single selected isoform: `inconsistent` iff a major event touches the intron chain, `inconsistent_non_intronic` iff all major
   events are of the non-intronic kind (ends, polyA) *)
Theorem intronic_vs_non_intronic ev : existsb ev_major ev = true ->
  (classify false ev = RAT_inconsistent <-> existsb ev_intronic ev = true) /\
  (classify false ev = RAT_inconsistent_non_intronic <-> existsb ev_intronic ev = false).
Proof. intros H. unfold classify.
  assert (E: forallb ev_consistent ev = false).
  { destruct (forallb ev_consistent ev) eqn:E; [|reflexivity]. rewrite forallb_forall in E. apply existsb_exists in H. destruct H as [x [Hx Hm]].
    rewrite (consistent_not_major x (E x Hx)) in Hm. discriminate. }
  rewrite E, H. destruct (existsb ev_intronic ev); split; split; intros; try reflexivity; discriminate. Qed.

(* a read that follows the isoform's intron chain: the comparator's [none] is classified as a consistent assignment *)
Theorem chain_match_consistent : forall P known rreg R ireg II amb, 0 <= p_delta P -> R <> [] -> junctions_wf II = true ->
  chain_match (p_delta P) rreg R II = true ->
  type_consistent (classify amb (map e_type (compare_junctions P known rreg R ireg II))) = true.
Proof. intros P known rreg R ireg II amb H0 H1 H2 H3. rewrite (chain_match_no_contradiction P known rreg R ireg II H0 H1 H2 H3).
  destruct amb; vm_compute; reflexivity. Qed.

(* ---------------------------------------------------------------- presets *)
Definition msp_le (a b:MSP) : bool :=
  (ms_delta a <=? ms_delta b) && (ms_max_intron_shift a <=? ms_max_intron_shift b) && (ms_max_missed_exon_len a <=? ms_max_missed_exon_len b) &&
  (ms_max_fake_terminal_exon_len a <=? ms_max_fake_terminal_exon_len b) && (ms_max_suspicious_intron_abs_len a <=? ms_max_suspicious_intron_abs_len b) &&
  Qle_bool (ms_max_suspicious_intron_rel_len a) (ms_max_suspicious_intron_rel_len b) && (ARM_value (ms_resolve_ambiguous a) <=? ARM_value (ms_resolve_ambiguous b)) &&
  implb (ms_correct_minor_errors a) (ms_correct_minor_errors b).
(* docs/cmd.md: exact - delta 0, all minor errors are inconsistencies; precise - delta 4; default - delta 6, short novel introns are
   treated as deletions; loose - delta 12, ambiguity resolved by nucleotide similarity; docs/formats.md: tss/tes match within 50 *)
Definition presets_documented : bool :=
  (ms_delta MS_exact =? 0) && (ms_delta MS_precise =? 4) && (ms_delta MS_default =? 6) && (ms_delta MS_loose =? 12) &&
  (ms_max_intron_shift MS_exact =? 0) && (ms_max_missed_exon_len MS_exact =? 0) && (ms_max_fake_terminal_exon_len MS_exact =? 0) &&
  (ms_max_suspicious_intron_abs_len MS_exact =? 0) && negb (ms_correct_minor_errors MS_exact) &&
  (ms_max_suspicious_intron_abs_len MS_precise =? 0) && (0 <? ms_max_suspicious_intron_abs_len MS_default) && (0 <? ms_max_suspicious_intron_abs_len MS_loose) &&
  match ms_resolve_ambiguous MS_loose with ARM_all_ => true | _ => false end &&
  (MO_minor_exon_extension =? 50) && (MO_apa_delta =? MO_minor_exon_extension).
Definition preset_sane (s:MSP) : bool :=
  let P := params_of s in
  (0 <=? p_delta P) && (p_delta P <=? p_max_intron_shift P) && (p_delta P <=? p_max_fake_terminal_exon_len P) &&
  (p_max_fake_terminal_exon_len P <=? p_max_missed_exon_len P) && (2 * p_delta P <=? p_minor_ext P) && (p_minor_ext P <? p_major_ext P) &&
  (p_max_intron_abs_diff P <=? 30) && (p_max_intron_abs_diff P <=? p_max_intron_shift P) && (p_micro_intron_length P <=? p_minor_ext P) &&
  (Qeq_bool (p_susp_rel P) 0 || Qeq_bool (p_susp_rel P) 1) && Qeq_bool (p_max_intron_rel_diff P) (1 # 5) && Qeq_bool (p_min_rel_exon_overlap P) (1 # 5) &&
  (0 <? p_minimal_exon_overlap P) && (p_minimal_exon_overlap P <=? p_min_abs_exon_overlap P).
Lemma presets_as_documented : presets_documented = true. Proof. vm_compute. reflexivity. Qed.
Lemma presets_sane : forallb (fun n => preset_sane (MS_preset n)) MSN_all = true. Proof. vm_compute. reflexivity. Qed.
Lemma presets_monotone : msp_le MS_exact MS_precise && msp_le MS_precise MS_default && msp_le MS_default MS_loose = true. Proof. vm_compute. reflexivity. Qed.
Lemma presets_listed : forall n, In n MSN_all. Proof. destruct n; vm_compute; tauto. Qed.

(* ================================================================ the output specification (implementation independent) *)
(* the specification has its own delta-equality (the translated py_equal_ranges belongs to the implementation) *)
Definition eqd (d:Z) (a b:iv) : bool := (Z.abs (fst a - fst b) <=? d) && (Z.abs (snd a - snd b) <=? d).
Fixpoint chain_eqd (d:Z) (R TI:list iv) : bool :=
  match R, TI with
  | [], _ => true
  | r :: R', t :: TI' => eqd d t r && chain_eqd d R' TI'
  | _ :: _, [] => false
  end.
Definition introns_of (ex:list iv) : list iv := map (fun p => (snd (fst p) + 1, fst (snd p) - 1)) (combine ex (tl ex)).
Definition hull (ex:list iv) : iv := (fst (hd (0,0) ex), snd (last ex (0,0))).
Definition nthx (l:list iv) (k:nat) : iv := nth k l (0,0).

(* `compatible d ext read T`: the read's intron chain is a contiguous d-sub-chain of T's and the read ends lie in the flanking exons,
   up to `ext` bases beyond them; a mono-exonic read lies inside one exon of T up to `ext` *)
Definition compatible_at (d ext:Z) (rex tex:list iv) (k:nat) : bool :=
  let RI := introns_of rex in let TI := introns_of tex in
  chain_eqd d RI (skipn k TI) &&
  (fst (nthx tex k) - ext <=? fst (hull rex)) && (snd (hull rex) <=? snd (nthx tex (k + length RI)) + ext).
Definition compatible (d ext:Z) (rex tex:list iv) : bool :=
  match introns_of rex with
  | [] => let r := hull rex in existsb (fun e => (fst e - ext <=? fst r) && (snd r <=? snd e + ext)) tex
  | _ => existsb (compatible_at d ext rex tex) (seq 0 (length tex))
  end.
(* the read spans all introns of T (or T is mono-exonic as the read) *)
Definition full_length (d:Z) (rex tex:list iv) : bool :=
  (length rex =? length tex)%nat && compatible_at d 0 rex tex 0.

(* no other annotated intron is strictly closer to a read junction than T's own partner: otherwise the read is as well explained by
   the other isoform and the property does not say which one must be reported *)
Definition match_delta (a b:iv) : Z := Z.abs (fst a - fst b) + Z.abs (snd a - snd b).
Definition closest_at (d:Z) (all_introns:list iv) (rex tex:list iv) (k:nat) : bool :=
  forallb (fun p => let '(r, t) := p in
     forallb (fun x => negb (eqd d x r) || (match_delta r t <=? match_delta r x)) all_introns)
    (combine (introns_of rex) (skipn k (introns_of tex))).

(* ---- far: the read differs from T' by structural changes beyond every tolerance of the strategy doubled *)
Record tol2 := mkT2 { t_d : Z; t_dc : Z; t_ext : Z; t_micro : Z; t_missed : Z; t_fake : Z; t_susp : Z }.
Definition doubled (P:params) : tol2 :=
  mkT2 (2 * Z.max (p_delta P) (p_max_intron_shift P)) (2 * p_delta P) (2 * p_minor_ext P) (2 * p_micro_intron_length P) (2 * p_max_missed_exon_len P + 2)
       (2 * p_max_fake_terminal_exon_len P) (2 * Z.max (Z.max (p_susp_abs P) (p_micro_intron_length P)) (p_max_intron_abs_diff P)).
Definition ovl (a b:iv) : bool := (fst a <=? snd b) && (fst b <=? snd a).
Definition no_exon_overlap (rex tex:list iv) : bool := forallb (fun r => forallb (fun e => negb (ovl r e)) tex) rex.
(* a long intron of T' lies inside a read exon *)
Definition retained_intron (T:tol2) (rex tex:list iv) : bool :=
  existsb (fun t => (t_micro T <? ilen t) && existsb (fun e => (fst e <=? fst t) && (snd t <=? snd e)) rex) (introns_of tex).
(* the exon of T' the read's left / right end belongs to, extended over the short introns of T' next to it (a read exon may retain
   them: fake_micro_intron_retention) *)
Fixpoint flank_left (T:tol2) (tex:list iv) (k:nat) : Z :=
  match k with
  | O => fst (nthx tex 0)
  | Datatypes.S k' => if fst (nthx tex k) - snd (nthx tex k') - 1 <=? t_micro T then flank_left T tex k' else fst (nthx tex k)
  end.
Fixpoint flank_right (T:tol2) (tex:list iv) (k:nat) (fuel:nat) : Z :=
  match fuel with
  | O => snd (nthx tex k)
  | Datatypes.S f => if (Datatypes.S k <? length tex)%nat && (fst (nthx tex (Datatypes.S k)) - snd (nthx tex k) - 1 <=? t_micro T)
                     then flank_right T tex (Datatypes.S k) f else snd (nthx tex k)
  end.
(* the chain matches (within twice delta) but an end lies far outside the flanking exon *)
Definition distant_end (T:tol2) (rex tex:list iv) : bool :=
  match introns_of rex with
  | [] => let r := hull rex in
          existsb (ovl r) tex && forallb (fun e => negb (ovl r e) || (fst r <? fst e - t_ext T) || (snd e + t_ext T <? snd r)) tex &&
          forallb (fun t => negb ((fst r <=? fst t) && (snd t <=? snd r))) (introns_of tex)
  | RI => existsb (fun k => chain_eqd (t_dc T) RI (skipn k (introns_of tex)) &&
                           ((fst (hull rex) <? flank_left T tex k - t_ext T) || (flank_right T tex (k + length RI) (length tex) + t_ext T <? snd (hull rex))))
                  (seq 0 (length tex))
  end.
(* total length of the exons of T' between its introns number a and b *)
Definition exons_between (TI:list iv) (a b:nat) : Z :=
  fold_left Z.add (map (fun k => fst (nthx TI (Datatypes.S k)) - snd (nthx TI k) - 1) (seq a (b - a))) 0.
(* a long read intron that no tolerance branch can explain against T' *)
Definition unexplained_intron (T:tol2) (rex tex:list iv) : bool :=
  let RI := introns_of rex in let TI := introns_of tex in let n := length RI in
  existsb (fun j => let r := nthx RI j in
    (t_susp T <? ilen r) &&
    forallb (fun t => negb (eqd (t_d T) t r)) TI &&
    forallb (fun a => forallb (fun b => negb ((a <? b)%nat && (Z.abs (fst (nthx TI a) - fst r) <=? t_d T) && (Z.abs (snd (nthx TI b) - snd r) <=? t_d T) &&
                                            (exons_between TI a b <=? t_missed T))) (seq 0 (length TI))) (seq 0 (length TI)) &&
    negb ((j =? 0)%nat && ((ilen (nthx rex 0) <=? t_fake T) || (Z.abs (snd (nthx TI 0) - snd r) <=? t_d T))) &&
    negb ((j =? n - 1)%nat && ((ilen (nthx rex n) <=? t_fake T) || (Z.abs (fst (last TI (0,0)) - fst r) <=? t_d T))))
    (seq 0 n).
Definition far_from (T:tol2) (rex tex:list iv) : bool :=
  no_exon_overlap rex tex || retained_intron T rex tex || distant_end T rex tex || unexplained_intron T rex tex.

(* ---- one generated read with its ground truth and what read_assignments.tsv reports for it *)
Notation isoform := (Z * list iv)%type.                      (* (interned id, exons) *)
Record rcase := mkRC {
  rc_exons : list iv;          (* exons of the read as aligned *)
  rc_source : option Z;        (* the annotated isoform the read was derived from, if any *)
  rc_type : RAT;               (* assignment_type *)
  rc_reported : list Z }.      (* isoform_id of every line of the read *)

Definition exons_of (ann:list isoform) (id:Z) : list iv :=
  match find (fun i => fst i =? id) ann with Some i => snd i | None => [] end.
Definition all_introns (ann:list isoform) : list iv := flat_map (fun i => introns_of (snd i)) ann.

Inductive verdict := Positive_ok | Negative_ok | Not_judged | Bad (clause:Z).
(* the read follows its source isoform: strictly inside the tolerances (ends inside the flanking exons) *)
Definition follows (P:params) (ann:list isoform) (c:rcase) : bool :=
  match rc_source c with
  | Some s => compatible (p_delta P) 0 (rc_exons c) (exons_of ann s) &&
              forallb (fun e => p_minimal_exon_overlap P <=? ilen e) (rc_exons c)     (* no exon shorter than minimal_exon_overlap *)
  | None => false end.
Definition is_far (P:params) (ann:list isoform) (c:rcase) : bool :=
  forallb (fun i => far_from (doubled P) (rc_exons c) (snd i)) ann.
Definition source_closest (P:params) (ann:list isoform) (c:rcase) : bool :=
  match rc_source c with
  | Some s => let tex := exons_of ann s in
              existsb (fun k => compatible_at (p_delta P) 0 (rc_exons c) tex k && closest_at (p_delta P) (all_introns ann) (rc_exons c) tex k) (seq 0 (length tex))
              || match introns_of (rc_exons c) with [] => true | _ => false end
  | None => false end.

Definition judge (P:params) (ann:list isoform) (c:rcase) : verdict :=
  let d := p_delta P in let ext := p_minor_ext P in
  if follows P ann c then
    match rc_source c with
    | None => Not_judged
    | Some s =>
      if negb (type_consistent (rc_type c)) then Bad 1                                                    (* consistent type *)
      else if negb (forallb (fun id => compatible d ext (rc_exons c) (exons_of ann id)) (rc_reported c)) then Bad 2   (* reported are compatible *)
      else if source_closest P ann c && full_length d (rc_exons c) (exons_of ann s) && negb (existsb (Z.eqb s) (rc_reported c)) then Bad 3   (* T reported when full-length *)
      else if source_closest P ann c && forallb (fun i => (fst i =? s) || negb (compatible d ext (rc_exons c) (snd i))) ann &&
              negb (rmem (rc_type c) RAT_is_unique && list_eqb Z.eqb (rc_reported c) [s]) then Bad 4           (* unique to T when T is the only compatible one *)
      else Positive_ok
    end
  else if is_far P ann c then (if type_consistent (rc_type c) then Bad 5 else Negative_ok)
  else Not_judged.
Definition assignment_ok (P:params) (ann:list isoform) (c:rcase) : bool := match judge P ann c with Bad _ => false | _ => true end.
