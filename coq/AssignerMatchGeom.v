(* C01: "layer 2" of the consistent path of LongReadAssigner.assign_to_isoform - the hypotheses of the decision layer
   (AssignerMatchProofs.v: profiles_clean, compatible_ids, events_all_consistent) derived from the GEOMETRY of the read and of the isoform.
   Setting: a spliced isoform T of the gene, a read without polyA whose exons are T's exons with the two outer ends moved inside T's
   terminal exons (exact_read).  The profile constructors are C19's models (Intervals.v); their characterisation theorems
   (OvsReadProofs, FeatureCountsProofs, NosProofs, ProfileProofs, SplitProofs) are used, not re-proved.
     G0 sorted_set_spec            sorted(set(...)) : strictly sorted, duplicate free, start-sorted, same elements
     G1 exact_intron_read_profile  every read intron is an annotated intron (1); gene side: 1 iff T's intron, -1 only inside T's span, never -2
     G2 exact_split_read_profile   every read exon is hit (1); T's split-exon profile equals the read's wherever the read's is not 0
     G3 exact_profiles_clean       the profiles send assign_to_isoform to match_consistent
     G4 exact_T_compatible         T is among the profile-compatible isoforms, and among the split-exon matching ones (no corner hypothesis)
     G5 compatible_have_introns    every compatible isoform is spliced (is_fsm is defined)
     G6 exact_T_events_consistent  the match event is FSM and the elongation events are terminal-site matches
     exact_match_unique            T the only compatible isoform: assign = (unique, [T]) with consistent events
     exact_match_reports_T         composition with compatible_reports_T_incl (hypotheses: T survives the score resolution; the other
                                   compatible isoforms have consistent events)
     exact_match_reports_T_strong  the second hypothesis removed: the isoforms that reach the event construction pass the split-exon
                                   matching step, T's anchor blocks are theirs as well, and their events are consistent (G6_other)
   Hypotheses.
     gene_ok d isos   (decidable) ids pairwise distinct; per isoform: exons well formed and separated by >= 1 base (IntervalsSpec.gapped),
                      coordinates >= 0 (split_exons uses -1 as a sentinel), introns longer than delta (H1 of the C19 statement)
     H2 d (introns T) the read's introns are more than delta apart (H2 of the C19 statement)
     parameters       0 <= delta, 0 < minimal_exon_overlap, 0 <= min_abs_exon_overlap, delta <= minor_exon_extension (G6 only);
                      0 < minimal_intron_absence_overlap is NOT needed
     first_exon_ok    (G2, G3) the first read exon is at least minimal_exon_overlap long, or the read start is the first base of its split block
                      or at least minimal_exon_overlap bases before its end.  The comparator overlaps_at_least_when_overlap is not symmetric:
                      a read exon strictly inside a block and ending with it must overlap it by minimal_exon_overlap bases; the LAST read exon
                      needs nothing (it starts with a block).
     corner_ok        (G6 and the compositions) first_exon_ok and [ both read ends well placed in their split blocks (ends_ok, decidable)
                      or minimal_exon_overlap <= delta + 1 ].  A read end inside a block by fewer than minimal_exon_overlap bases leaves that
                      block unhit; the neighbouring block becomes the first/last common exon and the read overhangs it by up to
                      minimal_exon_overlap - 1 bases: a minor exon_elongation event when that exceeds delta.  The default preset has
                      minimal_exon_overlap = 5 <= delta + 1 = 7, so there only first_exon_ok is left.
   Every added hypothesis has a ..._refuted example at the end of the file; H1 / H2 are the hypotheses of the C19 characterisation
   (FeatureCountsProofs.value_clean) that is used - no counterexample was found for them in the exact-read setting. *)
From Coq Require Import ZArith NArith QArith List Bool Lia ZifyBool.
From IQ Require Profile.
From IQ Require Import CorrSupport Intervals IntervalsSpec IntervalsProofs IntervalsProofs2 OvsReadProofs NosProofs SplitProofs ProfileProofs
  FeatureCounts FeatureCountsProofs Junctions Assigner AssignerEnds AssignerPath AssignerMatch AssignerMatchProofs.
From IQ.gen Require Import Tables Prims.
Import ListNotations. Open Scope Z_scope.

(* ================================================================ G0: sorted(set(...)) *)
Fixpoint lts (l:list iv) : Prop := match l with a :: ((b :: _) as t) => iv_ltb a b = true /\ lts t | _ => True end.

Lemma iv_ltb_trans a b c : iv_ltb a b = true -> iv_ltb b c = true -> iv_ltb a c = true.
Proof. unfold iv_ltb. lia. Qed.
Lemma iv_ltb_irrefl a : iv_ltb a a = false.
Proof. unfold iv_ltb. lia. Qed.
Lemma iv_eqb_eq a b : iv_eqb a b = true <-> a = b.
Proof. destruct a as [a0 a1], b as [b0 b1]. unfold iv_eqb. cbn [fst snd]. split; [intros H; f_equal; lia|intros H; inversion H; subst; lia]. Qed.
Lemma lts_tail a t : lts (a :: t) -> lts t.
Proof. destruct t as [|b t]; [intros _; exact Logic.I|]. intros (_ & H). exact H. Qed.
Lemma lts_head_lt : forall t a, lts (a :: t) -> forall x, In x t -> iv_ltb a x = true.
Proof. induction t as [|b t IH]; intros a H x Hx; [destruct Hx|]. destruct H as (Hab & Ht). destruct Hx as [<-|Hx]; [exact Hab|].
  apply iv_ltb_trans with b; [exact Hab|exact (IH b Ht x Hx)]. Qed.
Lemma lts_NoDup l : lts l -> NoDup l.
Proof. induction l as [|a t IH]; intros H; constructor.
  - intros Hin. pose proof (lts_head_lt t a H a Hin) as Hc. rewrite iv_ltb_irrefl in Hc. discriminate.
  - apply IH. exact (lts_tail a t H). Qed.
Lemma lts_starts : forall l, lts l -> Profile.starts_sorted l.
Proof. induction l as [|a [|b t] IH]; intros H; cbn [Profile.starts_sorted]; auto. destruct H as (Hab & Ht). split; [unfold iv_ltb in Hab; lia|apply IH; exact Ht]. Qed.

Lemma ivins_In x y l : In y (ivins x l) <-> y = x \/ In y l.
Proof. induction l as [|z t IH]; cbn [ivins].
  - cbn [In]. split; [intros [H|[]]; left; symmetry; exact H|intros [H|[]]; left; symmetry; exact H].
  - destruct (iv_eqb x z) eqn:E1.
    + apply iv_eqb_eq in E1. subst z. split; [intros H; right; exact H|intros [->|H]; [left; reflexivity|exact H]].
    + destruct (iv_ltb x z); cbn [In]; [|rewrite IH]; intuition congruence. Qed.
Lemma ivins_lts x : forall l, lts l -> lts (ivins x l).
Proof. induction l as [|z t IH]; intros H; [exact Logic.I|]. cbn [ivins].
  destruct (iv_eqb x z) eqn:E1; [exact H|]. destruct (iv_ltb x z) eqn:E2; [split; assumption|].
  assert (Hzx: iv_ltb z x = true) by (unfold iv_ltb, iv_eqb in *; lia).
  destruct t as [|b t']; [cbn [ivins]; split; [exact Hzx|exact Logic.I]|].
  destruct H as (Hzb & Ht). specialize (IH Ht). cbn [ivins] in *.
  destruct (iv_eqb x b); [split; assumption|]. destruct (iv_ltb x b); [split; [exact Hzx|exact IH]|split; [exact Hzb|exact IH]]. Qed.
Lemma fold_ivins_spec : forall l acc, lts acc ->
  lts (fold_left (fun acc x => ivins x acc) l acc) /\ forall y, In y (fold_left (fun acc x => ivins x acc) l acc) <-> In y acc \/ In y l.
Proof. induction l as [|x l IH]; intros acc H; cbn [fold_left].
  - split; [exact H|]. intros y. cbn [In]. tauto.
  - destruct (IH (ivins x acc) (ivins_lts x acc H)) as (I1 & I2). split; [exact I1|]. intros y. rewrite I2, ivins_In. cbn [In]. intuition congruence. Qed.

Theorem sorted_set_spec l :
  lts (sorted_set l) /\ NoDup (sorted_set l) /\ Profile.starts_sorted (sorted_set l) /\ forall x, In x (sorted_set l) <-> In x l.
Proof. unfold sorted_set. destruct (fold_ivins_spec l [] Logic.I) as (H1 & H2).
  split; [exact H1|]. split; [exact (lts_NoDup _ H1)|]. split; [exact (lts_starts _ H1)|]. intros x. rewrite H2. cbn [In]. tauto. Qed.

(* two strictly sorted lists: inclusion is the sub-sequence relation *)
Lemma lts_incl_subseq : forall K F, lts F -> lts K -> incl F K -> subseq F K.
Proof. induction K as [|k K IH]; intros F HF HK Hin.
  - destruct F as [|f F]; [constructor|]. destruct (Hin f (or_introl eq_refl)).
  - destruct F as [|f F]; [constructor|].
    assert (HKt: lts K) by exact (lts_tail k K HK).
    destruct (Hin f (or_introl eq_refl)) as [<-|Hf].
    + apply ss_take. apply IH; [exact (lts_tail k F HF)|exact HKt|]. intros x Hx.
      destruct (Hin x (or_intror Hx)) as [<-|H]; [|exact H]. pose proof (lts_head_lt F k HF k Hx) as Hc. rewrite iv_ltb_irrefl in Hc. discriminate.
    + apply ss_skip. apply IH; [exact HF|exact HKt|]. intros x Hx. destruct (Hin x Hx) as [<-|H]; [|exact H]. exfalso.
      pose proof (lts_head_lt K k HK f Hf) as Hkf.
      destruct Hx as [->|Hx]; [rewrite iv_ltb_irrefl in Hkf; discriminate|].
      pose proof (lts_head_lt F f HF k Hx) as Hfk. pose proof (iv_ltb_trans _ _ _ Hkf Hfk) as Hc. rewrite iv_ltb_irrefl in Hc. discriminate. Qed.
Lemma sd_lts : forall l, sd l -> lts l.
Proof. induction l as [|a [|b t] IH]; intros H; cbn [lts]; auto. pose proof (sd_wf _ _ H). destruct H as (Ha & Hab & Ht). split; [unfold iv_ltb; lia|apply IH; exact Ht]. Qed.

(* ================================================================ list / index utilities *)
Lemma pz_map (f:iv -> Z) K j k : nth_error K j = Some k -> pz (map f K) (Z.of_nat j) = f k.
Proof. intros H. unfold pz, nthz. rewrite Nat2Z.id. apply nth_error_nth. apply map_nth_error. exact H. Qed.
Lemma nth_map0 (f:iv -> Z) K j k : nth_error K j = Some k -> nth j (map f K) 0 = f k.
Proof. intros H. apply nth_error_nth. apply map_nth_error. exact H. Qed.

Lemma equal_profiles_map (f h:iv -> Z) K rg : (forall k, In k K -> h k = 0 \/ f k = h k) -> equal_profiles_in_range (map f K) (map h K) rg = true.
Proof. intros H. unfold equal_profiles_in_range. apply forallb_forall. intros i _. unfold pz, nthz. set (n := Z.to_nat i).
  destruct (nth_error K n) as [k|] eqn:E.
  - rewrite (nth_map0 f K n k E), (nth_map0 h K n k E). destruct (H k (nth_error_In _ _ E)); lia.
  - apply nth_error_None in E. rewrite (nth_overflow (map h K)) by (rewrite map_length; exact E). reflexivity. Qed.

Lemma lead_lt1_nonneg l : 0 <= lead_lt1 l.
Proof. induction l as [|v t IH]; cbn [lead_lt1]; [lia|]. destruct (v <? 1); lia. Qed.
Lemma lead_zero_nonneg l : 0 <= lead_zero l.
Proof. induction l as [|v t IH]; cbn [lead_zero]; [lia|]. destruct (v =? 0); lia. Qed.
Lemma lead_lt1_le : forall l j, (j < length l)%nat -> 1 <= nth j l 0 -> lead_lt1 l <= Z.of_nat j.
Proof. induction l as [|v t IH]; intros j Hj Hv; [cbn in Hj; lia|]. cbn [lead_lt1]. destruct j as [|j]; cbn [nth] in Hv.
  - replace (v <? 1) with false by lia. lia.
  - cbn [length] in Hj. specialize (IH j ltac:(lia) Hv). destruct (v <? 1); lia. Qed.
Lemma lead_zero_le : forall l j, (j < length l)%nat -> nth j l 0 <> 0 -> lead_zero l <= Z.of_nat j.
Proof. induction l as [|v t IH]; intros j Hj Hv; [cbn in Hj; lia|]. cbn [lead_zero]. destruct j as [|j]; cbn [nth] in Hv.
  - replace (v =? 0) with false by lia. lia.
  - cbn [length] in Hj. specialize (IH j ltac:(lia) Hv). destruct (v =? 0); lia. Qed.
Lemma lead_lt1_rev_le l j : (j < length l)%nat -> 1 <= nth j l 0 -> Z.of_nat j < Z.of_nat (length l) - lead_lt1 (rev l).
Proof. intros Hj Hv. assert (H: lead_lt1 (rev l) <= Z.of_nat (length l - Datatypes.S j)).
  { apply lead_lt1_le; [rewrite rev_length; lia|]. rewrite rev_nth by lia. replace (length l - Datatypes.S (length l - Datatypes.S j))%nat with j by lia. exact Hv. }
  lia. Qed.
Lemma lead_zero_rev_le l j : (j < length l)%nat -> nth j l 0 <> 0 -> Z.of_nat j < Z.of_nat (length l) - lead_zero (rev l).
Proof. intros Hj Hv. assert (H: lead_zero (rev l) <= Z.of_nat (length l - Datatypes.S j)).
  { apply lead_zero_le; [rewrite rev_length; lia|]. rewrite rev_nth by lia. replace (length l - Datatypes.S (length l - Datatypes.S j))%nat with j by lia. exact Hv. }
  lia. Qed.
(* an index carrying 1 in a profile lies inside both kinds of profile range *)
Lemma in_range_lt1 l j : (j < length l)%nat -> nth j l 0 = 1 -> fst (profile_range_lt1 l) <= Z.of_nat j < snd (profile_range_lt1 l).
Proof. intros Hj Hv. unfold profile_range_lt1. cbn [fst snd]. pose proof (lead_lt1_le l j Hj ltac:(lia)). pose proof (lead_lt1_rev_le l j Hj ltac:(lia)). lia. Qed.
Lemma in_range_zero l j : (j < length l)%nat -> nth j l 0 = 1 -> fst (profile_range_zero l) <= Z.of_nat j < snd (profile_range_zero l).
Proof. intros Hj Hv. unfold profile_range_zero. cbn [fst snd]. pose proof (lead_zero_le l j Hj ltac:(lia)). pose proof (lead_zero_rev_le l j Hj ltac:(lia)). lia. Qed.
Lemma range_lt1_bounds l : 0 <= fst (profile_range_lt1 l) /\ snd (profile_range_lt1 l) <= Z.of_nat (length l).
Proof. unfold profile_range_lt1. cbn [fst snd]. pose proof (lead_lt1_nonneg l). pose proof (lead_lt1_nonneg (rev l)). lia. Qed.
Lemma range_zero_bounds l : 0 <= fst (profile_range_zero l) /\ snd (profile_range_zero l) <= Z.of_nat (length l).
Proof. unfold profile_range_zero. cbn [fst snd]. pose proof (lead_zero_nonneg l). pose proof (lead_zero_nonneg (rev l)). lia. Qed.

Lemma In_zrange_n : forall m a i, In i (zrange_n a m) <-> a <= i < a + Z.of_nat m.
Proof. induction m as [|m IH]; intros a i; cbn [zrange_n In]; [lia|]. rewrite IH. lia. Qed.
Lemma In_zrange a b i : a <= i < b -> In i (zrange a b).
Proof. intros H. unfold zrange. apply In_zrange_n. lia. Qed.
Lemma zrange_n_snoc : forall m a, zrange_n a (Datatypes.S m) = zrange_n a m ++ [a + Z.of_nat m].
Proof. induction m as [|m IH]; intros a.
  - cbn [zrange_n app Z.of_nat]. rewrite Z.add_0_r. reflexivity.
  - change (zrange_n a (Datatypes.S (Datatypes.S m))) with (a :: zrange_n (a + 1) (Datatypes.S m)). rewrite IH. cbn [zrange_n app].
    replace (a + Z.of_nat (Datatypes.S m)) with (a + 1 + Z.of_nat m) by lia. reflexivity. Qed.

Lemma has_overlapping_at p1 p2 rg j : fst rg <= j < snd rg -> pz p1 j = 1 -> pz p2 j = 1 -> has_overlapping_features p1 p2 rg = true.
Proof. intros Hj Ha Hb. unfold has_overlapping_features. apply existsb_exists. exists j. split; [apply In_zrange; exact Hj|]. rewrite Ha, Hb. reflexivity. Qed.

Lemma pyidx_in {A} (l:list A) i d : 0 <= i < Z.of_nat (length l) -> pyidx l i = Some (nthz l i d).
Proof. intros H. unfold pyidx, nthz. cbv zeta. replace ((0 <=? i) && (i <? Z.of_nat (length l))) with true by lia. apply nth_error_nth'. lia. Qed.
Lemma nth_error_last {A} (d:A) : forall l x, nth_error (x :: l) (length l) = Some (last (x :: l) d).
Proof. induction l as [|y l IH]; intros x; [reflexivity|]. cbn [length nth_error]. rewrite IH. reflexivity. Qed.
Lemma pyidx_last {A} (l:list A) d : l <> [] -> pyidx l (-1) = Some (last l d).
Proof. destruct l as [|x l']; [contradiction|]. intros _. unfold pyidx. cbv zeta. change (0 <=? -1) with false. cbn [andb].
  replace ((-1 <? 0) && (- Z.of_nat (length (x :: l')) <=? -1)) with true by (cbn [length]; lia).
  replace (Z.to_nat (Z.of_nat (length (x :: l')) + -1)) with (length l') by (cbn [length]; lia). apply nth_error_last. Qed.

(* ---------- the scans of categorize_exon_elongation_subtype over two profiles of the same length ---------- *)
Section Scan.
Variables (isop rp:list Z) (n:nat).
Hypothesis Hli : length isop = n.
Hypothesis Hlr : length rp = n.
Definition good2 (i:Z) : Prop := nthz isop i 0 = 1 /\ nthz rp i 0 = 1.
Lemma scan_step i idx : 0 <= i < Z.of_nat n ->
  scan isop rp (i :: idx) = if (nthz isop i 0 =? nthz rp i 0) && (nthz rp i 0 =? 1) then Ok i else scan isop rp idx.
Proof. intros H. cbn [scan]. rewrite (pyidx_in isop i 0), (pyidx_in rp i 0) by lia. reflexivity. Qed.
Lemma scan_up : forall m lo i0, 0 <= lo -> lo + Z.of_nat m <= Z.of_nat n -> lo <= i0 < lo + Z.of_nat m -> good2 i0 ->
  exists i, scan isop rp (zrange_n lo m) = Ok i /\ lo <= i <= i0 /\ good2 i.
Proof. induction m as [|m IH]; intros lo i0 Hlo Hn Hi (G1 & G2); [lia|]. cbn [zrange_n]. rewrite scan_step by lia.
  destruct ((nthz isop lo 0 =? nthz rp lo 0) && (nthz rp lo 0 =? 1)) eqn:E.
  - exists lo. split; [reflexivity|]. split; [lia|]. unfold good2. lia.
  - assert (i0 <> lo) by (intros ->; lia). destruct (IH (lo + 1) i0) as (i & Hs & Hr & Hg); [lia|lia|lia|split; assumption|].
    exists i. split; [exact Hs|]. split; [lia|exact Hg]. Qed.
Lemma scan_down : forall m i0, Z.of_nat m <= Z.of_nat n -> 0 <= i0 < Z.of_nat m -> good2 i0 ->
  exists i, scan isop rp (rev (zrange_n 0 m)) = Ok i /\ i0 <= i < Z.of_nat m /\ good2 i.
Proof. induction m as [|m IH]; intros i0 Hn Hi (G1 & G2); [lia|]. rewrite zrange_n_snoc, rev_unit. rewrite scan_step by lia.
  destruct ((nthz isop (0 + Z.of_nat m) 0 =? nthz rp (0 + Z.of_nat m) 0) && (nthz rp (0 + Z.of_nat m) 0 =? 1)) eqn:E.
  - exists (0 + Z.of_nat m). split; [reflexivity|]. split; [lia|]. unfold good2. lia.
  - assert (i0 <> 0 + Z.of_nat m) by (intros ->; lia). destruct (IH i0) as (i & Hs & Hr & Hg); [lia|lia|split; assumption|].
    exists i. split; [exact Hs|]. split; [lia|exact Hg]. Qed.
End Scan.

(* ---------- strictly increasing disjoint lists ---------- *)
Lemma sd_trich : forall L x y, sd L -> In x L -> In y L -> fst x < fst y -> snd x < fst y.
Proof. induction L as [|c L IH]; intros x y HS Hx Hy Hlt; [destruct Hx|].
  pose proof (sd_after _ _ HS) as FA. rewrite Forall_forall in FA. pose proof (sd_wf _ _ HS) as Hw.
  destruct Hx as [->|Hx]; destruct Hy as [->|Hy].
  - lia.
  - exact (FA y Hy).
  - specialize (FA x Hx). lia.
  - exact (IH x y (sd_tail _ _ HS) Hx Hy Hlt). Qed.
Lemma sd_pairwise : forall L x y, sd L -> In x L -> In y L -> x = y \/ snd x < fst y \/ snd y < fst x.
Proof. induction L as [|c L IH]; intros x y HS Hx Hy; [destruct Hx|].
  pose proof (sd_after _ _ HS) as FA. rewrite Forall_forall in FA.
  destruct Hx as [->|Hx]; destruct Hy as [->|Hy]; [left; reflexivity|right; left; exact (FA y Hy)|right; right; exact (FA x Hx)|exact (IH x y (sd_tail _ _ HS) Hx Hy)]. Qed.
Lemma sd_nth_mono : forall L i j d, sd L -> (i <= j)%nat -> (j < length L)%nat ->
  fst (nth i L d) <= fst (nth j L d) /\ snd (nth i L d) <= snd (nth j L d).
Proof. induction L as [|c L IH]; intros i j d HS Hij Hj; [cbn in Hj; lia|]. cbn [length] in Hj.
  destruct i as [|i]; destruct j as [|j]; cbn [nth]; try lia.
  - pose proof (sd_after _ _ HS) as FA. rewrite Forall_forall in FA. assert (Hin: In (nth j L d) L) by (apply nth_In; lia).
    specialize (FA _ Hin). pose proof (sd_wf _ _ HS). pose proof (sd_wf_In L _ (sd_tail _ _ HS) Hin). lia.
  - apply IH; [exact (sd_tail _ _ HS)|lia|lia]. Qed.
Lemma sd_map_shrink (c:iv -> iv) : forall L, sd L ->
  (forall f, In f L -> fst (c f) <= snd (c f) /\ snd (c f) <= snd f /\ fst f <= fst (c f)) -> sd (map c L).
Proof. induction L as [|x L IH]; intros HS Hc; [exact Logic.I|]. cbn [map]. destruct (Hc x (or_introl eq_refl)) as (C1 & C2 & C3).
  apply sd_cons_hd; [exact C1| |apply IH; [exact (sd_tail _ _ HS)|intros f Hf; apply Hc; right; exact Hf]].
  destruct L as [|y L']; [exact Logic.I|]. cbn [map hd_gt]. destruct (Hc y (or_intror (or_introl eq_refl))) as (_ & _ & D3).
  destruct HS as (_ & Hxy & _). lia. Qed.

(* ---------- junctions_from_blocks ---------- *)
Lemma gapped_P : forall l, gapped l = true -> gappedP l.
Proof. induction l as [|x t IH]; intros H; [exact Logic.I|]. cbn [gapped] in H. apply andb_prop in H. destruct H as (H & Ht). apply andb_prop in H. destruct H as (Hx & Hxy).
  cbn [gappedP]. split; [lia|]. split; [destruct t; [exact Logic.I|lia]|exact (IH Ht)]. Qed.
Lemma gappedP_sd : forall l, gappedP l -> sd l.
Proof. induction l as [|x t IH]; intros H; [exact Logic.I|]. destruct H as (Hx & Hxy & Ht). split; [exact Hx|]. split; [destruct t; [exact Logic.I|lia]|exact (IH Ht)]. Qed.
Lemma jfb_In : forall l i, In i (jfb l) -> exists e1 e2, In e1 l /\ In e2 l /\ fst i = snd e1 + 1 /\ snd i = fst e2 - 1 /\ snd e1 + 1 < fst e2.
Proof. induction l as [|x [|y t] IH]; intros i H; [destruct H|destruct H|]. rewrite jfb_cons2 in H. apply in_app_or in H. destruct H as [H|H].
  - destruct (snd x + 1 <? fst y) eqn:E; [|destruct H]. destruct H as [<-|[]]. exists x, y. cbn [fst snd In]. repeat split; auto; lia.
  - destruct (IH i H) as (e1 & e2 & I1 & I2 & R). exists e1, e2. split; [right; exact I1|]. split; [right; exact I2|exact R]. Qed.
Lemma jfb_last_snd : forall L x y y', L <> [] -> jfb (L ++ [(x, y)]) = jfb (L ++ [(x, y')]).
Proof. induction L as [|c [|c' L] IH]; intros x y y' Hne; [contradiction|reflexivity|].
  change ((c :: c' :: L) ++ [(x, y)]) with (c :: c' :: (L ++ [(x, y)])). change ((c :: c' :: L) ++ [(x, y')]) with (c :: c' :: (L ++ [(x, y')])).
  rewrite !jfb_cons2. f_equal. apply (IH x y y'). discriminate. Qed.

(* ================================================================ the setting *)
Definition no_pa : polya := mkPA (-1) (-1) (-1) (-1).
(* the read has exactly T's intron chain and its ends lie inside T's terminal exons *)
Definition exact_read (t:isof) (rex:list iv) : Prop :=
  exists first mid last a b, i_exons t = first :: mid ++ [last] /\ rex = (a, snd first) :: mid ++ [(fst last, b)] /\
    fst first <= a <= snd first /\ fst last <= b <= snd last.

(* gene hypotheses, decidable: isoform ids pairwise distinct; every isoform has well-formed exons separated by at least one base
   (IntervalsSpec.gapped), non-negative coordinates (split_exons_partition), and introns longer than delta (H1) *)
Fixpoint nodupb (l:list Z) : bool := match l with [] => true | x :: t => negb (existsb (Z.eqb x) t) && nodupb t end.
Lemma nodupb_NoDup : forall l, nodupb l = true -> NoDup l.
Proof. induction l as [|x t IH]; intros H; constructor; cbn [nodupb] in H; apply andb_prop in H; destruct H as (Hx & Ht).
  - intros Hin. apply negb_true_iff in Hx. assert (existsb (Z.eqb x) t = true) by (apply existsb_exists; exists x; split; [exact Hin|apply Z.eqb_refl]). congruence.
  - exact (IH Ht). Qed.
Definition iso_ok (d:Z) (t:isof) : bool :=
  gapped (i_exons t) && forallb (fun e => 0 <=? fst e) (i_exons t) && IntervalsSpec.H1 d (i_introns t).
Definition gene_ok (d:Z) (isos:list isof) : bool := nodupb (map i_id isos) && forallb (iso_ok d) isos.

(* the read exon of an isoform exon: the exon cut at the two read ends *)
Definition clip (a b:Z) (f:iv) : iv := (Z.max (fst f) a, Z.min (snd f) b).
(* the corner hypotheses on the read ends (decidable, on the split exons of the gene):
   left : the block containing the read start is entered at its first base or overlapped by at least minimal_exon_overlap bases
   right: the block containing the read end is left at its last base, or starts at or before the read's last exon, or is overlapped by
          at least minimal_exon_overlap bases *)
Definition left_end_ok (meo:Z) (blocks:list iv) (a:Z) : bool :=
  forallb (fun k => negb ((fst k <=? a) && (a <=? snd k)) || (a =? fst k) || (meo <=? snd k - a + 1)) blocks.
Definition right_end_ok (meo:Z) (blocks:list iv) (fl b:Z) : bool :=
  forallb (fun k => negb ((fst k <=? b) && (b <=? snd k)) || (b =? snd k) || (fst k <=? fl) || (meo <=? b - fst k + 1)) blocks.

Lemma ovp_range cmp absent delta K gr R mapped pa pt gp rp rg :
  overlapping_profile cmp absent delta K gr R mapped pa pt = Some (gp, rp, rg) -> rg = profile_range_zero gp.
Proof. unfold overlapping_profile. cbv zeta.
  match goal with |- match ?x with _ => _ end = _ -> _ => destruct x as [[[g0 r0] m0]|] end; [|discriminate].
  intros H. injection H as E1 E2 E3. subst. reflexivity. Qed.

Lemma valO_self cmp gp0 lo K v0 r : v0 <> 1 -> In r K -> olt lo (fst r) = true -> fst r <= snd r -> cmp r r = true -> valO cmp gp0 lo K v0 r = 1.
Proof. intros Hv Hin Hlo Hw Hc. apply valO_1_iff; [exact Hv|]. exists r. repeat split; try assumption; lia. Qed.
Lemma rtail_ones cmp ini gp0 K : (forall r, ini r <> 1) -> (forall r, fst r <= snd r -> cmp r r = true) ->
  forall R p, sd (p :: R) -> (forall r, In r R -> In r K) -> rtail cmp ini gp0 K p R = map (fun _ => 1) R.
Proof. intros Hini Hc. induction R as [|r R IH]; intros p HS Hin; [reflexivity|]. cbn [rtail map].
  pose proof (sd_tail _ _ HS) as HS'. pose proof (sd_wf _ _ HS') as Hw. f_equal.
  - apply valO_self; [apply Hini|apply Hin; left; reflexivity| |exact Hw|exact (Hc r Hw)]. cbn [olt]. destruct HS as (_ & Hpr & _). lia.
  - apply IH; [exact HS'|intros x Hx; apply Hin; right; exact Hx]. Qed.
Lemma in_gap_both (k:iv) : forall R, in_gap R k = true -> exists x y, In x R /\ In y R /\ snd x < fst k /\ snd k < fst y.
Proof. induction R as [|x [|y t] IH]; cbn [in_gap]; try discriminate. intros H. apply orb_true_iff in H. destruct H as [H|H].
  - exists x, y. cbn [In]. repeat split; auto; lia.
  - destruct (IH H) as (u & v & Hu & Hv & R1). exists u, v. split; [right; exact Hu|]. split; [right; exact Hv|exact R1]. Qed.
Lemma find_id_nodup : forall l t, NoDup (map i_id l) -> In t l -> find (fun t' => i_id t' =? i_id t) l = Some t.
Proof. induction l as [|x l IH]; intros t ND Hin; [destruct Hin|]. cbn [find]. cbn [map] in ND. inversion ND as [|? ? Hnot ND']; subst.
  destruct (i_id x =? i_id t) eqn:E.
  - destruct Hin as [->|Hin]; [reflexivity|]. exfalso. apply Hnot. replace (i_id x) with (i_id t) by lia. apply in_map. exact Hin.
  - destruct Hin as [->|Hin]; [lia|]. exact (IH t ND' Hin). Qed.
Lemma jfb_ends x1 x1' y1 L xn yn yn' : jfb ((x1, y1) :: L ++ [(xn, yn)]) = jfb ((x1', y1) :: L ++ [(xn, yn')]).
Proof. rewrite (jfb_head_fst x1 x1' y1). change ((x1', y1) :: L ++ [(xn, yn)]) with (((x1', y1) :: L) ++ [(xn, yn)]).
  rewrite (jfb_last_snd ((x1', y1) :: L) xn yn yn') by discriminate. reflexivity. Qed.

Lemma eqd_refl dd x : 0 <= dd -> FeatureCounts.eqd dd x x = true.
Proof. intros H. unfold FeatureCounts.eqd, py_equal_ranges. lia. Qed.
Lemma read_side_ones cmp absent K gr (R:list iv) : sd R -> (forall y, In y R -> In y K) -> (forall y, cmp y y = true) ->
  match R with [] => [] | x :: R' => valO cmp false None K (read_init absent gr x) x :: rtail cmp (read_init absent gr) false K x R' end = map (fun _ => 1) R.
Proof. intros HS Hin Hc. destruct R as [|x R']; [reflexivity|]. cbn [map].
  assert (Hini: forall y, read_init absent gr y <> 1) by (intros y; unfold read_init; destruct (absent gr y); lia).
  f_equal.
  - apply valO_self; [apply Hini|apply Hin; left; reflexivity|reflexivity|exact (sd_wf _ _ HS)|apply Hc].
  - apply rtail_ones; [exact Hini|intros y _; apply Hc|exact HS|intros y Hy; apply Hin; right; exact Hy]. Qed.

Lemma py_overlaps_sym x y : py_overlaps x y = py_overlaps y x.
Proof. unfold py_overlaps. lia. Qed.
Lemma cmps_same_start x k m : fst x = fst k -> py_overlaps_at_least_when_overlap x k m = true.
Proof. intros H. unfold py_overlaps_at_least_when_overlap. destruct (snd x <? snd k); lia. Qed.
Lemma has_v_ones {A} c (l:list A) : c <> 1 -> has_v c (map (fun _ => 1) l) = false.
Proof. intros H. unfold has_v. induction l as [|x l IH]; [reflexivity|]. cbn [map existsb]. rewrite IH. lia. Qed.
Lemma forallb_has1 l : In 1 l -> forallb (fun v => (v =? 0) || (v =? -2)) l = false.
Proof. induction l as [|x l IH]; intros H; [destruct H|]. cbn [forallb]. destruct H as [->|H]; [reflexivity|]. rewrite (IH H). apply andb_false_r. Qed.
Lemma clean_of_ones ri rs (A B:list iv) : B <> [] -> rp ri = map (fun _ => 1) A -> rp rs = map (fun _ => 1) B -> In 1 (gp rs) -> profiles_clean ri rs = true.
Proof. intros HB Hri Hrs H1'. unfold profiles_clean. rewrite Hri, Hrs, !has_v_ones by lia. rewrite (forallb_has1 _ H1').
  destruct B as [|x B']; [contradiction|]. reflexivity. Qed.
Lemma In_last {A} (d:A) : forall l, l <> [] -> In (last l d) l.
Proof. induction l as [|x [|y l] IH]; intros H; [contradiction|left; reflexivity|]. right. apply IH. discriminate. Qed.
Lemma span_of_list (l:list iv) lo hi : l <> [] -> (forall i, In i l -> lo < fst i /\ snd i < hi) ->
  exists i0 rest, l = i0 :: rest /\ lo < fst i0 /\ snd (last l (0, 0)) < hi.
Proof. intros Hne H. destruct l as [|i0 rest]; [contradiction|]. exists i0, rest. split; [reflexivity|]. split; [apply H; left; reflexivity|].
  apply H. apply In_last. discriminate. Qed.
Lemma pyidx_hd {A} (x:A) l : pyidx (x :: l) 0 = Some x.
Proof. reflexivity. Qed.
Lemma single_of_nodup (l:list Z) x : NoDup l -> In x l -> (forall y, In y l -> y = x) -> l = [x].
Proof. intros ND Hin Hall. destruct l as [|y l']; [destruct Hin|]. assert (y = x) by (apply Hall; left; reflexivity). subst y.
  destruct l' as [|z l'']; [reflexivity|]. exfalso. assert (z = x) by (apply Hall; right; left; reflexivity). subst z. inversion ND as [|? ? Hn _]. apply Hn. left. reflexivity. Qed.
Lemma NoDup_filter {A} (f:A -> bool) l : NoDup l -> NoDup (filter f l).
Proof. induction 1 as [|x l Hn ND IH]; [constructor|]. cbn [filter]. destruct (f x); [|exact IH]. constructor; [|exact IH]. intros Hin. apply filter_In in Hin. tauto. Qed.

Lemma splice_defined ri r u : exists ev, splice_match_event ri r u = Ok ev.
Proof. unfold splice_match_event, intron_span. destruct (i_introns u) as [|i0 rest].
  - cbn [length Nat.eqb]. rewrite orb_true_r. eexists. reflexivity.
  - destruct ((length (rp ri) =? 0)%nat || (length (i0 :: rest) =? 0)%nat); [eexists; reflexivity|].
    destruct (py_contains (r_region r) (fst i0, snd (last (i0 :: rest) (0, 0)))); eexists; reflexivity. Qed.

Section Geom.
Local Set Default Proof Using "All".
Variable P : params.
Variable absd : Z.
Hypothesis Hd : 0 <= p_delta P.
Hypothesis Hmeo : 0 < p_minimal_exon_overlap P.
Hypothesis Hmaeo : 0 <= p_min_abs_exon_overlap P.
Variable isos : list isof.
Variable g : gene.
Hypothesis Hg : mk_gene isos = Some g.
Hypothesis Hok : gene_ok (p_delta P) isos = true.
Local Notation d := (p_delta P).
Local Notation meo := (p_minimal_exon_overlap P).
Local Notation gex := (sorted_set (flat_map i_exons isos)).
Local Notation GI := (g_introns g).
Local Notation BL := (g_split g).

(* ---------------------------------------------------------------- the gene *)
Lemma gene_parts : g_isos g = isos /\ g_introns g = sorted_set (flat_map i_introns isos) /\ split_exons gex = Some (g_split g).
Proof. pose proof Hg as H. unfold mk_gene in H. cbv zeta in H. destruct (split_exons gex) as [sp|]; [|discriminate].
  injection H as <-. cbn [g_isos g_introns g_split]. auto. Qed.
Lemma ids_nodup : NoDup (map i_id isos).
Proof. apply nodupb_NoDup. pose proof Hok as H. unfold gene_ok in H. apply andb_prop in H. tauto. Qed.
Lemma iso_ok_in t : In t isos -> gappedP (i_exons t) /\ (forall e, In e (i_exons t) -> 0 <= fst e) /\ IntervalsSpec.H1 d (i_introns t) = true.
Proof. intros Ht. pose proof Hok as H. unfold gene_ok in H. apply andb_prop in H. destruct H as (_ & H). rewrite forallb_forall in H. specialize (H t Ht).
  unfold iso_ok in H. apply andb_prop in H. destruct H as (H & H3). apply andb_prop in H. destruct H as (H1' & H2').
  split; [exact (gapped_P _ H1')|]. split; [|exact H3]. intros e He. rewrite forallb_forall in H2'. specialize (H2' e He). lia. Qed.
Lemma gex_In x : In x gex <-> exists t, In t isos /\ In x (i_exons t).
Proof. destruct (sorted_set_spec (flat_map i_exons isos)) as (_ & _ & _ & H). rewrite H, in_flat_map. reflexivity. Qed.
Lemma gex_wfx : wfx gex.
Proof. unfold wfx. apply Forall_forall. intros x Hx. apply gex_In in Hx. destruct Hx as (t & Ht & Hx). destruct (iso_ok_in t Ht) as (Hgp & Hpos & _).
  pose proof (sd_wf_In _ x (gappedP_sd _ Hgp) Hx). specialize (Hpos x Hx). lia. Qed.
Lemma blocks_spec : sd BL /\ (forall p, cover BL p = cover gex p) /\
  (forall k x, In k BL -> In x gex -> py_contains x k = true \/ py_overlaps x k = false).
Proof. destruct (split_exons_partition gex gex_wfx) as (R & HR & S1 & S2 & S3). destruct gene_parts as (_ & _ & Hs). rewrite Hs in HR. injection HR as <-. auto. Qed.
Lemma block_of_pos x p : In x gex -> fst x <= p <= snd x -> exists k, In k BL /\ fst k <= p <= snd k /\ py_contains x k = true.
Proof. intros Hx Hp. destruct blocks_spec as (S1 & S2 & S3).
  assert (Hc: cover BL p = true) by (rewrite S2; apply cover_true_iff; exists x; auto).
  apply cover_true_iff in Hc. destruct Hc as (k & Hk & Hkp). exists k. split; [exact Hk|]. split; [exact Hkp|].
  destruct (S3 k x Hk Hx) as [H|H]; [exact H|]. unfold py_overlaps in H. lia. Qed.
Lemma block_contained k x : In k BL -> In x gex -> py_overlaps x k = true -> py_contains x k = true.
Proof. intros Hk Hx Ho. destruct blocks_spec as (_ & _ & S3). destruct (S3 k x Hk Hx) as [H|H]; [exact H|congruence]. Qed.
Lemma block_wf k : In k BL -> fst k <= snd k.
Proof. intros Hk. destruct blocks_spec as (S1 & _). exact (sd_wf_In _ k S1 Hk). Qed.

Lemma gi_In i : In i GI <-> exists t, In t isos /\ In i (i_introns t).
Proof. destruct gene_parts as (_ & -> & _). destruct (sorted_set_spec (flat_map i_introns isos)) as (_ & _ & _ & H). rewrite H, in_flat_map. reflexivity. Qed.
Lemma gi_sorted : lts GI /\ NoDup GI /\ Profile.starts_sorted GI.
Proof. destruct gene_parts as (_ & -> & _). destruct (sorted_set_spec (flat_map i_introns isos)) as (A1 & A2 & A3 & _). auto. Qed.
Lemma gi_H1 : IntervalsSpec.H1 d GI = true.
Proof. unfold IntervalsSpec.H1. apply forallb_forall. intros k Hk. apply gi_In in Hk. destruct Hk as (t & Ht & Hk). destruct (iso_ok_in t Ht) as (_ & _ & Hh).
  unfold IntervalsSpec.H1 in Hh. rewrite forallb_forall in Hh. exact (Hh k Hk). Qed.
Lemma find_iso_self t : In t isos -> find_iso g (i_id t) = t.
Proof. intros Ht. unfold find_iso. destruct gene_parts as (-> & _). rewrite (find_id_nodup isos t ids_nodup Ht). reflexivity. Qed.
Lemma find_iso_in id : In id (ids_of g) -> In (find_iso g id) isos /\ i_id (find_iso g id) = id.
Proof. unfold ids_of, find_iso. destruct gene_parts as (-> & _). intros H. apply in_map_iff in H. destruct H as (t & <- & Ht).
  destruct (find (fun t' => i_id t' =? i_id t) isos) as [u|] eqn:E.
  - apply find_some in E. destruct E as (E1 & E2). split; [exact E1|lia].
  - exfalso. pose proof (find_none _ _ E t Ht) as Hc. cbn beta in Hc. lia. Qed.

(* ---------------------------------------------------------------- the isoform T and the read *)
Variable t : isof.
Hypothesis Ht : In t isos.
Hypothesis HH2 : IntervalsSpec.H2 d (i_introns t) = true.
Variables (e1:iv) (mid:list iv) (en:iv) (a b:Z).
Hypothesis Hex : i_exons t = e1 :: mid ++ [en].
Hypothesis Ha : fst e1 <= a <= snd e1.
Hypothesis Hb : fst en <= b <= snd en.
Local Notation rex := ((a, snd e1) :: mid ++ [(fst en, b)]).
Local Notation r := (mkRead rex no_pa).
Local Notation F := (i_introns t).

Lemma t_gapped : gappedP (i_exons t). Proof. exact (proj1 (iso_ok_in t Ht)). Qed.
Lemma t_sd : sd (i_exons t). Proof. exact (gappedP_sd _ t_gapped). Qed.
Lemma t_in_gex f : In f (i_exons t) -> In f gex. Proof. intros H. apply gex_In. exists t. auto. Qed.
Lemma t_mid m : In m mid -> snd e1 < fst m /\ snd m < fst en /\ fst m <= snd m.
Proof. intros Hm. pose proof t_sd as HS. rewrite Hex in HS. pose proof (sd_after _ _ HS) as FA. rewrite Forall_forall in FA.
  split; [apply FA, in_or_app; left; exact Hm|]. split.
  - apply (sd_app_lt (e1 :: mid) [en] m en HS); [right; exact Hm|left; reflexivity].
  - apply (sd_wf_In _ m HS). right. apply in_or_app. left. exact Hm. Qed.
Lemma t_ends : fst e1 <= snd e1 /\ fst en <= snd en /\ snd e1 + 1 < fst en.
Proof. pose proof t_sd as HS. rewrite Hex in HS. split; [exact (sd_wf _ _ HS)|]. split.
  - apply (sd_wf_In _ en HS). right. apply in_or_app. right. left. reflexivity.
  - pose proof t_gapped as HG. rewrite Hex in HG. remember (mid ++ [en]) as L eqn:EL in HG. destruct L as [|y L'].
    + symmetry in EL. apply app_eq_nil in EL. destruct EL; discriminate.
    + destruct HG as (_ & H & _). assert (Hy: In y (mid ++ [en])) by (rewrite <- EL; left; reflexivity).
      apply in_app_or in Hy. destruct Hy as [Hy|[<-|[]]]; [|exact H]. destruct (t_mid y Hy) as (_ & H2' & H3'). lia. Qed.
Lemma t_all f : In f (i_exons t) -> fst f <= snd f /\ snd e1 <= snd f /\ fst f <= fst en /\ fst e1 <= fst f /\ snd f <= snd en.
Proof. intros Hf. destruct t_ends as (W1 & Wn & Hgap). rewrite Hex in Hf. destruct Hf as [<-|Hf]; [lia|]. apply in_app_or in Hf. destruct Hf as [Hf|[<-|[]]]; [|lia].
  destruct (t_mid f Hf). lia. Qed.
Lemma t_region : i_region t = (fst e1, snd en).
Proof. unfold i_region. rewrite Hex. cbn [hd]. change (e1 :: mid ++ [en]) with ((e1 :: mid) ++ [en]). rewrite last_last. reflexivity. Qed.
Lemma r_region_eq : r_region r = (a, b).
Proof. unfold r_region. cbn [r_exons hd fst]. change rex with (((a, snd e1) :: mid) ++ [(fst en, b)]). rewrite last_last. reflexivity. Qed.
Lemma rex_map : rex = map (clip a b) (i_exons t).
Proof. destruct t_ends as (W1 & Wn & Hgap). rewrite Hex. cbn [map]. rewrite map_app. cbn [map].
  assert (C1: clip a b e1 = (a, snd e1)) by (unfold clip; f_equal; lia).
  assert (C2: clip a b en = (fst en, b)) by (unfold clip; f_equal; lia).
  assert (C3: map (clip a b) mid = mid).
  { rewrite <- (map_id mid) at 2. apply map_ext_in. intros m Hm. destruct (t_mid m Hm) as (M1 & M2 & M3). destruct m as [m0 m1]. unfold clip. cbn [fst snd] in *. f_equal; lia. }
  rewrite C1, C2, C3. reflexivity. Qed.
Lemma rex_In x : In x rex <-> exists f, In f (i_exons t) /\ x = clip a b f.
Proof. rewrite rex_map, in_map_iff. split; intros (f & H1' & H2'); exists f; auto. Qed.
Lemma rex_sd : sd rex.
Proof. rewrite rex_map. apply sd_map_shrink; [exact t_sd|]. intros f Hf. destruct (t_all f Hf) as (A1 & A2 & A3 & A4 & A5). destruct t_ends as (W1 & Wn & Hgap).
  unfold clip. cbn [fst snd]. lia. Qed.
Lemma rex_jfb : jfb rex = F.
Proof. unfold i_introns. rewrite Hex. transitivity (jfb ((fst e1, snd e1) :: mid ++ [(fst en, snd en)])); [apply jfb_ends|].
  rewrite <- !surjective_pairing. reflexivity. Qed.

(* T's introns *)
Lemma F_in_GI i : In i F -> In i GI. Proof. intros H. apply gi_In. exists t. auto. Qed.
Lemma F_sd : sd F.
Proof. unfold i_introns. pose proof t_sd as HS. rewrite Hex in *. apply jfb_sd; [apply sd_mono; exact (sd_tail _ _ HS)|apply mono_lower, sd_mono; exact HS]. Qed.
Lemma F_bounds i : In i F -> snd e1 < fst i /\ snd i < fst en /\ fst i <= snd i.
Proof. intros Hi. unfold i_introns in Hi. apply jfb_In in Hi. destruct Hi as (x & y & Hx & Hy & E1 & E2 & E3).
  destruct (t_all x Hx) as (_ & X2 & _). destruct (t_all y Hy) as (_ & _ & Y3 & _). lia. Qed.
Lemma F_wfR : wfR F.
Proof. unfold wfR. apply Forall_forall. intros i Hi. destruct (F_bounds i Hi). lia. Qed.
Lemma F_nonempty : F <> [].
Proof. unfold i_introns. pose proof t_gapped as HG. rewrite Hex in *. destruct (mid ++ [en]) as [|y L] eqn:E; [apply app_eq_nil in E; destruct E; discriminate|].
  rewrite (jfb_gapped_cons e1 y L HG). discriminate. Qed.

(* ================================================================ G1: the intron profiles *)
Local Notation cmpd := (FeatureCounts.eqd (p_delta P)).
Local Notation absi := (kind_absent Intron absd).
Definition ival (k:iv) : Z := feat_value (p_delta P) (kind_absent Intron absd) (a, b) (g_introns g) (i_introns t) (-1) (-1) k.

Lemma cmpd_refl x : cmpd x x = true.
Proof. exact (eqd_refl d x Hd). Qed.
Lemma matched_iff k : In k GI -> (IntervalsSpec.matched cmpd GI F k = true <-> In k F).
Proof. intros Hk. unfold IntervalsSpec.matched. rewrite existsb_exists. split.
  - intros (x & Hx & Hc). apply andb_prop in Hc. destruct Hc as (Hc1 & Hc2). unfold closest in Hc2. rewrite forallb_forall in Hc2.
    specialize (Hc2 x (F_in_GI x Hx)). rewrite cmpd_refl in Hc2. cbn [negb orb] in Hc2.
    assert (E: x = k) by (destruct x as [x0 x1], k as [k0 k1]; unfold Intervals.match_delta in Hc2; cbn [fst snd] in Hc2; f_equal; lia).
    rewrite <- E. exact Hx.
  - intros Hin. exists k. split; [exact Hin|]. rewrite cmpd_refl. cbn [andb]. unfold closest. apply forallb_forall. intros k' _.
    apply orb_true_iff. right. unfold Intervals.match_delta. lia. Qed.
Lemma ival_clean k : In k GI ->
  ival k = if IntervalsSpec.matched cmpd GI F k then 1 else if absi (a, b) k || in_gap F k || near d F k then -1 else 0.
Proof. intros Hk. unfold ival. rewrite (value_clean d absi (a, b) Hd GI F (-1) (-1) k F_wfR HH2 gi_H1 Hk). reflexivity. Qed.
Lemma cond_overlaps k : In k GI -> absi (a, b) k || in_gap F k || near d F k = true -> py_overlaps k (i_region t) = true.
Proof. intros Hk H. rewrite t_region. pose proof (In_H1 d GI k gi_H1 Hk) as Hlen. destruct t_ends as (W1 & Wn & Hgap).
  unfold py_overlaps. cbn [fst snd]. apply orb_true_iff in H. destruct H as [H|H]; [apply orb_true_iff in H; destruct H as [H|H]|].
  - cbn [kind_absent] in H. unfold py_overlaps_at_least in H. cbv zeta in H. cbn [fst snd] in H.
    destruct ((b - fst k <? 0) || (snd k - a <? 0)) eqn:E; [discriminate|]. lia.
  - destruct (in_gap_both k F H) as (x & y & Hx & Hy & L1 & L2). destruct (F_bounds x Hx). destruct (F_bounds y Hy). lia.
  - unfold near in H. apply existsb_exists in H. destruct H as (x & Hx & Ex). destruct (eqd_facts d x k Ex Hlen) as (Q1 & Q2 & Q3). destruct (F_bounds x Hx). lia. Qed.
Lemma ival_spec k : In k GI ->
  (ival k = 1 <-> In k F) /\ (ival k = -1 -> py_overlaps k (i_region t) = true /\ ~ In k F) /\ ival k <> -2 /\ (ival k = 1 \/ ival k = -1 \/ ival k = 0).
Proof. intros Hk. rewrite (ival_clean k Hk). pose proof (matched_iff k Hk) as M. pose proof (cond_overlaps k Hk) as C.
  destruct (IntervalsSpec.matched cmpd GI F k).
  - assert (In k F) by (apply M; reflexivity). repeat split; intros; try tauto; try lia.
  - assert (~ In k F) by (intros Hc; apply M in Hc; discriminate).
    destruct (absi (a, b) k || in_gap F k || near d F k).
    + repeat split; intros; try tauto; try lia; try (apply C; reflexivity).
    + repeat split; intros; try tauto; try lia. Qed.

Lemma G1_s : exists ri, intron_rprof P absd g r = Ok ri /\ rp ri = map (fun _ => 1) (jfb rex) /\ gp ri = map ival GI /\ prange ri = profile_range_zero (gp ri).
Proof. destruct gi_sorted as (_ & _ & HS).
  destruct (overlapping_gene_profile_char d absi (a, b) GI (g_region g) F (-1) (-1) HS) as (rp0 & rg0 & E1).
  destruct (overlapping_profile_read_char cmpd absi d GI (g_region g) F (a, b) (-1) (-1) HS F_sd) as (gp1 & rg1 & E2).
  pose proof (ovp_range _ _ _ _ _ _ _ _ _ _ _ _ E1) as Erg.
  rewrite E1 in E2. injection E2 as _ Erp _.
  unfold intron_rprof. cbv zeta. cbn [r_exons r_polya pa_ext_a pa_ext_t no_pa]. rewrite rex_jfb, r_region_eq.
  change (overlapping_profile (fun x k => py_equal_ranges x k d) (fun reg f => py_overlaps_at_least reg f absd)) with (overlapping_profile cmpd absi).
  rewrite E1. eexists. split; [reflexivity|]. cbn [rp gp prange]. split; [|split; [reflexivity|exact Erg]].
  rewrite Erp. apply read_side_ones; [exact F_sd|exact F_in_GI|exact cmpd_refl]. Qed.

(* ================================================================ G2: the split-exon profiles *)
Local Notation cmps := (fun x k => py_overlaps_at_least_when_overlap x k (p_minimal_exon_overlap P)).
Definition gv (k:iv) : Z := gval (fun x k => py_overlaps_at_least_when_overlap x k (p_minimal_exon_overlap P)) false ((a, snd e1) :: mid ++ [(fst en, b)]) 0 k.
Definition sprof_f (k:iv) : Z := if existsb (fun f => py_contains f k) (i_exons t) then 1 else if py_overlaps k (i_region t) then -1 else -2.

Lemma split_prof_eq : split_prof g t = map sprof_f BL.
Proof. unfold split_prof. exact (split_exon_profile_spec gex BL (i_exons t) (i_region t) gex_wfx (proj2 (proj2 gene_parts)) t_sd t_in_gex). Qed.
Lemma intron_prof_eq : intron_prof g t = map (fun k => if hit eqc F k then 1 else if py_overlaps k (i_region t) then -1 else -2) GI.
Proof. unfold intron_prof. change (fun f k => py_equal_ranges f k 0) with eqc. apply isoform_profile_aligned. destruct gi_sorted as (L1 & L2 & _).
  apply aligned_eq; [exact L2|]. apply lts_incl_subseq; [exact (sd_lts _ F_sd)|exact L1|exact F_in_GI]. Qed.
Lemma split_rprof_eq : split_rprof P g r = Ok (mkRP (map gv BL) (map (rval cmps false BL 0) rex) (profile_range_zero (map gv BL))).
Proof. unfold split_rprof. cbv zeta. cbn [r_exons r_polya pa_ext_a pa_ext_t no_pa].
  rewrite (nonoverlapping_profile_char cmps d BL rex (-1) (-1) (proj1 blocks_spec) rex_sd). reflexivity. Qed.

Lemma rval_start x f : In f (i_exons t) -> fst x = fst f -> fst x <= snd x -> rval cmps false BL 0 x = 1.
Proof. intros Hf Hs Hw. destruct (t_all f Hf) as (Wf & _). destruct (block_of_pos f (fst f) (t_in_gex f Hf) ltac:(lia)) as (k & Hk & Hp & Hc).
  apply rval_1_iff. exists k. split; [exact Hk|]. unfold py_contains in Hc. split; [unfold py_overlaps; lia|]. apply cmps_same_start. lia. Qed.
(* the first read exon is hit when it is long enough ... *)
Lemma left_hit_of_len : meo <= snd e1 - a + 1 ->
  exists k, In k BL /\ py_contains e1 k = true /\ py_overlaps (a, snd e1) k = true /\ py_overlaps_at_least_when_overlap (a, snd e1) k meo = true.
Proof. intros Hl. destruct t_ends as (W1 & Wn & Hgap). assert (H1': In e1 (i_exons t)) by (rewrite Hex; left; reflexivity).
  destruct (block_of_pos e1 (snd e1) (t_in_gex e1 H1') ltac:(lia)) as (k & Hk & Hp & Hc). exists k. split; [exact Hk|]. split; [exact Hc|].
  unfold py_contains in Hc. unfold py_overlaps, py_overlaps_at_least_when_overlap. cbn [fst snd]. split; [lia|]. destruct (snd e1 <? snd k) eqn:E; lia. Qed.
(* ... or when its start is well placed in its block; then the block is also an anchor for the elongation check *)
Lemma left_anchor_of_ok : left_end_ok meo BL a = true ->
  exists k, In k BL /\ py_contains e1 k = true /\ py_overlaps (a, snd e1) k = true /\ py_overlaps_at_least_when_overlap (a, snd e1) k meo = true /\ fst k <= a.
Proof. intros Hl. destruct t_ends as (W1 & Wn & Hgap). assert (H1': In e1 (i_exons t)) by (rewrite Hex; left; reflexivity).
  destruct (block_of_pos e1 a (t_in_gex e1 H1') Ha) as (k & Hk & Hp & Hc). exists k. split; [exact Hk|]. split; [exact Hc|].
  unfold left_end_ok in Hl. rewrite forallb_forall in Hl. specialize (Hl k Hk).
  unfold py_contains in Hc. unfold py_overlaps, py_overlaps_at_least_when_overlap. cbn [fst snd]. split; [lia|]. split; [|lia]. destruct (snd e1 <? snd k) eqn:E; lia. Qed.
Lemma right_anchor_of_ok : right_end_ok meo BL (fst en) b = true ->
  exists k, In k BL /\ py_contains en k = true /\ py_overlaps (fst en, b) k = true /\ py_overlaps_at_least_when_overlap (fst en, b) k meo = true /\ b <= snd k.
Proof. intros Hl. destruct t_ends as (W1 & Wn & Hgap). assert (Hn': In en (i_exons t)) by (rewrite Hex; right; apply in_or_app; right; left; reflexivity).
  destruct (block_of_pos en b (t_in_gex en Hn') Hb) as (k & Hk & Hp & Hc). exists k. split; [exact Hk|]. split; [exact Hc|].
  unfold right_end_ok in Hl. rewrite forallb_forall in Hl. specialize (Hl k Hk).
  unfold py_contains in Hc. unfold py_overlaps, py_overlaps_at_least_when_overlap. cbn [fst snd]. split; [lia|]. split; [|lia]. destruct (b <? snd k) eqn:E; lia. Qed.

Lemma G2_s : (exists k, In k BL /\ py_overlaps (a, snd e1) k = true /\ py_overlaps_at_least_when_overlap (a, snd e1) k meo = true) ->
  exists rs, split_rprof P g r = Ok rs /\ rp rs = map (fun _ => 1) rex /\ gp rs = map gv BL /\ prange rs = profile_range_zero (gp rs).
Proof. intros (k0 & Hk0 & Ho0 & Hc0). rewrite split_rprof_eq. eexists. split; [reflexivity|]. cbn [rp gp prange]. split; [|split; reflexivity].
  destruct t_ends as (W1 & Wn & Hgap). apply map_ext_in. intros x Hx. destruct Hx as [<-|Hx]; [|apply in_app_or in Hx; destruct Hx as [Hx|[<-|[]]]].
  - apply rval_1_iff. exists k0. split; [exact Hk0|]. rewrite py_overlaps_sym. split; [exact Ho0|exact Hc0].
  - destruct (t_mid x Hx) as (_ & _ & Wx). apply (rval_start x x); [rewrite Hex; right; apply in_or_app; left; exact Hx|reflexivity|exact Wx].
  - apply (rval_start (fst en, b) en); [rewrite Hex; right; apply in_or_app; right; left; reflexivity|reflexivity|cbn [fst snd]; lia]. Qed.

Lemma gv_1 k x : In x rex -> py_overlaps x k = true -> py_overlaps_at_least_when_overlap x k meo = true -> gv k = 1.
Proof. intros Hx Ho Hc. unfold gv. apply gval_1_iff. exists x. auto. Qed.
Lemma sprof_1 k f : In f (i_exons t) -> py_contains f k = true -> sprof_f k = 1.
Proof. intros Hf Hc. unfold sprof_f. replace (existsb (fun f0 => py_contains f0 k) (i_exons t)) with true; [reflexivity|]. symmetry. apply existsb_exists. exists f. auto. Qed.
(* T's split-exon profile agrees with the read's wherever the read's is not 0 *)
Lemma split_equal k : In k BL -> gv k = 0 \/ sprof_f k = gv k.
Proof. intros Hk. pose proof (block_wf k Hk) as Wk. destruct t_ends as (W1 & Wn & Hgap).
  destruct (gval_range cmps rex k) as [H|[H|H]]; fold (gv k) in H; [| |left; exact H].
  - right. rewrite H. unfold gv in H. apply gval_1_iff in H. destruct H as (x & Hx & Ho & _). apply rex_In in Hx. destruct Hx as (f & Hf & ->).
    apply (sprof_1 k f Hf). apply (block_contained k f Hk (t_in_gex f Hf)). destruct (t_all f Hf). unfold py_overlaps, clip in *. cbn [fst snd] in Ho. lia.
  - right. rewrite H. unfold gv in H. apply gval_m1_iff in H. destruct H as (_ & N2 & (x1 & Hx1 & L1) & (x2 & Hx2 & L2)).
    apply rex_In in Hx1. destruct Hx1 as (f1 & Hf1 & ->). apply rex_In in Hx2. destruct Hx2 as (f2 & Hf2 & ->).
    destruct (t_all f1 Hf1) as (_ & _ & B3 & _). unfold clip in L1, L2. cbn [fst snd] in L1, L2.
    unfold sprof_f. destruct (existsb (fun f => py_contains f k) (i_exons t)) eqn:E.
    + exfalso. apply existsb_exists in E. destruct E as (f & Hf & Hc). unfold py_contains in Hc.
      assert (Hlt: snd f < fst f1) by (apply (sd_trich (i_exons t) f f1 t_sd Hf Hf1); lia).
      assert (Hin: In (clip a b f) rex) by (apply rex_In; exists f; auto).
      assert (Ho: py_overlaps (clip a b f) k = true) by (unfold py_overlaps, clip; cbn [fst snd]; lia).
      specialize (N2 _ Hin Ho). unfold clip in N2. cbn [fst snd] in N2. lia.
    + rewrite t_region. replace (py_overlaps k (fst e1, snd en)) with true; [reflexivity|]. unfold py_overlaps. cbn [fst snd]. lia. Qed.

(* ================================================================ G3 *)
Lemma G3_s ri rs : rp ri = map (fun _ => 1) (jfb rex) -> rp rs = map (fun _ => 1) rex -> gp rs = map gv BL ->
  (exists k, In k BL /\ gv k = 1) -> profiles_clean ri rs = true.
Proof. intros Hri Hrs Hgs (k & Hk & Hv). apply (clean_of_ones ri rs (jfb rex) rex); [discriminate|exact Hri|exact Hrs|].
  rewrite Hgs, <- Hv. apply in_map. exact Hk. Qed.

(* ================================================================ G4 *)
Lemma G4_s ri rs : gp ri = map ival GI -> prange ri = profile_range_zero (gp ri) -> gp rs = map gv BL -> prange rs = profile_range_zero (gp rs) ->
  (exists k, In k BL /\ sprof_f k = 1 /\ gv k = 1) ->
  In (i_id t) (compatible_ids P g ri rs r) /\ In (i_id t) (find_matching (split_prof g) g rs (compatible_ids P g ri rs r)).
Proof. intros Hgi Hpi Hgs Hps (k0 & Hk0 & Hs0 & Hv0). destruct t_ends as (W1 & Wn & Hgap).
  assert (Hcomp: In (i_id t) (compatible_ids P g ri rs r)).
  { unfold compatible_ids, find_matching, find_overlapping, find_containing. apply filter_In. split; [apply filter_In; split; [apply filter_In; split|]|].
    - unfold ids_of. rewrite (proj1 gene_parts). apply in_map. exact Ht.
    - rewrite (find_iso_self t Ht), t_region, r_region_eq. unfold py_contains_approx. cbn [fst snd]. lia.
    - cbv zeta. rewrite (find_iso_self t Ht). destruct (In_nth_error _ _ Hk0) as (j0 & Hj0).
      assert (Lj: (j0 < length BL)%nat) by (apply nth_error_Some; congruence).
      apply (has_overlapping_at _ _ _ (Z.of_nat j0)).
      + unfold ov_range. cbn [fst snd]. rewrite Hps, Hgs, split_prof_eq.
        pose proof (in_range_zero (map gv BL) j0 ltac:(rewrite map_length; exact Lj) ltac:(rewrite (nth_map0 gv BL j0 k0 Hj0); exact Hv0)).
        pose proof (in_range_lt1 (map sprof_f BL) j0 ltac:(rewrite map_length; exact Lj) ltac:(rewrite (nth_map0 sprof_f BL j0 k0 Hj0); exact Hs0)). lia.
      + rewrite split_prof_eq, (pz_map sprof_f BL j0 k0 Hj0). exact Hs0.
      + rewrite Hgs, (pz_map gv BL j0 k0 Hj0). exact Hv0.
    - rewrite (find_iso_self t Ht), intron_prof_eq, Hgi. apply equal_profiles_map. intros k Hk. destruct (ival_spec k Hk) as (V1 & V2 & _ & V4).
      pose proof (hit_eqc F k) as Hh. destruct V4 as [V|[V|V]]; [right|right|left; exact V]; rewrite V.
      + replace (hit eqc F k) with true; [reflexivity|]. symmetry. apply Hh, V1, V.
      + destruct (V2 V) as (Ho & Hn). replace (hit eqc F k) with false; [rewrite Ho; reflexivity|]. symmetry. apply not_true_is_false. intros Hc. apply Hn, Hh, Hc. }
  split; [exact Hcomp|]. unfold find_matching at 1. apply filter_In. split; [exact Hcomp|].
  rewrite (find_iso_self t Ht), split_prof_eq, Hgs. apply equal_profiles_map. exact split_equal. Qed.

(* ================================================================ G5 *)
Lemma G5_s ri rs id : gp ri = map ival GI -> prange ri = profile_range_zero (gp ri) ->
  In id (compatible_ids P g ri rs r) -> exists fsm, is_fsm r (find_iso g id) = Ok fsm.
Proof. intros Hgi Hpi Hin. unfold compatible_ids, find_matching in Hin. apply filter_In in Hin. destruct Hin as (_ & Heq).
  unfold is_fsm, intron_span. destruct (i_introns (find_iso g id)) as [|j0 rest] eqn:E; [exfalso|eexists; reflexivity].
  unfold intron_prof in Heq. rewrite E in Heq.
  assert (Hnil: forall c K reg, isoform_profile c K [] reg = map (fun k => if py_overlaps k reg then -1 else -2) K) by reflexivity. rewrite Hnil in Heq.
  destruct (span_of_list F (snd e1) (fst en) F_nonempty) as (x0 & rest0 & EF & _).
  { intros i Hi. destruct (F_bounds i Hi). lia. }
  assert (Hx0: In x0 F) by (rewrite EF; left; reflexivity). pose proof (F_in_GI x0 Hx0) as Hx0'.
  destruct (In_nth_error _ _ Hx0') as (n0 & Hn0). assert (Ln: (n0 < length GI)%nat) by (apply nth_error_Some; congruence).
  assert (V: ival x0 = 1) by (apply (ival_spec x0 Hx0'); exact Hx0).
  unfold equal_profiles_in_range in Heq. rewrite forallb_forall in Heq. specialize (Heq (Z.of_nat n0)).
  rewrite Hgi, (pz_map ival GI n0 x0 Hn0), (pz_map _ GI n0 x0 Hn0), V in Heq.
  assert (Hr: In (Z.of_nat n0) (range_list (prange ri))).
  { apply In_zrange. rewrite Hpi, Hgi. apply in_range_zero; [rewrite map_length; exact Ln|rewrite (nth_map0 ival GI n0 x0 Hn0); exact V]. }
  specialize (Heq Hr). destruct (py_overlaps x0 (i_region (find_iso g id))); discriminate. Qed.

(* the block at the start of T's last exon is hit by the read's last exon: both profiles carry 1 there (no corner hypothesis needed) *)
Lemma some_anchor : exists k, In k BL /\ sprof_f k = 1 /\ gv k = 1.
Proof. destruct t_ends as (W1 & Wn & Hgap). assert (Hn': In en (i_exons t)) by (rewrite Hex; right; apply in_or_app; right; left; reflexivity).
  destruct (block_of_pos en (fst en) (t_in_gex en Hn') ltac:(lia)) as (k & Hk & Hp & Hc). exists k. split; [exact Hk|]. split; [exact (sprof_1 k en Hn' Hc)|].
  apply (gv_1 k (fst en, b)); [right; apply in_or_app; right; left; reflexivity| |apply cmps_same_start; unfold py_contains in Hc; cbn [fst]; lia].
  unfold py_contains in Hc. unfold py_overlaps. cbn [fst snd]. lia. Qed.
Lemma rs_parts rs : split_rprof P g r = Ok rs -> gp rs = map gv BL /\ prange rs = profile_range_zero (gp rs) /\ rp rs = map (rval cmps false BL 0) rex.
Proof. rewrite split_rprof_eq. intros H. injection H as <-. cbn [gp rp prange]. auto. Qed.
Lemma ri_parts ri : intron_rprof P absd g r = Ok ri -> rp ri = map (fun _ => 1) (jfb rex) /\ gp ri = map ival GI /\ prange ri = profile_range_zero (gp ri).
Proof. destruct G1_s as (ri' & H1' & H2' & H3' & H4'). rewrite H1'. intros H. injection H as <-. auto. Qed.

(* ================================================================ G6 *)
Hypothesis Hminor : p_delta P <= p_minor_ext P.

Lemma elong_view_ok_gen (isop:list Z) k0 kb : length isop = length BL ->
  (forall j, nth_error BL j = Some k0 -> nth j isop 0 = 1) -> (forall j, nth_error BL j = Some kb -> nth j isop 0 = 1) ->
  In k0 BL -> gv k0 = 1 -> fst k0 <= a + d ->
  In kb BL -> gv kb = 1 -> b <= snd kb + d ->
  exists v, elong_view BL isop (profile_range_lt1 isop) (map gv BL) (profile_range_zero (map gv BL)) rex = Ok v /\
            extra_left v <= d /\ extra_right v <= d.
Proof. intros Li Hi0 Hi1 Hk0 Hv0 Hl0 Hkb Hvb Hlb.
  destruct (In_nth_error _ _ Hk0) as (j0 & Hj0). destruct (In_nth_error _ _ Hkb) as (j1 & Hj1).
  assert (Lj0: (j0 < length BL)%nat) by (apply nth_error_Some; congruence).
  assert (Lj1: (j1 < length BL)%nat) by (apply nth_error_Some; congruence).
  assert (Elast: last rex (0, 0) = (fst en, b)) by (change rex with (((a, snd e1) :: mid) ++ [(fst en, b)]); apply last_last).
  pose proof (proj1 blocks_spec) as HSB.
  remember (map gv BL) as rpf eqn:Er.
  assert (Lr: length rpf = length BL) by (rewrite Er; apply map_length).
  pose proof (Hi0 j0 Hj0) as N0i. pose proof (Hi1 j1 Hj1) as N1i.
  assert (N0r: nth j0 rpf 0 = 1) by (rewrite Er, (nth_map0 gv BL j0 k0 Hj0); exact Hv0).
  assert (N1r: nth j1 rpf 0 = 1) by (rewrite Er, (nth_map0 gv BL j1 kb Hj1); exact Hvb).
  assert (G0: good2 isop rpf (Z.of_nat j0)) by (unfold good2, nthz; rewrite Nat2Z.id; auto).
  assert (G1: good2 isop rpf (Z.of_nat j1)) by (unfold good2, nthz; rewrite Nat2Z.id; auto).
  pose proof (in_range_lt1 isop j0 ltac:(lia) N0i) as R1. pose proof (in_range_zero rpf j0 ltac:(lia) N0r) as R2.
  pose proof (in_range_lt1 isop j1 ltac:(lia) N1i) as R3. pose proof (in_range_zero rpf j1 ltac:(lia) N1r) as R4.
  pose proof (range_lt1_bounds isop) as B1. pose proof (range_zero_bounds rpf) as B2.
  unfold elong_view, common_first, common_last, range_down, zrange, lenz.
  remember (Z.max (fst (profile_range_lt1 isop)) (fst (profile_range_zero rpf))) as lo eqn:Elo.
  remember (Z.min (snd (profile_range_lt1 isop) - 1) (snd (profile_range_zero rpf) - 1)) as hi eqn:Ehi.
  destruct (scan_up isop rpf (length BL) Li Lr (Z.to_nat (Z.of_nat (length BL) - lo)) lo (Z.of_nat j0)) as (cfe & Hs1 & Hb1 & Hg1); [lia|lia|lia|exact G0|].
  destruct (scan_down isop rpf (length BL) Li Lr (Z.to_nat (hi + 1 - 0)) (Z.of_nat j1)) as (cle & Hs2 & Hb2 & Hg2); [lia|lia|exact G1|].
  rewrite Hs1, Hs2, pyidx_hd. rewrite (pyidx_in BL cfe (0, 0)) by lia. rewrite (pyidx_last rex (0, 0)) by discriminate. rewrite (pyidx_in BL cle (0, 0)) by lia.
  eexists. split; [reflexivity|]. unfold extra_left, extra_right. cbn [v_sf v_fe v_le v_sl]. rewrite Elast. unfold nthz. cbn [fst snd].
  pose proof (sd_nth_mono BL (Z.to_nat cfe) j0 (0, 0) HSB ltac:(lia) Lj0) as M1. rewrite (nth_error_nth BL j0 (0, 0) Hj0) in M1.
  pose proof (sd_nth_mono BL j1 (Z.to_nat cle) (0, 0) HSB ltac:(lia) ltac:(lia)) as M2. rewrite (nth_error_nth BL j1 (0, 0) Hj1) in M2.
  lia. Qed.
Lemma elong_view_ok k0 kb :
  In k0 BL -> sprof_f k0 = 1 -> gv k0 = 1 -> fst k0 <= a + d ->
  In kb BL -> sprof_f kb = 1 -> gv kb = 1 -> b <= snd kb + d ->
  exists v, elong_view BL (map sprof_f BL) (profile_range_lt1 (map sprof_f BL)) (map gv BL) (profile_range_zero (map gv BL)) rex = Ok v /\
            extra_left v <= d /\ extra_right v <= d.
Proof. intros Hk0 Hs0 Hv0 Hl0 Hkb Hsb Hvb Hlb. apply (elong_view_ok_gen (map sprof_f BL) k0 kb); try assumption; [apply map_length| |].
  - intros j Hj. rewrite (nth_map0 sprof_f BL j k0 Hj). exact Hs0.
  - intros j Hj. rewrite (nth_map0 sprof_f BL j kb Hj). exact Hsb. Qed.

Lemma elong_ok rs k0 kb : gp rs = map gv BL -> prange rs = profile_range_zero (gp rs) ->
  In k0 BL -> sprof_f k0 = 1 -> gv k0 = 1 -> fst k0 <= a + d ->
  In kb BL -> sprof_f kb = 1 -> gv kb = 1 -> b <= snd kb + d ->
  exists el, elong P g rs r t = Ok el /\ forall e, In e el -> ev_consistent (x_type e) = true.
Proof. intros Hgs Hps Hk0 Hs0 Hv0 Hl0 Hkb Hsb Hvb Hlb.
  destruct (elong_view_ok k0 kb Hk0 Hs0 Hv0 Hl0 Hkb Hsb Hvb Hlb) as (v & Hv & Hl & Hr).
  unfold elong. cbn [r_exons]. rewrite split_prof_eq, Hps, Hgs.
  assert (He: elongation_subtype P BL (map sprof_f BL) (profile_range_lt1 (map sprof_f BL)) (map gv BL) (profile_range_zero (map gv BL)) rex
              = Ok (emit P (profile_range_lt1 (map sprof_f BL)) v)) by (unfold elongation_subtype; rewrite Hv; reflexivity).
  rewrite He. eexists. split; [reflexivity|]. exact (elongation_inside_consistent P _ _ _ _ _ _ _ v Hminor He Hv Hl Hr). Qed.

Lemma fsm_event ri : rp ri = map (fun _ => 1) (jfb rex) -> splice_match_event ri r t = Ok MES_fsm.
Proof. intros Hri. destruct (span_of_list F (snd e1) (fst en) F_nonempty) as (x0 & rest0 & EF & L1 & L2).
  { intros i Hi. destruct (F_bounds i Hi). lia. }
  unfold splice_match_event, intron_span. rewrite Hri, map_length, rex_jfb. rewrite EF in L2. rewrite EF. cbn [length Nat.eqb orb]. rewrite r_region_eq.
  replace (py_contains (a, b) (fst x0, snd (last (x0 :: rest0) (0, 0)))) with true; [reflexivity|]. symmetry. unfold py_contains. cbn [fst snd]. lia. Qed.

Lemma G6_s ri rs k0 kb : rp ri = map (fun _ => 1) (jfb rex) -> gp rs = map gv BL -> prange rs = profile_range_zero (gp rs) ->
  In k0 BL -> sprof_f k0 = 1 -> gv k0 = 1 -> fst k0 <= a + d ->
  In kb BL -> sprof_f kb = 1 -> gv kb = 1 -> b <= snd kb + d ->
  events_all_consistent (consistent_events P g ri rs r t true).
Proof. intros Hri Hgs Hps Hk0 Hs0 Hv0 Hl0 Hkb Hsb Hvb Hlb.
  destruct (elong_ok rs k0 kb Hgs Hps Hk0 Hs0 Hv0 Hl0 Hkb Hsb Hvb Hlb) as (el & Hel & Hc).
  apply (match_events_consistent_of_parts P g ri rs r t MES_fsm el); [exact (fsm_event ri Hri)|exact Hel|exact Hc|left; reflexivity]. Qed.

(* neighbouring blocks inside one exon of the gene *)
Lemma block_after f k : In f gex -> In k BL -> py_contains f k = true -> snd k < snd f ->
  exists k', In k' BL /\ py_contains f k' = true /\ fst k' = snd k + 1.
Proof. intros Hf Hk Hc Hlt. pose proof (block_wf k Hk) as Wk. unfold py_contains in Hc.
  destruct (block_of_pos f (snd k + 1) Hf ltac:(lia)) as (k' & Hk' & Hp & Hc'). exists k'. split; [exact Hk'|]. split; [exact Hc'|].
  destruct (sd_pairwise BL k k' (proj1 blocks_spec) Hk Hk') as [E|[E|E]]; [subst k'; lia|lia|lia]. Qed.
Lemma block_before f k : In f gex -> In k BL -> py_contains f k = true -> fst f < fst k ->
  exists k', In k' BL /\ py_contains f k' = true /\ snd k' = fst k - 1.
Proof. intros Hf Hk Hc Hlt. pose proof (block_wf k Hk) as Wk. unfold py_contains in Hc.
  destruct (block_of_pos f (fst k - 1) Hf ltac:(lia)) as (k' & Hk' & Hp & Hc'). exists k'. split; [exact Hk'|]. split; [exact Hc'|].
  destruct (sd_pairwise BL k k' (proj1 blocks_spec) Hk Hk') as [E|[E|E]]; [subst k'; lia|lia|lia]. Qed.

(* anchors of the elongation check: a block of T's terminal exon hit by the terminal read exon, at most delta inside the read.
   Either the read end is well placed in its block, or minimal_exon_overlap <= delta + 1: then the block that is too short to be hit
   is shorter than delta + 1 and its neighbour is the anchor *)
Lemma left_anchor_gen : (meo <= snd e1 - a + 1 \/ left_end_ok meo BL a = true) -> (left_end_ok meo BL a = true \/ meo <= d + 1) ->
  exists k, In k BL /\ py_contains e1 k = true /\ py_overlaps (a, snd e1) k = true /\ py_overlaps_at_least_when_overlap (a, snd e1) k meo = true /\ fst k <= a + d.
Proof. intros Hf Hc. assert (HL: left_end_ok meo BL a = true \/ (meo <= snd e1 - a + 1 /\ meo <= d + 1)) by tauto. clear Hf Hc.
  destruct HL as [HL|(Hlen & Hmd)].
  - destruct (left_anchor_of_ok HL) as (k & Q1 & Q2 & Q3 & Q4 & Q5). exists k. repeat split; auto; lia.
  - destruct t_ends as (W1 & Wn & Hgap). assert (H1': In e1 (i_exons t)) by (rewrite Hex; left; reflexivity).
    destruct (block_of_pos e1 a (t_in_gex e1 H1') Ha) as (k0 & Hk0 & Hp & Hc0). pose proof Hc0 as Hc0'. unfold py_contains in Hc0'.
    destruct (py_overlaps_at_least_when_overlap (a, snd e1) k0 meo) eqn:C.
    + exists k0. split; [exact Hk0|]. split; [exact Hc0|]. split; [unfold py_overlaps; cbn [fst snd]; lia|]. split; [exact C|lia].
    + unfold py_overlaps_at_least_when_overlap in C. cbn [fst snd] in C. destruct (snd e1 <? snd k0) eqn:E; [lia|].
      destruct (block_after e1 k0 (t_in_gex e1 H1') Hk0 Hc0 ltac:(lia)) as (k1 & Hk1 & Hc1 & Hs1). pose proof (block_wf k1 Hk1) as W1'. pose proof Hc1 as Hc1'. unfold py_contains in Hc1'.
      exists k1. split; [exact Hk1|]. split; [exact Hc1|]. unfold py_overlaps, py_overlaps_at_least_when_overlap. cbn [fst snd]. split; [lia|]. split; [|lia].
      destruct (snd e1 <? snd k1) eqn:E1; lia. Qed.
Lemma right_anchor_gen : (right_end_ok meo BL (fst en) b = true \/ meo <= d + 1) ->
  exists k, In k BL /\ py_contains en k = true /\ py_overlaps (fst en, b) k = true /\ py_overlaps_at_least_when_overlap (fst en, b) k meo = true /\ b <= snd k + d.
Proof. intros [HR|Hmd].
  - destruct (right_anchor_of_ok HR) as (k & Q1 & Q2 & Q3 & Q4 & Q5). exists k. repeat split; auto; lia.
  - destruct t_ends as (W1 & Wn & Hgap). assert (Hn': In en (i_exons t)) by (rewrite Hex; right; apply in_or_app; right; left; reflexivity).
    destruct (block_of_pos en b (t_in_gex en Hn') Hb) as (k0 & Hk0 & Hp & Hc0). pose proof Hc0 as Hc0'. unfold py_contains in Hc0'.
    destruct (py_overlaps_at_least_when_overlap (fst en, b) k0 meo) eqn:C.
    + exists k0. split; [exact Hk0|]. split; [exact Hc0|]. split; [unfold py_overlaps; cbn [fst snd]; lia|]. split; [exact C|lia].
    + unfold py_overlaps_at_least_when_overlap in C. cbn [fst snd] in C. destruct (b <? snd k0) eqn:E; [|lia].
      destruct (block_before en k0 (t_in_gex en Hn') Hk0 Hc0 ltac:(lia)) as (k1 & Hk1 & Hc1 & Hs1). pose proof (block_wf k1 Hk1) as W1'. pose proof Hc1 as Hc1'. unfold py_contains in Hc1'.
      exists k1. split; [exact Hk1|]. split; [exact Hc1|]. unfold py_overlaps, py_overlaps_at_least_when_overlap. cbn [fst snd]. split; [lia|]. split; [|lia].
      destruct (b <? snd k1) eqn:E1; lia. Qed.

Lemma G6_ends ri rs : rp ri = map (fun _ => 1) (jfb rex) -> gp rs = map gv BL -> prange rs = profile_range_zero (gp rs) ->
  (meo <= snd e1 - a + 1 \/ left_end_ok meo BL a = true) ->
  ((left_end_ok meo BL a = true /\ right_end_ok meo BL (fst en) b = true) \/ meo <= d + 1) ->
  events_all_consistent (consistent_events P g ri rs r t true).
Proof. intros Hri Hgs Hps Hf Hc.
  destruct (left_anchor_gen Hf ltac:(tauto)) as (k0 & Hk0 & Hc0 & Ho0 & Hp0 & Hf0).
  destruct (right_anchor_gen ltac:(tauto)) as (kb & Hkb & Hcb & Hob & Hpb & Hfb).
  assert (H1': In e1 (i_exons t)) by (rewrite Hex; left; reflexivity).
  assert (Hn': In en (i_exons t)) by (rewrite Hex; right; apply in_or_app; right; left; reflexivity).
  apply (G6_s ri rs k0 kb Hri Hgs Hps Hk0 (sprof_1 k0 e1 H1' Hc0)); [|exact Hf0|exact Hkb|exact (sprof_1 kb en Hn' Hcb)| |exact Hfb].
  - apply (gv_1 k0 (a, snd e1)); [left; reflexivity|exact Ho0|exact Hp0].
  - apply (gv_1 kb (fst en, b)); [right; apply in_or_app; right; left; reflexivity|exact Hob|exact Hpb]. Qed.

(* the same anchors serve every isoform whose split-exon profile equals the read's wherever the read's is not 0 (the isoforms that pass
   find_matching_isoforms on the split exons): its events in the consistent path are consistent too *)
Lemma G6_other ri rs u : In u isos -> gp rs = map gv BL -> prange rs = profile_range_zero (gp rs) ->
  equal_profiles_in_range (split_prof g u) (gp rs) (prange rs) = true ->
  (meo <= snd e1 - a + 1 \/ left_end_ok meo BL a = true) ->
  ((left_end_ok meo BL a = true /\ right_end_ok meo BL (fst en) b = true) \/ meo <= d + 1) ->
  events_all_consistent (consistent_events P g ri rs r u true).
Proof. intros Hu Hgs Hps Heq Hf Hc.
  destruct (left_anchor_gen Hf ltac:(tauto)) as (k0 & Hk0 & _ & Ho0 & Hp0 & Hf0).
  destruct (right_anchor_gen ltac:(tauto)) as (kb & Hkb & _ & Hob & Hpb & Hfb).
  assert (Hv0: gv k0 = 1) by (apply (gv_1 k0 (a, snd e1)); [left; reflexivity|exact Ho0|exact Hp0]).
  assert (Hvb: gv kb = 1) by (apply (gv_1 kb (fst en, b)); [right; apply in_or_app; right; left; reflexivity|exact Hob|exact Hpb]).
  assert (Emap: exists f, split_prof g u = map f BL).
  { eexists. unfold split_prof. apply (split_exon_profile_spec gex BL (i_exons u) (i_region u) gex_wfx (proj2 (proj2 gene_parts))).
    - exact (gappedP_sd _ (proj1 (iso_ok_in u Hu))).
    - intros f Hf'. apply gex_In. exists u. auto. }
  destruct Emap as (f & Ef).
  assert (Hnth: forall k, gv k = 1 -> forall j, nth_error BL j = Some k -> nth j (split_prof g u) 0 = 1).
  { intros k Hv j Hj. assert (Lj: (j < length BL)%nat) by (apply nth_error_Some; congruence).
    unfold equal_profiles_in_range in Heq. rewrite forallb_forall in Heq. specialize (Heq (Z.of_nat j)).
    assert (Hr: In (Z.of_nat j) (range_list (prange rs))).
    { apply In_zrange. rewrite Hps, Hgs. apply in_range_zero; [rewrite map_length; exact Lj|rewrite (nth_map0 gv BL j k Hj); exact Hv]. }
    specialize (Heq Hr). rewrite Hgs, (pz_map gv BL j k Hj), Hv in Heq. unfold pz, nthz in Heq. rewrite Nat2Z.id in Heq. lia. }
  destruct (elong_view_ok_gen (split_prof g u) k0 kb ltac:(rewrite Ef; apply map_length) (Hnth k0 Hv0) (Hnth kb Hvb) Hk0 Hv0 Hf0 Hkb Hvb Hfb) as (v & Hv & Hl & Hr).
  destruct (splice_defined ri r u) as (ev & Hev).
  assert (He: elong P g rs r u = Ok (emit P (profile_range_lt1 (split_prof g u)) v)).
  { unfold elong, elongation_subtype. cbn [r_exons]. rewrite Hps, Hgs, Hv. reflexivity. }
  apply (match_events_consistent_of_parts P g ri rs r u ev _ Hev He); [|left; reflexivity].
  unfold elong in He. cbn [r_exons] in He. rewrite Hps, Hgs in He.
  exact (elongation_inside_consistent P _ _ _ _ _ _ _ v Hminor He Hv Hl Hr). Qed.
End Geom.

(* ================================================================ the target lemmas, stated on exact_read *)
(* corner hypotheses, as functions of the gene's split exons and of the read's exons *)
Definition first_exon_ok (meo:Z) (blocks rex:list iv) : Prop :=
  meo <= snd (hd (0, 0) rex) - fst (hd (0, 0) rex) + 1 \/ left_end_ok meo blocks (fst (hd (0, 0) rex)) = true.
Definition ends_ok (meo:Z) (blocks rex:list iv) : bool :=
  left_end_ok meo blocks (fst (hd (0, 0) rex)) && right_end_ok meo blocks (fst (last rex (0, 0))) (snd (last rex (0, 0))).

(* the corner hypothesis of the composition: the first read exon is hit, and both read ends are well placed in their split blocks -
   or minimal_exon_overlap <= delta + 1 (true for the default preset: 5 <= 6 + 1), which makes a badly placed end harmless *)
Definition corner_ok (meo dd:Z) (blocks rex:list iv) : Prop :=
  first_exon_ok meo blocks rex /\ (ends_ok meo blocks rex = true \/ meo <= dd + 1).

Section Final.
Variable P : params.
Variable absd : Z.
Variable arm : ARM.
Variable SC : Type.
Variable sc_make : (Z * Z) -> (Z * Z) -> SC.
Variable sc_lt : SC -> SC -> bool.
Variable sc_ge_min : SC -> bool.
Variable sc_keeps : SC -> SC -> bool.
Variable select_min : list (Z * list xev) -> option (list Z).
Hypothesis Hd : 0 <= p_delta P.
Hypothesis Hmeo : 0 < p_minimal_exon_overlap P.
Hypothesis Hmaeo : 0 <= p_min_abs_exon_overlap P.
Local Notation d := (p_delta P).
Local Notation meo := (p_minimal_exon_overlap P).
Local Notation cmps := (fun x k => py_overlaps_at_least_when_overlap x k (p_minimal_exon_overlap P)).
Local Notation A := (assign P absd arm SC sc_make sc_lt sc_ge_min sc_keeps select_min).

Ltac open_exact H := destruct H as (e1 & mid & en & a & b & Hex & -> & Ha & Hb).

(* G1 *)
Theorem exact_intron_read_profile : forall isos g t rex,
  mk_gene isos = Some g -> In t isos -> gene_ok d isos = true -> IntervalsSpec.H2 d (i_introns t) = true -> exact_read t rex ->
  exists ri, intron_rprof P absd g (mkRead rex no_pa) = Ok ri /\ rp ri = map (fun _ => 1) (jfb rex) /\
    length (gp ri) = length (g_introns g) /\ prange ri = profile_range_zero (gp ri) /\
    forall j k, nth_error (g_introns g) j = Some k ->
      exists v, nth_error (gp ri) j = Some v /\ (v = 1 <-> In k (i_introns t)) /\
                (v = -1 -> py_overlaps k (i_region t) = true /\ ~ In k (i_introns t)) /\ v <> -2 /\ (v = 1 \/ v = -1 \/ v = 0).
Proof. intros isos g t rex Hg Ht Hok HH2 Hx. open_exact Hx.
  destruct (G1_s P absd Hd Hmeo Hmaeo isos g Hg Hok t Ht HH2 e1 mid en a b Hex Ha Hb) as (ri & R1 & R2 & R3 & R4).
  exists ri. split; [exact R1|]. split; [exact R2|]. split; [rewrite R3; apply map_length|]. split; [exact R4|].
  intros j k Hj. exists (ival P absd g t a b k). split; [rewrite R3; apply map_nth_error; exact Hj|].
  exact (ival_spec P absd Hd Hmeo Hmaeo isos g Hg Hok t Ht HH2 e1 mid en a b Hex Ha Hb k (nth_error_In _ _ Hj)). Qed.

(* G2: the first read exon must be at least minimal_exon_overlap long, or start well inside its split block *)
Theorem exact_split_read_profile : forall isos g t rex,
  mk_gene isos = Some g -> In t isos -> gene_ok d isos = true -> IntervalsSpec.H2 d (i_introns t) = true -> exact_read t rex ->
  first_exon_ok meo (g_split g) rex ->
  exists rs, split_rprof P g (mkRead rex no_pa) = Ok rs /\ rp rs = map (fun _ => 1) rex /\
    gp rs = map (gval cmps false rex 0) (g_split g) /\ prange rs = profile_range_zero (gp rs) /\
    equal_profiles_in_range (split_prof g t) (gp rs) (prange rs) = true /\ In 1 (gp rs).
Proof. intros isos g t rex Hg Ht Hok HH2 Hx Hf. open_exact Hx. unfold first_exon_ok in Hf. cbn [hd fst snd] in Hf.
  destruct (G2_s P absd Hd Hmeo Hmaeo isos g Hg Hok t Ht HH2 e1 mid en a b Hex Ha Hb) as (rs & R1 & R2 & R3 & R4).
  { destruct Hf as [Hf|Hf].
    - destruct (left_hit_of_len P absd Hd Hmeo Hmaeo isos g Hg Hok t Ht HH2 e1 mid en a b Hex Ha Hb Hf) as (k & Q1 & _ & Q3 & Q4). exists k. auto.
    - destruct (left_anchor_of_ok P absd Hd Hmeo Hmaeo isos g Hg Hok t Ht HH2 e1 mid en a b Hex Ha Hb Hf) as (k & Q1 & _ & Q3 & Q4 & _). exists k. auto. }
  exists rs. split; [exact R1|]. split; [exact R2|]. split; [exact R3|]. split; [exact R4|]. split.
  - rewrite (split_prof_eq P absd Hd Hmeo Hmaeo isos g Hg Hok t Ht HH2 e1 mid en a b Hex Ha Hb), R3. apply equal_profiles_map.
    exact (split_equal P absd Hd Hmeo Hmaeo isos g Hg Hok t Ht HH2 e1 mid en a b Hex Ha Hb).
  - destruct (some_anchor P absd Hd Hmeo Hmaeo isos g Hg Hok t Ht HH2 e1 mid en a b Hex Ha Hb) as (k & Q1 & _ & Q3). rewrite R3, <- Q3. apply in_map. exact Q1. Qed.

(* G3 *)
Theorem exact_profiles_clean : forall isos g t rex ri rs,
  mk_gene isos = Some g -> In t isos -> gene_ok d isos = true -> IntervalsSpec.H2 d (i_introns t) = true -> exact_read t rex ->
  first_exon_ok meo (g_split g) rex ->
  intron_rprof P absd g (mkRead rex no_pa) = Ok ri -> split_rprof P g (mkRead rex no_pa) = Ok rs -> profiles_clean ri rs = true.
Proof. intros isos g t rex ri rs Hg Ht Hok HH2 Hx Hf Hi Hs.
  destruct (exact_split_read_profile isos g t rex Hg Ht Hok HH2 Hx Hf) as (rs' & S1 & S2 & _ & _ & _ & S6). rewrite Hs in S1. injection S1 as <-.
  destruct (exact_intron_read_profile isos g t rex Hg Ht Hok HH2 Hx) as (ri' & I1 & I2 & _). rewrite Hi in I1. injection I1 as <-.
  apply (clean_of_ones ri rs (jfb rex) rex); [|exact I2|exact S2|exact S6]. open_exact Hx. discriminate. Qed.

(* G4: T is compatible with the read (no corner hypothesis is needed here) *)
Theorem exact_T_compatible : forall isos g t rex ri rs,
  mk_gene isos = Some g -> In t isos -> gene_ok d isos = true -> IntervalsSpec.H2 d (i_introns t) = true -> exact_read t rex ->
  intron_rprof P absd g (mkRead rex no_pa) = Ok ri -> split_rprof P g (mkRead rex no_pa) = Ok rs ->
  In (i_id t) (compatible_ids P g ri rs (mkRead rex no_pa)) /\
  In (i_id t) (find_matching (split_prof g) g rs (compatible_ids P g ri rs (mkRead rex no_pa))).
Proof. intros isos g t rex ri rs Hg Ht Hok HH2 Hx Hi Hs. open_exact Hx.
  destruct (ri_parts P absd Hd Hmeo Hmaeo isos g Hg Hok t Ht HH2 e1 mid en a b Hex Ha Hb ri Hi) as (_ & I2 & I3).
  destruct (rs_parts P absd Hd Hmeo Hmaeo isos g Hg Hok t Ht HH2 e1 mid en a b Hex Ha Hb rs Hs) as (S1 & S2 & _).
  exact (G4_s P absd Hd Hmeo Hmaeo isos g Hg Hok t Ht HH2 e1 mid en a b Hex Ha Hb ri rs I2 I3 S1 S2
           (some_anchor P absd Hd Hmeo Hmaeo isos g Hg Hok t Ht HH2 e1 mid en a b Hex Ha Hb)). Qed.

(* G5 *)
Theorem compatible_have_introns : forall isos g t rex ri rs id,
  mk_gene isos = Some g -> In t isos -> gene_ok d isos = true -> IntervalsSpec.H2 d (i_introns t) = true -> exact_read t rex ->
  intron_rprof P absd g (mkRead rex no_pa) = Ok ri ->
  In id (compatible_ids P g ri rs (mkRead rex no_pa)) -> exists fsm, is_fsm (mkRead rex no_pa) (find_iso g id) = Ok fsm.
Proof. intros isos g t rex ri rs id Hg Ht Hok HH2 Hx Hi Hin. open_exact Hx.
  destruct (ri_parts P absd Hd Hmeo Hmaeo isos g Hg Hok t Ht HH2 e1 mid en a b Hex Ha Hb ri Hi) as (_ & I2 & I3).
  exact (G5_s P absd Hd Hmeo Hmaeo isos g Hg Hok t Ht HH2 e1 mid en a b Hex Ha Hb ri rs id I2 I3 Hin). Qed.

(* G6: the match event is FSM and the elongation events are terminal-site matches, when both read ends are well placed in their blocks *)
Hypothesis Hminor : p_delta P <= p_minor_ext P.
Theorem exact_T_events_consistent : forall isos g t rex ri rs,
  mk_gene isos = Some g -> In t isos -> gene_ok d isos = true -> IntervalsSpec.H2 d (i_introns t) = true -> exact_read t rex ->
  corner_ok meo d (g_split g) rex ->
  intron_rprof P absd g (mkRead rex no_pa) = Ok ri -> split_rprof P g (mkRead rex no_pa) = Ok rs ->
  splice_match_event ri (mkRead rex no_pa) t = Ok MES_fsm /\
  events_all_consistent (consistent_events P g ri rs (mkRead rex no_pa) t true).
Proof. intros isos g t rex ri rs Hg Ht Hok HH2 Hx (Hf & He) Hi Hs. open_exact Hx.
  destruct (ri_parts P absd Hd Hmeo Hmaeo isos g Hg Hok t Ht HH2 e1 mid en a b Hex Ha Hb ri Hi) as (I1 & _).
  destruct (rs_parts P absd Hd Hmeo Hmaeo isos g Hg Hok t Ht HH2 e1 mid en a b Hex Ha Hb rs Hs) as (S1 & S2 & _).
  unfold first_exon_ok in Hf. unfold ends_ok in He. cbn [hd fst snd] in Hf, He.
  change ((a, snd e1) :: mid ++ [(fst en, b)]) with (((a, snd e1) :: mid) ++ [(fst en, b)]) in He. rewrite last_last in He. cbn [fst snd] in He. split.
  - exact (fsm_event P absd Hd Hmeo Hmaeo isos g Hg Hok t Ht HH2 e1 mid en a b Hex Ha Hb Hminor ri I1).
  - apply (G6_ends P absd Hd Hmeo Hmaeo isos g Hg Hok t Ht HH2 e1 mid en a b Hex Ha Hb Hminor ri rs I1 S1 S2 Hf).
    destruct He as [He|He]; [left; apply andb_prop in He; exact He|right; exact He]. Qed.

Lemma ends_ok_corner rex blocks : ends_ok meo blocks rex = true -> corner_ok meo d blocks rex.
Proof. unfold corner_ok, ends_ok, first_exon_ok. intros H. split; [apply andb_prop in H; right; tauto|left; exact H]. Qed.

(* the facts shared by the two compositions *)
Lemma exact_common : forall isos g t rex ri rs,
  mk_gene isos = Some g -> In t isos -> gene_ok d isos = true -> IntervalsSpec.H2 d (i_introns t) = true -> exact_read t rex ->
  intron_rprof P absd g (mkRead rex no_pa) = Ok ri ->
  g_isos g <> [] /\ rp ri <> [] /\ NoDup (compatible_ids P g ri rs (mkRead rex no_pa)) /\ t = find_iso g (i_id t).
Proof. intros isos g t rex ri rs Hg Ht Hok HH2 Hx Hi. open_exact Hx.
  destruct (ri_parts P absd Hd Hmeo Hmaeo isos g Hg Hok t Ht HH2 e1 mid en a b Hex Ha Hb ri Hi) as (I1 & _).
  destruct (gene_parts P absd Hd Hmeo Hmaeo isos g Hg Hok) as (G1 & _).
  split; [rewrite G1; intros E; rewrite E in Ht; destruct Ht|]. split.
  - rewrite I1, (rex_jfb P absd Hd Hmeo Hmaeo isos g Hg Hok t Ht HH2 e1 mid en a b Hex Ha Hb). intros E. apply map_eq_nil in E.
    exact (F_nonempty P absd Hd Hmeo Hmaeo isos g Hg Hok t Ht HH2 e1 mid en a b Hex Ha Hb E).
  - split; [|symmetry; exact (find_iso_self P absd Hd Hmeo Hmaeo isos g Hg Hok t Ht)].
    unfold compatible_ids, find_matching, find_overlapping, find_containing, ids_of. rewrite G1. do 3 apply NoDup_filter.
    exact (ids_nodup P absd Hd Hmeo Hmaeo isos g Hg Hok). Qed.

(* T is the only compatible isoform: unique assignment to T, with consistent events only; no hypothesis on scores or on other isoforms *)
Theorem exact_match_unique : forall isos g t rex ri rs,
  mk_gene isos = Some g -> In t isos -> gene_ok d isos = true -> IntervalsSpec.H2 d (i_introns t) = true -> exact_read t rex ->
  corner_ok meo d (g_split g) rex ->
  intron_rprof P absd g (mkRead rex no_pa) = Ok ri -> split_rprof P g (mkRead rex no_pa) = Ok rs ->
  (forall id, In id (compatible_ids P g ri rs (mkRead rex no_pa)) -> id = i_id t) ->
  exists evs, consistent_events P g ri rs (mkRead rex no_pa) t true = Ok evs /\ (forall e, In e evs -> ev_consistent (x_type e) = true) /\
    A g (mkRead rex no_pa) = Ok (RAT_unique, [(i_id t, map x_type evs)]).
Proof. intros isos g t rex ri rs Hg Ht Hok HH2 Hx He Hi Hs Hall.
  destruct (exact_common isos g t rex ri rs Hg Ht Hok HH2 Hx Hi) as (C1 & C2 & C3 & C4).
  pose proof (exact_profiles_clean isos g t rex ri rs Hg Ht Hok HH2 Hx (proj1 He) Hi Hs) as Hclean.
  destruct (exact_T_compatible isos g t rex ri rs Hg Ht Hok HH2 Hx Hi Hs) as (Hin & _).
  destruct (exact_T_events_consistent isos g t rex ri rs Hg Ht Hok HH2 Hx He Hi Hs) as (_ & Hev).
  pose proof (single_of_nodup _ _ C3 Hin Hall) as Hone.
  destruct (unique_compatible_reports_T P absd arm SC sc_make sc_lt sc_ge_min sc_keeps select_min g (mkRead rex no_pa) ri rs (i_id t) t
              C1 Hi Hs Hclean C2 Hone C4 Hev) as (evs & E1 & E2).
  exists evs. split; [exact E1|]. split; [|exact E2]. destruct Hev as (evs' & E3 & E4). rewrite E1 in E3. injection E3 as <-. exact E4. Qed.

Theorem exact_match_reports_T : forall isos g t rex ri rs,
  mk_gene isos = Some g -> In t isos -> gene_ok d isos = true -> IntervalsSpec.H2 d (i_introns t) = true -> exact_read t rex ->
  corner_ok meo d (g_split g) rex ->
  let r := mkRead rex no_pa in
  intron_rprof P absd g r = Ok ri -> split_rprof P g r = Ok rs ->
  (* T survives the nucleotide-score resolution among compatible isoforms *)
  (forall l, incl l (compatible_ids P g ri rs r) -> In (i_id t) l ->
     exists l', resolve P SC sc_make sc_lt sc_ge_min sc_keeps true false r g l = Ok l' /\ In (i_id t) l') ->
  (* the other compatible isoforms do not turn the assignment inconsistent *)
  (forall id, In id (compatible_ids P g ri rs r) -> events_all_consistent (consistent_events P g ri rs r (find_iso g id) true)) ->
  exists ty ms, A g r = Ok (ty, ms) /\
    type_consistent ty = true /\ In (i_id t) (map fst ms) /\ incl (map fst ms) (compatible_ids P g ri rs r) /\
    ((forall id, In id (compatible_ids P g ri rs r) -> id = i_id t) -> ty = RAT_unique /\ map fst ms = [i_id t]).
Proof. intros isos g t rex ri rs Hg Ht Hok HH2 Hx He. cbv zeta. intros Hi Hs Hscore Hother.
  destruct (exact_common isos g t rex ri rs Hg Ht Hok HH2 Hx Hi) as (C1 & C2 & C3 & C4).
  pose proof (exact_profiles_clean isos g t rex ri rs Hg Ht Hok HH2 Hx (proj1 He) Hi Hs) as Hclean.
  destruct (exact_T_compatible isos g t rex ri rs Hg Ht Hok HH2 Hx Hi Hs) as (Hin & Hexon).
  destruct (list_eq_dec Z.eq_dec (compatible_ids P g ri rs (mkRead rex no_pa)) [i_id t]) as [E|NE].
  - destruct (exact_match_unique isos g t rex ri rs Hg Ht Hok HH2 Hx He Hi Hs) as (evs & E1 & E2 & E3).
    { intros id Hid. rewrite E in Hid. destruct Hid as [<-|[]]. reflexivity. }
    exists RAT_unique, [(i_id t, map x_type evs)]. split; [exact E3|]. split; [reflexivity|]. cbn [map fst]. split; [left; reflexivity|].
    split; [rewrite E; apply incl_refl|]. intros _. split; reflexivity.
  - destruct (compatible_reports_T_incl P absd arm SC sc_make sc_lt sc_ge_min sc_keeps select_min g (mkRead rex no_pa) ri rs (i_id t)
                C1 Hi Hs Hclean C2 Hin (or_intror Hexon) Hscore) as (ty & ms & R1 & R2 & R3 & R4).
    { intros id Hid. exact (compatible_have_introns isos g t rex ri rs id Hg Ht Hok HH2 Hx Hi Hid). }
    { exact Hother. }
    exists ty, ms. split; [exact R1|]. split; [exact R2|]. split; [exact R3|]. split; [exact R4|].
    intros Hall. exfalso. apply NE. exact (single_of_nodup _ _ C3 Hin Hall). Qed.

(* ---------------------------------------------------------------- without the hypothesis on the other isoforms *)
(* the finally matched isoforms pass the split-exon matching step (whenever T does) *)
Lemma matched_incl_em g ri rs r tid ids : rp ri <> [] -> In tid (compatible_ids P g ri rs r) ->
  In tid (find_matching (split_prof g) g rs (compatible_ids P g ri rs r)) ->
  matched P arm SC sc_make sc_lt sc_ge_min sc_keeps g ri rs r = Ok (ids, true) ->
  incl ids (find_matching (split_prof g) g rs (compatible_ids P g ri rs r)).
Proof. intros Hrp Hin Hem. unfold matched. cbv zeta.
  replace (length (rp ri) =? 0)%nat with false by (destruct (rp ri); [contradiction|reflexivity]).
  remember (compatible_ids P g ri rs r) as C eqn:EC. remember (find_matching (split_prof g) g rs C) as em eqn:Eem.
  set (m1 := if 1 <? Z.of_nat (length C) then match em with [] => C | z :: l => z :: l end else C).
  assert (Hsub1: incl m1 em).
  { unfold m1. destruct (1 <? Z.of_nat (length C)) eqn:E1.
    - destruct em as [|e0 em']; [destruct Hem|apply incl_refl].
    - destruct C as [|c [|c' C']]; [destruct Hin| |cbn [length] in E1; lia]. destruct Hin as [<-|[]]. intros x [<-|[]]. exact Hem. }
  destruct (1 <? Z.of_nat (length m1)); [|intros H; injection H as <-; exact Hsub1].
  match goal with |- match ?x with _ => _ end = _ -> _ => destruct x as [[|]|k] end; [| |discriminate].
  - destruct (resolve P SC sc_make sc_lt sc_ge_min sc_keeps true false r g m1) as [l|k] eqn:E; [|discriminate]. intros H. injection H as <-.
    intros x Hx. apply Hsub1. exact (resolve_sub _ _ _ _ _ _ _ _ _ _ _ _ E x Hx).
  - intros H. injection H as <-. exact Hsub1. Qed.

Theorem exact_match_reports_T_strong : forall isos g t rex ri rs,
  mk_gene isos = Some g -> In t isos -> gene_ok d isos = true -> IntervalsSpec.H2 d (i_introns t) = true -> exact_read t rex ->
  corner_ok meo d (g_split g) rex ->
  let r := mkRead rex no_pa in
  intron_rprof P absd g r = Ok ri -> split_rprof P g r = Ok rs ->
  (forall l, incl l (compatible_ids P g ri rs r) -> In (i_id t) l ->
     exists l', resolve P SC sc_make sc_lt sc_ge_min sc_keeps true false r g l = Ok l' /\ In (i_id t) l') ->
  exists ty ms, A g r = Ok (ty, ms) /\
    type_consistent ty = true /\ In (i_id t) (map fst ms) /\ incl (map fst ms) (compatible_ids P g ri rs r) /\
    ((forall id, In id (compatible_ids P g ri rs r) -> id = i_id t) -> ty = RAT_unique /\ map fst ms = [i_id t]).
Proof. intros isos g t rex ri rs Hg Ht Hok HH2 Hx He. cbv zeta. intros Hi Hs Hscore.
  destruct (exact_common isos g t rex ri rs Hg Ht Hok HH2 Hx Hi) as (C1 & C2 & C3 & C4).
  pose proof (exact_profiles_clean isos g t rex ri rs Hg Ht Hok HH2 Hx (proj1 He) Hi Hs) as Hclean.
  destruct (exact_T_compatible isos g t rex ri rs Hg Ht Hok HH2 Hx Hi Hs) as (Hin & Hexon).
  destruct (list_eq_dec Z.eq_dec (compatible_ids P g ri rs (mkRead rex no_pa)) [i_id t]) as [E|NE].
  - destruct (exact_match_unique isos g t rex ri rs Hg Ht Hok HH2 Hx He Hi Hs) as (evs & E1 & E2 & E3).
    { intros id Hid. rewrite E in Hid. destruct Hid as [<-|[]]. reflexivity. }
    exists RAT_unique, [(i_id t, map x_type evs)]. split; [exact E3|]. split; [reflexivity|]. cbn [map fst]. split; [left; reflexivity|].
    split; [rewrite E; apply incl_refl|]. intros _. split; reflexivity.
  - destruct (matched_spliced P arm SC sc_make sc_lt sc_ge_min sc_keeps g ri rs (mkRead rex no_pa) (i_id t) C2 Hin (or_intror Hexon) Hscore) as (ids & Hm & Hin' & Hsub).
    { intros id Hid. exact (compatible_have_introns isos g t rex ri rs id Hg Ht Hok HH2 Hx Hi Hid). }
    pose proof (matched_incl_em g ri rs (mkRead rex no_pa) (i_id t) ids C2 Hin Hexon Hm) as Hem.
    destruct (finish_consistent P g ri rs (mkRead rex no_pa) ids true) as (ms & Hf & Hfst).
    { intros E. rewrite E in Hin'. exact Hin'. }
    { intros id Hid. specialize (Hem id Hid). unfold find_matching at 1 in Hem. apply filter_In in Hem. destruct Hem as (HidC & Heq).
      assert (Hids: In id (ids_of g)).
      { unfold compatible_ids, find_matching, find_overlapping, find_containing in HidC. apply filter_In in HidC. destruct HidC as (HidC & _).
        apply filter_In in HidC. destruct HidC as (HidC & _). apply filter_In in HidC. tauto. }
      destruct (find_iso_in P absd Hd Hmeo Hmaeo isos g Hg Hok id Hids) as (Hu & _).
      destruct He as (Hfirst & Hends). open_exact Hx.
      destruct (rs_parts P absd Hd Hmeo Hmaeo isos g Hg Hok t Ht HH2 e1 mid en a b Hex Ha Hb rs Hs) as (S1 & S2 & _).
      unfold first_exon_ok in Hfirst. unfold ends_ok in Hends. cbn [hd fst snd] in Hfirst, Hends.
      change ((a, snd e1) :: mid ++ [(fst en, b)]) with (((a, snd e1) :: mid) ++ [(fst en, b)]) in Hends. rewrite last_last in Hends. cbn [fst snd] in Hends.
      apply (G6_other P absd Hd Hmeo Hmaeo isos g Hg Hok t Ht HH2 e1 mid en a b Hex Ha Hb Hminor ri rs (find_iso g id) Hu S1 S2 Heq Hfirst).
      destruct Hends as [Hends|Hends]; [left; apply andb_prop in Hends; exact Hends|right; exact Hends]. }
    eexists. exists ms. rewrite (clean_profiles_reach_consistent P absd arm SC sc_make sc_lt sc_ge_min sc_keeps select_min g (mkRead rex no_pa) ri rs C1 Hi Hs Hclean), MC_unfold, Hm, Hf.
    split; [reflexivity|]. split; [destruct (1 <? Z.of_nat (length ids)); reflexivity|]. rewrite Hfst. split; [exact Hin'|]. split; [exact Hsub|].
    intros Hall. exfalso. apply NE. exact (single_of_nodup _ _ C3 Hin Hall). Qed.
End Final.

(* ================================================================ examples (exact rational scores) *)
Definition sel_all (l:list (Z * list xev)) : option (list Z) := Some (map fst l).       (* a penalty selection that keeps every candidate *)
Notation assignG P := (assign P 20 ARM_monoexon_and_fsm Q q_make q_lt q_ge_min q_keeps sel_all).
Definition ev_types (o:outcome (list xev)) : outcome (list MES) := match o with Ok l => Ok (map x_type l) | Raises k => Raises k end.

Definition t1 : isof := mkIso 1 1 [(100, 200); (300, 400); (500, 900)].
Definition t2 : isof := mkIso 2 1 [(100, 200); (300, 400); (500, 700); (800, 900)].
Definition t3 : isof := mkIso 3 1 [(50, 200); (300, 400); (500, 900)].
Definition rexE : list iv := [(150, 200); (300, 400); (500, 880)].
Lemma exP_ok : 0 <= p_delta exP /\ 0 < p_minimal_exon_overlap exP /\ 0 <= p_min_abs_exon_overlap exP /\ p_delta exP <= p_minor_ext exP.
Proof. vm_compute. repeat split; congruence. Qed.
Lemma rexE_exact : exact_read t1 rexE.
Proof. exists (100, 200), [(300, 400)], (500, 900), 150, 880. cbn [fst snd]. repeat split; try reflexivity; lia. Qed.

(* positive 1: one isoform - the theorem gives the unique assignment *)
Example exact_match_unique_example : exists tys, assignG exP (gene_of [t1]) (mkRead rexE no_pa) = Ok (RAT_unique, [(1, tys)]).
Proof. destruct exP_ok as (Q1 & Q2 & Q3 & Q4).
  assert (Hg: mk_gene [t1] = Some (gene_of [t1])) by (vm_compute; reflexivity).
  destruct (exact_match_unique exP 20 ARM_monoexon_and_fsm Q q_make q_lt q_ge_min q_keeps sel_all Q1 Q2 Q3 Q4 [t1] (gene_of [t1]) t1 rexE
              (mkRP [1; 1] [1; 1] (0, 2)) (mkRP [1; 1; 1] [1; 1; 1] (0, 3)) Hg (or_introl eq_refl)) as (evs & _ & _ & E).
  - vm_compute. reflexivity.
  - vm_compute. reflexivity.
  - exact rexE_exact.
  - split; [right; vm_compute; reflexivity|left; vm_compute; reflexivity].
  - vm_compute. reflexivity.
  - vm_compute. reflexivity.
  - assert (HC: compatible_ids exP (gene_of [t1]) (mkRP [1; 1] [1; 1] (0, 2)) (mkRP [1; 1; 1] [1; 1; 1] (0, 3)) (mkRead rexE no_pa) = [1]) by (vm_compute; reflexivity).
    intros id Hid. rewrite HC in Hid. destruct Hid as [<-|[]]. reflexivity.
  - exists (map x_type evs). exact E. Qed.

(* positive 2: three isoforms, two of them compatible (t2 has an extra intron inside the read's last exon); the exact rational scores keep
   T = t1 and the other compatible isoform has consistent events: the theorem gives a consistent assignment containing T *)
Example exact_match_reports_T_example : exists ty ms,
  assignG exP (gene_of [t1; t2; t3]) (mkRead rexE no_pa) = Ok (ty, ms) /\ type_consistent ty = true /\ In 1 (map fst ms).
Proof. destruct exP_ok as (Q1 & Q2 & Q3 & Q4).
  set (g := gene_of [t1; t2; t3]). set (ri := mkRP [1; 1; -1] [1; 1] (0, 3)). set (rs := mkRP [0; 1; 1; 1; 1; 1] [1; 1; 1] (1, 6)).
  assert (Hg: mk_gene [t1; t2; t3] = Some g) by (vm_compute; reflexivity).
  assert (HC: compatible_ids exP g ri rs (mkRead rexE no_pa) = [1; 3]) by (vm_compute; reflexivity).
  destruct (exact_match_reports_T exP 20 ARM_monoexon_and_fsm Q q_make q_lt q_ge_min q_keeps sel_all Q1 Q2 Q3 Q4 [t1; t2; t3] g t1 rexE ri rs Hg (or_introl eq_refl))
    as (ty & ms & E1 & E2 & E3 & _).
  - vm_compute. reflexivity.
  - vm_compute. reflexivity.
  - exact rexE_exact.
  - split; [right; vm_compute; reflexivity|left; vm_compute; reflexivity].
  - vm_compute. reflexivity.
  - vm_compute. reflexivity.
  - eapply (hscore_of_best_Q exP (mkRead rexE no_pa) g); [vm_compute; reflexivity| |apply Qle_bool_iff; vm_compute; reflexivity].
    rewrite HC. intros id [<-|[<-|[]]]; (eexists; split; [vm_compute; reflexivity|apply Qle_bool_iff; vm_compute; reflexivity]).
  - rewrite HC. intros id [<-|[<-|[]]]; (eexists; split; [vm_compute; reflexivity|]; intros e He; cbn [In] in He;
      repeat (destruct He as [<-|He]; [vm_compute; reflexivity|]); destruct He).
  - exists ty, ms. auto. Qed.

(* ---------------------------------------------------------------- the hypotheses cannot be dropped *)
Definition tA : isof := mkIso 1 1 [(100, 200); (300, 400)].
(* G2 / G3 without first_exon_ok: the first read exon (199,200) is 2 bases long and lies inside the block (100,200): the comparator
   overlaps_at_least_when_overlap fails, the read exon gets -1 and the profiles are not clean (assign_to_isoform takes the other path) *)
Example exact_split_read_profile_first_exon_refuted :
  let rex := [(199, 200); (300, 400)] in
  exists g ri rs, mk_gene [tA] = Some g /\ In tA [tA] /\ gene_ok (p_delta exP) [tA] = true /\ IntervalsSpec.H2 (p_delta exP) (i_introns tA) = true /\ exact_read tA rex /\
    ~ first_exon_ok (p_minimal_exon_overlap exP) (g_split g) rex /\
    intron_rprof exP 20 g (mkRead rex no_pa) = Ok ri /\ split_rprof exP g (mkRead rex no_pa) = Ok rs /\ rp rs = [-1; 1] /\ profiles_clean ri rs = false.
Proof. cbv zeta. eexists. eexists. eexists. split; [vm_compute; reflexivity|]. split; [left; reflexivity|]. split; [vm_compute; reflexivity|]. split; [vm_compute; reflexivity|].
  split; [exists (100, 200), [], (300, 400), 199, 400; cbn [fst snd app]; repeat split; try reflexivity; lia|].
  split; [intros [H|H]; vm_compute in H; [apply H; reflexivity|discriminate]|].
  split; [vm_compute; reflexivity|]. split; [vm_compute; reflexivity|]. split; vm_compute; reflexivity. Qed.

(* G6 without the corner hypothesis on the LEFT end (delta = 1 < minimal_exon_overlap - 1): the read starts 3 bases before the end of the block
   (100,149); that block is not hit, the first common block is (150,200), 3 bases inside the read: a minor exon_elongation_left *)
Definition P1 : params := params_of_delta MS_default 1.
Definition tB2 : isof := mkIso 2 1 [(150, 200); (300, 350); (380, 500)].
Example exact_T_events_left_corner_refuted :
  let rex := [(147, 200); (300, 400)] in let isos := [tA; tB2] in
  exists g ri rs, mk_gene isos = Some g /\ gene_ok (p_delta P1) isos = true /\ IntervalsSpec.H2 (p_delta P1) (i_introns tA) = true /\ exact_read tA rex /\
    first_exon_ok (p_minimal_exon_overlap P1) (g_split g) rex /\ ends_ok (p_minimal_exon_overlap P1) (g_split g) rex = false /\
    ~ p_minimal_exon_overlap P1 <= p_delta P1 + 1 /\
    intron_rprof P1 20 g (mkRead rex no_pa) = Ok ri /\ split_rprof P1 g (mkRead rex no_pa) = Ok rs /\ compatible_ids P1 g ri rs (mkRead rex no_pa) = [1] /\
    ev_types (consistent_events P1 g ri rs (mkRead rex no_pa) tA true) = Ok [MES_fsm; MES_exon_elongation_left; MES_terminal_site_match_right_precise] /\
    ev_consistent MES_exon_elongation_left = false /\
    assignG P1 g (mkRead rex no_pa) = Ok (RAT_unique_minor_difference, [(1, [MES_fsm; MES_exon_elongation_left; MES_terminal_site_match_right_precise])]).
Proof. cbv zeta. eexists. eexists. eexists. split; [vm_compute; reflexivity|]. split; [vm_compute; reflexivity|]. split; [vm_compute; reflexivity|].
  split; [exists (100, 200), [], (300, 400), 147, 400; cbn [fst snd app]; repeat split; try reflexivity; lia|].
  split; [left; vm_compute; congruence|]. split; [vm_compute; reflexivity|]. split; [intros H; vm_compute in H; apply H; reflexivity|].
  split; [vm_compute; reflexivity|]. split; [vm_compute; reflexivity|]. repeat split; vm_compute; reflexivity. Qed.
(* ... and on the RIGHT end: the read ends 3 bases inside the block (351,400) *)
Definition tC2 : isof := mkIso 2 1 [(100, 120); (150, 200); (300, 350)].
Example exact_T_events_right_corner_refuted :
  let rex := [(100, 200); (300, 353)] in let isos := [tA; tC2] in
  exists g ri rs, mk_gene isos = Some g /\ gene_ok (p_delta P1) isos = true /\ IntervalsSpec.H2 (p_delta P1) (i_introns tA) = true /\ exact_read tA rex /\
    first_exon_ok (p_minimal_exon_overlap P1) (g_split g) rex /\ ends_ok (p_minimal_exon_overlap P1) (g_split g) rex = false /\
    ~ p_minimal_exon_overlap P1 <= p_delta P1 + 1 /\
    intron_rprof P1 20 g (mkRead rex no_pa) = Ok ri /\ split_rprof P1 g (mkRead rex no_pa) = Ok rs /\ compatible_ids P1 g ri rs (mkRead rex no_pa) = [1] /\
    ev_types (consistent_events P1 g ri rs (mkRead rex no_pa) tA true) = Ok [MES_fsm; MES_terminal_site_match_left_precise; MES_exon_elongation_right] /\
    ev_consistent MES_exon_elongation_right = false /\
    assignG P1 g (mkRead rex no_pa) = Ok (RAT_unique_minor_difference, [(1, [MES_fsm; MES_terminal_site_match_left_precise; MES_exon_elongation_right])]).
Proof. cbv zeta. eexists. eexists. eexists. split; [vm_compute; reflexivity|]. split; [vm_compute; reflexivity|]. split; [vm_compute; reflexivity|].
  split; [exists (100, 200), [], (300, 400), 100, 353; cbn [fst snd app]; repeat split; try reflexivity; lia|].
  split; [left; vm_compute; congruence|]. split; [vm_compute; reflexivity|]. split; [intros H; vm_compute in H; apply H; reflexivity|].
  split; [vm_compute; reflexivity|]. split; [vm_compute; reflexivity|]. repeat split; vm_compute; reflexivity. Qed.

(* G6 without any hypothesis on minor_exon_extension: with minor_exon_extension = -1 an extension of 0 bases is a MAJOR elongation.
   (For exact reads the elongations are <= 0, so 0 <= minor_exon_extension would be enough; delta <= minor_exon_extension holds for every preset.) *)
Definition Pm : params := mkP 6 60 100 40 60 1 (-1) 300 10 (1 # 5) 50 30 (1 # 5) 50 5.
Example exact_T_events_minor_ext_refuted :
  let rex := [(100, 200); (300, 400)] in
  exists g ri rs, mk_gene [tA] = Some g /\ gene_ok (p_delta Pm) [tA] = true /\ exact_read tA rex /\ ends_ok (p_minimal_exon_overlap Pm) (g_split g) rex = true /\
    ~ p_delta Pm <= p_minor_ext Pm /\
    intron_rprof Pm 20 g (mkRead rex no_pa) = Ok ri /\ split_rprof Pm g (mkRead rex no_pa) = Ok rs /\
    ev_types (consistent_events Pm g ri rs (mkRead rex no_pa) tA true) = Ok [MES_fsm; MES_major_exon_elongation_left; MES_major_exon_elongation_right] /\
    assignG Pm g (mkRead rex no_pa) = Ok (RAT_inconsistent_non_intronic, [(1, [MES_major_exon_elongation_left; MES_major_exon_elongation_right])]).
Proof. cbv zeta. eexists. eexists. eexists. split; [vm_compute; reflexivity|]. split; [vm_compute; reflexivity|].
  split; [exists (100, 200), [], (300, 400), 100, 400; cbn [fst snd app]; repeat split; try reflexivity; lia|].
  split; [vm_compute; reflexivity|]. split; [intros H; vm_compute in H; apply H; reflexivity|].
  split; [vm_compute; reflexivity|]. split; [vm_compute; reflexivity|]. split; vm_compute; reflexivity. Qed.

(* G4 with two isoforms carrying the same id: find_iso answers the first one, T (the second) is not among the compatible ids *)
Definition tD1 : isof := mkIso 1 1 [(100, 200); (300, 400); (500, 600)].
Definition tD2 : isof := mkIso 1 1 [(100, 200); (500, 600)].
Example exact_T_compatible_distinct_ids_refuted :
  let rex := [(100, 200); (500, 600)] in let isos := [tD1; tD2] in
  exists g ri rs, mk_gene isos = Some g /\ In tD2 isos /\ gene_ok (p_delta exP) isos = false /\ forallb (iso_ok (p_delta exP)) isos = true /\
    IntervalsSpec.H2 (p_delta exP) (i_introns tD2) = true /\ exact_read tD2 rex /\
    intron_rprof exP 20 g (mkRead rex no_pa) = Ok ri /\ split_rprof exP g (mkRead rex no_pa) = Ok rs /\ compatible_ids exP g ri rs (mkRead rex no_pa) = [].
Proof. cbv zeta. eexists. eexists. eexists. split; [vm_compute; reflexivity|]. split; [right; left; reflexivity|]. split; [vm_compute; reflexivity|]. split; [vm_compute; reflexivity|].
  split; [vm_compute; reflexivity|]. split; [exists (100, 200), [], (500, 600), 100, 600; cbn [fst snd app]; repeat split; try reflexivity; lia|].
  split; [vm_compute; reflexivity|]. split; vm_compute; reflexivity. Qed.

(* G6 with a negative coordinate (delta = 1): split_exons loses the bases -1..1 of the first exon (its sentinel is -1); the corner hypothesis holds
   vacuously (no block contains the read start), the first common block starts 3 bases inside the read: a minor exon_elongation_left *)
Definition tN1 : isof := mkIso 1 1 [(-1, 5); (20, 30)].
Definition tN2 : isof := mkIso 2 1 [(2, 5); (20, 30)].
Example exact_T_events_negative_coordinate_refuted :
  let rex := [(-1, 5); (20, 30)] in let isos := [tN1; tN2] in
  exists g ri rs, mk_gene isos = Some g /\ g_split g = [(2, 5); (20, 30)] /\ gene_ok (p_delta P1) isos = false /\ exact_read tN1 rex /\
    ends_ok (p_minimal_exon_overlap P1) (g_split g) rex = true /\
    intron_rprof P1 20 g (mkRead rex no_pa) = Ok ri /\ split_rprof P1 g (mkRead rex no_pa) = Ok rs /\
    ev_types (consistent_events P1 g ri rs (mkRead rex no_pa) tN1 true) =
      Ok [MES_fsm; MES_terminal_site_match_left; MES_exon_elongation_left; MES_terminal_site_match_right_precise].
Proof. cbv zeta. eexists. eexists. eexists. split; [vm_compute; reflexivity|]. split; [vm_compute; reflexivity|]. split; [vm_compute; reflexivity|].
  split; [exists (-1, 5), [], (20, 30), (-1), 30; cbn [fst snd app]; repeat split; try reflexivity; lia|].
  split; [vm_compute; reflexivity|]. split; [vm_compute; reflexivity|]. split; vm_compute; reflexivity. Qed.

(* G6 with abutting exons (no base between them): the "isoform" has no intron, the read is not spliced, the match event is not FSM *)
Definition tE : isof := mkIso 1 1 [(100, 200); (201, 300)].
Example exact_T_events_gapped_refuted :
  let rex := [(150, 200); (201, 250)] in
  exists g ri rs, mk_gene [tE] = Some g /\ gene_ok (p_delta exP) [tE] = false /\ exact_read tE rex /\
    intron_rprof exP 20 g (mkRead rex no_pa) = Ok ri /\ split_rprof exP g (mkRead rex no_pa) = Ok rs /\ rp ri = [] /\
    splice_match_event ri (mkRead rex no_pa) tE = Ok MES_mono_exon_match.
Proof. cbv zeta. eexists. eexists. eexists. split; [vm_compute; reflexivity|]. split; [vm_compute; reflexivity|].
  split; [exists (100, 200), [], (201, 300), 150, 250; cbn [fst snd app]; repeat split; try reflexivity; lia|].
  split; [vm_compute; reflexivity|]. split; [vm_compute; reflexivity|]. split; vm_compute; reflexivity. Qed.

(* ---------------------------------------------------------------- the hypothesis on the OTHER compatible isoforms is about the consistent path *)
(* (a) it is sufficient, not necessary: minor_exon_extension = 7; isoform 2 starts 9 bases after the read: it is compatible and its events contain a
   major elongation, but it does not pass the split-exon matching step, so match_consistent never builds its events: unique assignment to T *)
Definition P7 : params := mkP 6 60 100 40 60 1 7 300 10 (1 # 5) 50 30 (1 # 5) 50 5.
Definition tO2 : isof := mkIso 2 1 [(109, 200); (300, 400)].
Example exact_match_other_events_not_necessary :
  let rex := [(100, 200); (300, 400)] in let isos := [tA; tO2] in
  exists g ri rs, mk_gene isos = Some g /\ intron_rprof P7 20 g (mkRead rex no_pa) = Ok ri /\ split_rprof P7 g (mkRead rex no_pa) = Ok rs /\
    compatible_ids P7 g ri rs (mkRead rex no_pa) = [1; 2] /\
    ev_types (consistent_events P7 g ri rs (mkRead rex no_pa) (find_iso g 2) true) = Ok [MES_fsm; MES_major_exon_elongation_left; MES_terminal_site_match_right_precise] /\
    find_matching (split_prof g) g rs (compatible_ids P7 g ri rs (mkRead rex no_pa)) = [1] /\
    assignG P7 g (mkRead rex no_pa) = Ok (RAT_unique, [(1, [MES_fsm; MES_terminal_site_match_left_precise; MES_terminal_site_match_right_precise])]).
Proof. cbv zeta. eexists. eexists. eexists. split; [vm_compute; reflexivity|]. split; [vm_compute; reflexivity|]. split; [vm_compute; reflexivity|].
  repeat split; vm_compute; reflexivity. Qed.
(* (b) when it fails for an isoform that reaches the event construction, match_consistent answers None and the read goes to match_inconsistent
   (delta = 1, minor_exon_extension = 2; the read starts 1 base inside T, 3 bases before isoform 2: the block (100,103) is overlapped by 3 < 5 bases and
   not hit - the corner hypothesis fails for T as well - isoform 2 passes the split-exon matching step and gets a major elongation).
   The final answer depends on the penalty selection: every candidate kept -> inconsistent_ambiguous; a selection that fails -> KeyError *)
Definition P12 : params := mkP 1 60 100 40 60 1 2 300 10 (1 # 5) 50 30 (1 # 5) 50 5.
Definition tO3 : isof := mkIso 2 1 [(104, 200); (300, 400)].
Example exact_match_needs_other_events_refuted :
  let rex := [(101, 200); (300, 400)] in let isos := [tA; tO3] in
  exists g ri rs, mk_gene isos = Some g /\ gene_ok (p_delta P12) isos = true /\ exact_read tA rex /\
    intron_rprof P12 20 g (mkRead rex no_pa) = Ok ri /\ split_rprof P12 g (mkRead rex no_pa) = Ok rs /\ profiles_clean ri rs = true /\
    compatible_ids P12 g ri rs (mkRead rex no_pa) = [1; 2] /\ find_matching (split_prof g) g rs (compatible_ids P12 g ri rs (mkRead rex no_pa)) = [1; 2] /\
    ev_types (consistent_events P12 g ri rs (mkRead rex no_pa) (find_iso g 1) true) = Ok [MES_fsm; MES_terminal_site_match_right_precise] /\
    ev_types (consistent_events P12 g ri rs (mkRead rex no_pa) (find_iso g 2) true) = Ok [MES_fsm; MES_major_exon_elongation_left; MES_terminal_site_match_right_precise] /\
    match_consistent P12 ARM_monoexon_and_fsm Q q_make q_lt q_ge_min q_keeps g ri rs (mkRead rex no_pa) = Ok None /\
    assignG P12 g (mkRead rex no_pa) = Ok (RAT_inconsistent_ambiguous, [(1, [MES_terminal_site_match_right_precise]);
                                                                       (2, [MES_major_exon_elongation_left; MES_terminal_site_match_right_precise])]) /\
    assign P12 20 ARM_monoexon_and_fsm Q q_make q_lt q_ge_min q_keeps (fun _ => None) g (mkRead rex no_pa) = Raises 5%N.
Proof. cbv zeta. eexists. eexists. eexists. split; [vm_compute; reflexivity|]. split; [vm_compute; reflexivity|].
  split; [exists (100, 200), [], (300, 400), 101, 400; cbn [fst snd app]; repeat split; try reflexivity; lia|].
  split; [vm_compute; reflexivity|]. split; [vm_compute; reflexivity|]. repeat split; vm_compute; reflexivity. Qed.

Print Assumptions sorted_set_spec.
Print Assumptions exact_intron_read_profile.
Print Assumptions exact_split_read_profile.
Print Assumptions exact_profiles_clean.
Print Assumptions exact_T_compatible.
Print Assumptions compatible_have_introns.
Print Assumptions exact_T_events_consistent.
Print Assumptions exact_match_unique.
Print Assumptions exact_match_reports_T.
Print Assumptions exact_match_reports_T_strong.
Print Assumptions exact_match_unique_example.
Print Assumptions exact_match_reports_T_example.
Print Assumptions exact_split_read_profile_first_exon_refuted.
Print Assumptions exact_T_events_left_corner_refuted.
Print Assumptions exact_T_events_right_corner_refuted.
Print Assumptions exact_T_events_minor_ext_refuted.
Print Assumptions exact_T_compatible_distinct_ids_refuted.
Print Assumptions exact_T_events_negative_coordinate_refuted.
Print Assumptions exact_T_events_gapped_refuted.
Print Assumptions exact_match_other_events_not_necessary.
Print Assumptions exact_match_needs_other_events_refuted.
