(* C19: Intervals.sum_from_point is sum_intervals_from_point of src/common.py as regenerated into gen/Loops.v (tools/translate_loops.py, while
   fragment: the loop walks the index down from len - 1).  For all inputs and every fuel above the length of the list; exceptions included. *)
From Coq Require Import ZArith NArith List Bool Lia ZifyBool.
From IQ.gen Require Import Prims Loops.
From IQ Require Import CorrSupport Intervals LoopsSupport LoopsIndexSupport LoopsRunSupport LoopTotalBridge.
Import ListNotations. Open Scope Z_scope.

Lemma sifp_loop_spec l pos : forall fuel n t, (n <= length l)%nat -> (n < fuel)%nat ->
  exists i', py_sum_intervals_from_point_loop1 l pos fuel (Z.of_nat n - 1, t) = py_Done (i', t + sifp_loop (rev (firstn n l)) pos).
Proof. induction fuel as [|f IH]; intros n t Hn Hf; [lia|]. cbn [py_sum_intervals_from_point_loop1].
  destruct n as [|m].
  - replace (Z.of_nat 0 - 1 >=? 0) with false by lia. cbn [andb firstn rev sifp_loop]. exists (Z.of_nat 0 - 1). rewrite Z.add_0_r. reflexivity.
  - assert (L: (m < length l)%nat) by lia. replace (Z.of_nat (S m) - 1) with (Z.of_nat m) by lia.
    replace (Z.of_nat m >=? 0) with true by lia. cbn [andb].
    rewrite (index_ok_nat l m L), (py_index_nonneg l m (0, 0)). rewrite (firstn_S_snoc l m (0, 0) L), rev_app_distr. cbn [rev app sifp_loop].
    set (a := nth m l (0, 0)). destruct (snd a >? pos); [|exists (Z.of_nat m); rewrite Z.add_0_r; reflexivity].
    destruct ((fst a <=? pos) && (pos <=? snd a)); cbn [py_bind];
      (match goal with |- context [py_sum_intervals_from_point_loop1 l pos f (Z.of_nat m - 1, ?t')] =>
         destruct (IH m t' ltac:(lia) ltac:(lia)) as [i' Hi]; rewrite Hi; exists i'; f_equal; f_equal; lia end).
Qed.

Theorem sum_from_point_is_the_source l pos fuel : (length l < fuel)%nat ->
  py_sum_intervals_from_point fuel l pos = run_of (Intervals.sum_from_point l pos).
Proof. intros H. unfold py_sum_intervals_from_point, sum_from_point. destruct l as [|a t]; [reflexivity|].
  replace (py_index_ok (a :: t) 0) with true by (unfold py_index_ok; cbn [length]; lia).
  replace (py_index (a :: t) 0 (0, 0)) with a by reflexivity. cbn [run_of].
  destruct (pos <? fst a); [rewrite <- total_is_the_source; reflexivity|].
  replace (py_index_ok (a :: t) (-1)) with true by (unfold py_index_ok; cbn [length]; lia).
  rewrite (py_index_last t a (0, 0)).
  destruct (pos >? snd (last (a :: t) a)); [reflexivity|].
  cbv zeta. destruct (sifp_loop_spec (a :: t) pos fuel (length (a :: t)) 0 ltac:(lia) ltac:(lia)) as [i' Hi].
  rewrite Hi. cbn [py_bind]. rewrite firstn_all. reflexivity. Qed.
