(* GffMulti.v — what a printer writes over its whole life (any sequence of GFFPrinter.dump calls), property C03.
   Exact characterisation of the table built by one dump call (per gene: the valid models in storage order, the range
   annotated range ∪ models), of the non-gene lines (a permutation of the lines of the valid models) and of the gene line
   (written by the FIRST call that has a valid model of the gene; range and count of that call only).
   Nothing of Gff.v / GffThm.v is changed. *)
From Coq Require Import ZArith NArith List Bool Lia ZifyBool Permutation.
From IQ Require Import CorrSupport Exons Gff GffThm.
Import ListNotations. Open Scope Z_scope.

(* ------------------------------------------------------------------ vocabulary *)
Definition valid (m:tmodel) : bool := validate_exons (t_exons m).
Definition gvalid (g:Z) (m:tmodel) : bool := valid m && (t_gene m =? g).
(* the models of gene g that a dump call does not skip, in storage order *)
Definition valid_of (g:Z) (st:list tmodel) : list tmodel := filter (gvalid g) st.
Definition ext (r:iv) (m:tmodel) : iv := max_range r (tregion (t_exons m)).
(* gene_regions[g] if the gene_info is not empty and knows g *)
Definition annot (gi:ginfo) (g:Z) : option iv := if g_empty gi then None else assoc g (g_regions gi).
Definition init_range (gi:ginfo) (g:Z) (m:tmodel) : iv :=
  match annot gi g with Some r => max_range r (tregion (t_exons m)) | None => tregion (t_exons m) end.
(* the range one call computes for gene g from its valid models ms (non-empty): annotated range ∪ the models of THIS call *)
Definition call_range (gi:ginfo) (g:Z) (ms:list tmodel) : iv :=
  match ms with [] => (0,0) | m :: t => fold_left ext t (init_range gi g m) end.
Definition tr_line (m:tmodel) : line :=
  TrL (t_chr m) (fst (tregion (t_exons m))) (snd (tregion (t_exons m))) (t_strand m) (t_gene m) (t_id m).
Definition nongene (l:line) : bool := match l with GeneL _ _ _ _ _ _ => false | _ => true end.
Definition is_tr_of (g:Z) (l:line) : bool := match l with TrL _ _ _ _ g' _ => g' =? g | _ => false end.
(* number of transcript lines of gene g *)
Definition trcount (g:Z) (ls:list line) : Z := Z.of_nat (length (filter (is_tr_of g) ls)).

(* ------------------------------------------------------------------ ranges *)
Lemma fold_ext_init ms : forall r, contains (fold_left ext ms r) r.
Proof. induction ms as [|m t IH]; intros r; cbn [fold_left]; [unfold contains; lia|].
  eapply contains_trans; [apply IH|]. apply max_range_contains_l. Qed.
Lemma fold_ext_model ms : forall r m, In m ms -> contains (fold_left ext ms r) (tregion (t_exons m)).
Proof. induction ms as [|a t IH]; intros r m Hm; [destruct Hm|]. cbn [fold_left]. destruct Hm as [->|Hm]; [|apply IH, Hm].
  eapply contains_trans; [apply fold_ext_init|]. apply max_range_contains_r. Qed.
Lemma fold_ext_least ms : forall r big, contains big r -> (forall m, In m ms -> contains big (tregion (t_exons m))) ->
  contains big (fold_left ext ms r).
Proof. induction ms as [|a t IH]; intros r big Hr Hm; [exact Hr|]. cbn [fold_left]. apply IH; [|intros m H; apply Hm; right; exact H].
  specialize (Hm a (or_introl eq_refl)). unfold contains, ext, max_range in *. cbn [fst snd]. lia. Qed.

(* the range of one call is the LEAST interval containing the annotated range of the gene and its models of that call *)
Lemma call_range_model gi g ms m : In m ms -> contains (call_range gi g ms) (tregion (t_exons m)).
Proof. destruct ms as [|a t]; [intros []|]. cbn [call_range]. intros [->|H]; [|apply fold_ext_model, H].
  eapply contains_trans; [apply fold_ext_init|]. unfold init_range. destruct (annot gi g); [apply max_range_contains_r|unfold contains; lia]. Qed.
Lemma call_range_annot gi g ms rg : ms <> [] -> annot gi g = Some rg -> contains (call_range gi g ms) rg.
Proof. destruct ms as [|a t]; [congruence|]. intros _ E. cbn [call_range]. eapply contains_trans; [apply fold_ext_init|].
  unfold init_range. rewrite E. apply max_range_contains_l. Qed.
Lemma call_range_least gi g ms big : ms <> [] -> (forall m, In m ms -> contains big (tregion (t_exons m))) ->
  (forall rg, annot gi g = Some rg -> contains big rg) -> contains big (call_range gi g ms).
Proof. destruct ms as [|a t]; [congruence|]. intros _ Hm Ha. cbn [call_range]. apply fold_ext_least; [|intros m H; apply Hm; right; exact H].
  specialize (Hm a (or_introl eq_refl)). unfold init_range. destruct (annot gi g) as [rg|]; [|exact Hm].
  specialize (Ha rg eq_refl). unfold contains, max_range in *. cbn [fst snd]. lia. Qed.

(* ------------------------------------------------------------------ the table of one call, exactly *)
Lemma gfind_app1 g acc r : gfind g (acc ++ [r]) = match gfind g acc with Some x => Some x | None => if r_gene r =? g then Some r else None end.
Proof. induction acc as [|q t IH]; cbn [app gfind]; [reflexivity|]. destruct (r_gene q =? g); [reflexivity|exact IH]. Qed.
Lemma gfind_greplace g r' l : gfind g (greplace r' l) =
  if r_gene r' =? g then match gfind g l with Some _ => Some r' | None => None end else gfind g l.
Proof. induction l as [|q t IH]; cbn [greplace gfind]; [destruct (r_gene r' =? g); reflexivity|].
  destruct (r_gene q =? r_gene r') eqn:E; cbn [gfind].
  - destruct (r_gene r' =? g) eqn:F.
    + assert (H: r_gene q =? g = true) by lia. rewrite H. reflexivity.
    + assert (H: r_gene q =? g = false) by lia. rewrite H. reflexivity.
  - destruct (r_gene q =? g) eqn:G.
    + destruct (r_gene r' =? g) eqn:F; [lia|reflexivity].
    + exact IH. Qed.
Lemma gfind_In_nodup l : NoDup (map r_gene l) -> forall r, In r l -> gfind (r_gene r) l = Some r.
Proof. induction l as [|q t IH]; intros N r Hr; [destruct Hr|]. cbn [map] in N. inversion N; subst. cbn [gfind].
  destruct Hr as [->|Hr]; [rewrite Z.eqb_refl; reflexivity|].
  destruct (r_gene q =? r_gene r) eqn:E; [|apply IH; assumption]. exfalso. apply H1. assert (X: r_gene q = r_gene r) by lia. rewrite X. apply in_map, Hr. Qed.

Lemma add_model_cases gi acc m acc' : add_model gi acc m = Ok acc' ->
  (valid m = false /\ acc' = acc) \/
  (valid m = true /\ t_exons m <> [] /\
    match gfind (t_gene m) acc with
    | None => acc' = acc ++ [mkR (t_gene m) (t_chr m) (t_strand m) (init_range gi (t_gene m) m) [m]]
    | Some r => acc' = greplace (mkR (t_gene m) (t_chr m) (t_strand m) (ext (r_range r) m) (r_models r ++ [m])) acc
    end).
Proof. unfold add_model, valid. destruct (validate_exons (t_exons m)) eqn:V; cbn [negb]; [|intros H; inversion H; left; auto].
  destruct (t_exons m) as [|e0 et] eqn:EX; [discriminate|]. rewrite <- EX in *. intros H. right. split; [reflexivity|]. split; [rewrite EX; discriminate|].
  destruct (gfind (t_gene m) acc) as [r|].
  - destruct (negb (t_chr m =? r_chr r)); [discriminate|]. inversion H. reflexivity.
  - destruct (negb (t_chr m =? g_chr gi)); [discriminate|]. inversion H. reflexivity. Qed.

Lemma valid_of_cons g m rest : valid_of g (m :: rest) = if gvalid g m then m :: valid_of g rest else valid_of g rest.
Proof. reflexivity. Qed.
Lemma build_table_char gi : forall rest acc tab, build_table gi acc rest = Ok tab -> forall g,
  match gfind g acc with
  | Some r => exists r', gfind g tab = Some r' /\ r_range r' = fold_left ext (valid_of g rest) (r_range r) /\ r_models r' = r_models r ++ valid_of g rest
  | None => match valid_of g rest with
            | [] => gfind g tab = None
            | m :: ms => exists r', gfind g tab = Some r' /\ r_range r' = fold_left ext ms (init_range gi g m) /\ r_models r' = m :: ms
            end
  end.
Proof. induction rest as [|a rest IH]; intros acc tab H g; cbn [build_table] in H.
  - inversion H; subst. unfold valid_of. cbn [filter fold_left]. destruct (gfind g tab) as [r|]; [|reflexivity].
    exists r. rewrite app_nil_r. auto.
  - destruct (add_model gi acc a) as [acc'|k] eqn:A; [|discriminate]. specialize (IH acc' tab H g).
    rewrite valid_of_cons.
    destruct (add_model_cases _ _ _ _ A) as [(V & ->)|(V & Hne & C)]; unfold gvalid; rewrite V; cbn [andb]; [exact IH|].
    destruct (t_gene a =? g) eqn:G.
    + assert (X: t_gene a = g) by lia. subst g. destruct (gfind (t_gene a) acc) as [r|] eqn:F; subst acc'.
      * rewrite gfind_greplace in IH. cbn [r_gene] in IH. rewrite Z.eqb_refl, F in IH. cbn [r_range r_models] in IH.
        destruct IH as (r' & A1 & A2 & A3). exists r'. split; [exact A1|]. split; [exact A2|]. rewrite A3, <- app_assoc. reflexivity.
      * rewrite gfind_app1, F in IH. cbn [r_gene] in IH. rewrite Z.eqb_refl in IH. cbn [r_range r_models] in IH.
        destruct IH as (r' & A1 & A2 & A3). exists r'. auto.
    + destruct (gfind (t_gene a) acc) as [r|] eqn:F; subst acc'.
      * rewrite gfind_greplace in IH. cbn [r_gene] in IH. rewrite G in IH. exact IH.
      * rewrite gfind_app1 in IH. cbn [r_gene] in IH. rewrite G in IH. destruct (gfind g acc); exact IH. Qed.

(* per gene: no record if the call has no valid model of it, otherwise exactly its valid models and the call range *)
Lemma build_table_find gi storage tab : build_table gi [] storage = Ok tab -> forall g,
  match valid_of g storage with
  | [] => gfind g tab = None
  | ms => exists r, gfind g tab = Some r /\ r_range r = call_range gi g ms /\ r_models r = ms
  end.
Proof. intros H g. pose proof (build_table_char gi storage [] tab H g) as C. cbn [gfind] in C.
  destruct (valid_of g storage) as [|m ms]; [exact C|]. exact C. Qed.

(* grouping by gene is a permutation of the valid models *)
Lemma greplace_models_perm r m new : forall acc, gfind (r_gene new) acc = Some r -> r_models new = r_models r ++ [m] ->
  Permutation (flat_map r_models (greplace new acc)) (flat_map r_models acc ++ [m]).
Proof. induction acc as [|q t IH]; intros F E; [discriminate|]. cbn [gfind greplace] in *. destruct (r_gene q =? r_gene new) eqn:G.
  - inversion F; subst q. cbn [flat_map]. rewrite E, <- !app_assoc. apply Permutation_app_head, Permutation_app_comm.
  - cbn [flat_map]. rewrite <- app_assoc. apply Permutation_app_head. apply IH; assumption. Qed.
Lemma build_table_perm gi : forall rest acc tab, build_table gi acc rest = Ok tab ->
  Permutation (flat_map r_models tab) (flat_map r_models acc ++ filter valid rest).
Proof. induction rest as [|a rest IH]; intros acc tab H; cbn [build_table] in H.
  - inversion H; subst. cbn [filter]. rewrite app_nil_r. apply Permutation_refl.
  - destruct (add_model gi acc a) as [acc'|k] eqn:A; [|discriminate]. specialize (IH acc' tab H). cbn [filter].
    destruct (add_model_cases _ _ _ _ A) as [(V & ->)|(V & Hne & C)]; rewrite V; [exact IH|].
    eapply Permutation_trans; [exact IH|].
    change (a :: filter valid rest) with ([a] ++ filter valid rest). rewrite app_assoc. apply Permutation_app_tail.
    destruct (gfind (t_gene a) acc) as [r|] eqn:F; subst acc'.
    + apply (greplace_models_perm r a); [exact F|reflexivity].
    + rewrite flat_map_app. cbn [flat_map r_models app]. apply Permutation_refl. Qed.

(* ------------------------------------------------------------------ what emit_genes writes *)
Lemma filter_all {A} (f:A -> bool) l : (forall x, In x l -> f x = true) -> filter f l = l.
Proof. induction l as [|a t IH]; intros H; [reflexivity|]. cbn [filter]. rewrite (H a (or_introl eq_refl)), IH; [reflexivity|]. intros x Hx. apply H. right; exact Hx. Qed.
Lemma filter_none {A} (f:A -> bool) l : (forall x, In x l -> f x = false) -> filter f l = [].
Proof. induction l as [|a t IH]; intros H; [reflexivity|]. cbn [filter]. rewrite (H a (or_introl eq_refl)), IH; [reflexivity|]. intros x Hx. apply H. right; exact Hx. Qed.
Lemma nongene_models ms : filter nongene (flat_map emit_model ms) = flat_map emit_model ms.
Proof. apply filter_all. intros l H. apply in_flat_map in H. destruct H as (m & _ & H).
  destruct (emit_model_lines m l H) as [->|(k & s & e & ty & -> & _)]; reflexivity. Qed.
Lemma emit_genes_nongene order : forall printed p ls, emit_genes printed order = (p, ls) ->
  filter nongene ls = flat_map emit_model (flat_map r_models order).
Proof. induction order as [|r t IH]; intros printed p ls H; cbn [emit_genes] in H; [inversion H; reflexivity|].
  destruct (emit_genes (if negb (zmem (r_gene r) printed) then r_gene r :: printed else printed) t) as [p' ls'] eqn:E.
  inversion H; subst; clear H. rewrite !filter_app, (IH _ _ _ E), nongene_models. cbn [flat_map]. rewrite flat_map_app.
  destruct (negb (zmem (r_gene r) printed)); reflexivity. Qed.
Lemma emit_genes_printed order : forall printed p ls, emit_genes printed order = (p, ls) ->
  forall g, In g p <-> In g printed \/ In g (map r_gene order).
Proof. induction order as [|r t IH]; intros printed p ls H g; cbn [emit_genes] in H; [inversion H; subst; cbn [map In]; tauto|].
  destruct (emit_genes (if negb (zmem (r_gene r) printed) then r_gene r :: printed else printed) t) as [p' ls'] eqn:E.
  inversion H; subst; clear H. rewrite (IH _ _ _ E g). cbn [map In]. destruct (negb (zmem (r_gene r) printed)) eqn:Z.
  - cbn [In]. tauto.
  - apply negb_false_iff, zmem_In in Z. split; [tauto|]. intros [K|[K|K]]; auto. subst g. auto. Qed.

Lemma dump_table' printed gi storage p ls : dump printed gi storage = Ok (p, ls) -> storage <> [] ->
  exists tab, build_table gi [] storage = Ok tab /\ tab_ok gi storage tab /\ emit_genes printed (gene_order tab) = (p, ls).
Proof. unfold dump. destruct storage as [|m0 st]; [congruence|]. intros H _.
  destruct (build_table gi [] (m0 :: st)) as [tab|k] eqn:B; [|discriminate]. exists tab. split; [reflexivity|]. split.
  - eapply build_table_ok; [intros m Hm; exact Hm| |exact B]. split; [constructor|constructor].
  - inversion H. destruct (emit_genes printed (gene_order tab)). reflexivity. Qed.

(* ------------------------------------------------------------------ one dump call, exactly *)
Theorem dump_char printed gi storage p ls : dump printed gi storage = Ok (p, ls) ->
  Permutation (filter nongene ls) (flat_map emit_model (filter valid storage)) /\
  (forall g, In g p <-> In g printed \/ valid_of g storage <> []) /\
  (forall c s e st g n, In (GeneL c s e st g n) ls ->
     ~ In g printed /\ valid_of g storage <> [] /\ (s, e) = call_range gi g (valid_of g storage) /\
     n = Z.of_nat (length (valid_of g storage)) /\ c = g_chr gi).
Proof. intros H. destruct storage as [|m0 st0] eqn:ST.
  { cbn in H. inversion H; subst. split; [constructor|]. split; [intros g; unfold valid_of; cbn [filter]; split; [auto|intros [K|K]; [exact K|congruence]]|intros ? ? ? ? ? ? []]. }
  rewrite <- ST in *. assert (Hne: storage <> []) by (rewrite ST; discriminate). clear ST m0 st0.
  destruct (dump_table' _ _ _ _ _ H Hne) as (tab & B & (Hnd & Hall) & E).
  assert (GIn: forall g, In g (map r_gene (gene_order tab)) <-> valid_of g storage <> []).
  { intros g. pose proof (build_table_find gi storage tab B g) as F. split.
    - intros K. apply in_map_iff in K. destruct K as (r & <- & Hr). apply (proj1 (gene_order_In _ _)) in Hr.
      pose proof (gfind_In_nodup tab Hnd r Hr) as Fr. destruct (valid_of (r_gene r) storage); [congruence|discriminate].
    - intros K. destruct (valid_of g storage) as [|m ms]; [congruence|]. destruct F as (r & Fr & _). apply gfind_some in Fr.
      destruct Fr as (Hr & <-). apply in_map. apply (proj2 (gene_order_In _ _)), Hr. }
  split; [|split].
  - rewrite (emit_genes_nongene _ _ _ _ E). apply Permutation_flat_map'.
    eapply Permutation_trans; [apply Permutation_flat_map', Permutation_sym, isort_perm|].
    pose proof (build_table_perm gi storage [] tab B) as P. cbn [flat_map app] in P. exact P.
  - intros g. rewrite (emit_genes_printed _ _ _ _ E g), GIn. tauto.
  - intros c s e st g n Hg.
    destruct (emit_genes_In _ _ _ _ _ E Hg) as [(r & Hr & Hl & Hnp)|(r & m & _ & _ & Hlm)]; [|exfalso; eapply emit_model_no_gene; [exact Hlm|exact Logic.I]].
    unfold gene_line in Hl. inversion Hl; subst; clear Hl. split; [exact Hnp|].
    pose proof (proj1 (GIn (r_gene r)) (in_map r_gene _ _ Hr)) as Hv. split; [exact Hv|].
    apply (proj1 (gene_order_In _ _)) in Hr. pose proof (gfind_In_nodup tab Hnd r Hr) as Fr.
    pose proof (build_table_find gi storage tab B (r_gene r)) as F. rewrite Forall_forall in Hall. destruct (Hall r Hr) as (_ & Rc & _).
    destruct (valid_of (r_gene r) storage) as [|m ms] eqn:EV; [congruence|]. destruct F as (r0 & F0 & Rr & Rm). rewrite Fr in F0. inversion F0; subst r0.
    split; [rewrite <- Rr; symmetry; apply surjective_pairing|]. split; [rewrite Rm; reflexivity|exact Rc]. Qed.

(* ------------------------------------------------------------------ the whole life of a printer *)
Definition all_models (calls:list (ginfo * list tmodel)) : list tmodel := concat (map snd calls).

(* the transcript and feature lines written by all calls are, as a multiset, the lines of the valid models handed to the printer *)
Theorem dumps_nongene_perm calls : forall printed p ls, dumps printed calls = Ok (p, ls) ->
  Permutation (filter nongene ls) (flat_map emit_model (filter valid (all_models calls))).
Proof. induction calls as [|[gi st] t IH]; intros printed p ls H; cbn [dumps] in H; [inversion H; constructor|].
  destruct (dump printed gi st) as [[p1 l1]|k] eqn:D; [|discriminate]. destruct (dumps p1 t) as [[p2 l2]|k] eqn:D2; [|discriminate]. inversion H; subst; clear H.
  unfold all_models. cbn [map concat snd]. rewrite !filter_app, flat_map_app. apply Permutation_app; [apply (dump_char _ _ _ _ _ D)|apply (IH _ _ _ D2)]. Qed.

Theorem dumps_gene_line calls : forall printed p ls c s e st g n, dumps printed calls = Ok (p, ls) -> In (GeneL c s e st g n) ls ->
  ~ In g printed /\ exists pre gi storage post, calls = pre ++ (gi, storage) :: post /\
    (forall call, In call pre -> valid_of g (snd call) = []) /\ valid_of g storage <> [] /\
    (s, e) = call_range gi g (valid_of g storage) /\ n = Z.of_nat (length (valid_of g storage)) /\ c = g_chr gi.
Proof. induction calls as [|[gi st0] t IH]; intros printed p ls c s e st g n H Hg; cbn [dumps] in H; [inversion H; subst; destruct Hg|].
  destruct (dump printed gi st0) as [[p1 l1]|k] eqn:D; [|discriminate]. destruct (dumps p1 t) as [[p2 l2]|k] eqn:D2; [|discriminate]. inversion H; subst; clear H.
  destruct (dump_char _ _ _ _ _ D) as (_ & A & B). apply in_app_or in Hg. destruct Hg as [Hg|Hg].
  - destruct (B _ _ _ _ _ _ Hg) as (X1 & X2 & X3 & X4 & X5). split; [exact X1|]. exists [], gi, st0, t. split; [reflexivity|]. split; [intros ? []|]. auto.
  - destruct (IH _ _ _ _ _ _ _ _ _ D2 Hg) as (Np & pre & gi' & st' & post & E & Hpre & X).
    assert (Nq: ~ In g printed /\ valid_of g st0 = []).
    { split; [intros K; apply Np, A; left; exact K|]. destruct (valid_of g st0) eqn:V; [reflexivity|]. exfalso. apply Np, A. right. rewrite V. discriminate. }
    split; [apply Nq|]. exists ((gi, st0) :: pre), gi', st', post. split; [rewrite E; reflexivity|]. split; [|exact X].
    intros call [<-|K]; [apply Nq|apply Hpre, K]. Qed.

(* transcript lines of gene g over all calls = the valid models of g handed to the printer *)
Lemma tr_line_in_emit m : In (tr_line m) (emit_model m).
Proof. left. reflexivity. Qed.
Lemma dumps_tr_lines calls printed p ls : dumps printed calls = Ok (p, ls) -> forall l, nongene l = true ->
  (In l ls <-> exists m, In m (all_models calls) /\ valid m = true /\ In l (emit_model m)).
Proof. intros H l Hl. pose proof (dumps_nongene_perm calls _ _ _ H) as P. split.
  - intros K. assert (K': In l (filter nongene ls)) by (apply filter_In; auto). apply (Permutation_in _ P) in K'.
    apply in_flat_map in K'. destruct K' as (m & Hm & Hlm). apply filter_In in Hm. exists m. tauto.
  - intros (m & Hm & V & Hlm). assert (K: In l (flat_map emit_model (filter valid (all_models calls)))) by (apply in_flat_map; exists m; split; [apply filter_In; auto|exact Hlm]).
    apply (Permutation_in _ (Permutation_sym P)) in K. apply filter_In in K. tauto. Qed.

Lemma in_all_models m calls : In m (all_models calls) <-> exists call, In call calls /\ In m (snd call).
Proof. unfold all_models. rewrite in_concat. split.
  - intros (l & Hl & Hm). apply in_map_iff in Hl. destruct Hl as (call & <- & Hc). eauto.
  - intros (call & Hc & Hm). exists (snd call). split; [apply in_map, Hc|exact Hm]. Qed.
Lemma valid_of_In g st m : In m (valid_of g st) <-> In m st /\ valid m = true /\ t_gene m = g.
Proof. unfold valid_of, gvalid. rewrite filter_In, andb_true_iff, Z.eqb_eq. tauto. Qed.

(* counting transcript lines *)
Lemma perm_filter_length {A} (f:A -> bool) l l' : Permutation l l' -> length (filter f l) = length (filter f l').
Proof. induction 1; cbn [filter]; [reflexivity| | |congruence].
  - destruct (f x); cbn [length]; congruence.
  - destruct (f x), (f y); reflexivity. Qed.
Lemma filter_filter {A} (f g:A -> bool) l : filter f (filter g l) = filter (fun x => g x && f x) l.
Proof. induction l as [|a t IH]; [reflexivity|]. cbn [filter]. destruct (g a); cbn [andb filter]; [destruct (f a)|]; rewrite IH; reflexivity. Qed.
Lemma is_tr_nongene g l : is_tr_of g l = true -> nongene l = true.
Proof. destruct l; cbn; congruence. Qed.
Lemma trcount_models g ms : length (filter (is_tr_of g) (flat_map emit_model ms)) = length (filter (fun m => t_gene m =? g) ms).
Proof. induction ms as [|m t IH]; [reflexivity|]. cbn [flat_map]. rewrite filter_app, app_length, IH. unfold emit_model at 1. cbn [filter is_tr_of].
  rewrite (filter_none (is_tr_of g) (map _ _)).
  - destruct (t_gene m =? g); reflexivity.
  - intros x Hx. apply in_map_iff in Hx. destruct Hx as ([k [[s e] ty]] & <- & _). reflexivity. Qed.
Lemma dumps_trcount calls printed p ls g : dumps printed calls = Ok (p, ls) ->
  trcount g ls = Z.of_nat (length (valid_of g (all_models calls))).
Proof. intros H. unfold trcount. f_equal.
  assert (E: filter (is_tr_of g) ls = filter (is_tr_of g) (filter nongene ls)).
  { rewrite filter_filter. clear. induction ls as [|l t IH]; [reflexivity|]. cbn [filter]. rewrite IH. destruct l; reflexivity. }
  rewrite E, (perm_filter_length _ _ _ (dumps_nongene_perm calls _ _ _ H)), trcount_models, filter_filter. reflexivity. Qed.
Lemma valid_of_app g a b : valid_of g (a ++ b) = valid_of g a ++ valid_of g b.
Proof. apply filter_app. Qed.
Lemma valid_of_all_nil g calls : valid_of g (all_models calls) = [] <-> forall call, In call calls -> valid_of g (snd call) = [].
Proof. unfold all_models. induction calls as [|c t IH]; cbn [map concat]; [split; [intros _ ? []|reflexivity]|].
  rewrite valid_of_app. split.
  - intros E. apply app_eq_nil in E. destruct E as [E1 E2]. intros call [<-|K]; [exact E1|apply IH; assumption].
  - intros K. rewrite (K c (or_introl eq_refl)), (proj2 IH); [reflexivity|]. intros call Hc. apply K. right; exact Hc. Qed.

(* ------------------------------------------------------------------ finding C03:gene-line-first-dump, characterised *)
(* Over ANY sequence of dump calls of one printer: the gene line of g is written by the first call that holds a valid model of
   g; its range is the least interval around the annotated range (as that call's gene_info knows it) and the models of THAT call;
   it contains every transcript line of g of the whole file iff every valid model of g handed over by a LATER call lies inside
   that range; its `transcripts "n"` attribute equals the number of transcript lines of g in the file iff no later call holds
   a valid model of g. *)
Theorem gene_contains_all_transcripts_iff calls p ls c s e st g n :
  dumps [] calls = Ok (p, ls) -> In (GeneL c s e st g n) ls ->
  exists pre gi storage post,
    calls = pre ++ (gi, storage) :: post /\
    (forall call, In call pre -> valid_of g (snd call) = []) /\ valid_of g storage <> [] /\
    (s, e) = call_range gi g (valid_of g storage) /\
    ((forall m, In m (valid_of g storage) -> contains (s, e) (tregion (t_exons m))) /\
     (forall rg, annot gi g = Some rg -> contains (s, e) rg) /\
     (forall big, (forall m, In m (valid_of g storage) -> contains big (tregion (t_exons m))) ->
                  (forall rg, annot gi g = Some rg -> contains big rg) -> contains big (s, e))) /\
    ((forall c' s' e' st' t, In (TrL c' s' e' st' g t) ls -> s <= s' /\ e' <= e) <->
     (forall call m, In call post -> In m (valid_of g (snd call)) -> contains (s, e) (tregion (t_exons m)))) /\
    (n = Z.of_nat (length (valid_of g storage))) /\
    (n = trcount g ls <-> forall call, In call post -> valid_of g (snd call) = []).
Proof. intros H Hg. destruct (dumps_gene_line calls _ _ _ _ _ _ _ _ _ H Hg) as (_ & pre & gi & storage & post & E & Hpre & Hv & Hr & Hn & _).
  exists pre, gi, storage, post. split; [exact E|]. split; [exact Hpre|]. split; [exact Hv|]. split; [exact Hr|].
  split; [|split; [|split; [exact Hn|]]].
  - rewrite Hr. split; [intros m; apply call_range_model|]. split; [intros rg; apply call_range_annot, Hv|]. intros big; apply call_range_least, Hv.
  - split.
    + intros K call m Hc Hm. apply valid_of_In in Hm. destruct Hm as (Hm & V & G).
      assert (L: In (tr_line m) ls).
      { apply (dumps_tr_lines calls _ _ _ H (tr_line m) eq_refl). exists m. split; [|split; [exact V|apply tr_line_in_emit]].
        apply in_all_models. exists call. split; [|exact Hm]. rewrite E. apply in_or_app. right. right. exact Hc. }
      unfold tr_line in L. rewrite G in L. apply K in L. exact L.
    + intros K c' s' e' st' t L. apply (dumps_tr_lines calls _ _ _ H (TrL c' s' e' st' g t) eq_refl) in L. destruct L as (m & Hm & V & Hlm).
      destruct (emit_model_lines m _ Hlm) as [Eq|(k & s0 & e0 & ty & Eq & _)]; [|discriminate]. injection Eq as E1 E2 E3 E4 E5 E6.
      rewrite E2, E3. change (contains (s, e) (tregion (t_exons m))).
      apply in_all_models in Hm. destruct Hm as (call & Hc & Hm).
      assert (Hv': In m (valid_of g (snd call))) by (apply valid_of_In; auto).
      rewrite E in Hc. apply in_app_or in Hc. destruct Hc as [Hc|[<-|Hc]].
      * rewrite (Hpre call Hc) in Hv'. destruct Hv'.
      * cbn [snd] in Hv'. rewrite Hr. apply call_range_model, Hv'.
      * apply (K call m Hc Hv').
  - rewrite (dumps_trcount calls _ _ _ g H), Hn, E. unfold all_models. rewrite map_app, concat_app. cbn [map concat snd].
    rewrite !valid_of_app, !app_length. fold (all_models pre). fold (all_models post).
    rewrite (proj2 (valid_of_all_nil g pre) Hpre). cbn [length]. rewrite <- valid_of_all_nil.
    destruct (valid_of g (all_models post)); cbn [length]; split; intros K; try reflexivity; try discriminate; lia. Qed.

(* a gene all of whose valid models are handed over in ONE call (a locus processed in one region; every gene of the extended
   annotation, whose printer is called once per chromosome) always has a gene line that contains all its transcripts, with the
   exact transcript count *)
Corollary single_call_gene_contains_all calls p ls c s e st g n :
  dumps [] calls = Ok (p, ls) -> In (GeneL c s e st g n) ls ->
  (forall c1 c2 pre mid post, calls = pre ++ c1 :: mid ++ c2 :: post -> valid_of g (snd c1) = [] \/ valid_of g (snd c2) = []) ->
  (forall c' s' e' st' t, In (TrL c' s' e' st' g t) ls -> s <= s' /\ e' <= e) /\ n = trcount g ls.
Proof. intros H Hg One. destruct (gene_contains_all_transcripts_iff _ _ _ _ _ _ _ _ _ H Hg) as (pre & gi & storage & post & E & _ & Hv & _ & _ & I1 & _ & I2).
  assert (Z: forall call, In call post -> valid_of g (snd call) = []).
  { intros call Hc. apply in_split in Hc. destruct Hc as (mid & post' & ->). destruct (One (gi, storage) call pre mid post' E) as [K|K]; [cbn [snd] in K; congruence|exact K]. }
  split; [|apply I2, Z]. apply I1. intros call m Hc Hm. rewrite (Z call Hc) in Hm. destruct Hm. Qed.
Corollary one_dump_gene_contains_all gi storage p ls c s e st g n :
  dumps [] [(gi, storage)] = Ok (p, ls) -> In (GeneL c s e st g n) ls ->
  (forall c' s' e' st' t, In (TrL c' s' e' st' g t) ls -> s <= s' /\ e' <= e) /\ n = trcount g ls.
Proof. intros H Hg. apply (single_call_gene_contains_all _ _ _ _ _ _ _ _ _ H Hg).
  intros c1 c2 pre mid post E. exfalso. apply (f_equal (@length _)) in E. rewrite app_length in E. cbn [length] in E. rewrite app_length in E. cbn [length] in E. lia. Qed.

(* the recorded finding is an instance of the right-hand side failing: the later call's model reaches beyond the first-call range *)
Example finding24_instance :
  let gi := mkG 0 false [(7, (10001, 80000))] in
  let known := mkT 0 0 1 7 true [(10001,10300);(12001,12300);(14001,14500)] [] in
  let late := mkT 0 0 2 7 false [(70001,70300);(72001,72300);(79501,81000)] [] in
  call_range gi 7 (valid_of 7 [known]) = (10001, 80000) /\ valid_of 7 [late] = [late] /\
  tregion (t_exons late) = (70001, 81000) /\ ~ contains (10001, 80000) (tregion (t_exons late)) /\
  (exists p ls, dumps [] [(gi, [known]); (gi, [late])] = Ok (p, ls) /\ In (GeneL 0 10001 80000 0 7 1) ls /\ trcount 7 ls = 2).
Proof. cbv zeta. split; [vm_compute; reflexivity|]. split; [vm_compute; reflexivity|]. split; [vm_compute; reflexivity|]. split; [vm_compute; intros [A B]; apply B; reflexivity|].
  eexists. eexists. split; [vm_compute; reflexivity|]. split; [cbn; auto|vm_compute; reflexivity]. Qed.
(* and a positive instance: two calls, the later model inside the first-call range *)
Example two_calls_contained :
  let gi := mkG 0 false [(7, (10001, 80000))] in
  let known := mkT 0 0 1 7 true [(10001,10300);(12001,12300);(14001,14500)] [] in
  let late := mkT 0 0 2 7 false [(70001,70300);(72001,72300);(79501,79900)] [] in
  exists p ls, dumps [] [(gi, [known]); (gi, [late])] = Ok (p, ls) /\ In (GeneL 0 10001 80000 0 7 1) ls /\
    In (TrL 0 70001 79900 0 7 2) ls /\ contains (10001, 80000) (tregion (t_exons late)) /\ trcount 7 ls = 2.
Proof. cbv zeta. eexists. eexists. split; [vm_compute; reflexivity|]. split; [cbn; auto|]. split; [cbn; auto 10|]. split; [vm_compute; split; discriminate|vm_compute; reflexivity]. Qed.

Print Assumptions gene_contains_all_transcripts_iff.
Print Assumptions single_call_gene_contains_all.
Print Assumptions dumps_nongene_perm.
