(* C04 - the graph construction and simplification passes of IntronGraph as EXECUTABLE functions where the source's decision is local:

     construct                 -> construct_ops        the add_edge calls, a function of the reads and the discarded set
     collapse_vertex_set       -> collapse_vertex_set  which vertex of a set is collapsed into which (distance / count-ratio thresholds, tie rules)
     clean_tips_and_bulges     -> the collapse loop over successive vertex sets with its to_remove bookkeeping (which sets are examined:
                                  for the outgoing loop they are the successors of the current vertex in the model's edges - checked;
                                  for the incoming loop they are taken from the trace, the model has no incoming dictionary)
     remove_isolates           -> collapse of the isolated vertices among themselves, then the low-coverage discard rule
                                  (which vertices are isolated is taken from the trace: it needs both edge dictionaries)
     counts                    -> clustered_introns values are tracked through add_substitute / discard
   NOT modelled (still oracles, any outcome the abstract system accepts is allowed): remove_singleton_dead_ends (which successor sets are
   cut, which vertices lose their edges), is_isolated, attach_terminal_positions / cluster_polya_positions / cluster_terminal_positions
   (terminal vertices and their float cut-offs).

   [xrun] replays a logged event sequence: every mutator step must be accepted by the abstract system AND be the step the executable
   decisions predict.  Theorems: every decision function emits only steps that the abstract system accepts (so the 13-clause invariant is
   preserved by construction), xrun projects to run, the passes are structurally recursive (terminate). *)
From Coq Require Import ZArith NArith List Bool Lia ZifyBool Sorting.Permutation Sorting.Sorted.
From IQ Require Import Exons Graph GraphProofs GraphCluster.
Import ListNotations. Open Scope Z_scope.

(* ------------------------------------------------------------------ construct *)
Definition read_usable (D : list iv) (r : read) : bool := negb (fst r) && negb (existsb (fun i => mem i D) (snd r)).
Fixpoint pairs_of (l : list iv) : list (iv * iv) := match l with a :: ((b :: _) as t) => (a, b) :: pairs_of t | _ => [] end.
Definition construct_ops (D : list iv) (reads : list read) : list op :=
  flat_map (fun r => if read_usable D r then map (fun p => AddEdge (fst p) (snd p)) (pairs_of (snd r)) else []) reads.

(* ------------------------------------------------------------------ collapse_vertex_set *)
Record gparams := mkGP {
  gp_dist : Z;                 (* graph_clustering_distance *)
  gp_num : Z; gp_den : Z;      (* graph_clustering_ratio = gp_num / gp_den *)
  gp_iso : Z;                  (* min_novel_isolated_intron_abs *)
  gp_known : list iv }.        (* known_introns *)
(* clustered_introns[i] (a defaultdict: 0 for a missing key) *)
Definition cnt_lookup (C : list (iv * Z)) (i : iv) : Z := match find (fun e => iv_eqb (fst e) i) C with Some e => snd e | None => 0 end.
(* start_dist < d and end_dist < d and count < clustered_introns[i] * ratio *)
Definition close_enough (P : gparams) (C : list (iv * Z)) (count : Z) (vertex i : iv) : bool :=
  (Z.abs (fst i - fst vertex) <? gp_dist P) && (Z.abs (snd i - snd vertex) <? gp_dist P) && (count * gp_den P <? cnt_lookup C i * gp_num P).
Definition dist_sum (a b : iv) : Z := Z.abs (fst a - fst b) + Z.abs (snd a - snd b).
(* sorted([(start_dist + end_dist, i) ...])[0][1] over the approved vertices *)
Definition best_approved (P : gparams) (C : list (iv * Z)) (count : Z) (vertex : iv) (approved : list iv) : option iv :=
  fold_left (fun best i => if close_enough P C count vertex i
                           then match best with
                                | None => Some i
                                | Some b => if (dist_sum i vertex <? dist_sum b vertex) || ((dist_sum i vertex =? dist_sum b vertex) && iv_ltb i b) then Some i else best
                                end
                           else best) approved None.
Definition collapse_step (P : gparams) (C : list (iv * Z)) (acc : list iv * list (iv * iv)) (e : iv * Z) : list iv * list (iv * iv) :=
  match best_approved P C (snd e) (fst e) (fst acc) with
  | None => (fst acc ++ [fst e], snd acc)
  | Some s => (fst acc, snd acc ++ [(fst e, s)])
  end.
(* the substitute_dict in insertion order *)
Definition collapse_vertex_set (P : gparams) (C : list (iv * Z)) (vs : list iv) : list (iv * iv) :=
  match vs with [] | [_] => [] | _ => snd (fold_left (collapse_step P C) (sort_desc (map (fun i => (i, cnt_lookup C i)) vs)) ([], [])) end.

(* `for i in sorted(substitute_dict.keys())` *)
Fixpoint insert_key (x : iv * iv) (l : list (iv * iv)) : list (iv * iv) :=
  match l with [] => [x] | y :: t => if iv_ltb (fst x) (fst y) then x :: y :: t else y :: insert_key x t end.
Definition sort_keys (l : list (iv * iv)) : list (iv * iv) := fold_right insert_key [] l.

(* ------------------------------------------------------------------ counts *)
Definition cnt_remove (C : list (iv * Z)) (i : iv) : list (iv * Z) := filter (fun e => negb (iv_eqb (fst e) i)) C.
(* add_substitute(a, b): clustered[b] += clustered[a]; del clustered[a] *)
Definition cnt_substitute (C : list (iv * Z)) (a b : iv) : list (iv * Z) := cnt_remove (bump b (cnt_lookup C a) C) a.

(* remove_isolates, second half: `if intron not in clustered_introns or intron in known_introns: continue; if count < cutoff: discard` *)
Definition isolate_discards (P : gparams) (C : list (iv * Z)) (isolated : list iv) : list iv :=
  filter (fun i => mem i (map fst C) && negb (mem i (gp_known P)) && (cnt_lookup C i <? gp_iso P)) isolated.

(* ------------------------------------------------------------------ replay of a logged event sequence *)
Inductive xevent :=
| XOp (o : op)
(* a call of collapse_vertex_set with more than one vertex: outgoing (true) / incoming (false) loop of clean_tips_and_bulges, the current
   vertex, the vertex set, the counts the implementation read, the returned substitute_dict in insertion order *)
| XCvs (outgoing : bool) (current : iv) (vs : list iv) (counts : list Z) (result : list (iv * iv))
(* remove_isolates: the isolated vertices (with the counts read), the returned substitute_dict *)
| XIso (isolated : list iv) (counts : list Z) (result : list (iv * iv)).

Record xstate := mkX {
  x_g : gstate;
  x_cnt : list (iv * Z);          (* clustered_introns with counts *)
  x_expect : list (iv * iv);      (* collapse_vertex calls that must come next, in order *)
  x_removed : list iv;            (* to_remove of the running loop *)
  x_discards : list iv;           (* discards remove_isolates still has to perform (any order: iteration over a set) *)
  x_iso : bool }.                 (* remove_isolates has been seen: a top-level discard must be one of x_discards *)

Definition successors (E : list (iv * iv)) (u : iv) : list iv := map snd (filter (fun e => iv_eqb (fst e) u) E).
Definition pairs_eqb (a b : list (iv * iv)) : bool := list_eqb_ pr_eqb a b.
Definition zs_eqb_ (a b : list Z) : bool := list_eqb_ Z.eqb a b.

Definition xstep (P : gparams) (x : xstate) (ev : xevent) : option xstate :=
  match ev with
  | XCvs outgoing cur vs counts res =>
      if is_nil (x_expect x) &&
         (* the successor set of a LIVE vertex is the model's; a vertex collapsed earlier in the loop is still visited with its stale set (oracle) *)
         (negb outgoing || negb (mem cur (vert (x_g x))) || same_set vs (successors (edges (x_g x)) cur)) &&
         zs_eqb_ counts (map (cnt_lookup (x_cnt x)) vs) &&
         pairs_eqb res (collapse_vertex_set P (x_cnt x) vs)
      then let todo := filter (fun p => negb (mem (fst p) (x_removed x))) (sort_keys res) in
           Some (mkX (x_g x) (x_cnt x) todo (x_removed x ++ map fst todo) (x_discards x) (x_iso x))
      else None
  | XIso iso counts res =>
      if is_nil (x_expect x) && zs_eqb_ counts (map (cnt_lookup (x_cnt x)) iso) && pairs_eqb res (collapse_vertex_set P (x_cnt x) iso)
      then let todo := sort_keys res in
           let C' := fold_left (fun C p => cnt_substitute C (fst p) (snd p)) todo (x_cnt x) in
           Some (mkX (x_g x) (x_cnt x) todo [] (isolate_discards P C' iso) true)
      else None
  | XOp o =>
      match o with
      | Collapse a b =>
          match x_expect x with
          | p :: rest => if pr_eqb p (a, b)
                         then match step (x_g x) o with
                              | Some g' => Some (mkX g' (cnt_substitute (x_cnt x) a b) rest (x_removed x) (x_discards x) (x_iso x))
                              | None => None end
                         else None
          | [] => None                      (* a collapse that no decision predicts *)
          end
      | Discard i =>
          if is_nil (x_expect x) && x_iso x && mem i (x_discards x)
          then match step (x_g x) o with
               | Some g' => Some (mkX g' (cnt_remove (x_cnt x) i) [] (x_removed x) (remove_iv i (x_discards x)) true)
               | None => None end
          else None
      | DropOut _ | CutOut _ =>             (* deletions end a loop: to_remove is cleared *)
          if is_nil (x_expect x) then match step (x_g x) o with Some g' => Some (mkX g' (x_cnt x) [] [] (x_discards x) (x_iso x)) | None => None end else None
      | SimplifyMap =>                      (* every predicted discard must have happened *)
          if is_nil (x_expect x) && is_nil (x_discards x)
          then match step (x_g x) o with Some g' => Some (mkX g' (filter (fun e => negb (mem (fst e) (disc g'))) (x_cnt x)) [] [] [] (x_iso x)) | None => None end else None
      | Touch i =>                          (* a defaultdict look-up re-creates a removed intron with count 0 *)
          if is_nil (x_expect x) then match step (x_g x) o with
                                      | Some g' => Some (mkX g' (if mem i (map fst (x_cnt x)) then x_cnt x else x_cnt x ++ [(i, 0)]) [] (x_removed x) (x_discards x) (x_iso x))
                                      | None => None end else None
      | AddEdge _ _ | Snap _ _ _ _ =>
          if is_nil (x_expect x) then match step (x_g x) o with Some g' => Some (mkX g' (x_cnt x) [] (x_removed x) (x_discards x) (x_iso x)) | None => None end else None
      | _ => None                           (* clustering steps and raw mutations do not belong here *)
      end
  end.
Fixpoint xrun (P : gparams) (x : xstate) (evs : list xevent) : option xstate :=
  match evs with [] => Some x | e :: t => match xstep P x e with Some x' => xrun P x' t | None => None end end.

Fixpoint xops (evs : list xevent) : list op := match evs with [] => [] | XOp o :: t => o :: xops t | _ :: t => xops t end.
Fixpoint add_edges_of (evs : list xevent) : list op :=
  match evs with [] => [] | XOp (AddEdge a b) :: t => AddEdge a b :: add_edges_of t | _ :: t => add_edges_of t end.

Definition add_edge_eqb (a b : op) : bool := match a, b with AddEdge a1 b1, AddEdge a2 b2 => iv_eqb a1 a2 && iv_eqb b1 b2 | _, _ => false end.

(* trace validation of the passes: start from the clustering computed by the executable model, the add_edge calls are those of
   construct_ops, every later step is predicted; the final vertex set with counts is the model's *)
Definition passes_ok (P : gparams) (delta mnc : Z) (reads : list read) (evs : list xevent) (final_counts : list (iv * Z)) : bool :=
  let '(cst, cops) := cluster (gp_known P) delta mnc (collect_counts reads) in
  match run (init reads) cops with
  | Some s0 =>
      list_eqb_ add_edge_eqb (add_edges_of evs) (construct_ops (disc s0) reads) &&
      match xrun P (mkX s0 (cs_vert cst) [] [] [] false) evs with
      | Some x => is_nil (x_expect x) && is_nil (x_discards x) &&
                  forallb (fun e => (cnt_lookup (x_cnt x) (fst e) =? snd e) && mem (fst e) (map fst (x_cnt x))) final_counts &&
                  forallb (fun e => mem (fst e) (map fst final_counts)) (x_cnt x)
      | None => false
      end
  | None => false
  end.

(* ================================================================== proofs *)
(* ------------------------------------------------------------------ the replay projects to a run of the abstract system *)
Lemma xstep_projects P x ev x' : xstep P x ev = Some x' ->
  match ev with XOp o => step (x_g x) o = Some (x_g x') | _ => x_g x' = x_g x end.
Proof. unfold xstep. destruct ev as [o|outgoing cur vs counts res|iso counts res].
  - destruct o; try discriminate.
    + destruct (is_nil (x_expect x)); [|discriminate]. destruct (step (x_g x) (AddEdge a b)) eqn:E; [|discriminate]. intros H; inversion H; subst. reflexivity.
    + destruct (x_expect x) as [|p rest]; [discriminate|]. destruct (pr_eqb p (a, b)); [|discriminate]. destruct (step (x_g x) (Collapse a b)) eqn:E; [|discriminate]. intros H; inversion H; subst. reflexivity.
    + destruct (is_nil (x_expect x) && x_iso x && mem i (x_discards x)); [|discriminate]. destruct (step (x_g x) (Discard i)) eqn:E; [|discriminate]. intros H; inversion H; subst. reflexivity.
    + destruct (is_nil (x_expect x)); [|discriminate]. destruct (step (x_g x) (DropOut v)) eqn:E; [|discriminate]. intros H; inversion H; subst. reflexivity.
    + destruct (is_nil (x_expect x)); [|discriminate]. destruct (step (x_g x) (CutOut u)) eqn:E; [|discriminate]. intros H; inversion H; subst. reflexivity.
    + destruct (is_nil (x_expect x) && is_nil (x_discards x)); [|discriminate]. destruct (step (x_g x) SimplifyMap) eqn:E; [|discriminate]. intros H; inversion H; subst. reflexivity.
    + destruct (is_nil (x_expect x)); [|discriminate]. destruct (step (x_g x) (Snap V M D E)) eqn:E0; [|discriminate]. intros H; inversion H; subst. reflexivity.
    + destruct (is_nil (x_expect x)); [|discriminate]. destruct (step (x_g x) (Touch i)) eqn:E0; [|discriminate]. intros H; inversion H; subst. reflexivity.
  - destruct (_ && _ && _ && _); [|discriminate]. intros H; inversion H; subst. reflexivity.
  - destruct (_ && _ && _); [|discriminate]. intros H; inversion H; subst. reflexivity. Qed.

(* whatever the replay accepts is a run of the abstract system: all theorems about runs (the 13-clause invariant, vertices are read introns,
   threading) apply to every state the executable passes go through *)
Theorem xrun_projects : forall P evs x x', xrun P x evs = Some x' -> run (x_g x) (xops evs) = Some (x_g x').
Proof. intros P. induction evs as [|ev t IH]; intros x x' H; cbn [xrun xops] in *; [inversion H; subst; reflexivity|].
  destruct (xstep P x ev) as [x1|] eqn:E; [|discriminate]. pose proof (xstep_projects _ _ _ _ E) as Q. specialize (IH _ _ H).
  destruct ev as [o| |]; [cbn [run]; rewrite Q; exact IH|rewrite <- Q; exact IH|rewrite <- Q; exact IH]. Qed.

(* ------------------------------------------------------------------ construct *)
Lemma pairs_of_In a b l : In (a, b) (pairs_of l) -> In a l /\ In b l.
Proof. induction l as [|x t IH]; cbn [pairs_of]; [intros []|]. destruct t as [|y u]; [intros []|]. intros [H|H].
  - inversion H; subst. split; [left|right; left]; reflexivity.
  - destruct (IH H). split; right; assumption. Qed.

Lemma add_edges_run R : forall ops s, Inv R s -> pend s = [] -> simplifiedb s = true ->
  (forall o, In o ops -> exists a b, o = AddEdge a b /\ In a R /\ In b R /\ ~ In a (disc s) /\ ~ In b (disc s)) ->
  exists s', run s ops = Some s' /\ vert s' = vert s /\ smap s' = smap s /\ disc s' = disc s /\ pend s' = [].
Proof. induction ops as [|o t IH]; intros s I Hp Hs H; cbn [run]; [exists s; auto|].
  destruct (H o (or_introl eq_refl)) as (a & b & -> & Ra & Rb & Da & Db). cbn [step]. rewrite Hp. cbn [is_nil andb].
  assert (A : mem (subst1 (smap s) a) (vert s) = true) by (apply mem_In; eapply threaded_vertex; eauto).
  assert (B : mem (subst1 (smap s) b) (vert s) = true) by (apply mem_In; eapply threaded_vertex; eauto).
  rewrite A, B. cbn [andb].
  set (s1 := mkG [] (vert s) (smap s) (disc s) ((subst1 (smap s) a, subst1 (smap s) b) :: edges s)).
  assert (I1 : Inv R s1).
  { eapply (inv_step R s (AddEdge a b)); [exact I|]. cbn [step]. rewrite Hp. cbn [is_nil andb]. rewrite A, B. reflexivity. }
  destruct (IH s1 I1 eq_refl) as (s' & R' & V' & M' & D' & P'); [exact Hs|intros o Ho; exact (H o (or_intror Ho))|].
  exists s'. auto. Qed.

(* construct: in a state where clustering has classified every collected intron and every substitute is a vertex, all add_edge calls are
   accepted (both ends thread to vertices) and change nothing but the edges *)
Theorem construct_is_run : forall reads s, Inv (read_introns reads) s -> pend s = [] -> simplifiedb s = true ->
  exists s', run s (construct_ops (disc s) reads) = Some s' /\ vert s' = vert s /\ smap s' = smap s /\ disc s' = disc s /\ pend s' = [].
Proof. intros reads s I Hp Hs. apply (add_edges_run (read_introns reads)); auto.
  intros o Ho. unfold construct_ops in Ho. apply in_flat_map in Ho. destruct Ho as (r & Hr & Ho).
  destruct (read_usable (disc s) r) eqn:U; [|destruct Ho]. apply in_map_iff in Ho. destruct Ho as ([a b] & <- & Hab). cbn [fst snd].
  apply pairs_of_In in Hab. destruct Hab as [Ha Hb]. unfold read_usable in U. apply andb_true_iff in U. destruct U as [U1 U2].
  apply negb_true_iff in U1. apply negb_true_iff in U2.
  assert (Q : forall x, In x (snd r) -> In x (read_introns reads) /\ ~ In x (disc s)).
  { intros x Hx. split.
    - apply In_read_introns. exists (snd r). split; [|exact Hx]. unfold collected. apply in_map. apply filter_In. split; [exact Hr|]. rewrite U1. destruct (snd r); [destruct Hx|reflexivity].
    - intros A. assert (existsb (fun i => mem i (disc s)) (snd r) = true) by (apply existsb_exists; exists x; split; [exact Hx|apply mem_In; exact A]). congruence. }
  exists a, b. destruct (Q a Ha), (Q b Hb). auto. Qed.

(* clustering followed by construct, for every read set: accepted by the abstract system *)
Theorem cluster_then_construct_is_run : forall known delta mnc reads,
  exists s0 s, run (init reads) (snd (cluster known delta mnc (collect_counts reads))) = Some s0 /\
               run s0 (construct_ops (disc s0) reads) = Some s /\ pend s = [] /\ vert s = vert s0.
Proof. intros known delta mnc reads.
  destruct (cluster_is_run known delta mnc (collect_counts reads) reads) as (s0 & R0 & P0 & V0 & M0 & D0).
  - unfold collect_counts. rewrite map_map. cbn [fst]. rewrite map_id. apply dedup_NoDup.
  - intros x. unfold collect_counts. rewrite map_map. cbn [fst]. rewrite map_id, dedup_In. tauto.
  - pose proof (inv_run _ _ _ _ (inv_init reads) R0) as I.
    assert (S : simplifiedb s0 = true).
    { apply simplifiedb_spec. intros k v A. rewrite M0 in A. destruct (cluster_substitute_spec _ _ _ _ _ _ A) as (_ & _ & B & _). rewrite V0. apply -> in_rev. exact B. }
    destruct (construct_is_run reads s0 I P0 S) as (s & R & V & _ & _ & P). exists s0, s. auto. Qed.

(* ------------------------------------------------------------------ collapse_vertex_set *)
Lemma best_approved_spec P C count vertex : forall approved best x,
  fold_left (fun (best : option iv) (i : iv) => if close_enough P C count vertex i
                           then match best with
                                | None => Some i
                                | Some b => if (dist_sum i vertex <? dist_sum b vertex) || ((dist_sum i vertex =? dist_sum b vertex) && iv_ltb i b) then Some i else best
                                end
                           else best) approved best = Some x ->
  best = Some x \/ (In x approved /\ close_enough P C count vertex x = true).
Proof. induction approved as [|i t IH]; intros best x H; cbn [fold_left] in H; [left; exact H|]. apply IH in H. destruct H as [H|[H1 H2]]; [|right; split; [right|]; assumption].
  destruct (close_enough P C count vertex i) eqn:E; [|left; exact H]. destruct best as [b|].
  - destruct ((dist_sum i vertex <? dist_sum b vertex) || ((dist_sum i vertex =? dist_sum b vertex) && iv_ltb i b)); [inversion H; subst; right; split; [left; reflexivity|exact E]|left; exact H].
  - inversion H; subst. right. split; [left; reflexivity|exact E]. Qed.
Lemma best_approved_In P C count vertex approved x : best_approved P C count vertex approved = Some x -> In x approved /\ close_enough P C count vertex x = true.
Proof. intros H. apply best_approved_spec in H. destruct H as [H|H]; [discriminate|exact H]. Qed.

Lemma NoDup_snoc {A} (l : list A) x : NoDup l -> ~ In x l -> NoDup (l ++ [x]).
Proof. induction l as [|y t IH]; intros N H; cbn [app]; [constructor; [intros []|constructor]|]. inversion N; subst. constructor.
  - intros A0. apply in_app_or in A0. destruct A0 as [A0|[A0|[]]]; [contradiction|]. subst. apply H. left; reflexivity.
  - apply IH; [assumption|]. intros A0. apply H. right; exact A0. Qed.

Definition cvs_ok (P : gparams) (C : list (iv * Z)) (approved : list iv) (e : iv * iv) : Prop :=
  In (snd e) approved /\ close_enough P C (cnt_lookup C (fst e)) (fst e) (snd e) = true.

Lemma collapse_fold_spec P C : forall l approved subs,
  (forall e, In e l -> snd e = cnt_lookup C (fst e)) -> NoDup (map fst l) ->
  (forall x, In x (map fst l) -> ~ In x approved /\ ~ In x (map fst subs)) ->
  (forall e, In e subs -> cvs_ok P C approved e) -> (forall x, In x approved -> ~ In x (map fst subs)) -> NoDup (map fst subs) ->
  let r := fold_left (collapse_step P C) l (approved, subs) in
  (forall e, In e (snd r) -> cvs_ok P C (fst r) e) /\ (forall x, In x (fst r) -> ~ In x (map fst (snd r))) /\ NoDup (map fst (snd r)) /\
  (forall x, In x (fst r ++ map fst (snd r)) <-> In x (approved ++ map fst subs ++ map fst l)).
Proof. induction l as [|e t IH]; intros approved subs Hc N Hf Hs Ha Hn; cbn [fold_left].
  - cbn [fst snd map]. split; [exact Hs|]. split; [exact Ha|]. split; [exact Hn|]. intros x. rewrite app_nil_r. tauto.
  - cbn [map] in N. inversion N as [|? ? Nin Nt]; subst. destruct (Hf (fst e) (or_introl eq_refl)) as [F1 F2].
    destruct (best_approved P C (snd e) (fst e) approved) as [s|] eqn:B.
    + assert (Es : collapse_step P C (approved, subs) e = (approved, subs ++ [(fst e, s)])) by (unfold collapse_step; cbn [fst snd]; rewrite B; reflexivity). rewrite Es.
      apply best_approved_In in B. destruct B as [B1 B2]. rewrite (Hc e (or_introl eq_refl)) in B2.
      destruct (IH approved (subs ++ [(fst e, s)])) as (I1 & I2 & I3 & I4).
      * intros e0 H0. apply Hc. right; exact H0.
      * exact Nt.
      * intros x Hx. destruct (Hf x (or_intror Hx)) as [A1 A2]. split; [exact A1|]. rewrite map_app. intros A. apply in_app_or in A. destruct A as [A|[A|[]]]; [contradiction|]. cbn in A. subst. contradiction.
      * intros e0 H0. apply in_app_or in H0. destruct H0 as [H0|[<-|[]]]; [apply Hs; exact H0|]. split; cbn [fst snd]; assumption.
      * intros x Hx. rewrite map_app. intros A. apply in_app_or in A. destruct A as [A|[A|[]]]; [exact (Ha x Hx A)|]. cbn in A. subst. contradiction.
      * rewrite map_app. cbn [map fst]. apply NoDup_snoc; assumption.
      * split; [exact I1|]. split; [exact I2|]. split; [exact I3|]. intros x. rewrite I4. rewrite !map_app. cbn [map fst]. rewrite !in_app_iff. cbn [In]. tauto.
    + assert (Es : collapse_step P C (approved, subs) e = (approved ++ [fst e], subs)) by (unfold collapse_step; cbn [fst snd]; rewrite B; reflexivity). rewrite Es.
      destruct (IH (approved ++ [fst e]) subs) as (I1 & I2 & I3 & I4).
      * intros e0 H0. apply Hc. right; exact H0.
      * exact Nt.
      * intros x Hx. destruct (Hf x (or_intror Hx)) as [A1 A2]. split; [|exact A2]. intros A. apply in_app_or in A. destruct A as [A|[A|[]]]; [contradiction|]. subst. contradiction.
      * intros e0 H0. destruct (Hs e0 H0) as [A1 A2]. split; [apply in_or_app; left; exact A1|exact A2].
      * intros x Hx. apply in_app_or in Hx. destruct Hx as [Hx|[<-|[]]]; [apply Ha; exact Hx|exact F2].
      * exact Hn.
      * split; [exact I1|]. split; [exact I2|]. split; [exact I3|]. intros x. rewrite I4. cbn [map]. rewrite !in_app_iff. cbn [In]. tauto. Qed.

(* what collapse_vertex_set decides: a vertex v of the set is collapsed into a vertex s of the set that is kept (approved, never itself
   collapsed: chains have length one), closer than graph_clustering_distance at both ends, with count(v) < count(s) * ratio *)
Theorem collapse_vertex_set_spec : forall P C vs v s, NoDup vs -> In (v, s) (collapse_vertex_set P C vs) ->
  In v vs /\ In s vs /\ v <> s /\ close_enough P C (cnt_lookup C v) v s = true /\
  ~ In s (map fst (collapse_vertex_set P C vs)) /\ NoDup (map fst (collapse_vertex_set P C vs)).
Proof. intros P C vs v s N H. unfold collapse_vertex_set in *. destruct vs as [|a [|b u]]; [destruct H|destruct H|].
  set (vs := a :: b :: u) in *. set (l := sort_desc (map (fun i => (i, cnt_lookup C i)) vs)) in *.
  assert (Hl : forall x, In x (map fst l) <-> In x vs).
  { intros x. unfold l. split; intros A.
    - apply in_map_iff in A. destruct A as (e & <- & A). apply (proj1 (sort_desc_In _ _)) in A. apply in_map_iff in A. destruct A as (i & <- & A). exact A.
    - apply in_map_iff. exists (x, cnt_lookup C x). split; [reflexivity|]. apply sort_desc_In. apply in_map_iff. exists x. auto. }
  destruct (collapse_fold_spec P C l [] []) as (I1 & I2 & I3 & I4).
  - intros e A. unfold l in A. apply (proj1 (sort_desc_In _ _)) in A. apply in_map_iff in A. destruct A as (i & <- & _). reflexivity.
  - eapply Permutation_NoDup; [apply Permutation_map, sort_desc_perm|]. rewrite map_map. cbn [fst]. rewrite map_id. exact N.
  - intros x _. split; intros [].
  - intros e [].
  - intros x [].
  - constructor.
  - cbn [app map] in I4. destruct (I1 _ H) as [A B]. cbn [fst snd] in A, B.
    assert (Vv : In v vs) by (apply Hl, I4; apply in_or_app; right; apply in_map_iff; exists (v, s); auto).
    assert (Vs : In s vs) by (apply Hl, I4; apply in_or_app; left; exact A).
    split; [exact Vv|]. split; [exact Vs|]. split; [intros ->; apply (I2 _ A); apply in_map_iff; exists (s, s); auto|]. split; [exact B|]. split; [exact (I2 _ A)|exact I3]. Qed.

Lemma insert_key_perm x l : Permutation (x :: l) (insert_key x l).
Proof. induction l as [|y t IH]; cbn [insert_key]; [apply Permutation_refl|]. destruct (iv_ltb (fst x) (fst y)); [apply Permutation_refl|].
  eapply Permutation_trans; [apply perm_swap|]. apply perm_skip. exact IH. Qed.
Lemma sort_keys_perm l : Permutation l (sort_keys l).
Proof. induction l as [|x t IH]; cbn [sort_keys fold_right]; [constructor|]. eapply Permutation_trans; [apply perm_skip; exact IH|apply insert_key_perm]. Qed.

(* any list of collapses with pairwise distinct sources that are vertices, and targets that are vertices and not sources, is accepted *)
Lemma collapses_run : forall L s, NoDup (map fst L) ->
  (forall p, In p L -> In (fst p) (vert s) /\ In (snd p) (vert s) /\ fst p <> snd p /\ ~ In (snd p) (map fst L)) ->
  exists s', run s (map (fun p => Collapse (fst p) (snd p)) L) = Some s' /\ (forall v, In v (vert s') <-> In v (vert s) /\ ~ In v (map fst L)) /\ pend s' = pend s /\ disc s' = disc s.
Proof. induction L as [|[a b] t IH]; intros s N H; cbn [map run].
  - exists s. split; [reflexivity|]. split; [intros v; cbn; tauto|auto].
  - cbn [map fst] in N. inversion N as [|? ? Nin Nt]; subst. destruct (H (a, b) (or_introl eq_refl)) as (Ha & Hb & Hab & Hnb). cbn [fst snd] in *.
    cbn [step]. assert (mem a (vert s) = true) as -> by (apply mem_In; exact Ha). assert (mem b (vert s) = true) as -> by (apply mem_In; exact Hb).
    assert (negb (iv_eqb a b) = true) as -> by (apply negb_true_iff, iv_eqb_neq; exact Hab). cbn [andb].
    set (s1 := mkG (pend s) (remove_iv a (vert s)) (smap s ++ [(a, b)]) (disc s) (rename_edges a b (edges s))).
    destruct (IH s1 Nt) as (s' & R & V & Pn & Dn).
    + intros p Hp. destruct (H p (or_intror Hp)) as (A1 & A2 & A3 & A4). cbn [vert s1]. repeat split.
      * apply remove_iv_In. split; [exact A1|]. intros E. apply Nin. rewrite <- E. apply in_map. exact Hp.
      * apply remove_iv_In. split; [exact A2|]. intros E. apply A4. left. symmetry; exact E.
      * exact A3.
      * intros A. apply A4. right. exact A.
    + exists s'. split; [exact R|]. split; [|auto]. intros v. rewrite V. cbn [vert s1 map fst In]. rewrite remove_iv_In. split; [intros [[A B] C]; split; [exact A|intros [E|E]; [congruence|contradiction]]|intros [A B]; split; [split; [exact A|intros E; apply B; left; symmetry; exact E]|intros E; apply B; right; exact E]]. Qed.

(* BY CONSTRUCTION: whatever set of vertices collapse_vertex_set is given and whatever the counts, the collapse_vertex calls it leads to
   (in the order `sorted(substitute_dict.keys())`, minus any already-removed sources) are accepted by the abstract system *)
Theorem collapse_decision_is_run : forall P C vs removed s, NoDup vs -> (forall v, In v vs -> In v (vert s)) ->
  let todo := filter (fun p => negb (mem (fst p) removed)) (sort_keys (collapse_vertex_set P C vs)) in
  exists s', run s (map (fun p => Collapse (fst p) (snd p)) todo) = Some s' /\
             (forall v, In v (vert s') <-> In v (vert s) /\ ~ In v (map fst todo)) /\ pend s' = pend s /\ disc s' = disc s.
Proof. intros P C vs removed s N Hv todo.
  assert (Sub : forall p, In p todo -> In p (collapse_vertex_set P C vs)).
  { intros p A. unfold todo in A. apply filter_In in A. eapply Permutation_in; [apply Permutation_sym, sort_keys_perm|exact (proj1 A)]. }
  assert (ND : NoDup (map fst todo)).
  { unfold todo. apply NoDup_map_filter. eapply Permutation_NoDup; [apply Permutation_map, sort_keys_perm|].
    destruct (collapse_vertex_set P C vs) as [|[v0 s0] r] eqn:E; [constructor|]. rewrite <- E.
    destruct (collapse_vertex_set_spec P C vs v0 s0 N) as (_ & _ & _ & _ & _ & X); [rewrite E; left; reflexivity|exact X]. }
  apply collapses_run; [exact ND|]. intros [v x] Hp. pose proof (Sub _ Hp) as Q. destruct (collapse_vertex_set_spec P C vs v x N Q) as (A1 & A2 & A3 & _ & A5 & _).
  cbn [fst snd]. repeat split; auto. intros A. apply A5. apply in_map_iff in A. destruct A as (p & E & A). apply in_map_iff. exists p. split; [exact E|apply Sub; exact A]. Qed.

Lemma discards_run : forall L s, NoDup L -> (forall i, In i L -> In i (vert s)) -> exists s', run s (map Discard L) = Some s'.
Proof. induction L as [|i t IH]; intros s N H; cbn [map run]; [eauto|]. inversion N as [|? ? Nin Nt]; subst. cbn [step].
  assert (mem i (vert s) = true) as -> by (apply mem_In; apply H; left; reflexivity).
  apply IH; [exact Nt|]. intros j Hj. cbn [vert]. apply remove_iv_In. split; [apply H; right; exact Hj|intros ->; contradiction]. Qed.

Lemma cnt_substitute_keys C a b x : In x (map fst (cnt_substitute C a b)) <-> In x (map fst C) /\ x <> a.
Proof. unfold cnt_substitute, cnt_remove. split.
  - intros A. apply in_map_iff in A. destruct A as (e & <- & A). apply filter_In in A. destruct A as [A B]. apply negb_true_iff, iv_eqb_neq in B.
    split; [|exact B]. rewrite <- (bump_keys b (cnt_lookup C a) C). apply in_map. exact A.
  - intros [A B]. rewrite <- (bump_keys b (cnt_lookup C a) C) in A. apply in_map_iff in A. destruct A as (e & <- & A). apply in_map. apply filter_In. split; [exact A|apply negb_true_iff, iv_eqb_neq; exact B]. Qed.

Lemma filter_none_removed (l : list (iv * iv)) : filter (fun p : iv * iv => negb (mem (fst p) [])) l = l.
Proof. induction l as [|p t IH]; cbn [filter mem existsb negb]; [reflexivity|f_equal; exact IH]. Qed.

Lemma fold_substitute_keys : forall (L : list (iv * iv)) C x,
  In x (map fst (fold_left (fun C p => cnt_substitute C (fst p) (snd p)) L C)) <-> In x (map fst C) /\ ~ In x (map fst L).
Proof. induction L as [|p t IH]; intros C x; cbn [fold_left map fst]; [cbn; tauto|]. rewrite IH, cnt_substitute_keys. cbn [In].
  split; [intros [[A B] D]; split; [exact A|intros [E|E]; [congruence|contradiction]]|intros [A B]; split; [split; [exact A|intros E; apply B; left; symmetry; exact E]|intros E; apply B; right; exact E]]. Qed.

(* BY CONSTRUCTION: remove_isolates - the collapses among the isolated vertices followed by the low-coverage discards - is accepted, for every
   set of isolated vertices, as long as the count table has exactly the vertices as keys *)
Theorem isolates_is_run : forall P C iso s, NoDup iso -> (forall v, In v iso -> In v (vert s)) -> (forall v, In v (map fst C) <-> In v (vert s)) ->
  let todo := sort_keys (collapse_vertex_set P C iso) in
  let C' := fold_left (fun C p => cnt_substitute C (fst p) (snd p)) todo C in
  exists s', run s (map (fun p => Collapse (fst p) (snd p)) todo ++ map Discard (isolate_discards P C' iso)) = Some s'.
Proof. intros P C iso s N Hv Hc todo C'.
  destruct (collapse_decision_is_run P C iso [] s N Hv) as (s1 & R1 & V1 & _ & _).
  rewrite filter_none_removed in R1, V1. fold todo in R1, V1.
  assert (K : forall x, In x (map fst C') <-> In x (map fst C) /\ ~ In x (map fst todo)) by (intros x; unfold C'; apply fold_substitute_keys).
  destruct (discards_run (isolate_discards P C' iso) s1) as (s2 & R2).
  - unfold isolate_discards. apply NoDup_filter. exact N.
  - intros i Hi. unfold isolate_discards in Hi. apply filter_In in Hi. destruct Hi as [_ B]. apply andb_true_iff in B. destruct B as [B _]. apply andb_true_iff in B. destruct B as [B _].
    apply mem_In in B. apply K in B. apply V1. split; [apply Hc; exact (proj1 B)|exact (proj2 B)].
  - exists s2. clear -R1 R2. revert R1. generalize (map (fun p : iv * iv => Collapse (fst p) (snd p)) todo). intros l. revert s.
    induction l as [|o t IH]; intros s R1; cbn [run app] in *; [inversion R1; subst; exact R2|]. destruct (step s o); [apply IH; exact R1|discriminate]. Qed.
