(* C19 (and C03 / C14 through Exons.v): Intervals.jfb / Exons.jfb are junctions_from_blocks and Intervals.get_exons / Exons.get_exons are
   get_exons of src/common.py as regenerated into gen/Loops.v (tools/translate_loops.py, on every check): an index loop as fold_left over
   seq with nth; the two math.inf sentinels of get_exons as arbitrary integers (the equality holds for EVERY value of them).  For all inputs. *)
From Coq Require Import ZArith NArith List Bool Lia ZifyBool.
From IQ.gen Require Import Prims Loops.
From IQ Require Import CorrSupport Intervals Exons LoopsSupport.
Import ListNotations. Open Scope Z_scope.

Lemma jfb_fold : forall l pre acc,
  fold_left (py_junctions_from_blocks_step (pre ++ l)) (seq (length pre) (length l - 1)) acc = acc ++ Intervals.jfb l.
Proof. induction l as [|a t IH]; intros pre acc; [cbn; rewrite app_nil_r; reflexivity|].
  destruct t as [|b t']; [cbn; rewrite app_nil_r; reflexivity|].
  replace (length (a :: b :: t') - 1)%nat with (S (length (b :: t') - 1)) by (cbn [length]; lia).
  cbn [seq fold_left]. unfold py_junctions_from_blocks_step at 2.
  replace (Nat.add (length pre) 1) with (length pre + 1)%nat by reflexivity.
  rewrite nth_pre, nth_pre1.
  rewrite (app_cons_assoc pre (b :: t') a). rewrite <- (length_snoc pre a). rewrite IH.
  cbn [Intervals.jfb]. destruct (snd a + 1 <? fst b); [rewrite <- app_assoc; reflexivity|reflexivity]. Qed.
Theorem jfb_is_the_source l : Intervals.jfb l = py_junctions_from_blocks l.
Proof. unfold py_junctions_from_blocks. destruct (Z.geb_spec (Z.of_nat (length l)) 2) as [H|H].
  - pose proof (jfb_fold l [] []) as F. cbn [app length] in F. cbv zeta. rewrite F. reflexivity.
  - destruct l as [|a [|b t]]; [reflexivity|reflexivity|cbn [length] in H; lia]. Qed.
Lemma exons_jfb_is_intervals_jfb l : Exons.jfb l = Intervals.jfb l.
Proof. induction l as [|a t IH]; [reflexivity|]. destruct t as [|b t']; [reflexivity|].
  change (Exons.jfb (a :: b :: t')) with ((if snd a + 1 <? fst b then [(snd a + 1, fst b - 1)] else []) ++ Exons.jfb (b :: t')).
  rewrite IH. reflexivity. Qed.

(* ---------------------------------------------------------------- get_exons: independent of the two infinite sentinels *)
Lemma jfb_head_fst x x' y t : Intervals.jfb ((x, y) :: t) = Intervals.jfb ((x', y) :: t).
Proof. destruct t; reflexivity. Qed.
Lemma jfb_last_snd x y y' : forall l, Intervals.jfb (l ++ [(x, y)]) = Intervals.jfb (l ++ [(x, y')]).
Proof. induction l as [|a t IH]; [reflexivity|]. destruct t as [|b t']; [reflexivity|].
  change (Intervals.jfb ((a :: b :: t') ++ [(x, y)])) with ((if snd a + 1 <? fst b then [(snd a + 1, fst b - 1)] else []) ++ Intervals.jfb ((b :: t') ++ [(x, y)])).
  rewrite IH. reflexivity. Qed.
Theorem get_exons_is_the_source inf_lo inf_hi r J : Intervals.get_exons r J = py_get_exons inf_lo inf_hi r J.
Proof. unfold Intervals.get_exons, py_get_exons. rewrite <- jfb_is_the_source. cbn [app].
  rewrite (jfb_head_fst (fst r - 1) inf_lo). rewrite !app_comm_cons. apply jfb_last_snd. Qed.
Lemma exons_get_exons_is_intervals_get_exons r J : Exons.get_exons r J = Intervals.get_exons r J.
Proof. apply exons_jfb_is_intervals_jfb. Qed.

