(* C16: PolyA2.count_polyt_exons is PolyAFixer.count_polyt_exons of src/polya_verification.py as regenerated WHOLE into gen/Loops.v
   (tools/translate_loops.py: a method; the scan from the first exon as fold_left over seq with a `stopped` flag for the break).  For all inputs. *)
From Coq Require Import ZArith List Bool Lia ZifyBool.
From IQ.gen Require Import Prims Loops.
From IQ Require Import Cigar PolyA PolyA2 LoopsSupport LoopsIndexSupport LoopCountSupport.
Import ListNotations. Open Scope Z_scope.

Theorem count_polyt_exons_is_the_source mf exons pos :
  PolyA2.count_polyt_exons mf exons pos = py_count_polyt_exons mf exons pos /\ py_count_polyt_exons_pre mf exons pos = true.
Proof. unfold PolyA2.count_polyt_exons, py_count_polyt_exons, py_count_polyt_exons_pre. destruct (pos =? -1); [split; reflexivity|]. split; [|reflexivity].
  change (py_count_polyt_exons_step mf exons pos) with (fun s i => gt mf pos s (nth i exons (0, 0))).
  rewrite fold_seq_nth. pose proof (gt_fold mf pos exons 0) as G.
  destruct (fold_left (gt mf pos) exons (false, 0)) as [s c]. cbn [snd] in G. lia. Qed.
