From Coq Require Import ZArith List Bool Lia ZifyBool.
Import ListNotations. Open Scope Z_scope.

Section S.
Variable min_bins : Z.
Variable cov : Z -> Z.
Variable last : Z.
Hypothesis cov_beyond : forall p, last < p -> cov p = 0.

Definition not_valley (pos maxc : Z) : bool := (1 <? cov pos) && (maxc <? 100 * cov pos).

Fixpoint inner (fuel:nat) (cs pos maxc : Z) : option (Z*Z) :=
  match fuel with
  | O => None
  | S f => if ((pos <=? last) && (pos - cs <? min_bins)) || not_valley pos maxc
           then inner f cs (pos+1) (Z.max maxc (cov pos)) else Some (pos, maxc)
  end.

(* current code: loop guarded by pos *)
Fixpoint outer (fuel:nat) (cs pos maxc : Z) (acc : list (Z*Z)) : option (list (Z*Z)) :=
  match fuel with
  | O => None
  | S f => if pos <=? last then
             match inner fuel cs pos maxc with
             | Some (pos', _) => outer f pos' (Z.min (pos'+1) (last+1)) (cov pos') (acc ++ [(cs, pos')])
             | None => None
             end
           else Some acc
  end.

(* repaired code: loop guarded by current_start *)
Fixpoint outer_fix (fuel:nat) (cs pos maxc : Z) (acc : list (Z*Z)) : option (list (Z*Z)) :=
  match fuel with
  | O => None
  | S f => if cs <=? last then
             match inner fuel cs pos maxc with
             | Some (pos', _) => outer_fix f pos' (Z.min (pos'+1) (last+1)) (cov pos') (acc ++ [(cs, pos')])
             | None => None
             end
           else Some acc
  end.

Fixpoint tiles (s e : Z) (l : list (Z*Z)) : Prop :=
  match l with
  | [] => s = e
  | (a,b)::t => a = s /\ a < b /\ tiles b e t
  end.

Lemma tiles_app s m e l : tiles s m l -> m < e -> tiles s e (l ++ [(m,e)]).
Proof. revert s; induction l as [|[x y] t IH]; intros s H Hlt; simpl in *.
 - subst. repeat split; auto.
 - destruct H as (H1 & H2 & H3). repeat split; auto. Qed.

Lemma inner_bounds fuel : forall cs pos maxc p m, pos <= last + 1 ->
  inner fuel cs pos maxc = Some (p, m) -> pos <= p <= last + 1.
Proof. induction fuel; intros cs pos maxc p m Hp H; simpl in H; [discriminate|].
 destruct (((pos <=? last) && (pos - cs <? min_bins)) || not_valley pos maxc) eqn:E.
 - assert (pos <= last).
   { destruct (pos <=? last) eqn:E1; [lia|]. simpl in E. unfold not_valley in E.
     rewrite (cov_beyond pos) in E by lia. simpl in E. discriminate. }
   apply IHfuel in H; lia.
 - inversion H; lia. Qed.

(* repaired loop: complete tiling of [first, last+1) *)
Lemma outer_fix_tiles fuel : forall cs pos maxc acc s res,
  cs <= last + 1 -> (cs <= last -> pos = cs + 1) -> tiles s cs acc ->
  outer_fix fuel cs pos maxc acc = Some res -> tiles s (last+1) res.
Proof.
  induction fuel; intros cs pos maxc acc s res Hcs Hpos Ht H; [discriminate|].
  cbn [outer_fix] in H. destruct (cs <=? last) eqn:E.
  - destruct (inner (S fuel) cs pos maxc) as [[p m]|] eqn:Ei; [|discriminate].
    assert (Hb: pos <= p <= last + 1) by (eapply inner_bounds; [|exact Ei]; lia).
    eapply IHfuel; [| |  |exact H].
    + lia.
    + intros. lia.
    + apply tiles_app; [exact Ht|lia].
  - inversion H; subst. assert (cs = last + 1) by lia. subst. exact Ht.
Qed.

(* current loop: tiling may stop one bin short, or be empty *)
Lemma outer_tiles fuel : forall cs pos maxc acc s res,
  pos <= last + 1 -> cs < pos -> tiles s cs acc ->
  outer fuel cs pos maxc acc = Some res ->
  exists e, tiles s e res /\ (e = last + 1 \/ (e = last /\ res <> []) \/ (res = acc /\ pos = last + 1)).
Proof.
  induction fuel; intros cs pos maxc acc s res Hp Hlt Ht H; [discriminate|].
  cbn [outer] in H. destruct (pos <=? last) eqn:E.
  - destruct (inner (S fuel) cs pos maxc) as [[p m]|] eqn:Ei; [|discriminate].
    assert (Hb: pos <= p <= last + 1) by (eapply inner_bounds; [|exact Ei]; lia).
    assert (Ht': tiles s p (acc ++ [(cs, p)])) by (apply tiles_app; [exact Ht|lia]).
    destruct (Z.eq_dec p (last+1)) as [Hp1|Hp1].
    + (* reached the end: next iteration exits *)
      subst p. destruct fuel; [discriminate|]. cbn [outer] in H.
      replace (Z.min (last + 1 + 1) (last + 1) <=? last) with false in H by lia.
      inversion H; subst. exists (last+1). split; auto.
    + destruct (Z.eq_dec p last) as [Hp2|Hp2].
      * (* stopped exactly on the last bin: loop exits, bin [last] is never emitted *)
        subst p. destruct fuel; [discriminate|]. cbn [outer] in H.
        replace (Z.min (last + 1) (last + 1) <=? last) with false in H by lia.
        inversion H; subst. exists last. split; auto. right; left. split; auto.
        destruct acc; discriminate.
      * eapply IHfuel in H; [| | |exact Ht']; try lia.
        destruct H as (e & He & Hor). exists e. split; auto.
        destruct Hor as [?|[[? ?]|[? ?]]]; [left; auto|right; left; auto|lia].
  - inversion H; subst. exists cs. split; auto. right; right. split; auto. lia.
Qed.
End S.

(* witnesses *)
Definition cov_ex (p:Z) : Z := if (0 <=? p) && (p <? 3) then 300 else if p =? 3 then 1 else if (4<=?p)&&(p<?7) then 300 else if p =? 7 then 1 else 0.
Example last_bin_dropped : outer 3 cov_ex 7 50%nat 0 1 (cov_ex 0) [] = Some [(0,3);(3,7)]. Proof. vm_compute. reflexivity. Qed.
Example last_bin_kept_after_fix : outer_fix 3 cov_ex 7 50%nat 0 1 (cov_ex 0) [] = Some [(0,3);(3,7);(7,8)]. Proof. vm_compute. reflexivity. Qed.
Definition cov_one (p:Z) : Z := if p =? 20 then 1100 else 0.
Example single_bin_dropped : outer 128 cov_one 20 50%nat 20 21 (cov_one 20) [] = Some []. Proof. vm_compute. reflexivity. Qed.
Example single_bin_kept_after_fix : outer_fix 128 cov_one 20 50%nat 20 21 (cov_one 20) [] = Some [(20,21)]. Proof. vm_compute. reflexivity. Qed.
Print Assumptions outer_fix_tiles.
Print Assumptions outer_tiles.
