(* C19: difference_in_present_features of src/common.py with its default arguments (diff_limit=-1, profile_range=None, applied by the
   regenerated prologue), regenerated into gen/Loops.v on every check (`continue`, a `break` at the end of the body), is its declarative
   reading (ProfileHelpers2.v): the number of positions where both profiles are non-zero and differ; the limit len + 1 is never exceeded. *)
From Coq Require Import ZArith List Bool Lia ZifyBool.
From IQ.gen Require Import Prims Loops.
From IQ Require Import LoopsSupport ProfileHelpers ProfileHelpers2 LoopsRangeSupport.
Import ListNotations. Open Scope Z_scope.

Definition gd (lim:Z) (st:bool * Z) (x y:Z) : bool * Z :=
  let '(stop, d) := st in if stop then st else if (y =? 0) || (x =? 0) then (false, d)
  else let '(_, d) := (if negb (x =? y) then (false, d + 1) else (false, d)) in if d >? lim then (true, d) else (false, d).
Lemma gd_fold lim : forall l d, d + Z.of_nat (length l) <= lim ->
  fold_left (fun s p => gd lim s (fst p) (snd p)) l (false, d) = (false, d + Z.of_nat (length (filter differs l))).
Proof. induction l as [|x t IH]; intros d H; cbn [fold_left filter length]; [f_equal; lia|]. cbn [length] in H. unfold gd at 2, differs at 1.
  destruct (Z.eqb_spec (snd x) 0), (Z.eqb_spec (fst x) 0); cbn [orb negb andb]; try (rewrite IH by lia; reflexivity).
  destruct (Z.eqb_spec (fst x) (snd x)); cbn [negb length].
  - replace (d >? lim) with false by lia. rewrite IH by lia. reflexivity.
  - replace (d + 1 >? lim) with false by lia. rewrite IH by lia. f_equal. lia. Qed.

Theorem difference_in_present_features_dflt_spec p1 p2 : length p1 = length p2 ->
  py_difference_in_present_features_dflt p1 p2 = spec_difference p1 p2 (whole p1) /\ py_difference_in_present_features_dflt_pre p1 p2 = true.
Proof. intros L. unfold py_difference_in_present_features_dflt, py_difference_in_present_features_dflt_pre,
    py_difference_in_present_features, py_difference_in_present_features_pre, spec_difference. cbv zeta.
  replace (Z.eqb (-1) (-1)) with true by reflexivity. set (lim := Z.of_nat (length p1) + 1). change (0, Z.of_nat (length p1)) with (whole p1).
  pose proof (range_ok_whole p1) as R. split.
  - change (map (fun k_ => Z.add (fst (whole p1)) (Z.of_nat k_)) (seq 0 (Z.to_nat (Z.sub (snd (whole p1)) (fst (whole p1)))))) with (zrange (whole p1)).
    change (py_difference_in_present_features_step p1 p2 lim (whole p1)) with (fun (s:bool * Z) (i:Z) => gd lim s (py_index p1 i 0) (py_index p2 i 0)).
    rewrite (fold_range_slices (gd lim) p1 p2 (whole p1) (false, 0) L R). rewrite gd_fold.
    + reflexivity.
    + rewrite combine_length, !slice_whole. unfold lim. lia.
  - apply andb_true_intro. split; [apply Nat.eqb_eq, L|]. apply forallb_forall. intros i Hi.
    change (map (fun k_ => Z.add (fst (whole p1)) (Z.of_nat k_)) (seq 0 (Z.to_nat (Z.sub (snd (whole p1)) (fst (whole p1)))))) with (zrange (whole p1)) in Hi.
    rewrite (range_indices_ok p1 _ R i Hi). rewrite (range_indices_ok p2 (whole p1)) by (rewrite <- ?(range_ok_same_length p1 p2 _ L); assumption).
    destruct (py_index p2 i 0 =? 0); reflexivity. Qed.
