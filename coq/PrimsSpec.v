From IQ.gen Require Import Prims. From Coq Require Import ZArith Bool Lia ZifyBool. Open Scope Z_scope.
Lemma overlaps_iff_common_point a b : fst a <= snd a -> fst b <= snd b ->
  (py_overlaps a b = true <-> exists p, fst a <= p <= snd a /\ fst b <= p <= snd b).
Proof. unfold py_overlaps; intros Ha Hb; split; [intros H; exists (Z.max (fst a) (fst b)); lia|intros [p Hp]; lia]. Qed.
Lemma contains_iff_subset a b : fst b <= snd b ->
  (py_contains a b = true <-> forall p, fst b <= p <= snd b -> fst a <= p <= snd a).
Proof. unfold py_contains; intros Hb; split; [intros H p Hp; lia|intros H; pose proof (H (fst b)); pose proof (H (snd b)); lia]. Qed.
Lemma intersection_len_spec a b : py_intersection_len a b = Z.max 0 (Z.min (snd a) (snd b) - Z.max (fst a) (fst b) + 1).
Proof. unfold py_intersection_len. lia. Qed.
Lemma equal_ranges_iff a b d : py_equal_ranges a b d = true <-> Z.abs (fst a - fst b) <= d /\ Z.abs (snd a - snd b) <= d.
Proof. unfold py_equal_ranges. lia. Qed.
(* exact characterisation of overlaps_at_least, including its asymmetric corner *)
Lemma overlaps_at_least_char a b d : fst a <= snd a -> fst b <= snd b ->
  (py_overlaps_at_least a b d = true <->
   snd a >= fst b /\ snd b >= fst a /\
   (Z.min (snd a) (snd b) - Z.max (fst a) (fst b) + 1 >= d
    \/ (fst b <= fst a /\ snd a < snd b)        (* a inside b, not sharing the right end *)
    \/ (fst a <= fst b /\ snd b <= snd a))).    (* b inside a *)
Proof. unfold py_overlaps_at_least. intros Ha Hb. cbv zeta.
  destruct ((snd a - fst b <? 0) || (snd b - fst a <? 0)) eqn:E1; [split; [discriminate|lia]|].
  destruct (snd a <? snd b) eqn:E2; lia. Qed.
Print Assumptions overlaps_at_least_char.
