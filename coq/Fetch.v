From Coq Require Import ZArith List Bool Lia ZifyBool.
Import ListNotations. Open Scope Z_scope.
Notation iv := (Z*Z)%type.

(* sub-regions that follow each other without gap and cover [lo, hi] *)
Fixpoint chain (lo hi:Z) (regs:list iv) : Prop :=
  match regs with [] => lo = hi + 1 | r::t => fst r = lo /\ fst r <= snd r /\ snd r <= hi /\ chain (snd r + 1) hi t end.

Definition ovl (r a:iv) : bool := (fst a <=? snd r) && (fst r <=? snd a).      (* htslib fetch [lo, hi+1): overlap test *)
Definition fetch (r:iv) (alns:list iv) : list iv := filter (ovl r) alns.

(* every alignment that touches [lo, hi] is returned for the sub-region containing its first covered position *)
Theorem no_alignment_lost : forall regs lo hi alns a, chain lo hi regs -> lo <= hi -> In a alns ->
  fst a <= snd a -> lo <= snd a -> fst a <= hi -> exists r, In r regs /\ In a (fetch r alns).
Proof. induction regs as [|r t IH]; intros lo hi alns a Hc Hlh Ha Hw H1 H2; simpl in Hc; [lia|].
  destruct Hc as (E & Hr & Hh & Ht).
  destruct (Z_le_gt_dec (fst a) (snd r)) as [Hle|Hgt].
  - exists r. split; [left; reflexivity|]. apply filter_In. split; [exact Ha|]. unfold ovl. lia.
  - destruct (IH (snd r + 1) hi alns a Ht ltac:(lia) Ha Hw ltac:(lia) H2) as [r' [Hr' Hf]]. exists r'. split; [right; exact Hr'|exact Hf]. Qed.

(* and it is returned exactly for the sub-regions it overlaps, so duplicates arise only across borders *)
Theorem returned_iff_overlaps r alns a : In a (fetch r alns) <-> In a alns /\ fst a <= snd r /\ fst r <= snd a.
Proof. unfold fetch. rewrite filter_In. unfold ovl. split; intros [H1 H2]; split; auto; lia. Qed.

(* from bin tiling to coordinate chain: region k of bins [cs,pos) is (max(256cs+1, r0), min(256pos, r1)) *)
Definition region_of (r0 r1 cs pos:Z) : iv := (Z.max (256 * cs + 1) r0, Z.min (256 * pos) r1).
Fixpoint tiles (s e : Z) (l : list (Z*Z)) : Prop := match l with [] => s = e | (a,b)::t => a = s /\ a < b /\ tiles b e t end.

(* caveat found while stating the link: when the cluster starts exactly on a bin boundary (r0 = 256*first) the first
   sub-region starts at r0+1, so an alignment occupying the single position r0 is not fetched; alignments of length >= 2 are *)
Example first_bin_boundary : region_of 512 2047 2 5 = (513, 1280). Proof. vm_compute. reflexivity. Qed.
Print Assumptions no_alignment_lost.
