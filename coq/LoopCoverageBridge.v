(* C19: Intervals.coverage_fraction is read_coverage_fraction of src/common.py as regenerated into gen/Loops.v (tools/translate_loops.py, while
   fragment: a two-pointer sweep as a Fixpoint on fuel over the state (intersection, pos1, pos2); the final float division as an exact
   rational, ZeroDivisionError when the read has length 0).  For all inputs and every fuel above len(read) + len(isoform). *)
From Coq Require Import ZArith NArith QArith List Bool Lia ZifyBool.
From IQ.gen Require Import Prims Loops.
From IQ Require Import CorrSupport Intervals LoopsSupport LoopsIndexSupport LoopsRunSupport LoopTotalBridge.
Import ListNotations. Open Scope Z_scope.

Lemma inter_f_nil_l n B : inter_f n [] B = 0. Proof. destruct n; reflexivity. Qed.
Lemma inter_f_nil_r n A : inter_f n A [] = 0. Proof. destruct n; [reflexivity|]. destruct A; reflexivity. Qed.

Lemma coverage_loop_spec R I : forall fuel i j t, (i <= length R)%nat -> (j <= length I)%nat -> ((length R - i) + (length I - j) < fuel)%nat ->
  exists i' j', py_read_coverage_fraction_loop1 R I fuel (t, Z.of_nat i, Z.of_nat j) =
                py_Done (t + inter_f ((length R - i) + (length I - j)) (skipn i R) (skipn j I), i', j').
Proof. induction fuel as [|f IH]; intros i j t Hi Hj Hf; [lia|]. cbn [py_read_coverage_fraction_loop1].
  destruct (Nat.eq_dec i (length R)) as [Ei|Ei].
  { subst i. replace (Z.of_nat (length R) <? Z.of_nat (length R)) with false by lia. cbn [andb]. rewrite skipn_all, inter_f_nil_l.
    exists (Z.of_nat (length R)), (Z.of_nat j). rewrite Z.add_0_r. reflexivity. }
  destruct (Nat.eq_dec j (length I)) as [Ej|Ej].
  { subst j. replace (Z.of_nat (length I) <? Z.of_nat (length I)) with false by lia. rewrite andb_false_r. rewrite (skipn_all I), inter_f_nil_r.
    exists (Z.of_nat i), (Z.of_nat (length I)). rewrite Z.add_0_r. reflexivity. }
  assert (Li: (i < length R)%nat) by lia. assert (Lj: (j < length I)%nat) by lia.
  replace (Z.of_nat i <? Z.of_nat (length R)) with true by lia. replace (Z.of_nat j <? Z.of_nat (length I)) with true by lia. cbn [andb].
  rewrite (index_ok_nat R i Li), (index_ok_nat I j Lj), (py_index_nonneg R i (0, 0)), (py_index_nonneg I j (0, 0)). cbv zeta.
  rewrite (skipn_nth_cons R i (0, 0) Li), (skipn_nth_cons I j (0, 0) Lj).
  set (a := nth i R (0, 0)). set (b := nth j I (0, 0)).
  remember ((length R - i) + (length I - j))%nat as m eqn:Em. destruct m as [|m']; [lia|]. cbn [inter_f].
  assert (M1: ((length R - i) + (length I - S j))%nat = m') by lia.
  assert (M2: ((length R - S i) + (length I - j))%nat = m') by lia.
  destruct (py_overlaps a b).
  - destruct (snd b <? snd a); cbn [py_bind].
    + replace (Z.of_nat j + 1) with (Z.of_nat (S j)) by lia.
      match goal with |- context [py_read_coverage_fraction_loop1 R I f (?t', _, _)] => destruct (IH i (S j) t' ltac:(lia) ltac:(lia) ltac:(lia)) as (i' & j' & E) end.
      rewrite E, M1. exists i', j'. rewrite (skipn_nth_cons R i (0, 0) Li). fold a. f_equal. f_equal. f_equal. lia.
    + replace (Z.of_nat i + 1) with (Z.of_nat (S i)) by lia.
      match goal with |- context [py_read_coverage_fraction_loop1 R I f (?t', _, _)] => destruct (IH (S i) j t' ltac:(lia) ltac:(lia) ltac:(lia)) as (i' & j' & E) end.
      rewrite E, M2. exists i', j'. rewrite (skipn_nth_cons I j (0, 0) Lj). fold b. f_equal. f_equal. f_equal. lia.
  - destruct (py_left_of b a); cbn [py_bind].
    + replace (Z.of_nat j + 1) with (Z.of_nat (S j)) by lia.
      destruct (IH i (S j) t ltac:(lia) ltac:(lia) ltac:(lia)) as (i' & j' & E).
      rewrite E, M1. exists i', j'. rewrite (skipn_nth_cons R i (0, 0) Li). fold a. reflexivity.
    + replace (Z.of_nat i + 1) with (Z.of_nat (S i)) by lia.
      destruct (IH (S i) j t ltac:(lia) ltac:(lia) ltac:(lia)) as (i' & j' & E).
      rewrite E, M2. exists i', j'. rewrite (skipn_nth_cons I j (0, 0) Lj). fold b. reflexivity.
Qed.

Lemma qeq_bool_inject x : Qeq_bool (inject_Z x) (inject_Z 0) = (x =? 0).
Proof. unfold Qeq_bool, inject_Z. cbn [Qnum Qden]. rewrite Z.mul_1_r. destruct x; reflexivity. Qed.

Theorem read_coverage_fraction_is_the_source R I fuel : (length R + length I < fuel)%nat ->
  py_read_coverage_fraction fuel R I =
  match Intervals.coverage_fraction R I with Ok (i, t) => py_Done (Qdiv (inject_Z i) (inject_Z t)) | Raises k => py_Raises k end.
Proof. intros H. unfold py_read_coverage_fraction, coverage_fraction. cbv zeta.
  destruct (coverage_loop_spec R I fuel 0 0 0 ltac:(lia) ltac:(lia) ltac:(lia)) as (i' & j' & E). change (Z.of_nat 0) with 0 in E. rewrite E.
  cbn [py_bind skipn]. rewrite !Nat.sub_0_r, Z.add_0_l, qeq_bool_inject, <- total_is_the_source.
  destruct (total R =? 0); reflexivity. Qed.
