(* C08: what a retained record adds to the gene and transcript count tables (src/long_read_counter.py
   AssignedFeatureCounter.add_read_info, ReadWeightCounter.process_ambiguous / process_inconsistent), summed over the
   records of one read that the loader lets through.  The per-record weights are those of C02; here only the sum over
   the records of a multi-mapped read matters. *)
From Coq Require Import ZArith NArith QArith List Bool Lia Lqa.
From IQ Require Import CorrSupport Multimap2.
Import ListNotations. Open Scope Q_scope.

Record flags := { use_amb : bool; use_inc_minor : bool; use_inc : bool }.
Definition unique_only := {| use_amb := false; use_inc_minor := false; use_inc := false |}.
Definition with_ambiguous := {| use_amb := true; use_inc_minor := false; use_inc := false |}.
Definition unique_splicing_consistent := {| use_amb := false; use_inc_minor := true; use_inc := false |}.
Definition unique_inconsistent := {| use_amb := false; use_inc_minor := true; use_inc := true |}.
Definition all_strategy := {| use_amb := true; use_inc_minor := true; use_inc := true |}.

Definition qk (k:nat) : Q := inject_Z (Z.of_nat k).
Definition process_ambiguous (fl:flags) (k:nat) : Q :=
  match k with O => 0 | Datatypes.S O => 1 | _ => if use_amb fl then 1 / qk k else 0 end.
Definition process_inconsistent (fl:flags) (t:atype) (k:nat) : Q :=
  if atype_eqb t InconsAmbiguous || (1 <? k)%nat then (if use_amb fl && use_inc fl then 1 / qk k else 0)
  else if use_inc fl then 1 else if use_inc_minor fl && atype_eqb t InconsNonIntronic then 1 else 0.
Definition is_unassigned t := match t with Noninformative | Intergenic => true | _ => false end.
Definition is_unique t := match t with Unique | UniqueMinor => true | _ => false end.

(* the sum over all features of what add_read_info adds for one record.
   gene_level = false: transcript table (assignment_type, isoforms); true: gene table (gene_assignment_type, genes).
   The first test (`assignment_type.is_unassigned() or not isoform_matches`) looks at the transcript-level type in both. *)
Definition record_total (fl:flags) (gene_level:bool) (a:rec) : Q :=
  let t := if gene_level then gty a else ty a in
  let k := distinct_count (if gene_level then gns a else isos a) in
  if is_unassigned (ty a) || (distinct_count (isos a) =? 0)%nat then 0
  else if atype_eqb t Ambiguous then qk k * process_ambiguous fl k
  else if is_inconsistent t then qk k * process_inconsistent fl t k
  else if is_unique t && negb (k =? 0)%nat then 1
  else 0.
Definition contribution (fl:flags) (gene_level:bool) (loaded:list rec) : Q :=
  fold_right (fun a acc => record_total fl gene_level a + acc) 0 loaded.

(* the records of one read that reach the counters: resolve, then the loader *)
Definition loaded_records (g:list rec) : list rec :=
  match resolve TakeBest g with
  | Ok out => flat_map (fun r => match apply_verdict (nonempty_opt (filter (fun a => (chr a =? chr r)%Z) out)) r with Some r' => [r'] | None => [] end) g
  | Raises _ => []
  end.

Lemma qk_pos k : (0 < k)%nat -> 0 < qk k. Proof. intros H. unfold qk, Qlt; simpl. lia. Qed.
Lemma k_inv_k k : (0 < k)%nat -> qk k * (1 / qk k) == 1.
Proof. intros H. pose proof (qk_pos k H). field. lra. Qed.
Lemma qk_1 : qk 1 == 1. Proof. reflexivity. Qed.

(* one record never adds more than one *)
Theorem record_total_range fl gl a : 0 <= record_total fl gl a <= 1.
Proof. unfold record_total. set (t := if gl then gty a else ty a). set (k := distinct_count (if gl then gns a else isos a)).
  destruct (is_unassigned (ty a) || (distinct_count (isos a) =? 0)%nat); [split; lra|].
  destruct (atype_eqb t Ambiguous).
  { unfold process_ambiguous. destruct k as [|[|k']].
    - change (qk 0) with 0. split; lra.
    - rewrite qk_1. split; lra.
    - destruct (use_amb fl); [rewrite k_inv_k by lia; split; lra|split; lra]. }
  destruct (is_inconsistent t).
  { unfold process_inconsistent. destruct (atype_eqb t InconsAmbiguous || (1 <? k)%nat) eqn:E.
    - destruct (use_amb fl && use_inc fl); [|split; lra]. destruct k as [|k']; [change (qk 0) with 0; split; lra|]. rewrite k_inv_k by lia. split; lra.
    - apply orb_false_elim in E. destruct E as [_ E]. apply Nat.ltb_ge in E.
      assert (Hk: k = 0%nat \/ k = 1%nat) by lia. destruct Hk as [-> | ->].
      + change (qk 0) with 0. split; lra.
      + rewrite qk_1. destruct (use_inc fl); [split; lra|]. destruct (use_inc_minor fl && atype_eqb t InconsNonIntronic); split; lra. }
  destruct (is_unique t && negb (k =? 0)%nat); split; lra. Qed.

Theorem contribution_le_count fl gl loaded : 0 <= contribution fl gl loaded <= inject_Z (Z.of_nat (length loaded)).
Proof. induction loaded as [|a t IH]; cbn [contribution fold_right length].
  - change (inject_Z (Z.of_nat 0)) with 0. split; lra.
  - fold (contribution fl gl t). pose proof (record_total_range fl gl a) as R. rewrite Nat2Z.inj_succ, <- Z.add_1_l, inject_Z_plus.
    change (inject_Z 1) with 1. split; lra. Qed.
(* a read retained on one record contributes at most one to each table *)
Theorem contribution_le_1_partial fl gl loaded : (length loaded <= 1)%nat -> contribution fl gl loaded <= 1.
Proof. intros H. pose proof (contribution_le_count fl gl loaded) as [_ C].
  assert (inject_Z (Z.of_nat (length loaded)) <= 1) by (unfold Qle; cbn; lia). lra. Qed.

(* retained on two loci with one isoform each: both records are re-typed `ambiguous`, each with a single feature, and
   process_ambiguous(1) = 1 - the read counts twice, under every counting strategy including unique_only *)
Definition mA := (mkrec 1 1 1 100 200 (50, 300) true false Unique Unique 0 [1] [1])%Z.
Definition mB := (mkrec 2 1 2 100 200 (50, 300) true false Unique Unique 0 [2] [2])%Z.
Example contribution_le_1_refuted :
  verdicts (loaded_records [mA; mB]) = [(Ambiguous, Ambiguous, true); (Ambiguous, Ambiguous, true)] /\
  contribution unique_only false (loaded_records [mA; mB]) == 2 /\ contribution unique_only true (loaded_records [mA; mB]) == 2 /\
  contribution all_strategy false (loaded_records [mA; mB]) == 2.
Proof. vm_compute. repeat split; reflexivity. Qed.
(* two retained alignments of one read to the same isoform stay `unique` and count twice as well *)
Definition mA' := (mkrec 3 1 1 100 260 (50, 300) true false Unique Unique 0 [1] [1])%Z.
Example contribution_same_isoform_refuted :
  verdicts (loaded_records [mA; mA']) = [(Unique, Unique, true); (Unique, Unique, true)] /\ contribution unique_only false (loaded_records [mA; mA']) == 2.
Proof. vm_compute. repeat split; reflexivity. Qed.
(* whereas one ambiguous record naming both isoforms contributes 1/2 + 1/2 (or nothing) *)
Definition mAB := (mkrec 1 1 1 100 200 (50, 300) false false Ambiguous Unique 0 [1; 2] [1])%Z.
Example contribution_single_ambiguous : contribution with_ambiguous false [mAB] == 1 /\ contribution unique_only false [mAB] == 0 /\ contribution unique_only true [mAB] == 1.
Proof. vm_compute. repeat split; reflexivity. Qed.

(* ---------- support for the correspondence with the real counters ---------- *)
(* case: ((flags, gene_level), records of one read behind the loader, what the real counter accumulated over all features) *)
Definition weight_check (c:(flags * bool) * list rec * Q) : bool :=
  let '(fg, recs, q) := c in Qeq_bool (contribution (fst fg) (snd fg) recs) q.
Definition weight_prop (c:(flags * bool) * list rec * Q) : bool := let '(_, _, q) := c in Qle_bool q 1.
