(* C09, the group universe: how the set of read groups reaches the counters.
   Stage 1 (src/dataset_processor.py collect_reads_in_parallel), per chromosome: the grouper registers in read_groups the answer of every
   get_group_id call; the set is written to <raw>_<chr>_groups, one group per line, and returned to the parent (on --resume it is read
   back from that file, every line passed through str.strip()).  collect_reads: the parent takes the union over the chromosomes in the
   order of the chromosome list and writes it with write_list(list(set)) into <raw>_info; load_read_info reads it back into a set;
   ReadAssignmentAggregator hands that set to AssignedFeatureCounter: ordered_groups = sorted(read_groups), group_numeric_ids = positions.
   A Python set is modelled as a duplicate-free list; every place where a set is enumerated (file lines, list(set)) takes the
   enumeration as a parameter, so the theorems hold for every enumeration order (= every hash seed). *)
From Coq Require Import ZArith QArith List Bool Lia Lqa Permutation.
From IQ Require Import Counting CountingCounter CountingProofs GroupedProofs GroupedGroupers.
Import ListNotations.
Open Scope Z_scope.

(* ---------------------------------------------------------------- sets of strings *)
Definition mem_str (x:str) (l:list str) : bool := existsb (str_eqb x) l.
Definition add_str (s:list str) (x:str) : list str := if mem_str x s then s else s ++ [x].           (* set.add *)
Definition update_str (s:list str) (l:list str) : list str := fold_left add_str l s.                 (* set.update / set(l) *)
Definition set_of (l:list str) : list str := update_str [] l.
Lemma mem_str_In x l : mem_str x l = true <-> In x l.
Proof. unfold mem_str. rewrite existsb_exists. split.
  - intros [y [H E]]. apply str_eqb_eq in E. subst. exact H.
  - intros H. exists x. split; [exact H|apply str_eqb_eq; reflexivity]. Qed.
Lemma add_str_In s x y : In y (add_str s x) <-> y = x \/ In y s.
Proof. unfold add_str. destruct (mem_str x s) eqn:M.
  - apply mem_str_In in M. split; [auto|intros [E|H]; [subst; exact M|exact H]].
  - rewrite in_app_iff. cbn [In]. split; [intros [H|[H|[]]]; auto|intros [E|H]; auto]. Qed.
Lemma add_str_NoDup s x : NoDup s -> NoDup (add_str s x).
Proof. intros N. unfold add_str. destruct (mem_str x s) eqn:M; [exact N|].
  assert (~ In x s) by (intros H; apply mem_str_In in H; congruence). clear M.
  induction s as [|h t IH]; cbn [app]; [constructor; [intros []|constructor]|]. inversion N; subst. constructor.
  - rewrite in_app_iff. cbn [In]. intros [A|[A|[]]]; [contradiction|subst; apply H; left; reflexivity].
  - apply IH; [assumption|intros A; apply H; right; exact A]. Qed.
Lemma update_str_In l : forall s y, In y (update_str s l) <-> In y s \/ In y l.
Proof. induction l as [|x t IH]; intros s y; cbn [update_str fold_left]; [cbn [In]; tauto|]. fold (update_str (add_str s x) t).
  rewrite IH, add_str_In. cbn [In]. split; [intros [[E|H]|H]; auto|intros [H|[E|H]]; auto]. Qed.
Lemma update_str_NoDup l : forall s, NoDup s -> NoDup (update_str s l).
Proof. induction l as [|x t IH]; intros s N; cbn [update_str fold_left]; [exact N|]. apply IH, add_str_NoDup, N. Qed.
Lemma set_of_In l y : In y (set_of l) <-> In y l.
Proof. unfold set_of. rewrite update_str_In. cbn [In]. tauto. Qed.

(* ---------------------------------------------------------------- stage 1, the group file, the info file *)
(* read_groups of one chromosome after its alignments were grouped: answers = the values get_group_id returned, in processing order *)
Definition registered_groups (answers:list str) : list str := set_of answers.
(* for g in read_groups: group_dump.write("%s\n" % g) - in the enumeration order of the set *)
Definition file_text (groups:list str) : str := flat_map (fun g => g ++ [10]) groups.
(* for g in open(group_file): text mode with universal newlines - "\n", "\r" and "\r\n" end a line; the contents of the lines (without terminator) *)
Fixpoint read_lines_go (s cur:str) (after_cr:bool) : list str :=
  match s with
  | [] => match cur with [] => [] | _ => [rev cur] end
  | c :: t => if c =? 10 then (if after_cr then read_lines_go t [] false else rev cur :: read_lines_go t [] false)
              else if c =? 13 then rev cur :: read_lines_go t [] true
              else read_lines_go t (c :: cur) false
  end.
Definition read_lines (text:str) : list str := read_lines_go text [] false.
(* resume: read_groups.clear(); for g in open(group_file): read_groups.add(g.rstrip("\n")) - the terminator only (repaired, commit 40e2502);
   before the repair: g.strip() *)
Fixpoint lstrip_nl (s:str) : str := match s with c :: t => if c =? 10 then lstrip_nl t else s | [] => [] end.
Definition rstrip_nl (s:str) : str := rev (lstrip_nl (rev s)).
Definition read_group_file_gen (clean:str -> str) (text:str) : list str := set_of (map clean (read_lines text)).
Definition read_group_file := read_group_file_gen rstrip_nl.
Definition read_group_file_unrepaired := read_group_file_gen strip.
(* what collect_reads_in_parallel returns for one chromosome *)
Definition chr_groups_gen (clean:str -> str) (resume:bool) (enum:list str -> list str) (answers:list str) : list str :=
  if resume then read_group_file_gen clean (file_text (enum (registered_groups answers))) else registered_groups answers.
Definition chr_groups := chr_groups_gen rstrip_nl.
Definition chr_groups_unrepaired := chr_groups_gen strip.
(* the parent: all_read_groups.update(read_groups) per chromosome; write_list(list(all_read_groups)); load_read_info: set(read_list(...)) *)
Definition union_groups (per_chr:list (list str)) : list str := fold_left update_str per_chr [].
Definition universe_gen (clean:str -> str) (resume:bool) (enum_file enum_info:list str -> list str) (chrs:list (list str)) : list str :=
  set_of (enum_info (union_groups (map (chr_groups_gen clean resume enum_file) chrs))).
Definition universe := universe_gen rstrip_nl.
Definition universe_unrepaired := universe_gen strip.
Definition enumeration (enum:list str -> list str) : Prop := forall l x, In x (enum l) <-> In x l.
(* a name without line terminators *)
Definition no_newline (g:str) : bool := forallb (fun c => negb ((c =? 10) || (c =? 13))) g.

Lemma union_groups_In (per_chr:list (list str)) y : In y (union_groups per_chr) <-> exists s, In s per_chr /\ In y s.
Proof. unfold union_groups. assert (G: forall l u, In y (fold_left update_str l u) <-> In y u \/ exists s, In s l /\ In y s).
  { induction l as [|s t IH]; intros u; cbn [fold_left].
    - split; [auto|intros [H|[s [[] _]]]; exact H].
    - rewrite IH, update_str_In. split.
      + intros [[H|H]|[s' [H1 H2]]]; [left; exact H|right; exists s; split; [left; reflexivity|exact H]|right; exists s'; split; [right; exact H1|exact H2]].
      + intros [H|[s' [[E|H1] H2]]]; [left; left; exact H|subst; left; right; exact H2|right; exists s'; split; assumption]. }
  rewrite G. cbn [In]. tauto. Qed.
(* a file written from names without line terminators is read back line by line *)
Lemma read_lines_go_line : forall g rest cur, no_newline g = true -> read_lines_go (g ++ 10 :: rest) cur false = rev (rev g ++ cur) :: read_lines_go rest [] false.
Proof. induction g as [|c t IH]; intros rest cur N; cbn [app read_lines_go]; [rewrite Z.eqb_refl; reflexivity|].
  cbn [no_newline forallb] in N. apply andb_true_iff in N. destruct N as [N1 N2]. apply negb_true_iff, orb_false_iff in N1. destruct N1 as [A B]. rewrite A, B.
  rewrite (IH rest (c :: cur) N2). cbn [rev]. rewrite <- app_assoc. reflexivity. Qed.
Lemma read_lines_file_text groups : (forall g, In g groups -> no_newline g = true) -> read_lines (file_text groups) = groups.
Proof. unfold read_lines. induction groups as [|g t IH]; intros H; [reflexivity|]. cbn [file_text flat_map]. rewrite <- app_assoc. cbn [app].
  rewrite read_lines_go_line by (apply H; left; reflexivity). rewrite app_nil_r, rev_involutive. f_equal. apply IH. intros x Hx. apply H. right. exact Hx. Qed.
Lemma rstrip_nl_id g : no_newline g = true -> rstrip_nl g = g.
Proof. intros N. unfold rstrip_nl. assert (L: lstrip_nl (rev g) = rev g).
  { destruct (rev g) as [|c t] eqn:E; [reflexivity|]. cbn [lstrip_nl]. assert (I: In c g) by (apply in_rev; rewrite E; left; reflexivity).
    unfold no_newline in N. rewrite forallb_forall in N. specialize (N c I). apply negb_true_iff, orb_false_iff in N. destruct N as [A _]. rewrite A. reflexivity. }
  rewrite L. apply rev_involutive. Qed.
Lemma chr_groups_gen_In clean resume enum answers y : enumeration enum ->
  (resume = true -> forall g, In g answers -> no_newline g = true /\ clean g = g) ->
  (In y (chr_groups_gen clean resume enum answers) <-> In y answers).
Proof. intros E S. unfold chr_groups_gen, read_group_file_gen, registered_groups. destruct resume; [|apply set_of_In].
  assert (NN: forall g, In g (enum (set_of answers)) -> no_newline g = true).
  { intros g H. apply (proj1 (E _ _)) in H. apply (proj1 (set_of_In _ _)) in H. apply (S eq_refl g H). }
  rewrite (read_lines_file_text _ NN), set_of_In, in_map_iff. split.
  - intros [g [Eg H]]. apply (proj1 (E _ _)) in H. apply (proj1 (set_of_In _ _)) in H. rewrite (proj2 (S eq_refl g H)) in Eg. subst. exact H.
  - intros H. exists y. split; [apply (S eq_refl), H|apply (proj2 (E _ _)), (proj2 (set_of_In _ _)), H]. Qed.

Section Universe.
Variable clean : str -> str.
Variables (resume:bool) (enum_file enum_info:list str -> list str) (chrs:list (list str)).
Hypothesis E1 : enumeration enum_file.
Hypothesis E2 : enumeration enum_info.
Hypothesis S : resume = true -> forall answers g, In answers chrs -> In g answers -> no_newline g = true /\ clean g = g.
Lemma universe_gen_complete answers g : In answers chrs -> In g answers -> In g (universe_gen clean resume enum_file enum_info chrs).
Proof. intros Ha Hg. unfold universe_gen. apply (proj2 (set_of_In _ _)), (proj2 (E2 _ _)), (proj2 (union_groups_In _ _)).
  exists (chr_groups_gen clean resume enum_file answers). split; [apply in_map, Ha|].
  apply chr_groups_gen_In; [exact E1|intros R g' Hg'; apply (S R answers g' Ha Hg')|exact Hg]. Qed.
Lemma universe_gen_sound g : In g (universe_gen clean resume enum_file enum_info chrs) -> exists answers, In answers chrs /\ In g answers.
Proof. intros H. unfold universe_gen in H. apply (proj1 (set_of_In _ _)) in H. apply (proj1 (E2 _ _)) in H. apply (proj1 (union_groups_In _ _)) in H. destruct H as [s [Hs Hg]].
  apply in_map_iff in Hs. destruct Hs as [answers [Es Ha]]. subst s. exists answers. split; [exact Ha|].
  apply (chr_groups_gen_In clean resume enum_file answers g E1); [intros R g' Hg'; apply (S R answers g' Ha Hg')|exact Hg]. Qed.
End Universe.

(* every group a processed read carries is in the universe the counters are built with - for every distribution of the reads over the chromosomes,
   every order of the chromosomes and every enumeration order of the sets; on --resume for names without a line terminator ("\n", "\r"): the group
   file has one name per line *)
Theorem universe_complete resume enum_file enum_info chrs : enumeration enum_file -> enumeration enum_info ->
  (resume = true -> forall answers g, In answers chrs -> In g answers -> no_newline g = true) ->
  forall answers g, In answers chrs -> In g answers -> In g (universe resume enum_file enum_info chrs).
Proof. intros E1 E2 S. apply (universe_gen_complete rstrip_nl resume enum_file enum_info chrs E1 E2).
  intros R answers g Ha Hg. split; [apply (S R answers g Ha Hg)|apply rstrip_nl_id, (S R answers g Ha Hg)]. Qed.
(* ... and nothing else is: a group of the universe was returned by the grouper for some alignment of some chromosome *)
Theorem universe_sound resume enum_file enum_info chrs : enumeration enum_file -> enumeration enum_info ->
  (resume = true -> forall answers g, In answers chrs -> In g answers -> no_newline g = true) ->
  forall g, In g (universe resume enum_file enum_info chrs) -> exists answers, In answers chrs /\ In g answers.
Proof. intros E1 E2 S. apply (universe_gen_sound rstrip_nl resume enum_file enum_info chrs E1 E2).
  intros R answers g Ha Hg. split; [apply (S R answers g Ha Hg)|apply rstrip_nl_id, (S R answers g Ha Hg)]. Qed.
Theorem universe_NoDup resume enum_file enum_info chrs : NoDup (universe resume enum_file enum_info chrs).
Proof. unfold universe, universe_gen, set_of. apply update_str_NoDup. constructor. Qed.
(* the code before the repair needed names without white space at their ends as well *)
Theorem universe_complete_unrepaired resume enum_file enum_info chrs : enumeration enum_file -> enumeration enum_info ->
  (resume = true -> forall answers g, In answers chrs -> In g answers -> no_newline g = true /\ strip g = g) ->
  forall answers g, In answers chrs -> In g answers -> In g (universe_unrepaired resume enum_file enum_info chrs).
Proof. intros E1 E2 S. apply (universe_gen_complete strip resume enum_file enum_info chrs E1 E2 S). Qed.
(* ... and lost " g1" (a CSV table written "read, g1"): read back as "g1" while the reads carry " g1"; the repaired read-back keeps it *)
Example universe_complete_resume_padded_refuted :
  let g := [32; 103; 49] in
  universe_unrepaired true (fun l => l) (fun l => l) [[g]] = [[103; 49]] /\ mem_str g (universe_unrepaired true (fun l => l) (fun l => l) [[g]]) = false /\
  universe true (fun l => l) (fun l => l) [[g]] = [g] /\ universe_unrepaired false (fun l => l) (fun l => l) [[g]] = [g].
Proof. vm_compute. repeat split; reflexivity. Qed.
(* what remains after the repair: a name that contains a line terminator is cut into two lines of the group file *)
Example universe_complete_resume_newline_refuted :
  let g := [97; 10; 98] in
  universe true (fun l => l) (fun l => l) [[g]] = [[97]; [98]] /\ mem_str g (universe true (fun l => l) (fun l => l) [[g]]) = false.
Proof. vm_compute. split; reflexivity. Qed.

(* ---------------------------------------------------------------- AssignedFeatureCounter.__init__: sorted(read_groups), positions *)
Fixpoint str_ltb (a b:str) : bool :=
  match a, b with [], [] => false | [], _ :: _ => true | _ :: _, [] => false | x :: s, y :: t => (x <? y) || ((x =? y) && str_ltb s t) end.
Fixpoint ins_str (x:str) (l:list str) : list str :=
  match l with [] => [x] | h :: t => if str_ltb x h then x :: l else if str_eqb x h then l else h :: ins_str x t end.
Definition sort_strs (l:list str) : list str := fold_right ins_str [] l.
Fixpoint index_of (g:str) (l:list str) : option nat :=
  match l with [] => None | h :: t => if str_eqb h g then Some O else match index_of g t with Some i => Some (Datatypes.S i) | None => None end end.
Lemma ins_str_In x l y : In y (ins_str x l) <-> y = x \/ In y l.
Proof. induction l as [|h t IH]; cbn [ins_str In]; [split; [intros [H|[]]; auto|intros [H|[]]; auto]|].
  destruct (str_ltb x h); [cbn [In]; split; [intros [H|H]; auto|intros [H|H]; auto]|].
  destruct (str_eqb x h) eqn:E.
  - apply str_eqb_eq in E. subst. cbn [In]. split; [auto|intros [H|H]; auto].
  - cbn [In]. rewrite IH. split; [intros [H|[H|H]]; auto|intros [H|[H|H]]; auto]. Qed.
Lemma sort_strs_In l y : In y (sort_strs l) <-> In y l.
Proof. induction l as [|x t IH]; cbn [sort_strs fold_right In]; [tauto|]. fold (sort_strs t). rewrite ins_str_In, IH. split; intros [H|H]; auto. Qed.
Lemma index_of_In g l : In g l -> exists i, index_of g l = Some i /\ nth i l [] = g.
Proof. induction l as [|h t IH]; cbn [In index_of]; [intros []|]. intros H. destruct (str_eqb h g) eqn:E.
  - apply str_eqb_eq in E. exists O. split; [reflexivity|exact E].
  - destruct H as [H|H]; [subst; assert (str_eqb g g = true) by (apply str_eqb_eq; reflexivity); congruence|].
    destruct (IH H) as [i [A B]]. rewrite A. exists (Datatypes.S i). split; [reflexivity|exact B]. Qed.
(* AssignedFeatureCounter.__init__: an empty collection makes the counter an ungrouped one (ordered_groups = [NA]) *)
Definition counter_ordered (univ:list str) : list str := match univ with [] => [NA] | _ => sort_strs univ end.
(* group_numeric_ids[g] is defined for every group a processed read carries, and ordered_groups[id] is that group again *)
Theorem universe_ids_defined resume enum_file enum_info chrs : enumeration enum_file -> enumeration enum_info ->
  (resume = true -> forall answers g, In answers chrs -> In g answers -> no_newline g = true) ->
  forall answers g, In answers chrs -> In g answers ->
  let ordered := counter_ordered (universe resume enum_file enum_info chrs) in
  exists i, index_of g ordered = Some i /\ nth i ordered [] = g.
Proof. intros E1 E2 S answers g Ha Hg ordered. apply index_of_In. unfold ordered, counter_ordered.
  pose proof (universe_complete resume enum_file enum_info chrs E1 E2 S answers g Ha Hg) as U.
  destruct (universe resume enum_file enum_info chrs) as [|u0 ut] eqn:E; [destruct U|]. apply sort_strs_In. exact U. Qed.

(* ---------------------------------------------------------------- the counter model (groups as order-preserving integer codes) *)
(* a counter built with a universe that contains the group never fails on it (no KeyError, no read dropped) *)
Theorem universe_group_known s lv na groups z fmt g : In g groups -> exists gid, lookup_gid (mk_counter s lv na groups z fmt) g = Some gid.
Proof. intros H. assert (NE: groups <> []) by (intros E; subst; destruct H).
  destruct (mk_counter_repaired s lv na groups z fmt NE) as [I [Gi _]]. unfold lookup_gid. rewrite I, Gi, enumerate_enum_from.
  apply assoc_enum_some. unfold mk_counter, mk_counter_gen. destruct groups as [|g0 t]; [destruct H|]. cbn [c_ordered]. apply In_sortz. exact H. Qed.
(* a group of the universe that no counted record carries (its reads were dropped after grouping, or it occurs on other features only): its cell is 0 *)
Theorem unused_group_zero_cell s lv evs f g : (forall ev, In ev evs -> ev_group ev <> Some g) -> (spec_cell s lv evs f (Some g) == 0)%Q.
Proof. intros H. unfold spec_cell. destruct (existsb (spec_confirms lv f) evs); [|lra]. apply qsum'_zero. intros ev Hev.
  rewrite contrib_sel. destruct (ev_group ev) as [x|] eqn:E; [|lra]. destruct (g =? x) eqn:Q; [|lra].
  apply Z.eqb_eq in Q. subst x. exfalso. apply (H ev Hev). exact E. Qed.
