(* C02: every member of ReadAssignmentType (gen/Tables.v) is the image of exactly one assignment type of the model Counting.v, and the
   (matrix, linear) pairs of GroupedOutputFormat (gen/Extra.v).  Both generated files are refreshed from the source on every check. *)
From Coq Require Import ZArith NArith QArith List Bool.
From IQ Require Import Counting CountingBridgeDefs.
From IQ.gen Require Import Tables Extra.
Import ListNotations.

(* every member of ReadAssignmentType is the image of exactly one assignment type of the model *)
Lemma rat_of_onto : forall x:RAT, exists t, rat_of t = x.
Proof. intros x; destruct x;
  [exists Unique|exists Noninformative|exists Intergenic|exists Ambiguous|exists UniqueMinor|exists Inconsistent
  |exists InconsNonIntronic|exists InconsAmbiguous|exists Suspended]; reflexivity. Qed.
Lemma rat_of_inj : forall a b, rat_of a = rat_of b -> a = b.
Proof. intros a b; destruct a, b; simpl; intros H; try reflexivity; discriminate H. Qed.

(* GroupedOutputFormat.output_matrix / output_linear: the pair (c_matrix, c_linear) the correspondences hand to mk_counter *)
Lemma grouped_format_is_the_source :
  GOF_all = [GOF_matrix; GOF_linear; GOF_both] /\ map fmt_of GOF_all = [(true, false); (false, true); (true, true)].
Proof. split; reflexivity. Qed.
