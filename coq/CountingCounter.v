(* Faithful model of src/long_read_counter.py AssignedFeatureCounter (after the repair fixes/C09_linear_labels.diff; the
   unrepaired constructor is kept as mk_counter_cur), of file_utils.merge_counts and of convert_counts_to_tpm, over Q.
   Identifiers (features, groups) are integers; the harness interns names order-preservingly, so that Python's sorted()
   on the names is sortz on the codes.  A Python exception is modelled as None. *)
From Coq Require Import ZArith NArith QArith Qabs List Bool Lia Lqa.
From IQ Require Import Counting.
Import ListNotations.
Open Scope Z_scope.

(* ---------------------------------------------------------------- small sets of integers *)
Definition memz (x:Z) (l:list Z) : bool := existsb (Z.eqb x) l.
Definition addz (x:Z) (l:list Z) : list Z := if memz x l then l else x :: l.
Fixpoint nodupz (l:list Z) : list Z := match l with [] => [] | x :: t => if memz x t then nodupz t else x :: nodupz t end.
(* sorted(set): insertion sort that drops duplicates *)
Fixpoint insz (x:Z) (l:list Z) : list Z :=
  match l with [] => [x] | h :: t => if x <? h then x :: l else if x =? h then l else h :: insz x t end.
Definition sortz (l:list Z) : list Z := fold_right insz [] l.
Definition add_all (a:list Z) (fs:list Z) : list Z := fold_left (fun a f => addz f a) fs a.

(* ---------------------------------------------------------------- IncrementalDict / defaultdict(IncrementalDict) *)
Notation gdict := (list (Z * Q)).            (* numeric group id -> value, in insertion order *)
Notation fdict := (list (Z * list (Z * Q))). (* feature -> gdict *)
Fixpoint inc_g (d:gdict) (g:Z) (v:Q) : gdict :=
  match d with [] => [(g, v)] | p :: t => if fst p =? g then (fst p, (snd p + v)%Q) :: t else p :: inc_g t g v end.
Fixpoint get_g (d:gdict) (g:Z) : Q := match d with [] => 0%Q | p :: t => if fst p =? g then snd p else get_g t g end.
Fixpoint inc_f (c:fdict) (f g:Z) (v:Q) : fdict :=
  match c with [] => [(f, [(g, v)])] | p :: t => if fst p =? f then (fst p, inc_g (snd p) g v) :: t else p :: inc_f t f g v end.
Fixpoint entries (c:fdict) (f:Z) : gdict := match c with [] => [] | p :: t => if fst p =? f then snd p else entries t f end.
Definition get (c:fdict) (f g:Z) : Q := get_g (entries c f) g.
Definition inc_all (c:fdict) (fs:list Z) (g:Z) (v:Q) : fdict := fold_left (fun c f => inc_f c f g v) fs c.

(* ---------------------------------------------------------------- read assignments as the counters see them *)
Record amatch := mkm { m_tr : option Z; m_gene : option Z }.    (* IsoformMatch.assigned_transcript / assigned_gene *)
Record rassign := mkra { ra_type : atype;        (* assignment_type *)
                         ra_gtype : atype;       (* gene_assignment_type *)
                         ra_matches : list amatch;
                         ra_group : Z;           (* read_group *)
                         ra_mono : bool;         (* len(gene_info.all_isoforms_introns[isoform_matches[0].assigned_transcript]) == 0 *)
                         ra_nexons : Z }.        (* len(corrected_exons) *)
Inductive level := GeneLevel | TranscriptLevel.  (* GeneAssignmentExtractor / TranscriptAssignmentExtractor *)
Inductive event :=
  | ENone                                         (* add_read_info(None) *)
  | ERead (r:rassign)                             (* add_read_info(read_assignment) *)
  | ERaw (has_id:bool) (feats:list Z) (g:Z)       (* add_read_info_raw(read_id, feature_ids, group_id) *)
  | EUnassigned (n:Z) | EUnaligned (n:Z)          (* add_unassigned / add_unaligned *)
  | EConfirm (fs:list Z).                         (* add_confirmed_features *)

Definition opt_list (o:option Z) : list Z := match o with Some x => [x] | None => [] end.
Definition feats_of (lv:level) (r:rassign) : list Z :=
  nodupz (flat_map (fun m => opt_list (match lv with GeneLevel => m_gene m | TranscriptLevel => m_tr m end)) (ra_matches r)).
Definition type_of (lv:level) (r:rassign) : atype := match lv with GeneLevel => ra_gtype r | TranscriptLevel => ra_type r end.
Definition confirms (lv:level) (r:rassign) : bool :=
  match lv with GeneLevel => is_unique (ra_gtype r)
              | TranscriptLevel => is_unique (ra_type r) && (ra_mono r || (1 <? ra_nexons r)) end.
Definition no_matches (r:rassign) : bool := match ra_matches r with [] => true | _ => false end.
Definition first_tr_none (r:rassign) : bool :=
  match ra_matches r with m :: _ => match m_tr m with None => true | Some _ => false end | [] => false end.
(* the record passes the three early returns of add_read_info *)
Definition counted (r:rassign) : bool := negb (is_unassigned (ra_type r)) && negb (no_matches r) && negb (first_tr_none r).

(* ---------------------------------------------------------------- the counter *)
Record cfg := mkcfg { c_strategy : strategy; c_level : level;
                      c_ignore : bool;              (* ignore_read_groups = not read_groups *)
                      c_na : Z;                     (* code of AbstractReadGrouper.default_group_id *)
                      c_gids : list (Z * Z);        (* group_numeric_ids *)
                      c_ordered : list Z;           (* ordered_groups *)
                      c_zeroes : bool; c_matrix : bool; c_linear : bool }.
Definition c_fl (cf:cfg) : flags := flags_of (c_strategy cf).
Definition enumerate (l:list Z) : list (Z * Z) := combine l (map Z.of_nat (seq 0 (length l))).
(* AssignedFeatureCounter.__init__: fmt = (output_matrix, output_linear) *)
Definition mk_counter_gen (enum:list Z -> list Z) (s:strategy) (lv:level) (na:Z) (groups:list Z) (zeroes:bool) (fmt:bool*bool) : cfg :=
  match groups with
  | [] => mkcfg s lv true na [(na, 0)] [na] zeroes (fst fmt) (snd fmt)
  | _ => mkcfg s lv false na (enumerate (enum groups)) (sortz groups) zeroes (fst fmt) (snd fmt)
  end.
(* repaired: ids are the positions in the sorted list *)
Definition mk_counter := mk_counter_gen sortz.
(* current code: ids are the positions in the enumeration order of the collection that was passed in *)
Definition mk_counter_cur := mk_counter_gen (fun g => g).

Fixpoint assoc (g:Z) (l:list (Z*Z)) : option Z := match l with [] => None | p :: t => if fst p =? g then Some (snd p) else assoc g t end.
Definition lookup_gid (cf:cfg) (g:Z) : option Z := assoc (if c_ignore cf then c_na cf else g) (c_gids cf).

Record cstate := mkst { all_feats : list Z; fcount : fdict; confirmed : list Z;
                        n_amb : Z; n_tpm : Z; n_noassign : Z; n_noalign : Z }.
Definition init_state (complete:list Z) : cstate := mkst (nodupz complete) [] [] 0 0 0 0.
Definition qpos (q:Q) : bool := negb (Qle_bool q 0).

Definition add_read_info (cf:cfg) (st:cstate) (r:rassign) : option cstate :=
  let '(mkst a c cfm na nt nn nl) := st in
  if is_unassigned (ra_type r) || no_matches r then Some (mkst a c cfm na nt (nn + 1) nl)
  else if first_tr_none r then Some (mkst a c cfm na nt (nn + 1) nl)
  else
    let fs := feats_of (c_level cf) r in
    let t := type_of (c_level cf) r in
    let k := length fs in
    match lookup_gid cf (ra_group r) with
    | None => None                                   (* KeyError: group not in the universe *)
    | Some gid =>
      match t with
      | Ambiguous =>
          let w := process_ambiguous (c_fl cf) k in
          Some (mkst (if qpos w then add_all a fs else a) (inc_all c fs gid w) cfm (na + 1) (nt + 1) nn nl)
      | Inconsistent | InconsNonIntronic | InconsAmbiguous =>
          if is_ia t && Nat.eqb k 0 && use_amb (c_fl cf) && use_inc (c_fl cf) then None     (* ZeroDivisionError *)
          else let w := process_inconsistent (c_fl cf) t k in
               if qpos w then Some (mkst (add_all a fs) (inc_all c fs gid w) cfm na (nt + 1) nn nl)
               else Some (mkst a c cfm na (nt + 1) nn nl)
      | Unique | UniqueMinor =>
          match fs with
          | [] => None                               (* IndexError: list(feature_ids)[0] *)
          | f :: _ => Some (mkst (addz f a) (inc_f c f gid 1%Q) (if confirms (c_level cf) r then addz f cfm else cfm) na (nt + 1) nn nl)
          end
      | _ => Some (mkst a c cfm na (nt + 1) nn nl)
      end
    end.

Definition add_read_info_raw (cf:cfg) (st:cstate) (has_id:bool) (fs:list Z) (g:Z) : option cstate :=
  let '(mkst a c cfm na nt nn nl) := st in
  match lookup_gid cf g with
  | None => None
  | Some gid =>
    if negb has_id then Some (mkst a c cfm na nt nn (nl + 1))
    else match fs with
         | [] => Some (mkst a c cfm na nt (nn + 1) nl)
         | [f] => Some (mkst (addz f a) (inc_f c f gid 1%Q) cfm na (nt + 1) nn nl)
         | _ => Some (mkst (add_all a fs) (inc_all c fs gid (process_ambiguous (c_fl cf) (length fs))) cfm (na + 1) (nt + 1) nn nl)
         end
  end.

Definition step (cf:cfg) (st:cstate) (ev:event) : option cstate :=
  match ev with
  | ENone => let '(mkst a c cfm na nt nn nl) := st in Some (mkst a c cfm na nt nn (nl + 1))
  | ERead r => add_read_info cf st r
  | ERaw h fs g => add_read_info_raw cf st h fs g
  | EUnassigned n => let '(mkst a c cfm na nt nn nl) := st in Some (mkst a c cfm na (nt + n) (nn + n) nl)
  | EUnaligned n => let '(mkst a c cfm na nt nn nl) := st in Some (mkst a c cfm na nt nn (nl + n))
  | EConfirm fs => let '(mkst a c cfm na nt nn nl) := st in Some (mkst a c (add_all cfm fs) na nt nn nl)
  end.
Fixpoint run (cf:cfg) (st:cstate) (evs:list event) : option cstate :=
  match evs with [] => Some st | e :: t => match step cf st e with None => None | Some st' => run cf st' t end end.

(* ---------------------------------------------------------------- dump *)
Definition zero_g (d:gdict) : gdict := map (fun p => (fst p, 0%Q)) d.
(* features of all_features that are not confirmed get every group's value zeroed *)
Definition zeroed (st:cstate) : fdict :=
  map (fun p => if memz (fst p) (all_feats st) && negb (memz (fst p) (confirmed st)) then (fst p, zero_g (snd p)) else p) (fcount st).
Definition qzero (q:Q) : bool := Qeq_bool q 0.
Definition qsum_g (d:gdict) : Q := fold_left (fun a p => (a + snd p)%Q) d 0%Q.
Definition default_gid (cf:cfg) : Z := match c_gids cf with p :: _ => snd p | [] => 0 end.
Definition gid_of (cf:cfg) (g:Z) : Z := match assoc g (c_gids cf) with Some i => i | None => -1 end.

Definition dump_ungrouped (cf:cfg) (st:cstate) : list (Z * list Q) :=
  let c := zeroed st in
  flat_map (fun f => let v := get c f (default_gid cf) in if negb (c_zeroes cf) && qzero v then [] else [(f, [v])]) (sortz (all_feats st)).
Definition dump_linear (cf:cfg) (st:cstate) : list (Z * Z * Q) :=
  let c := zeroed st in
  flat_map (fun f => map (fun p => (f, nth (Z.to_nat (fst p)) (c_ordered cf) (-1), snd p)) (entries c f)) (sortz (all_feats st)).
Definition dump_matrix (cf:cfg) (st:cstate) : list (Z * list Q) :=
  let c := zeroed st in
  flat_map (fun f => if negb (c_zeroes cf) && qzero (qsum_g (entries c f)) then []
                     else [(f, map (fun g => get c f (gid_of cf g)) (c_ordered cf))]) (sortz (all_feats st)).

Record outputs := mkout { o_rows : list (Z * list Q); o_linear : list (Z * Z * Q); o_stats : Z * Z * Z * Z }.
Definition stats_of (st:cstate) := (n_amb st, n_noassign st, n_noalign st, n_tpm st).
Definition dump (cf:cfg) (st:cstate) : outputs :=
  if c_ignore cf then mkout (dump_ungrouped cf st) [] (stats_of st)
  else mkout (if c_matrix cf then dump_matrix cf st else []) (if c_linear cf then dump_linear cf st else []) (stats_of st).

(* one chromosome: fresh counter seeded with the complete feature list, all events, dump *)
Definition run_chr (cf:cfg) (chr:list Z * list event) : option outputs :=
  match run cf (init_state (fst chr)) (snd chr) with Some st => Some (dump cf st) | None => None end.

(* ---------------------------------------------------------------- file_utils.merge_counts *)
Definition sumz (l:list Z) : Z := fold_left Z.add l 0.
Record merged := mkmerged { mg_rows : list (Z * list Q); mg_linear : list (Z * Z * Q);
                            mg_stats : option (Z * Z * Z);   (* __ambiguous, __no_feature, __not_aligned lines *)
                            mg_usable : Z }.                  (* counter.reads_for_tpm afterwards *)
Definition merge (cf:cfg) (parts:list outputs) (unaligned:Z) : merged :=
  let rows := flat_map o_rows parts in
  let lin := flat_map o_linear parts in
  if c_ignore cf then
    let amb := sumz (map (fun o => fst (fst (fst (o_stats o)))) parts) in
    let noas := sumz (map (fun o => snd (fst (fst (o_stats o)))) parts) in
    let noal := sumz (map (fun o => snd (fst (o_stats o))) parts) in
    let us := sumz (map (fun o => snd (o_stats o)) parts) in
    mkmerged rows lin (Some (amb, noas, if 0 <? unaligned then unaligned else noal)) us
  else mkmerged rows lin None 0.

(* ---------------------------------------------------------------- convert_counts_to_tpm (reads the printed table) *)
Fixpoint qsum' (l:list Q) : Q := match l with [] => 0%Q | x :: t => (x + qsum' t)%Q end.
Definition million : Q := 1000000 # 1.
Definition col (j:nat) (r:Z * list Q) : Q := nth j (snd r) 0%Q.
Definition scale_of (total:Q) : Q := (million / (if qpos total then total else 1))%Q.
Definition tpm (cf:cfg) (usable_norm:bool) (reads_for_tpm:Z) (rows:list (Z * list Q)) : list (Z * list Q) * option Q :=
  if c_ignore cf then
    match rows with
    | [] => ([], Some 0%Q)
    | _ =>
      let total := qsum' (map (col 0) rows) in
      let use := usable_norm && negb (reads_for_tpm =? 0) in
      let scale := if use then (million / inject_Z reads_for_tpm)%Q else scale_of total in
      let unas := if use then (million * (1 - total / inject_Z reads_for_tpm))%Q else 0%Q in
      (flat_map (fun r => let v := (scale * col 0 r)%Q in if negb (c_zeroes cf) && qzero v then [] else [(fst r, [v])]) rows, Some unas)
    end
  else
    match rows with
    | [] => ([], None)
    | r0 :: _ =>
      let n := length (snd r0) in
      let scales := map (fun j => scale_of (qsum' (map (col j) rows))) (seq 0 n) in
      (map (fun r => (fst r, map (fun j => (nth j scales 0 * col j r)%Q) (seq 0 n))) rows, None)
    end.

(* ====================================================================================================================
   Declarative specification (what the property says), independent of the state machine: uses the documented table.
   ==================================================================================================================== *)
Definition gsel_ok (gsel:option Z) (g:Z) : bool := match gsel with None => true | Some x => x =? g end.
Definition zcount (f:Z) (l:list Z) : Z := Z.of_nat (length (filter (Z.eqb f) l)).
Definition spec_contrib (s:strategy) (lv:level) (f:Z) (gsel:option Z) (ev:event) : Q :=
  match ev with
  | ERead r => if counted r && memz f (feats_of lv r) && gsel_ok gsel (ra_group r)
               then documented s (type_of lv r) (length (feats_of lv r)) else 0%Q
  | ERaw true fs g => if gsel_ok gsel g
                      then (inject_Z (zcount f fs) * match fs with [_] => 1 | _ => documented s Ambiguous (length fs) end)%Q else 0%Q
  | _ => 0%Q
  end.
Definition spec_confirms (lv:level) (f:Z) (ev:event) : bool :=
  match ev with
  | ERead r => counted r && is_unique (type_of lv r) && confirms lv r && memz f (feats_of lv r)
  | EConfirm fs => memz f fs
  | _ => false
  end.
Definition spec_cell (s:strategy) (lv:level) (evs:list event) (f:Z) (gsel:option Z) : Q :=
  if existsb (spec_confirms lv f) evs then qsum' (map (spec_contrib s lv f gsel) evs) else 0%Q.
(* the three statistics lines *)
Definition spec_ambiguous (lv:level) (evs:list event) : Z :=
  Z.of_nat (length (filter (fun ev => match ev with ERead r => counted r && match type_of lv r with Ambiguous => true | _ => false end
                                              | ERaw true (_ :: _ :: _) _ => true | _ => false end) evs)).
Definition spec_no_feature (evs:list event) : Z :=
  sumz (map (fun ev => match ev with ERead r => if counted r then 0 else 1 | ERaw true [] _ => 1 | EUnassigned n => n | _ => 0 end) evs).
Definition spec_not_aligned (evs:list event) : Z :=
  sumz (map (fun ev => match ev with ENone => 1 | ERaw false _ _ => 1 | EUnaligned n => n | _ => 0 end) evs).
(* inputs on which no exception is possible: groups known, unique records have exactly one feature, ambiguous-inconsistent ones at least one *)
Definition wf_event (cf:cfg) (ev:event) : bool :=
  match ev with
  | ERead r => negb (counted r) ||
               (match lookup_gid cf (ra_group r) with Some _ => true | None => false end &&
                (negb (is_unique (type_of (c_level cf) r)) || Nat.eqb (length (feats_of (c_level cf) r)) 1) &&
                (negb (is_inconsistent (type_of (c_level cf) r)) || negb (Nat.eqb (length (feats_of (c_level cf) r)) 0)))
  | ERaw _ _ g => match lookup_gid cf g with Some _ => true | None => false end
  | _ => true
  end.
