(* C17 — identifiers in the outputs.
   Model of src/id_policy.py (SimpleIDDistributor, ExcludingIdDistributor, FeatureIdStorage), of the id formatting in
   src/graph_based_model_construction.py (construct_fl_isoforms / generate_monoexon_from_clustered, TranscriptNaming) and of
   the exon_id attribute written by GFFPrinter.dump.  Strings are lists of byte values.
   The model describes the code after the repairs fixes/C17_exon_id_first_use.diff and fixes/C17_exclude_reference_exon_ids.diff;
   the unrepaired definitions are kept (get_id_cur, get_id_noexcl) together with their refutations. *)
From Coq Require Import ZArith NArith List Bool Lia ZifyBool ZifyN DecimalN DecimalPos Sorted.
Import ListNotations. Open Scope Z_scope.

Notation str := (list Z).

(* ------------------------------------------------------------------ strings *)
Fixpoint str_eqb (a b:str) : bool :=
  match a, b with [], [] => true | x :: s, y :: t => (x =? y) && str_eqb s t | _, _ => false end.
Lemma str_eqb_eq a b : str_eqb a b = true <-> a = b.
Proof. revert b; induction a as [|x s IH]; destruct b as [|y t]; simpl; split; intros H; try congruence; try reflexivity.
 - apply andb_prop in H. destruct H as [H1 H2]. apply IH in H2. f_equal; [lia|exact H2].
 - inversion H; subst. rewrite Z.eqb_refl. simpl. apply IH. reflexivity. Qed.
Lemma str_eqb_refl a : str_eqb a a = true. Proof. apply str_eqb_eq. reflexivity. Qed.

Definition starts_with (p s:str) : bool := str_eqb (firstn (length p) s) p.
Lemma starts_with_app p s : starts_with p (p ++ s) = true.
Proof. unfold starts_with. rewrite firstn_app, Nat.sub_diag, firstn_all. simpl. rewrite app_nil_r. apply str_eqb_refl. Qed.

(* s.split(sep)[0] and s.split(sep)[-1] for a one-character separator *)
Fixpoint first_field (sep:Z) (s:str) : str :=
  match s with [] => [] | c :: t => if c =? sep then [] else c :: first_field sep t end.
Definition last_field (sep:Z) (s:str) : str := rev (first_field sep (rev s)).
Definition lacks (sep:Z) (s:str) : bool := forallb (fun c => negb (c =? sep)) s.

Lemma first_field_app sep a b : lacks sep a = true -> first_field sep (a ++ sep :: b) = a.
Proof. induction a as [|c a IH]; simpl; intros H.
 - rewrite Z.eqb_refl. reflexivity.
 - apply andb_prop in H. destruct H as [H1 H2]. destruct (c =? sep); [discriminate|]. rewrite IH by exact H2. reflexivity. Qed.
Lemma rev_app_sep (sep:Z) a b : rev (a ++ sep :: b) = rev b ++ sep :: rev a.
Proof. rewrite rev_app_distr. simpl. rewrite <- app_assoc. reflexivity. Qed.
Lemma forallb_rev {A} (f:A->bool) l : forallb f (rev l) = forallb f l.
Proof. induction l as [|x l IH]; simpl; [reflexivity|]. rewrite forallb_app, IH. simpl. rewrite andb_true_r. apply andb_comm. Qed.
Lemma last_field_app sep a b : lacks sep b = true -> last_field sep (a ++ sep :: b) = b.
Proof. intros H. unfold last_field. rewrite rev_app_sep, first_field_app; [apply rev_involutive|]. unfold lacks. rewrite forallb_rev. exact H. Qed.

(* ------------------------------------------------------------------ decimal numerals: "%d" % n, str(n) and int(s) *)
Definition is_digit (c:Z) : bool := (48 <=? c) && (c <=? 57).
Fixpoint uint_chars (u:Decimal.uint) : str :=
  match u with
  | Decimal.Nil => []
  | Decimal.D0 u => 48 :: uint_chars u | Decimal.D1 u => 49 :: uint_chars u | Decimal.D2 u => 50 :: uint_chars u
  | Decimal.D3 u => 51 :: uint_chars u | Decimal.D4 u => 52 :: uint_chars u | Decimal.D5 u => 53 :: uint_chars u
  | Decimal.D6 u => 54 :: uint_chars u | Decimal.D7 u => 55 :: uint_chars u | Decimal.D8 u => 56 :: uint_chars u
  | Decimal.D9 u => 57 :: uint_chars u
  end.
Fixpoint chars_uint (s:str) : option Decimal.uint :=
  match s with
  | [] => Some Decimal.Nil
  | c :: t => match chars_uint t with
              | None => None
              | Some u => if c =? 48 then Some (Decimal.D0 u) else if c =? 49 then Some (Decimal.D1 u) else if c =? 50 then Some (Decimal.D2 u)
                          else if c =? 51 then Some (Decimal.D3 u) else if c =? 52 then Some (Decimal.D4 u) else if c =? 53 then Some (Decimal.D5 u)
                          else if c =? 54 then Some (Decimal.D6 u) else if c =? 55 then Some (Decimal.D7 u) else if c =? 56 then Some (Decimal.D8 u)
                          else if c =? 57 then Some (Decimal.D9 u) else None
              end
  end.
(* "%d" % n for n >= 0: no sign, no leading zeros, "0" for zero *)
Definition print_dec (n:Z) : str := uint_chars (N.to_uint (Z.to_N n)).

Lemma chars_uint_chars u : chars_uint (uint_chars u) = Some u.
Proof. induction u; simpl; try rewrite IHu; reflexivity. Qed.
Lemma uint_chars_digits u : forallb is_digit (uint_chars u) = true.
Proof. induction u; simpl; try rewrite IHu; reflexivity. Qed.
Lemma uint_chars_nonnil u : u <> Decimal.Nil -> uint_chars u <> [].
Proof. destruct u; simpl; congruence. Qed.
Lemma print_dec_digits n : forallb is_digit (print_dec n) = true. Proof. apply uint_chars_digits. Qed.
Lemma print_dec_nonnil n : print_dec n <> [].
Proof. unfold print_dec. apply uint_chars_nonnil. destruct (Z.to_N n); simpl; [discriminate|]. apply DecimalPos.Unsigned.to_uint_nonnil. Qed.

(* Python int(s) for ASCII input (white space = 9..13 and 32 there): surrounding white space, an optional sign, digits with single underscores between digits *)
Definition is_space (c:Z) : bool := ((9 <=? c) && (c <=? 13)) || (c =? 32).
Fixpoint lstrip (s:str) : str := match s with c :: t => if is_space c then lstrip t else s | [] => [] end.
Definition strip (s:str) : str := rev (lstrip (rev (lstrip s))).
Fixpoint us_ok (prev_digit:bool) (s:str) : bool :=
  match s with
  | [] => prev_digit
  | c :: t => if c =? 95 then prev_digit && us_ok false t else is_digit c && us_ok true t
  end.
Definition py_int (s:str) : option Z :=
  let s1 := strip s in
  let '(neg, s2) := match s1 with
                    | c :: t => if c =? 43 then (false, t) else if c =? 45 then (true, t) else (false, s1)
                    | [] => (false, s1) end in
  if us_ok false s2 then
    match chars_uint (filter (fun c => negb (c =? 95)) s2) with
    | Some u => Some (if neg then - Z.of_N (N.of_uint u) else Z.of_N (N.of_uint u))
    | None => None
    end
  else None.

Lemma lstrip_head c t : is_space c = false -> lstrip (c :: t) = c :: t.
Proof. intros H. simpl. rewrite H. reflexivity. Qed.
Lemma digit_not_space c : is_digit c = true -> is_space c = false.
Proof. unfold is_digit, is_space. lia. Qed.
Lemma strip_digits s : forallb is_digit s = true -> strip s = s.
Proof. intros H. unfold strip.
  assert (L: forall x, forallb is_digit x = true -> lstrip x = x).
  { intros x Hx. destruct x as [|c t]; [reflexivity|]. simpl in Hx. apply andb_prop in Hx. apply lstrip_head, digit_not_space, Hx. }
  rewrite (L s H). rewrite L by (rewrite forallb_rev; exact H). apply rev_involutive. Qed.
Lemma us_ok_digits s : forallb is_digit s = true -> us_ok true s = true.
Proof. induction s as [|c t IH]; simpl; intros H; [reflexivity|]. apply andb_prop in H. destruct H as [H1 H2].
  assert (c =? 95 = false) by (unfold is_digit in H1; lia). rewrite H, H1. simpl. apply IH, H2. Qed.
Lemma filter_digits s : forallb is_digit s = true -> filter (fun c => negb (c =? 95)) s = s.
Proof. induction s as [|c t IH]; simpl; intros H; [reflexivity|]. apply andb_prop in H. destruct H as [H1 H2].
  assert (c =? 95 = false) by (unfold is_digit in H1; lia). rewrite H. simpl. rewrite IH by exact H2. reflexivity. Qed.

(* the round trip the collision argument rests on: int("%d" % n) = n *)
Theorem py_int_print_dec n : 0 <= n -> py_int (print_dec n) = Some n.
Proof. intros Hn. unfold py_int. pose proof (print_dec_digits n) as Hd. pose proof (print_dec_nonnil n) as Hnn.
  rewrite (strip_digits _ Hd). destruct (print_dec n) as [|c t] eqn:E; [congruence|].
  pose proof Hd as Hd'. simpl in Hd'. apply andb_prop in Hd'. destruct Hd' as [Hc Ht].
  assert (c =? 43 = false) by (unfold is_digit in Hc; lia). assert (c =? 45 = false) by (unfold is_digit in Hc; lia).
  rewrite H, H0. cbn [us_ok]. assert (c =? 95 = false) by (unfold is_digit in Hc; lia). rewrite H1, Hc, (us_ok_digits t Ht). cbn [andb].
  rewrite (filter_digits _ Hd). rewrite <- E. unfold print_dec. rewrite chars_uint_chars.
  rewrite DecimalN.Unsigned.of_to. f_equal. lia. Qed.
Corollary print_dec_inj n m : 0 <= n -> 0 <= m -> print_dec n = print_dec m -> n = m.
Proof. intros Hn Hm E. pose proof (py_int_print_dec n Hn) as A. rewrite E, (py_int_print_dec m Hm) in A. congruence. Qed.

(* ------------------------------------------------------------------ TranscriptNaming and the id constructors *)
Definition transcript_prefix : str := [116;114;97;110;115;99;114;105;112;116].            (* "transcript" *)
Definition novel_gene_prefix : str := [110;111;118;101;108;95;103;101;110;101;95].        (* "novel_gene_" *)
Definition nic_suffix : str := [46;110;105;99].                                             (* ".nic" *)
Definition nnic_suffix : str := [46;110;110;105;99].                                        (* ".nnic" *)
Definition suffix (nic:bool) : str := if nic then nic_suffix else nnic_suffix.

(* TranscriptNaming.transcript_prefix + str(n) + ".%s" % chr_id + id_suffix *)
Definition transcript_id (n:Z) (chr:str) (nic:bool) : str := transcript_prefix ++ print_dec n ++ 46 :: chr ++ suffix nic.
(* TranscriptNaming.novel_gene_prefix + chr_id + "_" + str(n) *)
Definition novel_gene_id (chr:str) (n:Z) : str := novel_gene_prefix ++ chr ++ 95 :: print_dec n.
(* chr_id + ".%d" % n *)
Definition exon_id (chr:str) (n:Z) : str := chr ++ 46 :: print_dec n.

Lemma digits_sep_inj sep : is_digit sep = false -> forall a b x y,
  forallb is_digit a = true -> forallb is_digit b = true -> a ++ sep :: x = b ++ sep :: y -> a = b /\ x = y.
Proof. intros Hs. induction a as [|c a IH]; destruct b as [|d b]; simpl; intros x y Ha Hb E.
 - inversion E. auto.
 - inversion E; subst. apply andb_prop in Hb. destruct Hb. congruence.
 - inversion E; subst. apply andb_prop in Ha. destruct Ha. congruence.
 - inversion E; subst. apply andb_prop in Ha. apply andb_prop in Hb. destruct Ha, Hb.
   destruct (IH b x y) as [E1 E2]; auto. subst. auto. Qed.

Lemma suffix_inj c c' s s' : c ++ suffix s = c' ++ suffix s' -> c = c' /\ s = s'.
Proof. intros E. apply (f_equal (@rev Z)) in E. rewrite !rev_app_distr in E.
  destruct s, s'; simpl in E.
  - inversion E as [E']. apply (f_equal (@rev Z)) in E'. rewrite !rev_involutive in E'. auto.
  - inversion E.
  - inversion E.
  - inversion E as [E']. apply (f_equal (@rev Z)) in E'. rewrite !rev_involutive in E'. auto. Qed.

(* the constructor (number, chromosome, suffix) -> string is injective, whatever characters the chromosome name contains *)
Theorem transcript_id_inj n c s n' c' s' : 0 <= n -> 0 <= n' ->
  transcript_id n c s = transcript_id n' c' s' -> n = n' /\ c = c' /\ s = s'.
Proof. intros Hn Hn' E. unfold transcript_id in E. apply app_inv_head in E.
  apply (digits_sep_inj 46 eq_refl) in E; try apply print_dec_digits. destruct E as [E1 E2].
  apply print_dec_inj in E1; auto. apply suffix_inj in E2. tauto. Qed.
Theorem novel_gene_id_inj c n c' n' : 0 <= n -> 0 <= n' -> novel_gene_id c n = novel_gene_id c' n' -> c = c' /\ n = n'.
Proof. intros Hn Hn' E. unfold novel_gene_id in E. apply app_inv_head in E.
  apply (f_equal (@rev Z)) in E. rewrite !rev_app_sep in E.
  apply (digits_sep_inj 95 eq_refl) in E; try (rewrite forallb_rev; apply print_dec_digits). destruct E as [E1 E2].
  apply (f_equal (@rev Z)) in E1, E2. rewrite !rev_involutive in E1, E2. apply print_dec_inj in E1; auto. Qed.
Theorem exon_id_inj c n c' n' : 0 <= n -> 0 <= n' -> exon_id c n = exon_id c' n' -> c = c' /\ n = n'.
Proof. intros Hn Hn' E. unfold exon_id in E.
  apply (f_equal (@rev Z)) in E. rewrite !rev_app_sep in E.
  apply (digits_sep_inj 46 eq_refl) in E; try (rewrite forallb_rev; apply print_dec_digits). destruct E as [E1 E2].
  apply (f_equal (@rev Z)) in E1, E2. rewrite !rev_involutive in E1, E2. apply print_dec_inj in E1; auto. Qed.

(* ------------------------------------------------------------------ ExcludingIdDistributor *)
(* numbers that reference ids of one chromosome make forbidden (ExcludingIdDistributor.__init__) *)
Definition gene_forbidden (gid:str) : option Z :=
  if starts_with novel_gene_prefix gid then py_int (last_field 95 gid) else None.
Definition transcript_forbidden (tid:str) : option Z :=
  if starts_with transcript_prefix tid then py_int (skipn (length transcript_prefix) (first_field 46 tid)) else None.
Definition opt_list {A} (o:option A) : list A := match o with Some x => [x] | None => [] end.
Definition forbidden_ids (genes transcripts:list str) : list Z :=
  flat_map (fun g => opt_list (gene_forbidden g)) genes ++ flat_map (fun t => opt_list (transcript_forbidden t)) transcripts.

Fixpoint mem (x:Z) (l:list Z) : bool := match l with [] => false | y :: t => (x =? y) || mem x t end.
Lemma mem_In x l : mem x l = true <-> In x l.
Proof. induction l as [|y t IH]; simpl; [split; [discriminate|tauto]|]. rewrite orb_true_iff, IH. split; intros [H|H]; auto; [left; lia|left; lia]. Qed.

(* self.value += 1; while self.value in self.forbidden_ids: self.value += 1 — the loop runs at most |forbidden| times *)
Fixpoint skip_forbidden (fuel:nat) (forb:list Z) (v:Z) : Z :=
  match fuel with O => v | Datatypes.S f => if mem v forb then skip_forbidden f forb (v + 1) else v end.
Definition increment (forb:list Z) (v:Z) : Z := skip_forbidden (Datatypes.S (length forb)) forb (v + 1).
Definition simple_increment (v:Z) : Z := v + 1.

Fixpoint count_ge (v:Z) (l:list Z) : nat :=
  match l with [] => O | x :: t => ((if (v <=? x)%Z then 1 else 0) + count_ge v t)%nat end.
Lemma count_ge_le_length v l : (count_ge v l <= length l)%nat.
Proof. induction l as [|x t IH]; simpl; [lia|]. destruct (v <=? x); lia. Qed.
Lemma count_ge_mono v l : (count_ge (v + 1) l <= count_ge v l)%nat.
Proof. induction l as [|x t IH]; simpl; [lia|]. destruct (v + 1 <=? x) eqn:A, (v <=? x) eqn:B; lia. Qed.
Lemma count_ge_mem v l : mem v l = true -> (count_ge (v + 1) l < count_ge v l)%nat.
Proof. induction l as [|x t IH]; simpl; [discriminate|]. intros H. apply orb_prop in H.
  pose proof (count_ge_mono v t) as M. destruct (v =? x) eqn:E.
  - destruct (v + 1 <=? x) eqn:A, (v <=? x) eqn:B; lia.
  - destruct H as [H|H]; [discriminate|]. specialize (IH H). destruct (v + 1 <=? x) eqn:A, (v <=? x) eqn:B; lia. Qed.
Lemma skip_forbidden_spec : forall fuel forb v, (count_ge v forb < fuel)%nat ->
  v <= skip_forbidden fuel forb v /\ mem (skip_forbidden fuel forb v) forb = false.
Proof. induction fuel as [|f IH]; intros forb v H; [lia|]. simpl. destruct (mem v forb) eqn:E.
  - pose proof (count_ge_mem v forb E) as L. destruct (IH forb (v + 1)) as [A B]; [lia|]. split; [lia|exact B].
  - split; [lia|exact E]. Qed.
Lemma increment_spec forb v : v < increment forb v /\ mem (increment forb v) forb = false.
Proof. unfold increment. pose proof (count_ge_le_length (v + 1) forb) as L.
  destruct (skip_forbidden_spec (Datatypes.S (length forb)) forb (v + 1)) as [A B]; [lia|]. split; [lia|exact B]. Qed.

(* the numbers handed out by n successive calls of increment() *)
Fixpoint issue (forb:list Z) (v:Z) (n:nat) : list Z :=
  match n with O => [] | Datatypes.S k => let v' := increment forb v in v' :: issue forb v' k end.

Lemma issue_above forb : forall n v, Forall (fun x => v < x /\ ~ In x forb) (issue forb v n).
Proof. induction n as [|k IH]; intros v; simpl; [constructor|]. destruct (increment_spec forb v) as [A B]. constructor.
  - split; [exact A|]. intros HI. apply mem_In in HI. congruence.
  - eapply Forall_impl; [|apply IH]. simpl. intros x [H1 H2]. split; [lia|exact H2]. Qed.

(* issued numbers are strictly increasing and never forbidden *)
Theorem excluding_increment_fresh forb v n :
  StronglySorted Z.lt (issue forb v n) /\ Forall (fun x => v < x /\ ~ In x forb) (issue forb v n).
Proof. split; [|apply issue_above]. revert v. induction n as [|k IH]; intros v; simpl; [constructor|].
  constructor; [apply IH|]. eapply Forall_impl; [|apply issue_above]. simpl. tauto. Qed.

Lemma sorted_lt_nodup l : StronglySorted Z.lt l -> NoDup l.
Proof. induction 1 as [|x l Hs IH Hf]; constructor; [|exact IH]. intros HI. rewrite Forall_forall in Hf. specialize (Hf x HI). lia. Qed.
Corollary issued_numbers_distinct forb v n : NoDup (issue forb v n).
Proof. apply sorted_lt_nodup, excluding_increment_fresh. Qed.

(* a reference id that equals a generated id makes the generated number forbidden *)
Lemma transcript_forbidden_generated n c s : 0 <= n -> transcript_forbidden (transcript_id n c s) = Some n.
Proof. intros Hn. unfold transcript_forbidden, transcript_id. rewrite starts_with_app.
  replace (transcript_prefix ++ print_dec n ++ 46 :: c ++ suffix s) with ((transcript_prefix ++ print_dec n) ++ 46 :: c ++ suffix s)
    by (rewrite <- app_assoc; reflexivity).
  rewrite first_field_app.
  - rewrite skipn_app, skipn_all, Nat.sub_diag. simpl. apply py_int_print_dec, Hn.
  - unfold lacks. rewrite forallb_app. apply andb_true_intro. split; [reflexivity|].
    pose proof (print_dec_digits n) as D. induction (print_dec n) as [|d t IH]; [reflexivity|]. simpl in *. apply andb_prop in D. destruct D as [D1 D2].
    rewrite IH by exact D2. unfold is_digit in D1. assert (d =? 46 = false) by lia. rewrite H. reflexivity. Qed.
Lemma gene_forbidden_generated c n : 0 <= n -> gene_forbidden (novel_gene_id c n) = Some n.
Proof. intros Hn. unfold gene_forbidden, novel_gene_id. rewrite starts_with_app.
  replace (novel_gene_prefix ++ c ++ 95 :: print_dec n) with ((novel_gene_prefix ++ c) ++ 95 :: print_dec n) by (rewrite <- app_assoc; reflexivity).
  rewrite last_field_app; [apply py_int_print_dec, Hn|].
  unfold lacks. pose proof (print_dec_digits n) as D. induction (print_dec n) as [|d t IH]; [reflexivity|]. simpl in *. apply andb_prop in D. destruct D as [D1 D2].
  rewrite IH by exact D2. unfold is_digit in D1. assert (d =? 95 = false) by lia. rewrite H. reflexivity. Qed.

Lemma in_opt_list {A} (x:A) o : In x (opt_list o) <-> o = Some x.
Proof. destruct o as [y|]; simpl; split; intros H.
 - destruct H as [H|[]]. congruence.
 - left. congruence.
 - destruct H.
 - discriminate. Qed.

(* string level: no id built from an issued number occurs among the reference ids of that chromosome *)
Theorem novel_id_not_in_reference genes transcripts v k x c s : 0 <= v ->
  In x (issue (forbidden_ids genes transcripts) v k) ->
  ~ In (transcript_id x c s) transcripts /\ ~ In (novel_gene_id c x) genes.
Proof. intros Hv Hx. pose proof (issue_above (forbidden_ids genes transcripts) k v) as F. rewrite Forall_forall in F.
  destruct (F x Hx) as [Hlt Hnf]. assert (Hx0: 0 <= x) by lia. split; intros HI; apply Hnf; unfold forbidden_ids; apply in_or_app.
  - right. apply in_flat_map. exists (transcript_id x c s). split; [exact HI|]. apply in_opt_list, transcript_forbidden_generated, Hx0.
  - left. apply in_flat_map. exists (novel_gene_id c x). split; [exact HI|]. apply in_opt_list, gene_forbidden_generated, Hx0. Qed.

(* per-file uniqueness: numbers are distinct per chromosome, the chromosome name is part of the id *)
Definition chr_transcript_ids (c:str * list (Z * bool)) : list str := map (fun p => transcript_id (fst p) (fst c) (snd p)) (snd c).
Definition chr_gene_ids (c:str * list Z) : list str := map (fun n => novel_gene_id (fst c) n) (snd c).

Lemma nodup_map_inj {A B} (f:A->B) (l:list A) : (forall x y, In x l -> In y l -> f x = f y -> x = y) -> NoDup l -> NoDup (map f l).
Proof. intros Hinj Hnd. induction Hnd as [|x l Hx Hnd IH]; simpl; constructor.
 - intros HI. apply in_map_iff in HI. destruct HI as (y & E & Hy). assert (y = x) by (apply Hinj; simpl; auto). subst. contradiction.
 - apply IH. intros a b Ha Hb. apply Hinj; simpl; auto. Qed.
Lemma nodup_concat_disjoint {A} (ls:list (list A)) :
  Forall (@NoDup A) ls -> ForallOrdPairs (fun a b => forall x, In x a -> In x b -> False) ls -> NoDup (concat ls).
Proof. intros Hn Hp. induction Hp as [|a l Ha Hp IH]; simpl; [constructor|]. inversion Hn; subst.
  assert (D: forall x, In x a -> ~ In x (concat l)).
  { intros x Hx HI. apply in_concat in HI. destruct HI as (b & Hb & Hxb). rewrite Forall_forall in Ha. exact (Ha b Hb x Hx Hxb). }
  clear Ha. induction a as [|y a IHa]; simpl; [apply IH; assumption|]. inversion H1; subst. constructor.
  - intros HI. apply in_app_or in HI. destruct HI as [HI|HI]; [contradiction|]. apply (D y); simpl; auto.
  - apply IHa; auto. intros x Hx. apply D. simpl; auto. Qed.

Theorem transcript_ids_unique_per_file (per_chr:list (str * list (Z * bool))) :
  NoDup (map fst per_chr) ->
  Forall (fun c => NoDup (map fst (snd c)) /\ Forall (fun p => 0 <= fst p) (snd c)) per_chr ->
  NoDup (concat (map chr_transcript_ids per_chr)).
Proof. intros Hc Hn. apply nodup_concat_disjoint.
 - rewrite Forall_map. eapply Forall_impl; [|exact Hn]. intros [c l] [H1 H2]. simpl in *. unfold chr_transcript_ids. simpl.
   apply nodup_map_inj.
   + intros [n s] [n' s'] Hx Hy E. simpl in E. rewrite Forall_forall in H2. apply transcript_id_inj in E; [|apply (H2 _ Hx)|apply (H2 _ Hy)].
     destruct E as (E1 & _ & E3). subst. reflexivity.
   + clear H2. induction l as [|p l IH]; [constructor|]. simpl in H1. apply NoDup_cons_iff in H1. destruct H1 as [Hnin Hnd].
     constructor; [|apply IH; exact Hnd]. intros HI. apply Hnin. apply in_map. exact HI.
 - clear Hn. induction per_chr as [|[c l] t IH]; simpl; [constructor|]. simpl in Hc. apply NoDup_cons_iff in Hc. destruct Hc as [Hcn Hcd]. constructor; [|apply IH; exact Hcd].
   rewrite Forall_map. rewrite Forall_forall. intros [c' l'] Hin x Hx Hx'. unfold chr_transcript_ids in Hx, Hx'. simpl in Hx, Hx'.
   apply in_map_iff in Hx. apply in_map_iff in Hx'. destruct Hx as (p & E & _), Hx' as (p' & E' & _). subst x.
   (* equal strings force equal chromosome names *)
   assert (c' = c).
   { unfold transcript_id in E'. apply app_inv_head in E'.
     apply (digits_sep_inj 46 eq_refl) in E'; try apply print_dec_digits. destruct E' as [_ E2]. apply suffix_inj in E2. tauto. }
   subst c'. apply Hcn. apply in_map_iff. exists (c, l'). auto. Qed.

Theorem gene_ids_unique_per_file (per_chr:list (str * list Z)) :
  NoDup (map fst per_chr) ->
  Forall (fun c => NoDup (snd c) /\ Forall (fun n => 0 <= n) (snd c)) per_chr ->
  NoDup (concat (map chr_gene_ids per_chr)).
Proof. intros Hc Hn. apply nodup_concat_disjoint.
 - rewrite Forall_map. eapply Forall_impl; [|exact Hn]. intros [c l] [H1 H2]. simpl in *. unfold chr_gene_ids. simpl.
   apply nodup_map_inj; [|exact H1]. intros n n' Hx Hy E. rewrite Forall_forall in H2. apply novel_gene_id_inj in E; [tauto|apply (H2 _ Hx)|apply (H2 _ Hy)].
 - clear Hn. induction per_chr as [|[c l] t IH]; simpl; [constructor|]. simpl in Hc. apply NoDup_cons_iff in Hc. destruct Hc as [Hcn Hcd]. constructor; [|apply IH; exact Hcd].
   rewrite Forall_map. rewrite Forall_forall. intros [c' l'] Hin x Hx Hx'. unfold chr_gene_ids in Hx, Hx'. simpl in Hx, Hx'.
   apply in_map_iff in Hx. apply in_map_iff in Hx'. destruct Hx as (p & E & _), Hx' as (p' & E' & _). subst x.
   assert (c' = c).
   { unfold novel_gene_id in E'. apply app_inv_head in E'. apply (f_equal (@rev Z)) in E'. rewrite !rev_app_sep in E'.
     apply (digits_sep_inj 95 eq_refl) in E'; try (rewrite forallb_rev; apply print_dec_digits). destruct E' as [_ E2].
     apply (f_equal (@rev Z)) in E2. rewrite !rev_involutive in E2. exact E2. }
   subst c'. apply Hcn. apply in_map_iff. exists (c, l'). auto. Qed.

(* ------------------------------------------------------------------ FeatureIdStorage *)
Notation key := (str * Z * Z * str)%type.            (* chr_id, start, end, strand *)
Definition key_eqb (a b:key) : bool :=
  let '(c1, s1, e1, t1) := a in let '(c2, s2, e2, t2) := b in str_eqb c1 c2 && (s1 =? s2) && (e1 =? e2) && str_eqb t1 t2.
Lemma key_eqb_eq a b : key_eqb a b = true <-> a = b.
Proof. destruct a as [[[c1 s1] e1] t1], b as [[[c2 s2] e2] t2]; unfold key_eqb. split.
 - intros H. repeat (apply andb_prop in H; destruct H as [H ?]). apply str_eqb_eq in H, H0. f_equal; [f_equal; [f_equal|]|]; auto; lia.
 - intros H; inversion H; subst. rewrite !str_eqb_refl, !Z.eqb_refl. reflexivity. Qed.
Lemma key_eqb_refl k : key_eqb k k = true. Proof. apply key_eqb_eq. reflexivity. Qed.

Record store := { counter : Z; dict : list (key * str); reserved : list str }.
Fixpoint lookup (k:key) (d:list (key * str)) : option str :=
  match d with [] => None | (k', v) :: t => if key_eqb k k' then Some v else lookup k t end.
Fixpoint smem (x:str) (l:list str) : bool := match l with [] => false | y :: t => str_eqb x y || smem x t end.
Lemma smem_In x l : smem x l = true <-> In x l.
Proof. induction l as [|y t IH]; simpl; [split; [discriminate|tauto]|]. rewrite orb_true_iff, IH, str_eqb_eq. split; intros [H|H]; auto. Qed.

(* FeatureIdStorage.__init__: features of the chromosome in database order, each with its exon_id attribute if it has one;
   a later feature with the same key overwrites the entry (dict assignment); every id seen is reserved *)
Definition ref_feature := (Z * Z * str * option str)%type.        (* start, end, strand, exon_id *)
Fixpoint preload (chr:str) (fs:list ref_feature) (s:store) : store :=
  match fs with
  | [] => s
  | (st, en, strand, Some v) :: t => preload chr t {| counter := counter s; dict := ((chr, st, en, strand), v) :: dict s; reserved := v :: reserved s |}
  | (_, _, _, None) :: t => preload chr t s
  end.
Definition empty_store : store := {| counter := 0; dict := []; reserved := [] |}.
Definition init_store (chr:str) (fs:list ref_feature) : store := preload chr fs empty_store.

(* first number above n whose formatted id is not reserved (the while loop added by the repair) *)
Fixpoint fresh_num (fuel:nat) (chr:str) (res:list str) (n:Z) : Z :=
  match fuel with O => n | Datatypes.S f => if smem (exon_id chr n) res then fresh_num f chr res (n + 1) else n end.

(* get_id after both repairs *)
Definition get_id (s:store) (k:key) : store * str :=
  match lookup k (dict s) with
  | Some v => (s, v)
  | None => let chr := fst (fst (fst k)) in
            let n := fresh_num (Datatypes.S (length (reserved s))) chr (reserved s) (counter s + 1) in
            let v := exon_id chr n in
            ({| counter := n; dict := (k, v) :: dict s; reserved := reserved s |}, v)
  end.
(* after the first repair only: formatted id on first use, but reference ids are not excluded *)
Definition get_id_noexcl (s:store) (k:key) : store * str :=
  match lookup k (dict s) with
  | Some v => (s, v)
  | None => let chr := fst (fst (fst k)) in let n := counter s + 1 in let v := exon_id chr n in
            ({| counter := n; dict := (k, v) :: dict s; reserved := reserved s |}, v)
  end.
(* the code before the repairs: the first call returns the bare number *)
Definition get_id_cur (s:store) (k:key) : store * str :=
  match lookup k (dict s) with
  | Some v => (s, v)
  | None => let chr := fst (fst (fst k)) in let n := counter s + 1 in
            ({| counter := n; dict := (k, exon_id chr n) :: dict s; reserved := reserved s |}, print_dec n)
  end.

Fixpoint run (f:store -> key -> store * str) (s:store) (ks:list key) : store * list str :=
  match ks with [] => (s, []) | k :: t => let '(s1, v) := f s k in let '(s2, vs) := run f s1 t in (s2, v :: vs) end.

(* ---- functionality *)
Definition functional (f:store -> key -> store * str) := forall s ks i j k,
  nth_error ks i = Some k -> nth_error ks j = Some k ->
  nth_error (snd (run f s ks)) i = nth_error (snd (run f s ks)) j.

Lemma lookup_after s k : lookup k (dict (fst (get_id s k))) = Some (snd (get_id s k)).
Proof. unfold get_id. destruct (lookup k (dict s)) eqn:E; simpl; [exact E|]. rewrite key_eqb_refl. reflexivity. Qed.
Lemma lookup_mono s k k' v : lookup k (dict s) = Some v -> lookup k (dict (fst (get_id s k'))) = Some v.
Proof. intros H. unfold get_id. destruct (lookup k' (dict s)) eqn:E; simpl; [exact H|].
  destruct (key_eqb k k') eqn:Ek; [|exact H]. apply key_eqb_eq in Ek. subst. congruence. Qed.

(* once a key is in the dictionary with value v, every later query of it returns v, and v stays in the dictionary *)
Lemma run_stable : forall ks s k v, lookup k (dict s) = Some v ->
  lookup k (dict (fst (run get_id s ks))) = Some v /\ forall j, nth_error ks j = Some k -> nth_error (snd (run get_id s ks)) j = Some v.
Proof. induction ks as [|k0 t IH]; intros s k v Hl; [split; [exact Hl|intros j Hj; destruct j; discriminate]|].
  cbn [run]. destruct (get_id s k0) as [s1 v0] eqn:E1. destruct (run get_id s1 t) as [s2 vs] eqn:E2. cbn [fst snd].
  assert (Hl1: lookup k (dict s1) = Some v).
  { pose proof (lookup_mono s k k0 v Hl) as H. rewrite E1 in H. exact H. }
  destruct (IH s1 k v Hl1) as [A B]. rewrite E2 in A, B. cbn [fst snd] in A, B. split; [exact A|].
  intros [|j] Hj; simpl in *.
  - inversion Hj; subst k0. unfold get_id in E1. rewrite Hl in E1. inversion E1; subst. reflexivity.
  - apply B, Hj. Qed.

Theorem exon_id_functional : functional get_id.
Proof. unfold functional. intros s ks; revert s. induction ks as [|k0 t IH]; intros s i j k Hi Hj; [destruct i; discriminate|].
  cbn [run]. destruct (get_id s k0) as [s1 v0] eqn:E1. destruct (run get_id s1 t) as [s2 vs] eqn:E2. cbn [snd].
  assert (Hst: lookup k0 (dict s1) = Some v0).
  { pose proof (lookup_after s k0) as H. rewrite E1 in H. exact H. }
  destruct i as [|i], j as [|j]; simpl in *; try reflexivity.
  - inversion Hi; subst k0. destruct (run_stable t s1 k v0 Hst) as [_ H]. specialize (H j Hj). rewrite E2 in H. simpl in H. congruence.
  - inversion Hj; subst k0. destruct (run_stable t s1 k v0 Hst) as [_ H]. specialize (H i Hi). rewrite E2 in H. simpl in H. congruence.
  - specialize (IH s1 i j k Hi Hj). rewrite E2 in IH. exact IH. Qed.

(* ---- reference ids are preserved *)
Theorem reference_exon_ids_preserved chr fs ks k v j :
  lookup k (dict (init_store chr fs)) = Some v -> nth_error ks j = Some k ->
  nth_error (snd (run get_id (init_store chr fs) ks)) j = Some v.
Proof. intros Hl Hj. destruct (run_stable ks _ k v Hl) as [_ H]. apply H, Hj. Qed.

(* what the preloaded dictionary holds: the id of the last feature with that key; so with a reference whose exon_id
   is itself a function of the key, every reference exon keeps the id it has in the reference *)
Definition ref_functional (fs:list ref_feature) := forall st en sd v v',
  In (st, en, sd, Some v) fs -> In (st, en, sd, Some v') fs -> v = v'.
Lemma preload_lookup chr : forall fs s k v, lookup k (dict (preload chr fs s)) = Some v ->
  lookup k (dict s) = Some v \/ exists st en sd, k = (chr, st, en, sd) /\ In (st, en, sd, Some v) fs.
Proof. induction fs as [|[[[st en] sd] [w|]] t IH]; intros s k v H; simpl in H; [left; exact H| |].
 - apply IH in H. destruct H as [H|(st' & en' & sd' & E & HI)].
   + simpl in H. destruct (key_eqb k (chr, st, en, sd)) eqn:Ek.
     * inversion H; subst. apply key_eqb_eq in Ek. right. exists st, en, sd. split; [exact Ek|left; reflexivity].
     * left; exact H.
   + right. exists st', en', sd'. split; [exact E|right; exact HI].
 - apply IH in H. destruct H as [H|(st' & en' & sd' & E & HI)]; [left; exact H|]. right. exists st', en', sd'. split; [exact E|right; exact HI]. Qed.
Lemma preload_keeps chr : forall fs s k x, lookup k (dict s) = Some x -> exists y, lookup k (dict (preload chr fs s)) = Some y.
Proof. induction fs as [|[[[a b] c] [w|]] t IH]; intros s k x H; cbn [preload]; [eauto| |eapply IH; exact H].
  destruct (key_eqb k (chr, a, b, c)) eqn:Ek; eapply IH; cbn [dict lookup]; rewrite Ek; eauto. Qed.
Lemma preload_has chr : forall fs s st en sd v, In (st, en, sd, Some v) fs -> exists w, lookup (chr, st, en, sd) (dict (preload chr fs s)) = Some w.
Proof. induction fs as [|[[[st0 en0] sd0] [w|]] t IH]; intros s st en sd v HI; [destruct HI| |]; cbn [preload].
 - destruct HI as [E|HI]; [|eapply IH; exact HI]. inversion E; subst.
   eapply preload_keeps. cbn [dict lookup]. rewrite key_eqb_refl. reflexivity.
 - destruct HI as [E|HI]; [discriminate|]. eapply IH; exact HI. Qed.

Theorem reference_exon_ids_preserved_functional chr fs ks st en sd v j : ref_functional fs ->
  In (st, en, sd, Some v) fs -> nth_error ks j = Some (chr, st, en, sd) ->
  nth_error (snd (run get_id (init_store chr fs) ks)) j = Some v.
Proof. intros Hf HI Hj. destruct (preload_has chr fs empty_store st en sd v HI) as [w Hw].
  assert (w = v).
  { apply preload_lookup in Hw. destruct Hw as [Hw|(st' & en' & sd' & E & HI')]; [discriminate|]. inversion E; subst. eapply Hf; eauto. }
  subst w. eapply reference_exon_ids_preserved; eauto. Qed.

(* ---- injectivity *)
(* invariant: every stored id is a reserved (reference) id or was generated with a number not above the counter;
   the dictionary is injective on its live entries; the counter is not negative *)
Definition entries_ok (s:store) := forall k v, lookup k (dict s) = Some v ->
  In v (reserved s) \/ exists n, 0 < n <= counter s /\ v = exon_id (fst (fst (fst k))) n.
Definition dict_injective (s:store) := forall k1 k2 v, lookup k1 (dict s) = Some v -> lookup k2 (dict s) = Some v -> k1 = k2.
Definition inv (s:store) := 0 <= counter s /\ entries_ok s /\ dict_injective s.

(* the number a reserved id carries if it has the shape chr.N (used only to measure the loop) *)
Definition exon_num (chr r:str) : option Z :=
  if starts_with (chr ++ [46]) r then
    let d := skipn (length (chr ++ [46])) r in
    match chars_uint d with
    | Some u => let m := Z.of_N (N.of_uint u) in if str_eqb (print_dec m) d then Some m else None
    | None => None
    end
  else None.
Lemma exon_num_exon_id chr m : 0 <= m -> exon_num chr (exon_id chr m) = Some m.
Proof. intros Hm. unfold exon_num, exon_id. replace (chr ++ 46 :: print_dec m) with ((chr ++ [46]) ++ print_dec m) by (rewrite <- app_assoc; reflexivity).
  rewrite starts_with_app, skipn_app, skipn_all, Nat.sub_diag. simpl. unfold print_dec at 1. rewrite chars_uint_chars, DecimalN.Unsigned.of_to.
  replace (Z.of_N (Z.to_N m)) with m by lia. rewrite str_eqb_refl. reflexivity. Qed.
Definition reserved_nums (chr:str) (res:list str) : list Z := flat_map (fun r => opt_list (exon_num chr r)) res.
Lemma reserved_nums_length chr res : (length (reserved_nums chr res) <= length res)%nat.
Proof. induction res as [|r t IH]; simpl; [lia|]. unfold reserved_nums in *. rewrite app_length. destruct (exon_num chr r); simpl; lia. Qed.
Lemma reserved_nums_mem chr res m : 0 <= m -> smem (exon_id chr m) res = true -> mem m (reserved_nums chr res) = true.
Proof. intros Hm H. apply mem_In. apply smem_In in H. unfold reserved_nums. apply in_flat_map. exists (exon_id chr m). split; [exact H|].
  apply in_opt_list, exon_num_exon_id, Hm. Qed.

(* the loop ends on a number whose id is not reserved: each reserved id of the shape chr.N can stop it at most once *)
Lemma fresh_num_spec chr res : forall fuel n, 0 <= n -> (count_ge n (reserved_nums chr res) < fuel)%nat ->
  n <= fresh_num fuel chr res n /\ smem (exon_id chr (fresh_num fuel chr res n)) res = false.
Proof. induction fuel as [|f IH]; intros n Hn H; [lia|]. simpl. destruct (smem (exon_id chr n) res) eqn:E.
  - pose proof (count_ge_mem n _ (reserved_nums_mem chr res n Hn E)) as L. destruct (IH (n + 1)) as [A B]; [lia|lia|]. split; [lia|exact B].
  - split; [lia|exact E]. Qed.

Lemma get_id_inv s k : inv s -> inv (fst (get_id s k)).
Proof. intros (Hc & He & Hi). unfold get_id. destruct (lookup k (dict s)) eqn:El; [exact (conj Hc (conj He Hi))|].
  set (chr := fst (fst (fst k))). set (n := fresh_num _ chr (reserved s) (counter s + 1)).
  assert (Hn: counter s + 1 <= n /\ smem (exon_id chr n) (reserved s) = false).
  { apply fresh_num_spec; [lia|]. pose proof (count_ge_le_length (counter s + 1) (reserved_nums chr (reserved s))). pose proof (reserved_nums_length chr (reserved s)). lia. }
  destruct Hn as [Hn1 Hn2]. cbn [fst]. unfold inv, entries_ok, dict_injective. cbn [counter dict reserved]. split; [lia|]. split.
  - intros k' v' H. cbn [lookup] in H. destruct (key_eqb k' k) eqn:Ek.
    + apply key_eqb_eq in Ek. subst k'. inversion H; subst. right. exists n. split; [lia|reflexivity].
    + destruct (He k' v' H) as [A|(m & Hm & A)]; [left; exact A|]. right. exists m. split; [lia|exact A].
  - assert (Fresh: forall k2, lookup k2 (dict s) = Some (exon_id chr n) -> False).
    { intros k2 H2. destruct (He k2 _ H2) as [A|(m & Hm & A)].
      - apply smem_In in A. congruence.
      - apply exon_id_inj in A; lia. }
    intros k1 k2 w H1 H2. cbn [lookup] in H1, H2. destruct (key_eqb k1 k) eqn:E1, (key_eqb k2 k) eqn:E2.
    + apply key_eqb_eq in E1, E2. congruence.
    + inversion H1; subst. exfalso. eapply Fresh; exact H2.
    + inversion H2; subst. exfalso. eapply Fresh; exact H1.
    + eapply Hi; eauto. Qed.

Lemma run_inv : forall ks s, inv s -> inv (fst (run get_id s ks)).
Proof. induction ks as [|k t IH]; intros s H; [exact H|]. cbn [run]. pose proof (get_id_inv s k H) as H1.
  destruct (get_id s k) as [s1 v]. specialize (IH s1 H1). destruct (run get_id s1 t) as [s2 vs]. exact IH. Qed.
Lemma run_lookup : forall ks s j k v, nth_error ks j = Some k -> nth_error (snd (run get_id s ks)) j = Some v ->
  lookup k (dict (fst (run get_id s ks))) = Some v.
Proof. induction ks as [|k0 t IH]; intros s j k v Hj Hv; [destruct j; discriminate|].
  cbn [run] in *. pose proof (lookup_after s k0) as La. destruct (get_id s k0) as [s1 v0]. cbn [fst snd] in La.
  specialize (IH s1). pose proof (run_stable t s1 k0 v0 La) as St. destruct (run get_id s1 t) as [s2 vs]. cbn [fst snd] in *.
  destruct j as [|j]; simpl in Hj, Hv.
  - inversion Hj; inversion Hv; subst. apply St.
  - eapply IH; eauto. Qed.

(* distinct keys get distinct ids, including against the ids pre-loaded from the reference *)
Theorem exon_id_injective s ks i j ki kj v : inv s ->
  nth_error ks i = Some ki -> nth_error ks j = Some kj ->
  nth_error (snd (run get_id s ks)) i = Some v -> nth_error (snd (run get_id s ks)) j = Some v -> ki = kj.
Proof. intros H Hi Hj Vi Vj. destruct (run_inv ks s H) as (_ & _ & Inj).
  eapply Inj; eapply run_lookup; eauto. Qed.

(* the initial store satisfies the invariant when the reference's own exon_id is injective *)
Definition ref_injective (fs:list ref_feature) := forall st en sd st' en' sd' v,
  In (st, en, sd, Some v) fs -> In (st', en', sd', Some v) fs -> (st, en, sd) = (st', en', sd').
Lemma preload_reserved chr : forall fs s, (forall k v, lookup k (dict s) = Some v -> In v (reserved s)) ->
  forall k v, lookup k (dict (preload chr fs s)) = Some v -> In v (reserved (preload chr fs s)).
Proof. induction fs as [|[[[st en] sd] [w|]] t IH]; intros s H; simpl; [exact H| |apply IH; exact H].
  apply IH. intros k v. simpl. destruct (key_eqb k (chr, st, en, sd)); intros E; [inversion E; auto|right; apply H with k; exact E]. Qed.
Lemma preload_counter chr : forall fs s, counter (preload chr fs s) = counter s.
Proof. induction fs as [|[[[st en] sd] [w|]] t IH]; intros s; simpl; [reflexivity| |apply IH]. rewrite IH. reflexivity. Qed.
Theorem init_store_inv chr fs : ref_injective fs -> inv (init_store chr fs).
Proof. intros R. unfold inv, init_store. rewrite preload_counter. split; [simpl; lia|]. split.
 - intros k v H. left. eapply preload_reserved; [|exact H]. simpl. discriminate.
 - intros k1 k2 v H1 H2. apply preload_lookup in H1, H2.
   destruct H1 as [H1|(a & b & c & E1 & I1)]; [discriminate|]. destruct H2 as [H2|(a' & b' & c' & E2 & I2)]; [discriminate|].
   pose proof (R _ _ _ _ _ _ _ I1 I2) as E. inversion E; subst. reflexivity. Qed.

(* ---- the unrepaired definitions *)
Definition chr9 : str := [99;104;114;57].
Definition plus : str := [43].
(* before the first repair one exon gets two ids: "1" on first use, "chr9.1" afterwards *)
Theorem exon_id_functional_cur_refuted : ~ functional get_id_cur.
Proof. intros F. specialize (F empty_store [(chr9,100,200,plus); (chr9,100,200,plus)] 0%nat 1%nat (chr9,100,200,plus) eq_refl eq_refl).
  vm_compute in F. discriminate. Qed.
(* without the exclusion a reference that already carries chr9.1 (an IsoQuant-made annotation) collides with the first new exon *)
Theorem exon_id_injective_noexcl_refuted :
  let s := init_store chr9 [(100, 200, plus, Some (exon_id chr9 1))] in
  ref_injective [(100, 200, plus, Some (exon_id chr9 1))] /\
  snd (run get_id_noexcl s [(chr9,100,200,plus); (chr9,300,400,plus)]) = [exon_id chr9 1; exon_id chr9 1] /\
  snd (run get_id s [(chr9,100,200,plus); (chr9,300,400,plus)]) = [exon_id chr9 1; exon_id chr9 2].
Proof. split; [|vm_compute; split; reflexivity]. intros st en sd st' en' sd' v [H|[]] [H'|[]]. congruence. Qed.

(* ------------------------------------------------------------------ id allocation as construct_fl_isoforms / generate_monoexon_from_clustered do it *)
(* every path takes a transcript number; a reported novel model without a reference gene takes a second one for its gene *)
Inductive alloc := Skip | WithRefGene (nic:bool) | WithNovelGene (nic:bool).
Fixpoint allocate (forb:list Z) (chr:str) (v:Z) (l:list alloc) : Z * list (option (str * option str)) :=
  match l with
  | [] => (v, [])
  | a :: t =>
    let n1 := increment forb v in
    match a with
    | Skip => let '(v', r) := allocate forb chr n1 t in (v', None :: r)
    | WithRefGene nic => let '(v', r) := allocate forb chr n1 t in (v', Some (transcript_id n1 chr nic, None) :: r)
    | WithNovelGene nic => let n2 := increment forb n1 in let '(v', r) := allocate forb chr n2 t in
                           (v', Some (transcript_id n1 chr nic, Some (novel_gene_id chr n2)) :: r)
    end
  end.

Definition out_tids (r:list (option (str * option str))) : list str := flat_map (fun e => match e with Some (t, _) => [t] | None => [] end) r.
Definition out_gids (r:list (option (str * option str))) : list str := flat_map (fun e => match e with Some (_, Some g) => [g] | _ => [] end) r.

Lemma increment_above forb v : v < increment forb v /\ ~ In (increment forb v) forb.
Proof. destruct (increment_spec forb v) as [A B]. split; [exact A|]. intros HI. apply mem_In in HI. congruence. Qed.

(* every id handed out is built from a number above the starting value that is not forbidden *)
Lemma allocate_above forb chr : forall l v,
  v <= fst (allocate forb chr v l) /\
  Forall (fun t => exists n nic, v < n /\ ~ In n forb /\ t = transcript_id n chr nic) (out_tids (snd (allocate forb chr v l))) /\
  Forall (fun g => exists n, v < n /\ ~ In n forb /\ g = novel_gene_id chr n) (out_gids (snd (allocate forb chr v l))).
Proof. induction l as [|a t IH]; intros v; cbn [allocate]; [simpl; repeat split; try constructor; lia|].
  destruct (increment_above forb v) as [A1 B1]. set (n1 := increment forb v) in *.
  destruct a as [|nic|nic].
  - destruct (IH n1) as (L & T & G). destruct (allocate forb chr n1 t) as [v' r]. cbn [fst snd] in *. unfold out_tids, out_gids in *. cbn [flat_map app].
    split; [lia|]. split; (eapply Forall_impl; [|eassumption]); simpl.
    + intros x (n & c & H1 & H2 & H3). exists n, c. repeat split; auto; lia.
    + intros x (n & H1 & H2 & H3). exists n. repeat split; auto; lia.
  - destruct (IH n1) as (L & T & G). destruct (allocate forb chr n1 t) as [v' r]. cbn [fst snd] in *. unfold out_tids, out_gids in *. cbn [flat_map app].
    split; [lia|]. split.
    + constructor; [exists n1, nic; auto|]. eapply Forall_impl; [|exact T]. simpl. intros x (n & c & H1 & H2 & H3). exists n, c. repeat split; auto; lia.
    + eapply Forall_impl; [|exact G]. simpl. intros x (n & H1 & H2 & H3). exists n. repeat split; auto; lia.
  - destruct (increment_above forb n1) as [A2 B2]. set (n2 := increment forb n1) in *.
    destruct (IH n2) as (L & T & G). destruct (allocate forb chr n2 t) as [v' r]. cbn [fst snd] in *. unfold out_tids, out_gids in *. cbn [flat_map app].
    split; [lia|]. split.
    + constructor; [exists n1, nic; auto|]. eapply Forall_impl; [|exact T]. simpl. intros x (n & c & H1 & H2 & H3). exists n, c. repeat split; auto; lia.
    + constructor; [exists n2; repeat split; auto; lia|]. eapply Forall_impl; [|exact G]. simpl. intros x (n & H1 & H2 & H3). exists n. repeat split; auto; lia. Qed.

(* ids of one chromosome: pairwise distinct, and none of them is an id of the reference *)
Theorem allocated_ids_distinct forb chr : forall l v, 0 <= v ->
  NoDup (out_tids (snd (allocate forb chr v l))) /\ NoDup (out_gids (snd (allocate forb chr v l))).
Proof. induction l as [|a t IH]; intros v Hv; cbn [allocate]; [simpl; split; constructor|].
  destruct (increment_above forb v) as [A1 B1]. set (n1 := increment forb v) in *.
  destruct a as [|nic|nic].
  - destruct (IH n1) as [T G]; [lia|]. destruct (allocate forb chr n1 t) as [v' r]. exact (conj T G).
  - destruct (IH n1) as [T G]; [lia|]. destruct (allocate_above forb chr t n1) as (_ & TA & _).
    destruct (allocate forb chr n1 t) as [v' r]. cbn [fst snd] in *. unfold out_tids, out_gids in *. cbn [flat_map app]. split; [|exact G].
    constructor; [|exact T]. intros HI. rewrite Forall_forall in TA. destruct (TA _ HI) as (n & c & H1 & _ & H3).
    apply transcript_id_inj in H3; lia.
  - destruct (increment_above forb n1) as [A2 B2]. set (n2 := increment forb n1) in *.
    destruct (IH n2) as [T G]; [lia|]. destruct (allocate_above forb chr t n2) as (_ & TA & GA).
    destruct (allocate forb chr n2 t) as [v' r]. cbn [fst snd] in *. unfold out_tids, out_gids in *. cbn [flat_map app]. split.
    + constructor; [|exact T]. intros HI. rewrite Forall_forall in TA. destruct (TA _ HI) as (n & c & H1 & _ & H3). apply transcript_id_inj in H3; lia.
    + constructor; [|exact G]. intros HI. rewrite Forall_forall in GA. destruct (GA _ HI) as (n & H1 & _ & H3). apply novel_gene_id_inj in H3; lia. Qed.
Theorem allocated_ids_not_in_reference genes transcripts chr l v : 0 <= v ->
  let r := snd (allocate (forbidden_ids genes transcripts) chr v l) in
  (forall t, In t (out_tids r) -> ~ In t transcripts) /\ (forall g, In g (out_gids r) -> ~ In g genes).
Proof. intros Hv r. destruct (allocate_above (forbidden_ids genes transcripts) chr l v) as (_ & TA & GA). fold r in TA, GA.
  rewrite Forall_forall in TA, GA. split.
  - intros t Ht HI. destruct (TA _ Ht) as (n & c & H1 & H2 & H3). subst t. apply H2. unfold forbidden_ids. apply in_or_app. right.
    apply in_flat_map. exists (transcript_id n chr c). split; [exact HI|]. apply in_opt_list, transcript_forbidden_generated. lia.
  - intros g Hg HI. destruct (GA _ Hg) as (n & H1 & H2 & H3). subst g. apply H2. unfold forbidden_ids. apply in_or_app. left.
    apply in_flat_map. exists (novel_gene_id chr n). split; [exact HI|]. apply in_opt_list, gene_forbidden_generated. lia. Qed.

Print Assumptions py_int_print_dec.
Print Assumptions excluding_increment_fresh.
Print Assumptions novel_id_not_in_reference.
Print Assumptions transcript_ids_unique_per_file.
Print Assumptions exon_id_functional.
Print Assumptions exon_id_injective.
Print Assumptions reference_exon_ids_preserved_functional.
Print Assumptions allocated_ids_distinct.
Print Assumptions allocated_ids_not_in_reference.
