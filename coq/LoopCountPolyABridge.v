(* C16: PolyA2.count_polya_exons is PolyAFixer.count_polya_exons of src/polya_verification.py as regenerated WHOLE into gen/Loops.v
   (tools/translate_loops.py: a method, self.params.max_fake_terminal_exon_len as a parameter; the scan from the last exon as fold_left over seq
   with a `stopped` flag for the break).  For all inputs; the exception-freedom condition always holds. *)
From Coq Require Import ZArith List Bool Lia ZifyBool.
From IQ.gen Require Import Prims Loops.
From IQ Require Import Cigar PolyA PolyA2 LoopsSupport LoopsIndexSupport LoopCountSupport.
Import ListNotations. Open Scope Z_scope.

Theorem count_polya_exons_is_the_source mf exons pos :
  PolyA2.count_polya_exons mf exons pos = py_count_polya_exons mf exons pos /\ py_count_polya_exons_pre mf exons pos = true.
Proof. unfold PolyA2.count_polya_exons, py_count_polya_exons, py_count_polya_exons_pre. destruct (pos =? -1); [split; reflexivity|]. split.
  - rewrite (fold_left_ext_in (py_count_polya_exons_step mf exons pos) (fun s i => ga mf pos s (nth i (rev exons) (0, 0)))).
    + rewrite <- (rev_length exons). rewrite fold_seq_nth. pose proof (ga_fold mf pos (rev exons) 0) as G.
      destruct (fold_left (ga mf pos) (rev exons) (false, 0)) as [s c]. cbn [snd] in G. lia.
    + intros i Hi [stop c]. apply in_seq in Hi. unfold py_count_polya_exons_step, ga.
      replace (Z.sub (Z.opp (Z.of_nat i)) 1) with (- Z.of_nat i - 1) by reflexivity. rewrite py_index_from_end by lia. reflexivity.
  - cbn [orb]. apply forallb_forall. intros i Hi. apply in_seq in Hi. unfold py_index_ok. lia. Qed.

