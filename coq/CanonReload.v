(* C18 — the reference window a GeneInfo holds after it has been written to and read from the save files (stage 2: the read table and the
   transcript models are printed from reloaded GeneInfo objects).

   Stage 1 keeps a reference window for the gene set.  After fixes/C18_serialize_read_region.diff that window covers the gene region, the region of
   the reads collected for the gene set and the span of every one of those reads (reference transcripts may reach beyond the reads, reads beyond
   the genes), and the save file keeps it next to the gene region (sv_reads_start / sv_reads_end below: the STORED window).  The loader calls
   set_reference_sequence(all_read_region_start, all_read_region_end, chr_record):
     repaired   : the stored window                        -> the same window as in stage 1
     unrepaired : the gene region (nothing else is stored) -> introns of reads reaching beyond the genes are looked up outside the window
   (known finding C18:intron-outside-window, Canon.outside_window_refuted). *)
From Coq Require Import ZArith List Bool Lia.
From IQ Require Import CorrSupport Ids IdsSpec Canon CanonSpec.
Import ListNotations. Open Scope Z_scope.

Record saved := { sv_gene_start : Z; sv_gene_end : Z; sv_reads_start : Z; sv_reads_end : Z }.
Definition reloaded_window (repaired:bool) (text:str) (g:saved) : window :=
  if repaired then window_of text (sv_reads_start g) (sv_reads_end g) else window_of text (sv_gene_start g) (sv_gene_end g).
(* the stored window lies on the chromosome *)
Definition region_valid (text:str) (g:saved) : Prop := 1 <= sv_reads_start g /\ sv_reads_start g <= sv_reads_end g /\ sv_reads_end g <= Z.of_nat (length text).
(* an intron of a read of the group, of a model built from them or of an annotated transcript of the genes: both of its ends are inside the stored window *)
Definition in_read_region (g:saved) (i:intron) : Prop := sv_reads_start g <= fst i /\ fst i < snd i /\ snd i <= sv_reads_end g.

Lemma nth_firstn_lt : forall (l:str) n k, (k < n)%nat -> nth k (firstn n l) 0 = nth k l 0.
Proof. induction l as [|c l IH]; intros n k H; [destruct n, k; reflexivity|]. destruct n as [|n]; [lia|]. destruct k as [|k]; [reflexivity|].
  cbn [firstn nth]. apply IH. lia. Qed.

Lemma window_of_seq text ws we : 1 <= ws -> ws <= we + 1 -> we <= Z.of_nat (length text) ->
  wseq (window_of text ws we) = firstn (Z.to_nat (we - ws + 1)) (skipn (Z.to_nat (ws - 1)) text).
Proof. intros H1 H2 H3. unfold window_of. cbn [wseq]. unfold py_slice, clamp_index.
  destruct (ws - 1 <? 0) eqn:E1; [lia|]. destruct (we <? 0) eqn:E2; [lia|].
  rewrite !Z.min_l by lia. f_equal. lia. Qed.
Lemma window_of_len text ws we : 1 <= ws -> ws <= we + 1 -> we <= Z.of_nat (length text) -> wlen (window_of text ws we) = we - ws + 1.
Proof. intros H1 H2 H3. unfold wlen. rewrite (window_of_seq text ws we H1 H2 H3), firstn_length, skipn_length. lia. Qed.
Lemma window_of_covers text ws we : 1 <= ws -> ws <= we + 1 -> we <= Z.of_nat (length text) -> covers (ref_of text) (window_of text ws we).
Proof. intros H1 H2 H3 k Hk. rewrite (window_of_len text ws we H1 H2 H3) in Hk. rewrite (window_of_seq text ws we H1 H2 H3).
  rewrite nth_firstn_lt by lia. rewrite nth_skipn_add. unfold ref_of, window_of. cbn [wstart]. f_equal. lia. Qed.

(* repaired reload: the test of every intron inside the read region reads the chromosome's own bases *)
Theorem canonical_reloaded text g st i : region_valid text g -> in_read_region g i ->
  canonical_on (reloaded_window true text g) st i = canonical_ref (ref_of text) st i.
Proof. intros (V1 & V2 & V3) (I1 & I2 & I3). cbn [reloaded_window].
  apply canonical_pure_spec; [apply window_of_covers; lia|].
  unfold inside. rewrite window_of_len by lia. unfold window_of. cbn [wstart]. lia. Qed.

Lemma forallb_ext_in {A} (f g:A -> bool) l : (forall x, In x l -> f x = g x) -> forallb f l = forallb g l.
Proof. induction l as [|x t IH]; intros H; [reflexivity|]. cbn [forallb]. rewrite (H x) by (left; reflexivity). rewrite IH; [reflexivity|].
  intros y Hy. apply H. right. exact Hy. Qed.

(* ... hence the printed flags of reads and of models are the chromosome's, whatever was processed before, without any window restriction:
   every intron of the record inside the read region is all that is needed *)
Theorem flag_spec_reloaded text g m st exons : region_valid text g -> Forall (in_read_region g) (jfb exons) ->
  sound (reloaded_window true text g) m ->
  snd (read_flag (reloaded_window true text g) m st exons) = Some (flag_ref text st exons) /\
  snd (model_flag (reloaded_window true text g) m None st exons) = Some (flag_ref text st exons).
Proof. intros V F S.
  assert (Hw: wseq (reloaded_window true text g) <> []).
  { destruct V as (V1 & V2 & V3). intros E. pose proof (window_of_len text (sv_reads_start g) (sv_reads_end g) ltac:(lia) ltac:(lia) V3) as L.
    unfold wlen in L. cbn [reloaded_window] in E. rewrite E in L. cbn [length] in L. lia. }
  assert (E: flag_spec (reloaded_window true text g) st exons = flag_ref text st exons).
  { unfold flag_spec, flag_ref. destruct (jfb exons) as [|i l] eqn:J; [reflexivity|]. f_equal. apply forallb_ext_in.
    intros x Hx. apply canonical_reloaded; [exact V|]. rewrite Forall_forall in F. apply F, Hx. }
  split.
  - destruct (read_flag_spec _ m st exons Hw S) as [H _]. rewrite H, E. reflexivity.
  - destruct (model_flag_spec _ m st exons Hw S) as [H _]. rewrite H, E. reflexivity. Qed.

(* the two reloads on the example of Canon.v: genes at 10..30, a read from 1 to 30 with the GT..AG intron 5..14 *)
Definition saved_ex : saved := {| sv_gene_start := 10; sv_gene_end := 30; sv_reads_start := 1; sv_reads_end := 30 |}.
Example reload_example :
  region_valid text_ex saved_ex /\ in_read_region saved_ex (5, 14) /\
  reloaded_window false text_ex saved_ex = late_ex /\
  canonical_ref (ref_of text_ex) Plus (5, 14) = true /\
  canonical_on (reloaded_window false text_ex saved_ex) Plus (5, 14) = false /\
  canonical_on (reloaded_window true text_ex saved_ex) Plus (5, 14) = true.
Proof. split; [unfold region_valid, saved_ex; cbn; lia|]. split; [unfold in_read_region, saved_ex; cbn; lia|]. vm_compute. repeat split; reflexivity. Qed.
Print Assumptions flag_spec_reloaded.
