(* Facts about the shape tools/translate_loops.py emits for `for i in range(a, b)` and for range over an unpacked pair: fold_left over
   map (fun k => a + Z.of_nat k) (seq 0 (Z.to_nat (b - a))) with the lists read by py_index.  For a range inside the lists the fold is a fold
   over the zipped slices l1[a:b], l2[a:b], and every subscript is in range. *)
From Coq Require Import ZArith List Bool Lia ZifyBool.
From IQ.gen Require Import Prims Loops.
From IQ Require Import LoopsSupport LoopsIndexSupport ProfileHelpers ProfileHelpers2.
Import ListNotations. Open Scope Z_scope.

Definition zrange (rg:Z * Z) : list Z := map (fun k_ => Z.add (fst rg) (Z.of_nat k_)) (seq 0 (Z.to_nat (Z.sub (snd rg) (fst rg)))).

Lemma fold_left_map {S A B} (f : S -> B -> S) (h : A -> B) l : forall s, fold_left f (map h l) s = fold_left (fun s x => f s (h x)) l s.
Proof. induction l as [|x t IH]; intros s; [reflexivity|]. cbn [map fold_left]. apply IH. Qed.
Lemma fold_left_ext_in {S A} (f g : S -> A -> S) l : (forall a, In a l -> forall s, f s a = g s a) -> forall s, fold_left f l s = fold_left g l s.
Proof. induction l as [|x t IH]; intros H s; [reflexivity|]. cbn [fold_left]. rewrite H by (left; reflexivity). apply IH. intros a Ha. apply H. right. exact Ha. Qed.

Lemma nth_firstn_lt {A} (d:A) : forall n k l, (k < n)%nat -> nth k (firstn n l) d = nth k l d.
Proof. induction n as [|n IH]; intros k l H; [lia|]. destruct l as [|x t]; [destruct k; reflexivity|]. destruct k; [reflexivity|]. cbn [firstn nth]. apply IH. lia. Qed.
Lemma nth_skipn_add {A} (d:A) : forall a k l, nth k (skipn a l) d = nth (a + k) l d.
Proof. induction a as [|a IH]; intros k l; [reflexivity|]. destruct l as [|x t]; [destruct k; reflexivity|]. cbn [skipn plus nth]. apply IH. Qed.

Lemma slice_length {A} (l:list A) rg : range_ok l rg = true -> length (slice l rg) = Z.to_nat (snd rg - fst rg).
Proof. unfold range_ok, slice. intros H. rewrite firstn_length, skipn_length. lia. Qed.
Lemma slice_nth {A} (l:list A) rg k d : range_ok l rg = true -> (k < Z.to_nat (snd rg - fst rg))%nat ->
  py_index l (fst rg + Z.of_nat k) d = nth k (slice l rg) d.
Proof. unfold range_ok, slice. intros H Hk. replace (fst rg + Z.of_nat k) with (Z.of_nat (Z.to_nat (fst rg) + k)) by lia.
  rewrite py_index_nonneg. rewrite nth_firstn_lt by exact Hk. rewrite nth_skipn_add. reflexivity. Qed.
Lemma slice_whole {A} (l:list A) : slice l (whole l) = l.
Proof. unfold slice, whole. cbn [fst snd]. rewrite Z.sub_0_r, Nat2Z.id. change (Z.to_nat 0) with 0%nat. cbn [skipn]. apply firstn_all. Qed.
Lemma range_ok_whole {A} (l:list A) : range_ok l (whole l) = true.
Proof. unfold range_ok, whole. cbn [fst snd]. lia. Qed.
Lemma range_ok_same_length {A B} (l1:list A) (l2:list B) rg : length l1 = length l2 -> range_ok l1 rg = range_ok l2 rg.
Proof. unfold range_ok. intros ->. reflexivity. Qed.

Lemma fold_range_slices {S} (g : S -> Z -> Z -> S) (l1 l2:list Z) rg a : length l1 = length l2 -> range_ok l1 rg = true ->
  fold_left (fun s i => g s (py_index l1 i 0) (py_index l2 i 0)) (zrange rg) a =
  fold_left (fun s p => g s (fst p) (snd p)) (combine (slice l1 rg) (slice l2 rg)) a.
Proof. intros L R1. assert (R2: range_ok l2 rg = true) by (rewrite <- (range_ok_same_length l1 l2 rg L); exact R1).
  unfold zrange. rewrite fold_left_map.
  rewrite (fold_left_ext_in _ (fun s k => g s (nth k (slice l1 rg) 0) (nth k (slice l2 rg) 0))).
  - rewrite <- (slice_length l1 rg R1). apply fold_seq_nth2. rewrite !slice_length by assumption. reflexivity.
  - intros k Hk s. apply in_seq in Hk. rewrite !slice_nth by (assumption || lia). reflexivity. Qed.

Lemma range_indices_ok (l:list Z) rg : range_ok l rg = true -> forall i, In i (zrange rg) -> py_index_ok l i = true.
Proof. unfold range_ok, zrange, py_index_ok. intros H i Hi. apply in_map_iff in Hi. destruct Hi as [k [<- Hk]]. apply in_seq in Hk. lia. Qed.
