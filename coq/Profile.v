From Coq Require Import ZArith List Bool Lia ZifyBool.
Import ListNotations. Open Scope Z_scope.
Notation iv := (Z*Z)%type.

Section P.
Variable delta : Z.
Variable init : iv -> Z.          (* -1 if absence_condition(mapped_region, k) else 0 *)
Definition eqd (r k:iv) : bool := (Z.abs (fst r - fst k) <=? delta) && (Z.abs (snd r - snd k) <=? delta).

(* gene-side profile of OverlappingFeaturesProfileConstructor.construct_profile_for_features,
   before tie elimination and polyA marking. K: known features (sorted by start), R: read features,
   rpos0: "read_pos > 0".  Structural on K, inner loop on R. *)
Fixpoint gp (K R:list iv) (rpos0:bool) {struct K} : list Z :=
  match K with
  | [] => []
  | k::K' =>
    (fix go (R:list iv) (rpos0:bool) {struct R} : list Z :=
       match R with
       | [] => init k :: map init K'
       | r::R' => if snd r <? fst k then go R' true
                  else if snd k <? fst r then (if rpos0 then -1 else init k) :: gp K' R rpos0
                  else if eqd r k then 1 :: gp K' R rpos0
                  else init k :: gp K' R rpos0
       end) R rpos0
  end.

(* declarative value of one feature against the ORIGINAL read feature list *)
Fixpoint first_reaching (k:iv) (R:list iv) (skipped:bool) : option (iv * bool) :=   (* the feature r(j) and whether its index is > 0 *)
  match R with [] => None | r::R' => if snd r <? fst k then first_reaching k R' true else Some (r, skipped) end.
Definition value (k:iv) (R:list iv) (rpos0:bool) : Z :=
  match first_reaching k R rpos0 with
  | None => init k
  | Some (r, pos) => if snd k <? fst r then (if pos then -1 else init k) else if eqd r k then 1 else init k
  end.

(* starts of K non-decreasing *)
Fixpoint starts_sorted (K:list iv) : Prop := match K with [] => True | a::t => match t with [] => True | b::_ => fst a <= fst b end /\ starts_sorted t end.
Lemma starts_lower a t : starts_sorted (a::t) -> Forall (fun b => fst a <= fst b) t.
Proof. revert a; induction t as [|b t IH]; intros a H; constructor.
 - simpl in H. lia.
 - simpl in H. destruct H as (Hab & Hb). specialize (IH b Hb). eapply Forall_impl; [|exact IH]. simpl; intros; lia. Qed.

(* dropping read features that lie left of an EARLIER feature does not change what a later feature sees *)
Lemma first_reaching_drop (k k' r:iv) R sk : fst k <= fst k' -> snd r <? fst k = true ->
  first_reaching k' (r::R) sk = first_reaching k' R true.
Proof. intros H1 H2. cbn [first_reaching]. replace (snd r <? fst k') with true by lia. reflexivity. Qed.

Lemma value_drop (k k' r:iv) R sk : fst k <= fst k' -> snd r <? fst k = true -> value k' (r::R) sk = value k' R true.
Proof. intros H1 H2. unfold value. rewrite (first_reaching_drop k k' r R sk H1 H2). reflexivity. Qed.

(* when everything is exhausted the remaining features keep their initial value *)
Lemma value_nil k sk : value k [] sk = init k. Proof. reflexivity. Qed.

Theorem gp_char : forall K R rpos0, starts_sorted K -> gp K R rpos0 = map (fun k => value k R rpos0) K.
Proof.
  induction K as [|k K' IHK]; intros R rpos0 HS; [reflexivity|].
  pose proof (starts_lower k K' HS) as HL. assert (HS': starts_sorted K') by (simpl in HS; tauto).
  revert rpos0. induction R as [|r R' IHR]; intros rpos0.
  - cbn [gp map]. f_equal.
  - cbn [gp]. cbn [gp] in IHR. destruct (snd r <? fst k) eqn:E1.
    + (* read feature left of k: it is dropped; later features do not see it either *)
      rewrite IHR. cbn [map]. f_equal.
      * unfold value. cbn [first_reaching]. rewrite E1. reflexivity.
      * apply map_ext_in. intros k' Hk'. rewrite Forall_forall in HL. symmetry. apply (value_drop k k' r R' rpos0); [apply HL, Hk'|exact E1].
    + assert (V: value k (r::R') rpos0 = if snd k <? fst r then (if rpos0 then -1 else init k) else if eqd r k then 1 else init k).
      { unfold value. cbn [first_reaching]. rewrite E1. reflexivity. }
      cbn [map]. rewrite V. destruct (snd k <? fst r); [|destruct (eqd r k)]; f_equal; apply IHK, HS'.
Qed.
End P.
Print Assumptions gp_char.
