From Coq Require Import ZArith List Bool Lia ZifyBool.
Import ListNotations. Open Scope Z_scope.
Notation iv := (Z*Z)%type.

(* junctions_from_blocks: gaps between consecutive blocks, emitted only when non-empty *)
Fixpoint jfb (l:list iv) : list iv :=
  match l with
  | a :: ((b :: _) as t) => (if snd a + 1 <? fst b then [(snd a + 1, fst b - 1)] else []) ++ jfb t
  | _ => []
  end.
(* get_exons(region, introns): the infinite sentinels only contribute one coordinate each *)
Definition get_exons (r:iv) (introns:list iv) : list iv := jfb ((fst r - 1, fst r - 1) :: introns ++ [(snd r + 1, snd r + 1)]).

(* strictly increasing, disjoint, well-formed *)
Fixpoint sd (l:list iv) : Prop :=
  match l with [] => True | a::t => fst a <= snd a /\ match t with [] => True | b::_ => snd a < fst b end /\ sd t end.

(* hypothesis on the block list after its head: well-formed, starts non-decreasing *)
Fixpoint mono (l:list iv) : Prop :=
  match l with [] => True | a::t => fst a <= snd a /\ match t with [] => True | b::_ => fst a <= fst b end /\ mono t end.

Lemma mono_lower a t : mono (a::t) -> Forall (fun b => fst a <= fst b) t.
Proof. revert a; induction t as [|b t IH]; intros a H; constructor.
 - simpl in H. lia.
 - simpl in H. destruct H as (_ & Hab & Hb). specialize (IH b Hb). eapply Forall_impl; [|exact IH]. simpl; intros; lia. Qed.

(* every gap emitted from (b::t) starts strictly after the start of b *)
Lemma jfb_lower b t : mono (b::t) -> Forall (fun e => fst b < fst e) (jfb (b::t)).
Proof. revert b; induction t as [|c t IH]; intros b Hm; [constructor|].
  cbn [jfb]. simpl in Hm. destruct Hm as (Hb & Hbc & Hc & Hct & Hmt).
  assert (Hmc: mono (c::t)) by (simpl; auto).
  apply Forall_app. split.
  - destruct (snd b + 1 <? fst c); constructor; [simpl; lia|constructor].
  - specialize (IH c Hmc). eapply Forall_impl; [|exact IH]. simpl. intros e He. lia. Qed.

Lemma sd_cons_forall e l : fst e <= snd e -> Forall (fun x => snd e < fst x) l -> sd l -> sd (e::l).
Proof. intros He Hf Hs. simpl. split; [exact He|]. split; [|exact Hs]. destruct l; [exact I|]. inversion Hf; assumption. Qed.

Theorem jfb_sd : forall a t, mono t -> Forall (fun b => fst a <= fst b) t -> sd (jfb (a::t)).
Proof. intros a t; revert a; induction t as [|b t IH]; intros a Hm Hf; [exact I|].
  cbn [jfb]. simpl in Hm. destruct Hm as (Hb & Hbt & Hmt).
  assert (Hmb: mono (b::t)) by (simpl; auto).
  specialize (IH b Hmt (mono_lower b t Hmb)).
  destruct (snd a + 1 <? fst b) eqn:E; cbn [app]; [|exact IH].
  apply sd_cons_forall; [simpl; lia| |exact IH].
  pose proof (jfb_lower b t Hmb) as L.
  eapply Forall_impl; [|exact L]. simpl. intros e He. lia. Qed.

(* exons built from ANY well-formed, start-ordered intron list are well-formed, increasing and disjoint,
   and lie inside the region when the introns do *)
Theorem get_exons_wf r introns : mono introns ->
  Forall (fun i => fst r - 1 <= fst i /\ fst i <= snd r + 1) introns -> fst r <= snd r + 2 ->
  sd (get_exons r introns).
Proof. intros Hm Hf Hr. unfold get_exons. apply jfb_sd.
  - clear Hr. induction introns as [|i t IH]; [simpl; lia|].
    inversion Hf; subst. simpl in Hm. destruct Hm as (Hi & Hit & Hmt). specialize (IH Hmt H2).
    cbn [app]. simpl. split; [exact Hi|]. split; [|exact IH].
    destruct t as [|j t']; cbn [app]; [simpl; lia|exact Hit].
  - apply Forall_app. split; [eapply Forall_impl; [|exact Hf]; simpl; intros; lia|constructor; [simpl; lia|constructor]]. Qed.

(* BED12 row from exons *)
Definition bed_sizes (ex:list iv) := map (fun e => snd e - fst e + 1) ex.
Definition bed_starts (ex:list iv) := match ex with [] => [] | f::_ => map (fun e => fst e - fst f) ex end.
Fixpoint ascending_blocks (starts sizes:list Z) : Prop :=
  match starts, sizes with
  | s1::((s2::_) as st), z1::zt => s1 + z1 <= s2 /\ ascending_blocks st zt
  | _, _ => True end.
Lemma sizes_pos l : sd l -> Forall (fun z => 0 < z) (bed_sizes l).
Proof. unfold bed_sizes. induction l as [|e l IH]; intros H; constructor; simpl in H; [lia|apply IH; tauto]. Qed.
Lemma asc_blocks f l : sd l -> ascending_blocks (map (fun e => fst e - f) l) (bed_sizes l).
Proof. unfold bed_sizes. induction l as [|e l IH]; intros H; [exact I|]. destruct l as [|e' l']; [exact I|].
  cbn [map ascending_blocks]. simpl in H. split; [lia|]. apply IH. simpl. tauto. Qed.
Lemma last_block f l : l <> [] ->
  last (map (fun e => fst e - f) l) 0 + last (bed_sizes l) 0 = snd (last l (0,0)) - f + 1.
Proof. unfold bed_sizes. induction l as [|e l IH]; intros H; [congruence|]. destruct l as [|e' l']; [cbn [map last]; lia|].
  change (last (map (fun e0 => fst e0 - f) (e :: e' :: l')) 0) with (last (map (fun e0 => fst e0 - f) (e' :: l')) 0).
  change (last (map (fun e0 => snd e0 - fst e0 + 1) (e :: e' :: l')) 0) with (last (map (fun e0 => snd e0 - fst e0 + 1) (e' :: l')) 0).
  change (last (e :: e' :: l') (0,0)) with (last (e' :: l') (0,0)). apply IH. discriminate. Qed.

Theorem bed_row_valid ex : sd ex -> ex <> [] ->
  Forall (fun z => 0 < z) (bed_sizes ex) /\ hd 0 (bed_starts ex) = 0 /\ ascending_blocks (bed_starts ex) (bed_sizes ex) /\
  last (bed_starts ex) 0 + last (bed_sizes ex) 0 = snd (last ex (0,0)) - fst (hd (0,0) ex) + 1.
Proof. intros Hs Hne. destruct ex as [|f t]; [congruence|]. unfold bed_starts. cbn [hd].
  split; [apply sizes_pos, Hs|]. split; [cbn [map hd]; lia|]. split; [apply asc_blocks, Hs|apply last_block; discriminate]. Qed.
Print Assumptions get_exons_wf.
Print Assumptions bed_row_valid.
