(* C19: count_both_present_features of src/common.py, regenerated into gen/Loops.v on every check, is its declarative reading (ProfileHelpers.v). *)
From Coq Require Import ZArith List Bool Lia ZifyBool.
From IQ.gen Require Import Prims Loops.
From IQ Require Import LoopsSupport ProfileHelpers.
Import ListNotations. Open Scope Z_scope.

Theorem count_both_present_spec p1 p2 : py_count_both_present_features_pre p1 p2 = true ->
  py_count_both_present_features p1 p2 = spec_count_both p1 p2.
Proof. intros H. apply pre_len in H. unfold py_count_both_present_features, spec_count_both. cbv zeta.
  change (py_count_both_present_features_step p1 p2) with
    (fun (s:Z) (i:nat) => (fun s x y => if (x =? y) && (y =? 1) then s + 1 else s) s (nth i p1 0) (nth i p2 0)).
  rewrite fold_seq_nth2 by exact H.
  assert (G: forall l a, fold_left (fun (s:Z) (p:Z * Z) => if (fst p =? snd p) && (snd p =? 1) then s + 1 else s) l a = a + Z.of_nat (length (filter both_present l))).
  { induction l as [|x t IH]; intros a; cbn [fold_left filter length]; [lia|]. rewrite IH. unfold both_present at 2.
    destruct (Z.eqb_spec (fst x) (snd x)), (Z.eqb_spec (snd x) 1), (Z.eqb_spec (fst x) 1); cbn [andb length]; lia. }
  rewrite G. lia. Qed.
Corollary count_both_present_bounds p1 p2 : py_count_both_present_features_pre p1 p2 = true ->
  0 <= py_count_both_present_features p1 p2 <= Z.of_nat (length p1).
Proof. intros H. rewrite (count_both_present_spec p1 p2 H). unfold spec_count_both. apply pre_len in H.
  pose proof (filter_len_le both_present (combine p1 p2)) as L. rewrite combine_length in L. lia. Qed.

