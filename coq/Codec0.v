From Coq Require Import ZArith NArith List Bool Lia ZifyBool ZifyN.
Import ListNotations.
Open Scope N_scope.
Definition byte := N.

Fixpoint enc_be (w:nat) (v:N) : list byte :=
  match w with O => [] | S w' => (v / 256 ^ N.of_nat w') :: enc_be w' (v mod 256 ^ N.of_nat w') end.
Fixpoint dec_be (w:nat) (l:list byte) : option (N * list byte) :=
  match w with
  | O => Some (0, l)
  | S w' => match l with
            | [] => None
            | b::t => match dec_be w' t with
                      | Some (x, r) => Some (b * 256 ^ N.of_nat w' + x, r)
                      | None => None end
            end
  end.

Lemma be_roundtrip w : forall v rest, v < 256 ^ N.of_nat w -> dec_be w (enc_be w v ++ rest) = Some (v, rest).
Proof.
  induction w as [|w IH]; intros v rest Hv.
  - simpl in *. assert (v = 0) by lia. subst. reflexivity.
  - cbn [enc_be dec_be app].
    assert (Hp: 256 ^ N.of_nat w <> 0) by (apply N.pow_nonzero; lia).
    rewrite IH by (apply N.mod_lt; exact Hp).
    f_equal. f_equal.
    rewrite N.mul_comm. symmetry. apply N.div_mod. exact Hp.
Qed.

(* generic codec record + combinators *)
Record codec (A:Type) := { enc : A -> list byte; dec : list byte -> option (A * list byte); dom : A -> Prop }.
Arguments enc {A}. Arguments dec {A}. Arguments dom {A}.
Definition rt {A} (c:codec A) := forall a rest, dom c a -> dec c (enc c a ++ rest) = Some (a, rest).

Definition c_int (w:nat) : codec N := {| enc := enc_be w; dec := dec_be w; dom := fun v => v < 256 ^ N.of_nat w |}.
Lemma rt_int w : rt (c_int w). Proof. intros a rest H. apply be_roundtrip, H. Qed.

Definition c_pair {A B} (ca:codec A) (cb:codec B) : codec (A*B) :=
 {| enc := fun p => enc ca (fst p) ++ enc cb (snd p);
    dec := fun l => match dec ca l with Some (a, r) => match dec cb r with Some (b, r') => Some ((a,b), r') | None => None end | None => None end;
    dom := fun p => dom ca (fst p) /\ dom cb (snd p) |}.
Lemma rt_pair {A B} (ca:codec A) (cb:codec B) : rt ca -> rt cb -> rt (c_pair ca cb).
Proof. intros Ha Hb [a b] rest [Da Db]; simpl in *. rewrite <- app_assoc, Ha, Hb by assumption. reflexivity. Qed.

Fixpoint enc_list {A} (c:codec A) (l:list A) := match l with [] => [] | x::t => enc c x ++ enc_list c t end.
Fixpoint dec_n {A} (c:codec A) (n:nat) (l:list byte) : option (list A * list byte) :=
  match n with O => Some ([], l)
  | S n' => match dec c l with Some (x, r) => match dec_n c n' r with Some (xs, r') => Some (x::xs, r') | None => None end | None => None end end.
Definition c_list {A} (c:codec A) : codec (list A) :=
 {| enc := fun l => enc_be 4 (N.of_nat (length l)) ++ enc_list c l;
    dec := fun b => match dec_be 4 b with Some (n, r) => dec_n c (N.to_nat n) r | None => None end;
    dom := fun l => N.of_nat (length l) < 256^4 /\ Forall (dom c) l |}.
Lemma dec_n_enc {A} (c:codec A) : rt c -> forall l rest, Forall (dom c) l -> dec_n c (length l) (enc_list c l ++ rest) = Some (l, rest).
Proof. intros H l; induction l as [|x t IH]; intros rest Hf; simpl; [reflexivity|].
  inversion Hf; subst. rewrite <- app_assoc, H, IH by assumption. reflexivity. Qed.
Lemma rt_list {A} (c:codec A) : rt c -> rt (c_list c).
Proof. intros H l rest [Hl Hf]. cbn [enc dec c_list]. rewrite <- app_assoc, be_roundtrip by exact Hl.
  rewrite Nnat.Nat2N.id. apply dec_n_enc; assumption. Qed.

(* sign-bit ints: write_int_neg *)
Open Scope Z_scope.
Definition enc_neg (v:Z) : list byte := enc_be 4 (if v <? 0 then (Z.to_N (-v) + 2147483648)%N else Z.to_N v).
Definition dec_neg (l:list byte) : option (Z * list byte) :=
  match dec_be 4 l with
  | Some (n, r) => Some ((if (2147483648 <=? n)%N then - Z.of_N (n - 2147483648)%N else Z.of_N n), r)
  | None => None end.
Lemma neg_roundtrip v rest : -2147483648 < v < 2147483648 -> dec_neg (enc_neg v ++ rest) = Some (v, rest).
Proof. intros Hv. unfold enc_neg, dec_neg.
  assert (Hw: (256 ^ N.of_nat 4)%N = 4294967296%N) by reflexivity.
  destruct (v <? 0) eqn:E.
  - rewrite be_roundtrip by (rewrite Hw; lia).
    destruct (2147483648 <=? Z.to_N (-v) + 2147483648)%N eqn:E2; [|lia]. f_equal. f_equal. lia.
  - rewrite be_roundtrip by (rewrite Hw; lia).
    destruct (2147483648 <=? Z.to_N v)%N eqn:E2; [lia|]. f_equal. f_equal. lia.
Qed.
Print Assumptions rt_list.
