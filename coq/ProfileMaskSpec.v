(* C19: mask_profile of src/common.py, regenerated into gen/Loops.v on every check, is its declarative reading (ProfileHelpers.v). *)
From Coq Require Import ZArith List Bool Lia ZifyBool.
From IQ.gen Require Import Prims Loops.
From IQ Require Import LoopsSupport ProfileHelpers.
Import ListNotations. Open Scope Z_scope.

Theorem mask_profile_spec read truth : py_mask_profile_pre read truth = true ->
  py_mask_profile read truth = spec_mask read truth /\ length (py_mask_profile read truth) = length truth.
Proof. intros H. apply pre_len in H. assert (E: py_mask_profile read truth = spec_mask read truth).
  { unfold py_mask_profile, spec_mask. cbv zeta.
    change (py_mask_profile_step read truth) with
      (fun (s:list Z) (i:nat) => (fun s y x => if y =? 1 then s ++ [x] else s ++ [0]) s (nth i truth 0) (nth i read 0)).
    rewrite fold_seq_nth2 by (symmetry; exact H).
    assert (G: forall l1 l2 acc, length l1 = length l2 ->
              fold_left (fun (s:list Z) (p:Z * Z) => if fst p =? 1 then s ++ [snd p] else s ++ [0]) (combine l2 l1) acc =
              acc ++ map (fun p => if snd p =? 1 then fst p else 0) (combine l1 l2)).
    { induction l1 as [|x t IH]; intros l2 acc L; destruct l2 as [|y u]; try (simpl in L; lia); [cbn; rewrite app_nil_r; reflexivity|].
      cbn [combine fold_left map fst snd]. rewrite IH by (simpl in L; lia). destruct (y =? 1); rewrite <- app_assoc; reflexivity. }
    rewrite (G read truth [] H). reflexivity. }
  split; [exact E|]. rewrite E. unfold spec_mask. rewrite map_length, combine_length. lia. Qed.

