(* C19: find_matching_positions of src/common.py, regenerated into gen/Loops.v on every check (an accumulator initialised by a list comprehension
   and updated by `matches[i] = 1`), is its declarative reading (ProfileHelpers2.v): 1 where the two profiles agree, 0 elsewhere. *)
From Coq Require Import ZArith List Bool Lia ZifyBool.
From IQ.gen Require Import Prims Loops.
From IQ Require Import LoopsSupport ProfileHelpers ProfileHelpers2.
Import ListNotations. Open Scope Z_scope.

Lemma py_set_at {A} (done rest:list A) (x v:A) : py_set (done ++ x :: rest) (Z.of_nat (length done)) v = done ++ v :: rest.
Proof. unfold py_set. replace (Z.of_nat (length done) <? 0) with false by lia. rewrite Nat2Z.id. cbv zeta.
  rewrite firstn_app, Nat.sub_diag, firstn_all, firstn_O, app_nil_r.
  replace (skipn (S (length done)) (done ++ x :: rest)) with rest; [reflexivity|].
  rewrite skipn_app. replace (S (length done) - length done)%nat with 1%nat by lia. rewrite skipn_all2 by lia. reflexivity. Qed.

Lemma matching_fold : forall l1 l2 pre1 pre2 done, length l1 = length l2 -> length pre1 = length done -> length pre2 = length done ->
  fold_left (py_find_matching_positions_step (pre1 ++ l1) (pre2 ++ l2)) (seq (length done) (length l1)) (done ++ repeat 0 (length l1)) = done ++ spec_matching l1 l2.
Proof. induction l1 as [|x t IH]; intros l2 pre1 pre2 done L H1 H2; destruct l2 as [|y u]; try (simpl in L; lia); [reflexivity|].
  cbn [length seq fold_left repeat]. unfold py_find_matching_positions_step at 2.
  replace (nth (length done) (pre1 ++ x :: t) 0) with x by (rewrite <- H1; symmetry; apply nth_pre).
  replace (nth (length done) (pre2 ++ y :: u) 0) with y by (rewrite <- H2; symmetry; apply nth_pre).
  rewrite py_set_at. unfold spec_matching. cbn [combine map fst snd]. fold (spec_matching t u).
  rewrite (app_cons_assoc pre1 t x), (app_cons_assoc pre2 u y).
  destruct (x =? y).
  - rewrite (app_cons_assoc done (repeat 0 (length t)) 1). rewrite <- (length_snoc done 1). rewrite IH by (rewrite ?length_snoc; simpl in L; lia).
    rewrite <- app_assoc. reflexivity.
  - rewrite (app_cons_assoc done (repeat 0 (length t)) 0). rewrite <- (length_snoc done 0). rewrite IH by (rewrite ?length_snoc; simpl in L; lia).
    rewrite <- app_assoc. reflexivity. Qed.

Theorem find_matching_positions_spec p1 p2 : py_find_matching_positions_pre p1 p2 = true ->
  py_find_matching_positions p1 p2 = spec_matching p1 p2 /\ length (py_find_matching_positions p1 p2) = length p1.
Proof. intros H. apply Nat.eqb_eq in H. assert (E: py_find_matching_positions p1 p2 = spec_matching p1 p2).
  { unfold py_find_matching_positions. cbv zeta. exact (matching_fold p1 p2 [] [] [] H eq_refl eq_refl). }
  split; [exact E|]. rewrite E. unfold spec_matching. rewrite map_length, combine_length. lia. Qed.
