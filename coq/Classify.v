From IQ.gen Require Import Tables. From Coq Require Import NArith List Bool. Import ListNotations.
Definition mem (x:MES) l := existsb (MES_eqb x) l.
Definition rmem (x:RAT) l := existsb (RAT_eqb x) l.
Definition ev_consistent x := mem x MES_is_consistent.
Definition ev_major x := mem x MES_is_major_inconsistency.
Definition ev_intronic x := mem x MES_is_intronic_inconsistency.
Definition ev_minor x := mem x MES_is_minor_error.

(* LongReadAssigner.classify_assignment on the set of event types of the selected isoforms *)
Definition classify (ambiguous:bool) (ev:list MES) : RAT :=
  if forallb ev_consistent ev then (if ambiguous then RAT_ambiguous else RAT_unique)
  else if existsb ev_major ev then
         (if ambiguous then RAT_inconsistent_ambiguous
          else if existsb ev_intronic ev then RAT_inconsistent else RAT_inconsistent_non_intronic)
  else if existsb ev_minor ev then (if ambiguous then RAT_ambiguous else RAT_unique_minor_difference)
  else RAT_noninformative.

(* table facts, re-proved on every regeneration of Tables.v *)
Lemma consistent_major_disjoint : forallb (fun x => negb (ev_consistent x && ev_major x)) MES_all = true. Proof. vm_compute. reflexivity. Qed.
Lemma intronic_subset_major : forallb (fun x => implb (ev_intronic x) (ev_major x)) MES_all = true. Proof. vm_compute. reflexivity. Qed.
Lemma all_listed : forall x, In x MES_all. Proof. destruct x; vm_compute; tauto. Qed.
Lemma consistent_not_major x : ev_consistent x = true -> ev_major x = false.
Proof. intros H. pose proof consistent_major_disjoint as D. rewrite forallb_forall in D. specialize (D x (all_listed x)).
  rewrite H in D. simpl in D. destruct (ev_major x); [discriminate|reflexivity]. Qed.

(* a major inconsistency among the events never yields a consistent assignment type *)
Theorem major_event_never_consistent amb ev : existsb ev_major ev = true -> rmem (classify amb ev) RAT_is_consistent = false.
Proof. intros H. unfold classify.
  assert (forallb ev_consistent ev = false).
  { destruct (forallb ev_consistent ev) eqn:E; [|reflexivity]. rewrite forallb_forall in E. apply existsb_exists in H. destruct H as [x [Hx Hm]].
    rewrite (consistent_not_major x (E x Hx)) in Hm. discriminate. }
  rewrite H0, H. destruct amb; [reflexivity|]. destruct (existsb ev_intronic ev); reflexivity. Qed.

(* exact characterisation of when the type is consistent *)
Theorem classify_consistent_iff amb ev :
  rmem (classify amb ev) RAT_is_consistent = true <->
  forallb ev_consistent ev = true \/ (existsb ev_major ev = false /\ existsb ev_minor ev = true).
Proof. unfold classify. destruct (forallb ev_consistent ev) eqn:E1.
  - split; [intros _; left; reflexivity|intros _; destruct amb; reflexivity].
  - destruct (existsb ev_major ev) eqn:E2.
    + split; [|intros [H|[H _]]; discriminate]. destruct amb; [discriminate|]. destruct (existsb ev_intronic ev); discriminate.
    + destruct (existsb ev_minor ev) eqn:E3.
      * split; [intros _; right; split; reflexivity|intros _; destruct amb; reflexivity].
      * split; [discriminate|intros [H|[_ H]]; discriminate]. Qed.
Print Assumptions classify_consistent_iff.
