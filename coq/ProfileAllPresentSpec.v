(* C19: all_features_present of src/common.py, regenerated into gen/Loops.v on every check, is its declarative reading (ProfileHelpers.v). *)
From Coq Require Import ZArith List Bool Lia ZifyBool.
From IQ.gen Require Import Prims Loops.
From IQ Require Import LoopsSupport ProfileHelpers.
Import ListNotations. Open Scope Z_scope.

Theorem all_features_present_spec iso read : py_all_features_present_pre iso read = true ->
  py_all_features_present iso read = spec_all_present iso read.
Proof. intros H. apply pre_len in H. unfold py_all_features_present, spec_all_present. cbv zeta.
  set (g := fun (s:option bool) (x y:Z) => match s with Some _ => s | None => if (x =? 1) && negb (y =? 1) then Some false else None end).
  change (py_all_features_present_step iso read) with (fun (s:option bool) (i:nat) => g s (nth i iso 0) (nth i read 0)).
  rewrite fold_seq_nth2 by exact H.
  induction (combine iso read) as [|x t IH]; [reflexivity|]. cbn [fold_left forallb]. unfold g at 2.
  destruct (Z.eqb_spec (fst x) 1), (Z.eqb_spec (snd x) 1); cbn [andb negb orb]; try exact IH.
  rewrite fold_option_some by (intros; reflexivity). reflexivity. Qed.

