From Coq Require Import ZArith NArith List Bool Lia ZifyBool ZifyN.
Import ListNotations. Open Scope N_scope.

(* ================= FeatureIdStorage ================= *)
Notation key := (N * Z * Z * N)%type.            (* chr, start, end, strand *)
Definition key_eqb (a b:key) : bool :=
  let '(c1,s1,e1,t1) := a in let '(c2,s2,e2,t2) := b in (c1 =? c2) && (s1 =? s2)%Z && (e1 =? e2)%Z && (t1 =? t2).
Lemma key_eqb_eq a b : key_eqb a b = true <-> a = b.
Proof. destruct a as [[[c1 s1] e1] t1], b as [[[c2 s2] e2] t2]; unfold key_eqb. split.
 - intros H. repeat (apply andb_prop in H; destruct H as [H ?]). f_equal; [f_equal; [f_equal|]|]; lia.
 - intros H; inversion H; subst. rewrite !N.eqb_refl, !Z.eqb_refl. reflexivity. Qed.

Inductive id := Bare (n:N) | Dotted (chr:N) (n:N) | Ref (r:N).   (* "5" | "chr.5" | reference exon_id *)
Record store := { counter : N; dict : list (key * id) }.
Fixpoint lookup (k:key) (d:list (key*id)) : option id :=
  match d with [] => None | (k',v)::t => if key_eqb k k' then Some v else lookup k t end.

(* current code: first call returns the bare number, the dictionary keeps "chr.N" *)
Definition get_id_cur (s:store) (k:key) : store * id :=
  match lookup k (dict s) with
  | Some v => (s, v)
  | None => let n := counter s + 1 in ({| counter := n; dict := (k, Dotted (fst (fst (fst k))) n) :: dict s |}, Bare n)
  end.
(* repaired: return what is stored *)
Definition get_id_fix (s:store) (k:key) : store * id :=
  match lookup k (dict s) with
  | Some v => (s, v)
  | None => let n := counter s + 1 in let v := Dotted (fst (fst (fst k))) n in ({| counter := n; dict := (k, v) :: dict s |}, v)
  end.

Fixpoint run (f:store->key->store*id) (s:store) (ks:list key) : store * list id :=
  match ks with [] => (s, []) | k::t => let '(s1, v) := f s k in let '(s2, vs) := run f s1 t in (s2, v::vs) end.

(* functionality: for every call sequence, equal keys get equal ids *)
Definition functional (f:store->key->store*id) := forall s ks i j k,
  nth_error ks i = Some k -> nth_error ks j = Some k ->
  nth_error (snd (run f s ks)) i = nth_error (snd (run f s ks)) j.

Lemma lookup_after_fix s k : lookup k (dict (fst (get_id_fix s k))) = Some (snd (get_id_fix s k)).
Proof. unfold get_id_fix. destruct (lookup k (dict s)) eqn:E; simpl; [exact E|].
  assert (key_eqb k k = true) by (apply key_eqb_eq; reflexivity). rewrite H. reflexivity. Qed.
Lemma lookup_mono_fix s k k' v : lookup k (dict s) = Some v -> lookup k (dict (fst (get_id_fix s k'))) = Some v.
Proof. intros H. unfold get_id_fix. destruct (lookup k' (dict s)) eqn:E; simpl; [exact H|].
  destruct (key_eqb k k') eqn:Ek; [|exact H]. apply key_eqb_eq in Ek. subst. congruence. Qed.

(* once a key is in the dictionary with value v, every later query of it returns v *)
Lemma run_fix_stable : forall ks s k v j, lookup k (dict s) = Some v -> nth_error ks j = Some k ->
  nth_error (snd (run get_id_fix s ks)) j = Some v.
Proof. induction ks as [|k0 t IH]; intros s k v j Hl Hj; [destruct j; discriminate|].
  cbn [run]. destruct (get_id_fix s k0) as [s1 v0] eqn:E1. destruct (run get_id_fix s1 t) as [s2 vs] eqn:E2. cbn [snd].
  destruct j as [|j]; simpl in *.
  - inversion Hj; subst k0. unfold get_id_fix in E1. rewrite Hl in E1. inversion E1; subst. reflexivity.
  - assert (Hl1: lookup k (dict s1) = Some v).
    { pose proof (lookup_mono_fix s k k0 v Hl) as H. rewrite E1 in H. exact H. }
    specialize (IH s1 k v j Hl1 Hj). rewrite E2 in IH. exact IH. Qed.

Theorem exon_id_functional_fix : functional get_id_fix.
Proof. unfold functional. intros s ks; revert s. induction ks as [|k0 t IH]; intros s i j k Hi Hj; [destruct i; discriminate|].
  cbn [run]. destruct (get_id_fix s k0) as [s1 v0] eqn:E1. destruct (run get_id_fix s1 t) as [s2 vs] eqn:E2. cbn [snd].
  assert (Hst: lookup k0 (dict s1) = Some v0).
  { pose proof (lookup_after_fix s k0) as H. rewrite E1 in H. exact H. }
  destruct i as [|i], j as [|j]; simpl in *; try reflexivity.
  - inversion Hi; subst k0. pose proof (run_fix_stable t s1 k v0 j Hst Hj) as H. rewrite E2 in H. simpl in H. congruence.
  - inversion Hj; subst k0. pose proof (run_fix_stable t s1 k v0 i Hst Hi) as H. rewrite E2 in H. simpl in H. congruence.
  - specialize (IH s1 i j k Hi Hj). rewrite E2 in IH. exact IH. Qed.

(* the current code is not functional: the same exon queried twice *)
Theorem exon_id_functional_cur_refuted : ~ functional get_id_cur.
Proof. intros F. specialize (F {| counter := 0; dict := [] |} [(9,100%Z,200%Z,1); (9,100%Z,200%Z,1)] 0%nat 1%nat (9,100%Z,200%Z,1) eq_refl eq_refl).
  vm_compute in F. discriminate. Qed.

(* ================= canonical-site memo ================= *)
Notation intron := (Z*Z)%type.
Inductive strand := Plus | Minus | Dot.
Section Canon.
Variable pure : strand -> intron -> bool.       (* dinucleotide test on the reference, per strand *)
Definition intron_eqb (a b:intron) := (fst a =? fst b)%Z && (snd a =? snd b)%Z.
Definition strand_eqb a b := match a, b with Plus,Plus|Minus,Minus|Dot,Dot => true | _,_ => false end.
Fixpoint mlook (i:intron) (m:list (intron*bool)) := match m with [] => None | (k,v)::t => if intron_eqb i k then Some v else mlook i t end.
(* current code: memo keyed by the intron only *)
Definition check1_cur (m:list (intron*bool)) (st:strand) (i:intron) : list (intron*bool) * bool :=
  match mlook i m with Some v => (m, v) | None => let v := pure st i in ((i,v)::m, v) end.
Fixpoint check_cur m st (is_:list intron) : list (intron*bool) * bool :=
  match is_ with [] => (m, true) | i::t => let '(m1, v) := check1_cur m st i in if v then check_cur m1 st t else (m1, false) end.
(* repaired: keyed by (intron, strand) *)
Fixpoint mlook2 (i:intron) (st:strand) (m:list (intron*strand*bool)) := match m with [] => None | (k,s,v)::t => if intron_eqb i k && strand_eqb st s then Some v else mlook2 i st t end.
Definition sound2 (m:list (intron*strand*bool)) := forall i st v, mlook2 i st m = Some v -> v = pure st i.
Definition check1_fix m st i := match mlook2 i st m with Some v => (m, v) | None => let v := pure st i in ((i,st,v)::m, v) end.
Fixpoint check_fix m st (is_:list intron) : list (intron*strand*bool) * bool :=
  match is_ with [] => (m, true) | i::t => let '(m1, v) := check1_fix m st i in if v then check_fix m1 st t else (m1, false) end.

Lemma intron_eqb_eq a b : intron_eqb a b = true -> a = b.
Proof. destruct a, b; unfold intron_eqb; simpl; intros H. apply andb_prop in H. destruct H. f_equal; lia. Qed.
Lemma strand_eqb_eq a b : strand_eqb a b = true -> a = b. Proof. destruct a, b; simpl; congruence. Qed.

Lemma check1_fix_sound m st i : sound2 m -> sound2 (fst (check1_fix m st i)) /\ snd (check1_fix m st i) = pure st i.
Proof. intros S. unfold check1_fix. destruct (mlook2 i st m) eqn:E; simpl.
 - split; [exact S|]. apply (S _ _ _ E).
 - split; [|reflexivity]. intros i' st' v. simpl. destruct (intron_eqb i' i && strand_eqb st' st) eqn:Ek.
   + apply andb_prop in Ek. destruct Ek as [E1 E2]. apply intron_eqb_eq in E1. apply strand_eqb_eq in E2. subst. congruence.
   + apply S. Qed.

(* history independence: whatever was asked before, the answer is the pure conjunction *)
Theorem memo_history_independent_fix : forall is_ m st, sound2 m ->
  sound2 (fst (check_fix m st is_)) /\ snd (check_fix m st is_) = forallb (pure st) is_.
Proof. induction is_ as [|i t IH]; intros m st S; simpl; [split; auto|].
  destruct (check1_fix_sound m st i S) as [S1 V1]. destruct (check1_fix m st i) as [m1 v] eqn:E. simpl in *. subst v.
  destruct (pure st i); simpl; [apply IH; exact S1|split; auto]. Qed.
End Canon.

(* the current memo depends on history: ask for '-' first, then '+' *)
Definition pure_ex (st:strand) (i:intron) : bool := match st with Plus => true | _ => false end.
Example memo_history_dependent_cur :
  snd (check_cur pure_ex (fst (check_cur pure_ex [] Minus [(5,16)%Z])) Plus [(5,16)%Z]) = false /\
  snd (check_cur pure_ex [] Plus [(5,16)%Z]) = true.
Proof. vm_compute. split; reflexivity. Qed.
Print Assumptions exon_id_functional_fix.
Print Assumptions memo_history_independent_fix.
