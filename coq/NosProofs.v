(* C19: NonOverlappingFeaturesProfileConstructor.construct_profile (model Intervals.nos / nonoverlapping_profile) —
   the declarative characterisation of DESIGN Appendix B for ALL strictly increasing disjoint lists:
     gene exon k:  1  iff some read exon overlapping k satisfies the comparator;
               else -1 iff no overlapping read exon reaches end(k), a read exon starts after end(k), and it is not the first read exon;
               else 0;
     read exon r: the same with the roles exchanged and the strict tie rule (on equal ends the gene pointer advances). *)
From Coq Require Import ZArith NArith List Bool Lia ZifyBool ZifyN.
From IQ.gen Require Import Prims.
From IQ Require Import CorrSupport Intervals IntervalsSpec IntervalsProofs IntervalsProofs2.
Import ListNotations. Open Scope Z_scope.

Lemma existsb_false {A} (f:A -> bool) l : (forall y, In y l -> f y = false) -> existsb f l = false.
Proof. induction l as [|a l IH]; intros H; [reflexivity|]. cbn [existsb]. rewrite (H a (or_introl eq_refl)), IH; [reflexivity|].
  intros y Hy. apply H. right. exact Hy. Qed.
Lemma sd_after_In a L y : sd (a :: L) -> In y L -> snd a < fst y.
Proof. intros HS Hy. pose proof (sd_after _ _ HS) as FA. rewrite Forall_forall in FA. exact (FA y Hy). Qed.
Lemma sd_wf_In L x : sd L -> In x L -> fst x <= snd x.
Proof. induction L as [|a L IH]; intros HS Hx; [destruct Hx|]. destruct Hx as [->|Hx]; [exact (sd_wf _ _ HS)|exact (IH (sd_tail _ _ HS) Hx)]. Qed.

(* ---------- the value of one element x against the other side's remaining list L ---------- *)
Section Side.
Variable c : iv -> iv -> bool.      (* c y x : the comparator, y on the other side *)
Variable strict : bool.             (* tie rule: does y have to end strictly after x to outlive it? *)
Definition ends_after (y x:iv) : bool := if strict then snd x <? snd y else snd x <=? snd y.
Definition hitG (L:list iv) (x:iv) : bool := existsb (fun y => py_overlaps y x && c y x) L.
Definition reachG (L:list iv) (x:iv) : bool := existsb (fun y => py_overlaps y x && ends_after y x) L.
Definition afterG (L:list iv) (x:iv) : bool := existsb (fun y => snd x <? fst y) L.
Definition beforeG (L:list iv) (x:iv) : bool := existsb (fun y => fst y <=? snd x) L.
(* p0: an element of the other side has already been consumed; v0: value so far (1 if an already consumed element hit x) *)
Definition valG (p0:bool) (L:list iv) (v0:Z) (x:iv) : Z :=
  if hitG L x then 1 else if (v0 =? 0) && negb (reachG L x) && afterG L x && (p0 || beforeG L x) then -1 else v0.

Lemma valG_nil p0 v0 x : valG p0 [] v0 x = v0.
Proof. unfold valG. cbn. destruct (v0 =? 0); reflexivity. Qed.
Lemma valG_left y L p0 v0 x : fst y <= snd y -> fst x <= snd x -> snd y < fst x -> valG p0 (y :: L) v0 x = valG true L v0 x.
Proof. intros Hy Hx Hl. unfold valG, hitG, reachG, afterG, beforeG. cbn [existsb].
  replace (py_overlaps y x) with false by (unfold py_overlaps; lia).
  replace (snd x <? fst y) with false by lia. replace (fst y <=? snd x) with true by lia.
  cbn [andb orb]. rewrite orb_true_r. reflexivity. Qed.
Lemma valG_right_all y L p0 v0 x : (forall y', In y' (y :: L) -> snd x < fst y') -> fst x <= snd x ->
  valG p0 (y :: L) v0 x = if p0 && (v0 =? 0) then -1 else v0.
Proof. intros Hr Hx. unfold valG.
  assert (H1: hitG (y :: L) x = false).
  { apply existsb_false. intros y' Hy'. specialize (Hr y' Hy'). replace (py_overlaps y' x) with false by (unfold py_overlaps; lia). reflexivity. }
  assert (H2: reachG (y :: L) x = false).
  { apply existsb_false. intros y' Hy'. specialize (Hr y' Hy'). replace (py_overlaps y' x) with false by (unfold py_overlaps; lia). reflexivity. }
  assert (H3: beforeG (y :: L) x = false).
  { apply existsb_false. intros y' Hy'. specialize (Hr y' Hy'). lia. }
  assert (H4: afterG (y :: L) x = true).
  { unfold afterG. cbn [existsb]. specialize (Hr y (or_introl eq_refl)). replace (snd x <? fst y) with true by lia. reflexivity. }
  rewrite H1, H2, H3, H4. destruct p0, (v0 =? 0); reflexivity. Qed.
Lemma valG_ovl_y y L p0 v0 x : py_overlaps y x = true -> ends_after y x = false ->
  valG p0 (y :: L) v0 x = valG true L (if c y x then 1 else v0) x.
Proof. intros Ho He. unfold valG, hitG, reachG, afterG, beforeG. cbn [existsb]. rewrite Ho, He.
  replace (snd x <? fst y) with false by (unfold py_overlaps in Ho; lia).
  replace (fst y <=? snd x) with true by (unfold py_overlaps in Ho; lia).
  cbn [andb orb]. rewrite orb_true_r. destruct (c y x); [|reflexivity].
  cbn [orb]. change (1 =? 0) with false. cbn [andb]. destruct (existsb (fun y0 => py_overlaps y0 x && c y0 x) L); reflexivity. Qed.
Lemma valG_ovl_x y L p0 v0 x : py_overlaps y x = true -> ends_after y x = true -> (forall y', In y' L -> snd x < fst y') -> fst x <= snd x ->
  valG p0 (y :: L) v0 x = if c y x then 1 else v0.
Proof. intros Ho He Hr Hx. unfold valG, hitG, reachG. cbn [existsb]. rewrite Ho, He. cbn [andb orb negb].
  rewrite (existsb_false _ L); [|intros y' Hy'; specialize (Hr y' Hy'); replace (py_overlaps y' x) with false by (unfold py_overlaps; lia); reflexivity].
  rewrite orb_false_r, andb_false_r. cbn [andb]. reflexivity. Qed.
End Side.

(* ---------- the sweep ---------- *)
Section Nos.
Variable cmp : iv -> iv -> bool.          (* comparator(read_exon, gene_exon) *)
Definition cg : iv -> iv -> bool := fun r k => cmp r k.      (* seen from a gene exon *)
Definition cr : iv -> iv -> bool := fun k r => cmp r k.      (* seen from a read exon *)
Definition gval (p0:bool) (R:list iv) (v0:Z) (k:iv) : Z := valG cg false p0 R v0 k.
Definition rval (p0:bool) (K:list iv) (v0:Z) (r:iv) : Z := valG cr true p0 K v0 r.

Definition kvs (v:Z) (L:list iv) : list Z := match L with [] => [] | _ :: L' => v :: map (fun _ => 0) L' end.
Definition gside (p0:bool) (R:list iv) (v:Z) (K:list iv) : list Z := match K with [] => [] | k :: K' => gval p0 R v k :: map (gval p0 R 0) K' end.
Definition rside (p0:bool) (K:list iv) (v:Z) (R:list iv) : list Z := match R with [] => [] | r :: R' => rval p0 K v r :: map (rval p0 K 0) R' end.

Lemma kvs_zero L : kvs 0 L = map (fun _ => 0) L. Proof. destruct L; reflexivity. Qed.
Lemma gside_zero p0 R K : gside p0 R 0 K = map (gval p0 R 0) K. Proof. destruct K; reflexivity. Qed.
Lemma rside_zero p0 K R : rside p0 K 0 R = map (rval p0 K 0) R. Proof. destruct R; reflexivity. Qed.
Lemma gside_nil p0 v K : gside p0 [] v K = kvs v K.
Proof. destruct K as [|k K']; [reflexivity|]. cbn [gside kvs]. unfold gval. rewrite valG_nil. apply f_equal. apply map_ext. intros a. apply valG_nil. Qed.
Lemma rside_nil p0 v R : rside p0 [] v R = kvs v R.
Proof. destruct R as [|r R']; [reflexivity|]. cbn [rside kvs]. unfold rval. rewrite valG_nil. apply f_equal. apply map_ext. intros a. apply valG_nil. Qed.

Lemma nos_spec : forall fuel K kvh gpos R rvh rpos gacc racc, (length K + length R < fuel)%nat -> sd K -> sd R -> 0 <= gpos -> 0 <= rpos ->
  nos cmp fuel K (kvs kvh K) gpos R (kvs rvh R) rpos gacc racc =
  Some (rev gacc ++ gside (0 <? rpos) R kvh K, rev racc ++ rside (0 <? gpos) K rvh R).
Proof.
  induction fuel as [|f IH]; intros K kvh gpos R rvh rpos gacc racc Hf HK HR Hg Hr; [lia|].
  destruct K as [|k K'].
  { cbn [nos kvs gside]. rewrite rside_nil. reflexivity. }
  destruct R as [|r R'].
  { cbn [nos kvs rside]. rewrite gside_nil. reflexivity. }
  cbn [kvs nos]. cbn [length] in Hf.
  pose proof (sd_wf _ _ HK) as Hkw. pose proof (sd_wf _ _ HR) as Hrw.
  pose proof (sd_tail _ _ HK) as HK'. pose proof (sd_tail _ _ HR) as HR'.
  destruct (snd r <? fst k) eqn:E1.
  - (* read exon entirely left of the gene exon *)
    change (kvh :: map (fun _ => 0) K') with (kvs kvh (k :: K')). rewrite <- (kvs_zero R').
    rewrite IH; [|cbn [length]; lia|exact HK|exact HR'|lia|lia].
    replace (0 <? rpos + 1) with true by lia. f_equal. f_equal.
    + f_equal. cbn [gside]. f_equal.
      * symmetry. apply valG_left; lia.
      * apply map_ext_in. intros k' Hk'. symmetry. apply valG_left; [lia|exact (sd_wf_In _ k' HK' Hk')|].
        pose proof (sd_after_In k K' k' HK Hk'). lia.
    + cbn [rev]. rewrite <- app_assoc. cbn [app]. f_equal. rewrite rside_zero. cbn [rside]. f_equal.
      unfold rval. rewrite (valG_right_all cr true k K' (0 <? gpos) rvh r); [rewrite andb_comm; reflexivity| |exact Hrw].
      intros k' [<-|Hk']; [lia|]. pose proof (sd_after_In k K' k' HK Hk'). lia.
  - destruct (snd k <? fst r) eqn:E2.
    + (* gene exon entirely left of the read exon *)
      change (rvh :: map (fun _ => 0) R') with (kvs rvh (r :: R')). rewrite <- (kvs_zero K').
      rewrite IH; [|cbn [length]; lia|exact HK'|exact HR|lia|lia].
      replace (0 <? gpos + 1) with true by lia. f_equal. f_equal.
      * cbn [rev]. rewrite <- app_assoc. cbn [app]. f_equal. rewrite gside_zero. cbn [gside]. f_equal.
        unfold gval. rewrite (valG_right_all cg false r R' (0 <? rpos) kvh k); [rewrite andb_comm; reflexivity| |exact Hkw].
        intros r' [<-|Hr']; [lia|]. pose proof (sd_after_In r R' r' HR Hr'). lia.
      * f_equal. cbn [rside]. f_equal.
        -- symmetry. apply valG_left; lia.
        -- apply map_ext_in. intros r' Hr'. symmetry. apply valG_left; [lia|exact (sd_wf_In _ r' HR' Hr')|].
           pose proof (sd_after_In r R' r' HR Hr'). lia.
    + (* the two exons overlap *)
      assert (Ho1: py_overlaps r k = true) by (unfold py_overlaps; lia).
      assert (Ho2: py_overlaps k r = true) by (unfold py_overlaps; lia).
      cbv zeta.
      destruct (snd r <? snd k) eqn:E3.
      * (* the read exon ends first *)
        change ((if cmp r k then 1 else kvh) :: map (fun _ => 0) K') with (kvs (if cmp r k then 1 else kvh) (k :: K')). rewrite <- (kvs_zero R').
        rewrite IH; [|cbn [length]; lia|exact HK|exact HR'|lia|lia].
        replace (0 <? rpos + 1) with true by lia. f_equal. f_equal.
        -- f_equal. cbn [gside]. f_equal.
           ++ symmetry. apply (valG_ovl_y cg false r R' (0 <? rpos) kvh k Ho1). unfold ends_after. lia.
           ++ apply map_ext_in. intros k' Hk'. symmetry. apply valG_left; [lia|exact (sd_wf_In _ k' HK' Hk')|].
              pose proof (sd_after_In k K' k' HK Hk'). lia.
        -- cbn [rev]. rewrite <- app_assoc. cbn [app]. f_equal. rewrite rside_zero. cbn [rside]. f_equal.
           unfold rval. symmetry. apply (valG_ovl_x cr true k K' (0 <? gpos) rvh r Ho2); [unfold ends_after; lia| |exact Hrw].
           intros k' Hk'. pose proof (sd_after_In k K' k' HK Hk'). lia.
      * (* the gene exon ends first (or both end together) *)
        change ((if cmp r k then 1 else rvh) :: map (fun _ => 0) R') with (kvs (if cmp r k then 1 else rvh) (r :: R')). rewrite <- (kvs_zero K').
        rewrite IH; [|cbn [length]; lia|exact HK'|exact HR|lia|lia].
        replace (0 <? gpos + 1) with true by lia. f_equal. f_equal.
        -- cbn [rev]. rewrite <- app_assoc. cbn [app]. f_equal. rewrite gside_zero. cbn [gside]. f_equal.
           unfold gval. symmetry. apply (valG_ovl_x cg false r R' (0 <? rpos) kvh k Ho1); [unfold ends_after; lia| |exact Hkw].
           intros r' Hr'. pose proof (sd_after_In r R' r' HR Hr'). lia.
        -- f_equal. cbn [rside]. f_equal.
           ++ symmetry. apply (valG_ovl_y cr true k K' (0 <? gpos) rvh r Ho2). unfold ends_after. lia.
           ++ apply map_ext_in. intros r' Hr'. symmetry. apply valG_left; [lia|exact (sd_wf_In _ r' HR' Hr')|].
              pose proof (sd_after_In r R' r' HR Hr'). lia.
Qed.

(* the characterisation of the sweep, from the initial state *)
Theorem nos_char K R : sd K -> sd R ->
  nos cmp (Datatypes.S (length K + length R)) K (map (fun _ => 0) K) 0 R (map (fun _ => 0) R) 0 [] [] =
  Some (map (gval false R 0) K, map (rval false K 0) R).
Proof. intros HK HR. rewrite <- (kvs_zero K), <- (kvs_zero R).
  rewrite nos_spec; [|lia|exact HK|exact HR|lia|lia]. cbn [rev app]. rewrite gside_zero, rside_zero. reflexivity. Qed.

(* readable form of the three values *)
Lemma gval_1_iff R k : gval false R 0 k = 1 <-> exists r, In r R /\ py_overlaps r k = true /\ cmp r k = true.
Proof. unfold gval, valG. split.
  - destruct (hitG cg R k) eqn:E.
    + intros _. unfold hitG in E. apply existsb_exists in E. destruct E as (r & Hr & H). apply andb_true_iff in H. exists r. tauto.
    + destruct (_ && _ && _ && _); intros H; discriminate.
  - intros (r & Hr & Ho & Hc). replace (hitG cg R k) with true; [reflexivity|]. symmetry. apply existsb_exists. exists r. split; [exact Hr|].
    unfold cg. rewrite Ho, Hc. reflexivity. Qed.
Lemma gval_m1_iff R k : gval false R 0 k = -1 <->
  (forall r, In r R -> py_overlaps r k = true -> cmp r k = false) /\                       (* not hit *)
  (forall r, In r R -> py_overlaps r k = true -> snd r < snd k) /\                          (* no overlapping read exon reaches end(k) *)
  (exists r, In r R /\ snd k < fst r) /\ (exists r, In r R /\ fst r <= snd k).              (* the end lies between two read exons *)
Proof. unfold gval, valG. change (0 =? 0) with true. cbn [andb orb].
  destruct (hitG cg R k) eqn:E1.
  { split; [discriminate|]. intros (H & _). unfold hitG in E1. apply existsb_exists in E1. destruct E1 as (r & Hr & H1).
    apply andb_true_iff in H1. destruct H1 as (H1 & H2). unfold cg in H2. rewrite (H r Hr H1) in H2. discriminate. }
  assert (N1: forall r, In r R -> py_overlaps r k = true -> cmp r k = false).
  { intros r Hr Ho. apply not_true_is_false. intros Hc. assert (hitG cg R k = true); [|congruence].
    apply existsb_exists. exists r. split; [exact Hr|]. unfold cg. rewrite Ho, Hc. reflexivity. }
  destruct (reachG false R k) eqn:E2.
  { cbn [negb andb]. split; [discriminate|]. intros (_ & H & _). unfold reachG in E2. apply existsb_exists in E2. destruct E2 as (r & Hr & H1).
    apply andb_true_iff in H1. destruct H1 as (H1 & H2). unfold ends_after in H2. specialize (H r Hr H1). lia. }
  assert (N2: forall r, In r R -> py_overlaps r k = true -> snd r < snd k).
  { intros r Hr Ho. destruct (Z_lt_le_dec (snd r) (snd k)) as [Hlt|Hge]; [exact Hlt|]. assert (reachG false R k = true); [|congruence].
    apply existsb_exists. exists r. split; [exact Hr|]. rewrite Ho. unfold ends_after. lia. }
  cbn [negb andb].
  destruct (afterG R k) eqn:E3; cbn [andb].
  - destruct (beforeG R k) eqn:E4.
    + split; [intros _|reflexivity]. unfold afterG in E3. unfold beforeG in E4. apply existsb_exists in E3, E4.
      destruct E3 as (r1 & Hr1 & H1). destruct E4 as (r2 & Hr2 & H2). repeat split; [exact N1|exact N2|exists r1; split; [exact Hr1|lia]|exists r2; split; [exact Hr2|lia]].
    + split; [discriminate|]. intros (_ & _ & _ & (r & Hr & H)). assert (beforeG R k = true); [|congruence].
      apply existsb_exists. exists r. split; [exact Hr|lia].
  - split; [discriminate|]. intros (_ & _ & (r & Hr & H) & _). assert (afterG R k = true); [|congruence].
    apply existsb_exists. exists r. split; [exact Hr|lia]. Qed.
Lemma gval_range R k : gval false R 0 k = 1 \/ gval false R 0 k = -1 \/ gval false R 0 k = 0.
Proof. unfold gval, valG. destruct (hitG cg R k); [left; reflexivity|]. destruct (_ && _ && _ && _); [right; left|right; right]; reflexivity. Qed.
Lemma rval_1_iff K r : rval false K 0 r = 1 <-> exists k, In k K /\ py_overlaps k r = true /\ cmp r k = true.
Proof. unfold rval, valG. split.
  - destruct (hitG cr K r) eqn:E.
    + intros _. unfold hitG in E. apply existsb_exists in E. destruct E as (k & Hk & H). apply andb_true_iff in H. exists k. tauto.
    + destruct (_ && _ && _ && _); intros H; discriminate.
  - intros (k & Hk & Ho & Hc). replace (hitG cr K r) with true; [reflexivity|]. symmetry. apply existsb_exists. exists k. split; [exact Hk|].
    unfold cr. rewrite Ho, Hc. reflexivity. Qed.

Lemma rval_m1_iff K r : rval false K 0 r = -1 <->
  (forall k, In k K -> py_overlaps k r = true -> cmp r k = false) /\                       (* not hit *)
  (forall k, In k K -> py_overlaps k r = true -> snd k <= snd r) /\                         (* no overlapping gene exon ends strictly after end(r) *)
  (exists k, In k K /\ snd r < fst k) /\ (exists k, In k K /\ fst k <= snd r).              (* the end lies between two gene exons *)
Proof. unfold rval, valG. change (0 =? 0) with true. cbn [andb orb].
  destruct (hitG cr K r) eqn:E1.
  { split; [discriminate|]. intros (H & _). unfold hitG in E1. apply existsb_exists in E1. destruct E1 as (k & Hk & H1).
    apply andb_true_iff in H1. destruct H1 as (H1 & H2). unfold cr in H2. rewrite (H k Hk H1) in H2. discriminate. }
  assert (N1: forall k, In k K -> py_overlaps k r = true -> cmp r k = false).
  { intros k Hk Ho. apply not_true_is_false. intros Hc. assert (hitG cr K r = true); [|congruence].
    apply existsb_exists. exists k. split; [exact Hk|]. unfold cr. rewrite Ho, Hc. reflexivity. }
  destruct (reachG true K r) eqn:E2.
  { cbn [negb andb]. split; [discriminate|]. intros (_ & H & _). unfold reachG in E2. apply existsb_exists in E2. destruct E2 as (k & Hk & H1).
    apply andb_true_iff in H1. destruct H1 as (H1 & H2). unfold ends_after in H2. specialize (H k Hk H1). lia. }
  assert (N2: forall k, In k K -> py_overlaps k r = true -> snd k <= snd r).
  { intros k Hk Ho. destruct (Z_le_gt_dec (snd k) (snd r)) as [Hle|Hgt]; [exact Hle|]. assert (reachG true K r = true); [|congruence].
    apply existsb_exists. exists k. split; [exact Hk|]. rewrite Ho. unfold ends_after. lia. }
  cbn [negb andb].
  destruct (afterG K r) eqn:E3; cbn [andb].
  - destruct (beforeG K r) eqn:E4.
    + split; [intros _|reflexivity]. unfold afterG in E3. unfold beforeG in E4. apply existsb_exists in E3, E4.
      destruct E3 as (k1 & Hk1 & H1). destruct E4 as (k2 & Hk2 & H2). repeat split; [exact N1|exact N2|exists k1; split; [exact Hk1|lia]|exists k2; split; [exact Hk2|lia]].
    + split; [discriminate|]. intros (_ & _ & _ & (k & Hk & H)). assert (beforeG K r = true); [|congruence].
      apply existsb_exists. exists k. split; [exact Hk|lia].
  - split; [discriminate|]. intros (_ & _ & (k & Hk & H) & _). assert (afterG K r = true); [|congruence].
    apply existsb_exists. exists k. split; [exact Hk|lia]. Qed.
Lemma rval_range K r : rval false K 0 r = 1 \/ rval false K 0 r = -1 \/ rval false K 0 r = 0.
Proof. unfold rval, valG. destruct (hitG cr K r); [left; reflexivity|]. destruct (_ && _ && _ && _); [right; left|right; right]; reflexivity. Qed.

(* the whole constructor: sweep, then -2 right of bin_search(K, polyA + delta) and left of bin_search_rev(K, polyT - delta) *)
Theorem nonoverlapping_profile_char delta K R polya polyt : sd K -> sd R ->
  nonoverlapping_profile cmp delta K R polya polyt =
    let gp := map (gval false R 0) K in let rp := map (rval false K 0) R in
    let after_a :=
      if polya =? -1 then Ok gp else
      match bin_search K (polya + delta) with
      | Raises e => Raises e
      | Ok None => Raises 9%N
      | Ok (Some idx) => Ok (if idx =? -1 then gp else mark_from 0 (fun i => idx <? i) gp)
      end in
    match after_a with
    | Raises e => Raises e
    | Ok gp1 =>
      let after_t :=
        if polyt =? -1 then Ok gp1 else
        match bin_search_rev K (polyt - delta) with
        | Raises e => Raises e
        | Ok None => Raises 9%N
        | Ok (Some idx) => Ok (if idx =? -1 then gp1 else mark_from 0 (fun i => i <? idx) gp1)
        end in
      match after_t with
      | Raises e => Raises e
      | Ok gp2 => Ok (gp2, rp, profile_range_zero gp2)
      end
    end.
Proof. intros HK HR. unfold nonoverlapping_profile. rewrite (nos_char K R HK HR). reflexivity. Qed.
End Nos.

Example nos_example :
  nos (fun r k => py_overlaps_at_least_when_overlap r k 2) 6 [(1,4);(6,9);(12,15)] [0;0;0] 0 [(3,7);(20,22)] [0;0] 0 [] []
  = Some ([1; 1; -1], [1; 0]).
Proof. vm_compute. reflexivity. Qed.
Print Assumptions nos_char.
Print Assumptions gval_m1_iff.
Print Assumptions nonoverlapping_profile_char.
