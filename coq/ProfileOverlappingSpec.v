(* C19: has_overlapping_features of src/common.py (default argument profile_range=None applied by the regenerated prologue), regenerated into
   gen/Loops.v on every check, is its declarative reading (ProfileHelpers2.v) for every range inside the profiles; no exception is possible there. *)
From Coq Require Import ZArith List Bool Lia ZifyBool.
From IQ.gen Require Import Prims Loops.
From IQ Require Import LoopsSupport ProfileHelpers ProfileHelpers2 LoopsRangeSupport.
Import ListNotations. Open Scope Z_scope.

Theorem has_overlapping_features_spec p1 p2 org : let rg := match org with Some r => r | None => whole p1 end in
  length p1 = length p2 -> range_ok p1 rg = true ->
  py_has_overlapping_features p1 p2 org = spec_overlapping p1 p2 rg /\ py_has_overlapping_features_pre p1 p2 org = true.
Proof. intros rg L R. unfold py_has_overlapping_features, py_has_overlapping_features_pre, spec_overlapping.
  assert (E: match org with Some v_ => v_ | None => (0, Z.of_nat (length p1)) end = rg) by (destruct org; reflexivity). rewrite E. cbv zeta. split.
  - change (map (fun k_ => Z.add (fst rg) (Z.of_nat k_)) (seq 0 (Z.to_nat (Z.sub (snd rg) (fst rg))))) with (zrange rg).
    set (g := fun (s:option bool) (x y:Z) => match s with Some _ => s | None => if (x =? y) && (y =? 1) then Some true else None end).
    change (py_has_overlapping_features_step p1 p2 rg) with (fun (s:option bool) (i:Z) => g s (py_index p1 i 0) (py_index p2 i 0)).
    rewrite (fold_range_slices g p1 p2 rg None L R).
    induction (combine (slice p1 rg) (slice p2 rg)) as [|x t IH]; [reflexivity|]. cbn [fold_left existsb]. unfold g at 2, both_present.
    destruct (Z.eqb_spec (fst x) (snd x)), (Z.eqb_spec (snd x) 1), (Z.eqb_spec (fst x) 1); cbn [andb orb]; try exact IH; try lia.
    rewrite ProfileHelpers.fold_option_some by (intros; reflexivity). reflexivity.
  - apply andb_true_intro. split; [apply Nat.eqb_eq, L|]. apply forallb_forall. intros i Hi.
    change (map (fun k_ => Z.add (fst rg) (Z.of_nat k_)) (seq 0 (Z.to_nat (Z.sub (snd rg) (fst rg))))) with (zrange rg) in Hi.
    rewrite (range_indices_ok p1 rg R i Hi). rewrite (range_indices_ok p2 rg) by (rewrite <- ?(range_ok_same_length p1 p2 rg L); assumption). reflexivity. Qed.
