From Coq Require Import ZArith NArith QArith List Bool Lia Lqa.
Import ListNotations. Open Scope Q_scope.

Inductive atype := Unique | UniqueMinor | Ambiguous | Inconsistent | InconsNonIntronic | InconsAmbiguous
                 | Noninformative | Intergenic | Suspended.
Record flags := { use_amb : bool; use_inc_minor : bool; use_inc : bool }.
(* CountingStrategy -> flags (to be generated from the source) *)
Definition unique_only := {| use_amb := false; use_inc_minor := false; use_inc := false |}.
Definition with_ambiguous := {| use_amb := true; use_inc_minor := false; use_inc := false |}.
Definition unique_splicing_consistent := {| use_amb := false; use_inc_minor := true; use_inc := false |}.
Definition unique_inconsistent := {| use_amb := false; use_inc_minor := true; use_inc := true |}.
Definition all_ := {| use_amb := true; use_inc_minor := true; use_inc := true |}.

Definition qk (k:nat) : Q := inject_Z (Z.of_nat k).
Definition process_ambiguous (fl:flags) (k:nat) : Q :=
  match k with O => 0 | S O => 1 | _ => if use_amb fl then 1 / qk k else 0 end.
Definition is_ia t := match t with InconsAmbiguous => true | _ => false end.
Definition is_ni t := match t with InconsNonIntronic => true | _ => false end.
Definition process_inconsistent (fl:flags) (t:atype) (k:nat) : Q :=
  if is_ia t || Nat.ltb 1 k then (if use_amb fl && use_inc fl then 1 / qk k else 0)
  else if use_inc fl then 1 else if use_inc_minor fl && is_ni t then 1 else 0.

Record read := { r_type : atype; r_feats : list N; r_confirms : bool }.
(* weight every feature of the read receives *)
Definition weight (fl:flags) (r:read) : Q :=
  let k := length (r_feats r) in
  match r_type r with
  | Noninformative | Intergenic | Suspended => 0
  | Ambiguous => process_ambiguous fl k
  | Inconsistent | InconsNonIntronic | InconsAmbiguous => process_inconsistent fl (r_type r) k
  | Unique | UniqueMinor => 1
  end.

Lemma qk_pos k : (0 < k)%nat -> 0 < qk k. Proof. intros H. unfold qk, Qlt; simpl. lia. Qed.
Lemma inv_qk_range k : (0 < k)%nat -> 0 <= 1 / qk k <= 1.
Proof. intros H. pose proof (qk_pos k H) as P. unfold qk in *. unfold Qdiv. rewrite Qmult_1_l.
  split. { apply Qlt_le_weak, Qinv_lt_0_compat, P. }
  assert (1 <= inject_Z (Z.of_nat k)) by (unfold Qle; simpl; lia).
  apply Qle_shift_inv_r; [exact P|]. rewrite Qmult_1_l. exact H0. Qed.

Lemma pa_range fl k : 0 <= process_ambiguous fl k <= 1.
Proof. destruct k as [|[|k]]; cbn [process_ambiguous]; try (split; lra).
  destruct (use_amb fl); [apply inv_qk_range; lia|split; lra]. Qed.
(* the code divides by the feature count: the guard 0 < k is what excludes ZeroDivisionError *)
Lemma pi_range fl t k : (0 < k)%nat -> 0 <= process_inconsistent fl t k <= 1.
Proof. intros H. unfold process_inconsistent.
  destruct (is_ia t || Nat.ltb 1 k).
  - destruct (use_amb fl && use_inc fl); [apply inv_qk_range; exact H|split; lra].
  - destruct (use_inc fl); [split; lra|]. destruct (use_inc_minor fl && is_ni t); split; lra. Qed.

Theorem weight_range fl r : (0 < length (r_feats r))%nat -> 0 <= weight fl r <= 1.
Proof. intros H. unfold weight. destruct (r_type r); try (split; lra); try apply pa_range; apply pi_range, H. Qed.

Lemma k_inv_k k : (0 < k)%nat -> qk k * (1 / qk k) == 1.
Proof. intros H. pose proof (qk_pos k H). field. lra. Qed.

(* a read's total contribution to one table: k features times its weight *)
Theorem read_contribution_le_1 fl r : (0 < length (r_feats r))%nat ->
  (match r_type r with Unique | UniqueMinor => length (r_feats r) = 1%nat | _ => True end) ->
  qk (length (r_feats r)) * weight fl r <= 1.
Proof. intros Hk H. unfold weight. set (k := length (r_feats r)) in *.
  assert (P: 0 < qk k) by (apply qk_pos, Hk).
  assert (One: qk 1 == 1) by reflexivity.
  destruct (r_type r) eqn:T; try (rewrite Qmult_0_r; lra); try (rewrite H, One; lra).
  - (* ambiguous *) unfold process_ambiguous. destruct k as [|[|k']]; try lia; try (rewrite One; lra).
    destruct (use_amb fl); [rewrite k_inv_k by lia; lra|rewrite Qmult_0_r; lra].
  - unfold process_inconsistent. destruct (is_ia Inconsistent || Nat.ltb 1 k) eqn:E.
    + destruct (use_amb fl && use_inc fl); [rewrite k_inv_k by lia; lra|rewrite Qmult_0_r; lra].
    + simpl in E. apply Nat.ltb_ge in E. assert (k = 1%nat) by lia. rewrite H0, One.
      destruct (use_inc fl); [lra|]. destruct (use_inc_minor fl && is_ni Inconsistent); lra.
  - unfold process_inconsistent. destruct (is_ia InconsNonIntronic || Nat.ltb 1 k) eqn:E.
    + destruct (use_amb fl && use_inc fl); [rewrite k_inv_k by lia; lra|rewrite Qmult_0_r; lra].
    + simpl in E. apply Nat.ltb_ge in E. assert (k = 1%nat) by lia. rewrite H0, One.
      destruct (use_inc fl); [lra|]. destruct (use_inc_minor fl && is_ni InconsNonIntronic); lra.
  - unfold process_inconsistent. simpl.
    destruct (use_amb fl && use_inc fl); [rewrite k_inv_k by lia; lra|rewrite Qmult_0_r; lra].
Qed.

(* ---------- accumulation ---------- *)
Definition table := N -> Q.
Definition memb (f:N) (l:list N) := existsb (N.eqb f) l.
Definition add_read (fl:flags) (t:table) (r:read) : table :=
  fun f => if memb f (r_feats r) then t f + weight fl r else t f.
Definition contrib (fl:flags) (f:N) (r:read) : Q := if memb f (r_feats r) then weight fl r else 0.
Fixpoint qsum (l:list Q) : Q := match l with [] => 0 | x::t => x + qsum t end.

Theorem table_is_weighted_sum fl : forall reads t f,
  fold_left (add_read fl) reads t f == t f + qsum (map (contrib fl f) reads).
Proof. induction reads as [|r rs IH]; intros t f; simpl; [lra|].
  rewrite IH. unfold add_read, contrib. destruct (memb f (r_feats r)); lra. Qed.

(* confirmation and dump *)
Definition confirmed (reads:list read) (f:N) : bool :=
  existsb (fun r => match r_type r with Unique | UniqueMinor => memb f (r_feats r) && r_confirms r | _ => false end) reads.
Definition dump fl reads (f:N) : Q := if confirmed reads f then fold_left (add_read fl) reads (fun _ => 0) f else 0.
Corollary dump_spec fl reads f :
  dump fl reads f == if confirmed reads f then qsum (map (contrib fl f) reads) else 0.
Proof. unfold dump. destruct (confirmed reads f); [|lra]. rewrite table_is_weighted_sum. lra. Qed.

(* per-chromosome merge: features of different chromosomes are disjoint, so the table of the concatenation is the sum *)
Theorem merge_is_table_of_concat fl r1 r2 f :
  fold_left (add_read fl) (r1 ++ r2) (fun _ => 0) f ==
  fold_left (add_read fl) r1 (fun _ => 0) f + fold_left (add_read fl) r2 (fun _ => 0) f.
Proof. rewrite !table_is_weighted_sum, map_app. induction (map (contrib fl f) r1); simpl; lra. Qed.
Print Assumptions table_is_weighted_sum.
Print Assumptions read_contribution_le_1.
