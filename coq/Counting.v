From Coq Require Import ZArith NArith QArith List Bool Lia Lqa.
Import ListNotations. Open Scope Q_scope.

Inductive atype := Unique | UniqueMinor | Ambiguous | Inconsistent | InconsNonIntronic | InconsAmbiguous
                 | Noninformative | Intergenic | Suspended.
Record flags := { use_amb : bool; use_inc_minor : bool; use_inc : bool }.
(* CountingStrategy -> flags (to be generated from the source) *)
Definition unique_only := {| use_amb := false; use_inc_minor := false; use_inc := false |}.
Definition with_ambiguous := {| use_amb := true; use_inc_minor := false; use_inc := false |}.
Definition unique_splicing_consistent := {| use_amb := false; use_inc_minor := true; use_inc := false |}.
Definition unique_inconsistent := {| use_amb := false; use_inc_minor := true; use_inc := true |}.
Definition all_ := {| use_amb := true; use_inc_minor := true; use_inc := true |}.

Definition qk (k:nat) : Q := inject_Z (Z.of_nat k).
Definition process_ambiguous (fl:flags) (k:nat) : Q :=
  match k with O => 0 | S O => 1 | _ => if use_amb fl then 1 / qk k else 0 end.
Definition is_ia t := match t with InconsAmbiguous => true | _ => false end.
Definition is_ni t := match t with InconsNonIntronic => true | _ => false end.
Definition process_inconsistent (fl:flags) (t:atype) (k:nat) : Q :=
  if is_ia t || Nat.ltb 1 k then (if use_amb fl && use_inc fl then 1 / qk k else 0)
  else if use_inc fl then 1 else if use_inc_minor fl && is_ni t then 1 else 0.

Record read := { r_type : atype; r_feats : list N; r_confirms : bool }.
(* weight every feature of the read receives *)
Definition weight (fl:flags) (r:read) : Q :=
  let k := length (r_feats r) in
  match r_type r with
  | Noninformative | Intergenic | Suspended => 0
  | Ambiguous => process_ambiguous fl k
  | Inconsistent | InconsNonIntronic | InconsAmbiguous => process_inconsistent fl (r_type r) k
  | Unique | UniqueMinor => 1
  end.

Lemma qk_pos k : (0 < k)%nat -> 0 < qk k. Proof. intros H. unfold qk, Qlt; simpl. lia. Qed.
Lemma inv_qk_range k : (0 < k)%nat -> 0 <= 1 / qk k <= 1.
Proof. intros H. pose proof (qk_pos k H) as P. unfold qk in *. unfold Qdiv. rewrite Qmult_1_l.
  split. { apply Qlt_le_weak, Qinv_lt_0_compat, P. }
  assert (1 <= inject_Z (Z.of_nat k)) by (unfold Qle; simpl; lia).
  apply Qle_shift_inv_r; [exact P|]. rewrite Qmult_1_l. exact H0. Qed.

Lemma pa_range fl k : 0 <= process_ambiguous fl k <= 1.
Proof. destruct k as [|[|k]]; cbn [process_ambiguous]; try (split; lra).
  destruct (use_amb fl); [apply inv_qk_range; lia|split; lra]. Qed.
(* the code divides by the feature count: the guard 0 < k is what excludes ZeroDivisionError *)
Lemma pi_range fl t k : (0 < k)%nat -> 0 <= process_inconsistent fl t k <= 1.
Proof. intros H. unfold process_inconsistent.
  destruct (is_ia t || Nat.ltb 1 k).
  - destruct (use_amb fl && use_inc fl); [apply inv_qk_range; exact H|split; lra].
  - destruct (use_inc fl); [split; lra|]. destruct (use_inc_minor fl && is_ni t); split; lra. Qed.

Theorem weight_range fl r : (0 < length (r_feats r))%nat -> 0 <= weight fl r <= 1.
Proof. intros H. unfold weight. destruct (r_type r); try (split; lra); try apply pa_range; apply pi_range, H. Qed.

Lemma k_inv_k k : (0 < k)%nat -> qk k * (1 / qk k) == 1.
Proof. intros H. pose proof (qk_pos k H). field. lra. Qed.

(* a read's total contribution to one table: k features times its weight *)
Theorem read_contribution_le_1 fl r : (0 < length (r_feats r))%nat ->
  (match r_type r with Unique | UniqueMinor => length (r_feats r) = 1%nat | _ => True end) ->
  qk (length (r_feats r)) * weight fl r <= 1.
Proof. intros Hk H. unfold weight. set (k := length (r_feats r)) in *.
  assert (P: 0 < qk k) by (apply qk_pos, Hk).
  assert (One: qk 1 == 1) by reflexivity.
  destruct (r_type r) eqn:T; try (rewrite Qmult_0_r; lra); try (rewrite H, One; lra).
  - (* ambiguous *) unfold process_ambiguous. destruct k as [|[|k']]; try lia; try (rewrite One; lra).
    destruct (use_amb fl); [rewrite k_inv_k by lia; lra|rewrite Qmult_0_r; lra].
  - unfold process_inconsistent. destruct (is_ia Inconsistent || Nat.ltb 1 k) eqn:E.
    + destruct (use_amb fl && use_inc fl); [rewrite k_inv_k by lia; lra|rewrite Qmult_0_r; lra].
    + simpl in E. apply Nat.ltb_ge in E. assert (k = 1%nat) by lia. rewrite H0, One.
      destruct (use_inc fl); [lra|]. destruct (use_inc_minor fl && is_ni Inconsistent); lra.
  - unfold process_inconsistent. destruct (is_ia InconsNonIntronic || Nat.ltb 1 k) eqn:E.
    + destruct (use_amb fl && use_inc fl); [rewrite k_inv_k by lia; lra|rewrite Qmult_0_r; lra].
    + simpl in E. apply Nat.ltb_ge in E. assert (k = 1%nat) by lia. rewrite H0, One.
      destruct (use_inc fl); [lra|]. destruct (use_inc_minor fl && is_ni InconsNonIntronic); lra.
  - unfold process_inconsistent. simpl.
    destruct (use_amb fl && use_inc fl); [rewrite k_inv_k by lia; lra|rewrite Qmult_0_r; lra].
Qed.

(* ---------- accumulation ---------- *)
Definition table := N -> Q.
Definition memb (f:N) (l:list N) := existsb (N.eqb f) l.
Definition add_read (fl:flags) (t:table) (r:read) : table :=
  fun f => if memb f (r_feats r) then t f + weight fl r else t f.
Definition contrib (fl:flags) (f:N) (r:read) : Q := if memb f (r_feats r) then weight fl r else 0.
Fixpoint qsum (l:list Q) : Q := match l with [] => 0 | x::t => x + qsum t end.

Theorem table_is_weighted_sum fl : forall reads t f,
  fold_left (add_read fl) reads t f == t f + qsum (map (contrib fl f) reads).
Proof. induction reads as [|r rs IH]; intros t f; simpl; [lra|].
  rewrite IH. unfold add_read, contrib. destruct (memb f (r_feats r)); lra. Qed.

(* confirmation and dump *)
Definition confirmed (reads:list read) (f:N) : bool :=
  existsb (fun r => match r_type r with Unique | UniqueMinor => memb f (r_feats r) && r_confirms r | _ => false end) reads.
Definition dump fl reads (f:N) : Q := if confirmed reads f then fold_left (add_read fl) reads (fun _ => 0) f else 0.
Corollary dump_spec fl reads f :
  dump fl reads f == if confirmed reads f then qsum (map (contrib fl f) reads) else 0.
Proof. unfold dump. destruct (confirmed reads f); [|lra]. rewrite table_is_weighted_sum. lra. Qed.

(* per-chromosome merge: features of different chromosomes are disjoint, so the table of the concatenation is the sum *)
Theorem merge_is_table_of_concat fl r1 r2 f :
  fold_left (add_read fl) (r1 ++ r2) (fun _ => 0) f ==
  fold_left (add_read fl) r1 (fun _ => 0) f + fold_left (add_read fl) r2 (fun _ => 0) f.
Proof. rewrite !table_is_weighted_sum, map_app. induction (map (contrib fl f) r1); simpl; lra. Qed.

(* ====================================================================================================================
   Strategy table (hand-modelled from CountingStrategy; the harness compares flags_of with the real predicates for every
   member of the enum) and the documented weight of every strategy x assignment type x feature count.
   ==================================================================================================================== *)
Inductive strategy := UniqueOnly | WithAmbiguous | UniqueSplicingConsistent | UniqueInconsistent | AllReads.
Definition all_strategies := [UniqueOnly; WithAmbiguous; UniqueSplicingConsistent; UniqueInconsistent; AllReads].
(* CountingStrategy.ambiguous / inconsistent_minor / inconsistent / no_inconsistent *)
Definition s_ambiguous s := match s with AllReads | WithAmbiguous => true | _ => false end.
Definition s_inconsistent_minor s := match s with UniqueSplicingConsistent | UniqueInconsistent | AllReads => true | _ => false end.
Definition s_inconsistent s := match s with UniqueInconsistent | AllReads => true | _ => false end.
Definition s_no_inconsistent s := match s with UniqueOnly | WithAmbiguous => true | _ => false end.
(* CountingStrategyFlags.__init__ *)
Definition flags_of (s:strategy) : flags := {| use_amb := s_ambiguous s; use_inc_minor := s_inconsistent_minor s; use_inc := s_inconsistent s |}.
Lemma flags_of_table : map flags_of all_strategies = [unique_only; with_ambiguous; unique_splicing_consistent; unique_inconsistent; all_].
Proof. reflexivity. Qed.

Definition is_unique t := match t with Unique | UniqueMinor => true | _ => false end.
Definition is_inconsistent t := match t with Inconsistent | InconsNonIntronic | InconsAmbiguous => true | _ => false end.
Definition is_unassigned t := match t with Noninformative | Intergenic => true | _ => false end.

(* the weight every feature of a record receives in AssignedFeatureCounter.add_read_info, as a function of type and feature count *)
Definition weight_tk (fl:flags) (t:atype) (k:nat) : Q :=
  match t with
  | Noninformative | Intergenic | Suspended => 0
  | Ambiguous => process_ambiguous fl k
  | Inconsistent | InconsNonIntronic | InconsAmbiguous => process_inconsistent fl t k
  | Unique | UniqueMinor => 1
  end.
Lemma weight_is_weight_tk fl r : weight fl r = weight_tk fl (r_type r) (length (r_feats r)).
Proof. unfold weight, weight_tk. destruct (r_type r); reflexivity. Qed.

(* what docs/cmd.md prescribes, written as an explicit table over the strategy names (no flags involved):
   unique reads always count 1; a consistent read shared by k >= 2 features counts 1/k under with_ambiguous / all and 0 otherwise;
   a single-feature inconsistent read counts under unique_inconsistent / all (and, when only non-intronic, under
   unique_splicing_consistent); inconsistent reads shared by several features only under all, split equally. *)
Definition documented (s:strategy) (t:atype) (k:nat) : Q :=
  let share := 1 / qk k in
  match t with
  | Unique | UniqueMinor => 1
  | Ambiguous => if Nat.eqb k 1 then 1 else match s with WithAmbiguous | AllReads => share | _ => 0 end
  | Inconsistent => if Nat.eqb k 1 then match s with UniqueInconsistent | AllReads => 1 | _ => 0 end
                    else match s with AllReads => share | _ => 0 end
  | InconsNonIntronic => if Nat.eqb k 1 then match s with UniqueSplicingConsistent | UniqueInconsistent | AllReads => 1 | _ => 0 end
                         else match s with AllReads => share | _ => 0 end
  | InconsAmbiguous => match s with AllReads => share | _ => 0 end
  | Noninformative | Intergenic | Suspended => 0
  end.

Theorem weight_table s t k : (0 < k)%nat -> weight_tk (flags_of s) t k = documented s t k.
Proof. intros H. destruct k as [|[|k]]; [lia| |]; destruct s, t; reflexivity. Qed.

Theorem weight_tk_range fl t k : (0 < k)%nat -> 0 <= weight_tk fl t k <= 1.
Proof. intros H. unfold weight_tk. destruct t; try (split; lra); try apply pa_range; apply pi_range, H. Qed.

(* total contribution of one record to one table: k features times the weight, for every strategy *)
Theorem contribution_tk_le_1 fl t k : (0 < k)%nat -> (is_unique t = true -> k = 1%nat) -> qk k * weight_tk fl t k <= 1.
Proof. intros Hk Hu.
  pose (r := {| r_type := t; r_feats := repeat 0%N k; r_confirms := false |}).
  assert (L: length (r_feats r) = k) by (apply repeat_length).
  pose proof (read_contribution_le_1 fl r) as P. rewrite weight_is_weight_tk, L in P. cbn [r_type r] in P.
  apply P; [exact Hk|]. destruct t; try exact Logic.I; apply Hu; reflexivity. Qed.
(* ... and it is exactly 0 or 1 *)
Theorem contribution_tk_0_or_1 fl t k : (0 < k)%nat -> (is_unique t = true -> k = 1%nat) ->
  qk k * weight_tk fl t k == 0 \/ qk k * weight_tk fl t k == 1.
Proof. intros Hk Hu. assert (One: qk 1 == 1) by reflexivity. assert (P: 0 < qk k) by (apply qk_pos, Hk).
  assert (Z0: forall q, q == 0 -> qk k * q == 0) by (intros q E; rewrite E; lra).
  assert (K1: use_amb fl = use_amb fl -> qk k * (1 / qk k) == 1) by (intros _; apply k_inv_k, Hk).
  destruct t; cbn [weight_tk]; try (left; apply Z0; reflexivity);
    try (right; rewrite (Hu eq_refl), One; lra).
  - unfold process_ambiguous. destruct k as [|[|k']]; [lia|right; rewrite One; lra|].
    destruct (use_amb fl); [right; apply K1; reflexivity|left; apply Z0; reflexivity].
  - unfold process_inconsistent. destruct (is_ia Inconsistent || Nat.ltb 1 k) eqn:E.
    + destruct (use_amb fl && use_inc fl); [right; apply K1; reflexivity|left; apply Z0; reflexivity].
    + simpl in E. apply Nat.ltb_ge in E. assert (k = 1%nat) by lia. subst k.
      destruct (use_inc fl); [right; rewrite One; lra|]. destruct (use_inc_minor fl && is_ni Inconsistent); [right|left]; rewrite One; lra.
  - unfold process_inconsistent. destruct (is_ia InconsNonIntronic || Nat.ltb 1 k) eqn:E.
    + destruct (use_amb fl && use_inc fl); [right; apply K1; reflexivity|left; apply Z0; reflexivity].
    + simpl in E. apply Nat.ltb_ge in E. assert (k = 1%nat) by lia. subst k.
      destruct (use_inc fl); [right; rewrite One; lra|]. destruct (use_inc_minor fl && is_ni InconsNonIntronic); [right|left]; rewrite One; lra.
  - unfold process_inconsistent. simpl.
    destruct (use_amb fl && use_inc fl); [right; apply K1; reflexivity|left; apply Z0; reflexivity].
Qed.
