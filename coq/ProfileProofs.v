(* C19: FeatureProfiles.set_profiles (model Intervals.isoform_profile) — the greedy pointer walk marks exactly the known
   features matched by some transcript feature, for ALL lists, under an alignment condition that is then derived from the
   natural hypotheses of the two uses: the equality comparator on a duplicate-free feature list of which the transcript's
   features are a sub-sequence, and `contains` on split exons. *)
From Coq Require Import ZArith NArith List Bool Lia ZifyBool ZifyN.
From IQ.gen Require Import Prims.
From IQ Require Import CorrSupport Intervals IntervalsSpec IntervalsProofs IntervalsProofs2 SplitProofs.
Import ListNotations. Open Scope Z_scope.

Lemma repeat_snoc {A} (x:A) n l : repeat x n ++ x :: l = x :: repeat x n ++ l.
Proof. induction n as [|n IH]; [reflexivity|]. cbn [repeat app]. rewrite IH. reflexivity. Qed.
Lemma rev_repeat' {A} (x:A) n : rev (repeat x n) = repeat x n.
Proof. induction n as [|n IH]; [reflexivity|]. cbn [repeat rev]. rewrite IH. clear IH.
  induction n as [|n IH]; [reflexivity|]. cbn [repeat app]. rewrite IH. reflexivity. Qed.
Lemma split_len {A B} (init:list A) (X Y:list B) : length init = length (X ++ Y) ->
  exists i1 i2, init = i1 ++ i2 /\ length i1 = length X /\ length i2 = length Y.
Proof. intros H. exists (firstn (length X) init), (skipn (length X) init). rewrite app_length in H.
  split; [symmetry; apply firstn_skipn|]. split; [rewrite firstn_length; lia|rewrite skipn_length; lia]. Qed.

Section Iso.
Variable cmp : iv -> iv -> bool.        (* comparator(transcript_feature, known_feature) *)
Definition hit (F:list iv) (k:iv) : bool := existsb (fun f => cmp f k) F.
Definition out (F K:list iv) (init:list Z) : list Z := map (fun kv => if hit F (fst kv) then 1 else snd kv) (combine K init).

(* the known features split as: not matching f | a run matching f | the rest, which f does not match and where the later
   transcript features find their own runs; later transcript features match nothing in the skipped part *)
Inductive aligned : list iv -> list iv -> Prop :=
| al_nil K : aligned [] K
| al_cons f F N M K' :
    (forall k, In k N -> cmp f k = false) -> (forall k, In k M -> cmp f k = true) -> (forall k, In k K' -> cmp f k = false) ->
    (forall k f', In k N -> In f' F -> cmp f' k = false) -> (M = [] -> K' = []) -> aligned F K' ->
    aligned (f :: F) (N ++ M ++ K').

Lemma out_app F K1 K2 : forall i1 i2, length i1 = length K1 -> out F (K1 ++ K2) (i1 ++ i2) = out F K1 i1 ++ out F K2 i2.
Proof. induction K1 as [|k K1 IH]; intros [|v i1] i2 H; try discriminate; [reflexivity|].
  unfold out in *. cbn [app combine map]. f_equal. apply IH. cbn [length] in H. lia. Qed.
Lemma out_nil K : forall init, length init = length K -> out [] K init = init.
Proof. induction K as [|k K IH]; intros [|v init] H; try discriminate; [reflexivity|].
  unfold out in *. cbn [combine map hit existsb snd]. f_equal. apply IH. cbn [length] in H. lia. Qed.
Lemma out_nohit F K : forall init, length init = length K -> (forall k, In k K -> hit F k = false) -> out F K init = init.
Proof. induction K as [|k K IH]; intros [|v init] H Hn; try discriminate; [reflexivity|].
  unfold out in *. cbn [combine map fst snd]. rewrite (Hn k (or_introl eq_refl)). f_equal. apply IH; [cbn [length] in H; lia|].
  intros k' Hk'. apply Hn. right. exact Hk'. Qed.
Lemma out_allhit F K : forall init, length init = length K -> (forall k, In k K -> hit F k = true) -> out F K init = repeat 1 (length K).
Proof. induction K as [|k K IH]; intros [|v init] H Hn; try discriminate; [reflexivity|].
  unfold out in *. cbn [combine map fst snd length repeat]. rewrite (Hn k (or_introl eq_refl)). f_equal. apply IH; [cbn [length] in H; lia|].
  intros k' Hk'. apply Hn. right. exact Hk'. Qed.
Lemma out_drop f F K : forall init, (forall k, In k K -> cmp f k = false) -> out (f :: F) K init = out F K init.
Proof. induction K as [|k K IH]; intros init Hn; [reflexivity|]. destruct init as [|v init]; [reflexivity|].
  unfold out in *. cbn [combine map fst snd hit existsb]. rewrite (Hn k (or_introl eq_refl)). cbn [orb]. f_equal.
  apply IH. intros k' Hk'. apply Hn. right. exact Hk'. Qed.

Lemma sp_skip_app f N : forall iN K2 i2 acc, (forall k, In k N -> cmp f k = false) -> length iN = length N ->
  sp_skip cmp f (N ++ K2) (iN ++ i2) acc = sp_skip cmp f K2 i2 (rev iN ++ acc).
Proof. induction N as [|k N IH]; intros [|v iN] K2 i2 acc Hn Hl; try discriminate; [reflexivity|].
  cbn [app sp_skip]. rewrite (Hn k (or_introl eq_refl)). rewrite IH; [|intros k' Hk'; apply Hn; right; exact Hk'|cbn [length] in Hl; lia].
  cbn [rev]. rewrite <- app_assoc. reflexivity. Qed.
Lemma sp_mark_app f M : forall iM K2 i2 acc, (forall k, In k M -> cmp f k = true) -> length iM = length M ->
  sp_mark cmp f (M ++ K2) (iM ++ i2) acc = sp_mark cmp f K2 i2 (repeat 1 (length M) ++ acc).
Proof. induction M as [|k M IH]; intros [|v iM] K2 i2 acc Hn Hl; try discriminate; [reflexivity|].
  cbn [app sp_mark]. rewrite (Hn k (or_introl eq_refl)). rewrite IH; [|intros k' Hk'; apply Hn; right; exact Hk'|cbn [length] in Hl; lia].
  cbn [length repeat app]. rewrite repeat_snoc. reflexivity. Qed.
Lemma sp_mark_stop f K' i' acc : (forall k, In k K' -> cmp f k = false) -> sp_mark cmp f K' i' acc = (acc, K', i').
Proof. intros Hn. destruct K' as [|k K']; [reflexivity|]. destruct i' as [|v i']; [reflexivity|].
  cbn [sp_mark]. rewrite (Hn k (or_introl eq_refl)). reflexivity. Qed.

Theorem sp_feats_aligned F K : aligned F K -> forall init acc, length init = length K ->
  sp_feats cmp F K init acc = rev acc ++ out F K init.
Proof. induction 1 as [K|f F N M K' HN HM HK' HX HE HA IH]; intros init acc Hlen.
  - cbn [sp_feats]. rewrite out_nil by exact Hlen. reflexivity.
  - destruct (split_len init N (M ++ K') Hlen) as (iN & iR & -> & HlN & HlR).
    destruct (split_len iR M K' HlR) as (iM & i' & -> & HlM & Hl').
    cbn [sp_feats]. rewrite (sp_skip_app f N iN (M ++ K') (iM ++ i') acc HN HlN).
    assert (HoN: out (f :: F) N iN = iN).
    { apply out_nohit; [exact HlN|]. intros k Hk. unfold hit. cbn [existsb]. rewrite (HN k Hk). cbn [orb].
      apply not_true_is_false. intros Hc. apply existsb_exists in Hc. destruct Hc as (f' & Hf' & Hc). rewrite (HX k f' Hk Hf') in Hc. discriminate. }
    rewrite (out_app (f :: F) N (M ++ K') iN (iM ++ i') HlN), HoN.
    rewrite (out_app (f :: F) M K' iM i' HlM).
    rewrite (out_drop f F K' i' HK').
    destruct M as [|m M'].
    + specialize (HE eq_refl). subst K'. destruct iM; [|discriminate]. destruct i'; [|discriminate].
      cbn [app sp_skip]. rewrite IH by reflexivity. rewrite rev_app_distr, rev_involutive. unfold out. cbn [combine map]. rewrite <- app_assoc. reflexivity.
    + destruct iM as [|v iM']; [discriminate|].
      assert (Hoh: out (f :: F) (m :: M') (v :: iM') = repeat 1 (length (m :: M'))).
      { apply out_allhit; [exact HlM|]. intros k Hk. unfold hit. cbn [existsb]. rewrite (HM k Hk). reflexivity. }
      rewrite Hoh.
      change ((m :: M') ++ K') with (m :: M' ++ K'). change ((v :: iM') ++ i') with (v :: iM' ++ i'). cbn [sp_skip].
      rewrite (HM m (or_introl eq_refl)).
      change (m :: M' ++ K') with ((m :: M') ++ K'). change (v :: iM' ++ i') with ((v :: iM') ++ i').
      rewrite (sp_mark_app f (m :: M') (v :: iM') K' i' _ HM HlM). rewrite (sp_mark_stop f K' i' _ HK').
      rewrite IH by exact Hl'. rewrite !rev_app_distr, rev_involutive, rev_repeat', <- !app_assoc. reflexivity.
Qed.

(* the profile of an isoform: 1 on the matched features, -1 / -2 elsewhere according to the overlap with the transcript span *)
Theorem isoform_profile_aligned K F region : aligned F K ->
  isoform_profile cmp K F region = map (fun k => if hit F k then 1 else if py_overlaps k region then -1 else -2) K.
Proof. intros HA. unfold isoform_profile. rewrite (sp_feats_aligned F K HA) by (rewrite map_length; reflexivity).
  cbn [rev app]. unfold out. clear HA. induction K as [|k K IH]; [reflexivity|]. cbn [map combine fst snd]. rewrite IH. reflexivity. Qed.

Lemma spec_of_map K F region : spec_isoform_profile cmp K F region (map (fun k => if hit F k then 1 else if py_overlaps k region then -1 else -2) K) = true.
Proof. unfold spec_isoform_profile. rewrite map_length, Nat.eqb_refl. cbn [andb].
  induction K as [|k K IH]; [reflexivity|]. cbn [map combine forallb]. rewrite IH, andb_true_r. unfold hit.
  destruct (existsb (fun f => cmp f k) F); [reflexivity|]. destruct (py_overlaps k region); reflexivity. Qed.
Corollary isoform_profile_spec K F region : aligned F K -> spec_isoform_profile cmp K F region (isoform_profile cmp K F region) = true.
Proof. intros HA. rewrite (isoform_profile_aligned K F region HA). apply spec_of_map. Qed.

(* generic decomposition of the known features by one transcript feature *)
Lemma split_run f K : exists N M K', K = N ++ M ++ K' /\ (forall k, In k N -> cmp f k = false) /\ (forall k, In k M -> cmp f k = true) /\
  match K' with k :: _ => cmp f k = false | [] => True end /\ (M = [] -> K' = []).
Proof. induction K as [|k K IH]; [exists [], [], []; repeat split; intros ? []|].
  destruct IH as (N & M & K' & -> & HN & HM & HK & HE).
  destruct (cmp f k) eqn:E.
  - destruct N as [|n N'].
    + exists [], (k :: M), K'. split; [reflexivity|]. split; [intros ? []|]. split; [intros k' [<-|Hk']; [exact E|apply HM, Hk']|].
      split; [exact HK|discriminate].
    + exists [], [k], (n :: N' ++ M ++ K'). split; [reflexivity|]. split; [intros ? []|]. split; [intros k' [<-|[]]; exact E|].
      split; [apply HN; left; reflexivity|discriminate].
  - exists (k :: N), M, K'. split; [reflexivity|]. split; [intros k' [<-|Hk']; [exact E|apply HN, Hk']|]. split; [exact HM|]. split; [exact HK|exact HE].
Qed.
End Iso.

(* ---------- use 1: equality comparator, transcript features a sub-sequence of the duplicate-free known features ---------- *)
Inductive subseq {A} : list A -> list A -> Prop :=
| ss_nil K : subseq [] K
| ss_skip F k K : subseq F K -> subseq F (k :: K)
| ss_take f F K : subseq F K -> subseq (f :: F) (f :: K).
Lemma subseq_In {A} (F K:list A) x : subseq F K -> In x F -> In x K.
Proof. induction 1 as [K|F k K H IH|f F K H IH]; intros Hx; [destruct Hx|right; apply IH, Hx|].
  destruct Hx as [->|Hx]; [left; reflexivity|right; apply IH, Hx]. Qed.
Lemma subseq_split {A} (f:A) F K : subseq (f :: F) K -> exists N K2, K = N ++ f :: K2 /\ subseq F K2.
Proof. intros H. remember (f :: F) as G eqn:EG. induction H as [K|G k K H IH|g G K H IH]; [discriminate| |].
  - destruct (IH EG) as (N & K2 & -> & Hs). exists (k :: N), K2. split; [reflexivity|exact Hs].
  - inversion EG; subst. exists [], K. split; [reflexivity|exact H]. Qed.
Lemma NoDup_app_disj {A} (l1 l2:list A) x : NoDup (l1 ++ l2) -> In x l1 -> In x l2 -> False.
Proof. induction l1 as [|a l1 IH]; intros Hn H1 H2; [destruct H1|]. cbn [app] in Hn. inversion Hn; subst.
  destruct H1 as [->|H1]; [apply H3, in_or_app; right; exact H2|apply IH; assumption]. Qed.

Lemma NoDup_app_r' {A} (l1 l2:list A) : NoDup (l1 ++ l2) -> NoDup l2.
Proof. induction l1 as [|a l1 IH]; intros H; [exact H|]. cbn [app] in H. inversion H; subst. apply IH. assumption. Qed.

Definition eqc (f k:iv) : bool := py_equal_ranges f k 0.
Lemma eqc_iff f k : eqc f k = true <-> f = k.
Proof. unfold eqc, py_equal_ranges. destruct f as [f0 f1], k as [k0 k1]. cbn [fst snd]. split; [intros H; f_equal; lia|intros H; inversion H; subst; lia]. Qed.
Lemma eqc_false f k : f <> k -> eqc f k = false.
Proof. intros H. apply not_true_is_false. intros Hc. apply eqc_iff in Hc. contradiction. Qed.

Lemma aligned_eq : forall F K, NoDup K -> subseq F K -> aligned eqc F K.
Proof. induction F as [|f F IH]; intros K Hnd Hss; [constructor|].
  destruct (subseq_split f F K Hss) as (N & K2 & -> & Hs2).
  pose proof (NoDup_remove _ _ _ Hnd) as (Hnd' & Hnot).
  assert (Hnd2: NoDup K2) by (eapply NoDup_app_r'; exact Hnd').
  change (N ++ f :: K2) with (N ++ [f] ++ K2). constructor.
  - intros k Hk. apply eqc_false. intros ->. apply Hnot, in_or_app. left. exact Hk.
  - intros k [<-|[]]. apply eqc_iff. reflexivity.
  - intros k Hk. apply eqc_false. intros ->. apply Hnot, in_or_app. right. exact Hk.
  - intros k f' Hk Hf'. apply eqc_false. intros ->. apply (NoDup_app_disj N K2 k Hnd' Hk). eapply subseq_In; [exact Hs2|exact Hf'].
  - discriminate.
  - apply IH; assumption. Qed.

Lemma hit_eqc F k : hit eqc F k = true <-> In k F.
Proof. unfold hit. rewrite existsb_exists. split; [intros (f & Hf & H); apply eqc_iff in H; subst; exact Hf|intros H; exists k; split; [exact H|apply eqc_iff; reflexivity]]. Qed.

(* intron / exon profiles: 1 iff the feature is one of the transcript's, otherwise -1 inside the span and -2 outside *)
Theorem isoform_profile_eq_spec K F region : NoDup K -> subseq F K ->
  length (isoform_profile eqc K F region) = length K /\
  forall j k, nth_error K j = Some k ->
    exists v, nth_error (isoform_profile eqc K F region) j = Some v /\
      (v = 1 <-> In k F) /\ (v = -2 <-> ~ In k F /\ py_overlaps k region = false) /\ (v = -1 <-> ~ In k F /\ py_overlaps k region = true).
Proof. intros Hnd Hss. rewrite (isoform_profile_aligned eqc K F region (aligned_eq F K Hnd Hss)).
  split; [apply map_length|]. intros j k Hj. eexists. split; [apply map_nth_error; exact Hj|]. cbv beta.
  pose proof (hit_eqc F k) as Hh. destruct (hit eqc F k).
  - assert (In k F) by (apply Hh; reflexivity). repeat split; intros; try tauto; try lia; try discriminate.
  - assert (~ In k F) by (intros Hc; apply Hh in Hc; discriminate).
    destruct (py_overlaps k region); repeat split; intros; try tauto; try lia; try discriminate;
      match goal with H : _ /\ _ |- _ => destruct H; try discriminate; try tauto end. Qed.

(* ---------- use 2: `contains` on split exons ---------- *)
Lemma sd_app_r L1 : forall L2, sd (L1 ++ L2) -> sd L2.
Proof. induction L1 as [|a L1 IH]; intros L2 H; [exact H|]. apply IH. exact (sd_tail _ _ H). Qed.
Lemma sd_In_wf L x : sd L -> In x L -> fst x <= snd x.
Proof. induction L as [|a L IH]; intros HS Hx; [destruct Hx|]. destruct Hx as [->|Hx]; [exact (sd_wf _ _ HS)|exact (IH (sd_tail _ _ HS) Hx)]. Qed.
Lemma sd_app_lt L1 : forall L2 x y, sd (L1 ++ L2) -> In x L1 -> In y L2 -> snd x < fst y.
Proof. induction L1 as [|a L1 IH]; intros L2 x y HS Hx Hy; [destruct Hx|].
  destruct Hx as [->|Hx]; [|exact (IH L2 x y (sd_tail _ _ HS) Hx Hy)].
  cbn [app] in HS. pose proof (sd_after _ _ HS) as FA. rewrite Forall_forall in FA. apply FA, in_or_app. right. exact Hy. Qed.

Lemma aligned_contains : forall F K, sd K -> sd F -> (forall f, In f F -> exists k, In k K /\ py_contains f k = true) -> aligned py_contains F K.
Proof. induction F as [|f F IH]; intros K HK HF HA; [constructor|].
  destruct (split_run py_contains f K) as (N & M & K' & -> & HN & HM & Hhd & HE).
  destruct (HA f (or_introl eq_refl)) as (k0 & Hk0 & Hc0).
  (* the run is not empty *)
  assert (HMne: exists m, In m M).
  { apply in_app_or in Hk0. destruct Hk0 as [Hk0|Hk0]; [rewrite (HN k0 Hk0) in Hc0; discriminate|].
    destruct M as [|m M']; [|exists m; left; reflexivity]. specialize (HE eq_refl). subst K'. destruct Hk0. }
  destruct HMne as (m & Hm). pose proof (HM m Hm) as Hcm. unfold py_contains in Hcm.
  pose proof (sd_app_r N _ HK) as HK2. pose proof (sd_app_r M _ HK2) as HK3.
  assert (Hmw: fst m <= snd m) by (eapply sd_In_wf; [exact HK2|apply in_or_app; left; exact Hm]).
  pose proof (sd_after _ _ HF) as FF. rewrite Forall_forall in FF.
  assert (X2: forall k, In k K' -> py_contains f k = false).
  { intros k Hk. destruct K' as [|h T]; [destruct Hk|]. destruct Hk as [<-|Hk]; [exact Hhd|].
    apply not_true_is_false. intros Hc. unfold py_contains in Hc.
    pose proof (sd_app_lt M (h :: T) m h HK2 Hm (or_introl eq_refl)) as L1.
    pose proof (sd_after _ _ HK3) as FT. rewrite Forall_forall in FT. specialize (FT k Hk).
    pose proof (sd_In_wf _ k HK3 (or_intror Hk)) as Hkw.
    unfold py_contains in Hhd. lia. }
  assert (X1: forall k f', In k N -> In f' F -> py_contains f' k = false).
  { intros k f' Hk Hf'. apply not_true_is_false. intros Hc. unfold py_contains in Hc.
    pose proof (sd_app_lt N (M ++ K') k m HK Hk (in_or_app _ _ _ (or_introl Hm))) as L1.
    pose proof (sd_In_wf _ k HK (in_or_app _ _ _ (or_introl Hk))) as Hkw.
    specialize (FF f' Hf'). lia. }
  constructor; try assumption.
  apply IH; [exact HK3|exact (sd_tail _ _ HF)|].
  intros f' Hf'. destruct (HA f' (or_intror Hf')) as (k & Hk & Hc). exists k. split; [|exact Hc].
  apply in_app_or in Hk. destruct Hk as [Hk|Hk]; [rewrite (X1 k f' Hk Hf') in Hc; discriminate|].
  apply in_app_or in Hk. destruct Hk as [Hk|Hk]; [|exact Hk].
  exfalso. pose proof (HM k Hk) as Hck. unfold py_contains in Hc, Hck.
  pose proof (sd_In_wf _ k HK2 (in_or_app _ _ _ (or_introl Hk))) as Hkw. specialize (FF f' Hf'). lia. Qed.

(* split-exon profile of an isoform: 1 iff the block lies inside one of the transcript's exons *)
Theorem isoform_profile_contains_spec K F region : sd K -> sd F -> (forall f, In f F -> exists k, In k K /\ py_contains f k = true) ->
  isoform_profile py_contains K F region =
  map (fun k => if existsb (fun f => py_contains f k) F then 1 else if py_overlaps k region then -1 else -2) K.
Proof. intros HK HF HA. exact (isoform_profile_aligned py_contains K F region (aligned_contains F K HK HF HA)). Qed.


(* the hypothesis of the split-exon statement is discharged by split_exons_partition: every exon of the gene contains a block *)
Lemma split_blocks_found exons blocks : wfx exons -> split_exons exons = Some blocks ->
  sd blocks /\ forall f, In f exons -> exists k, In k blocks /\ py_contains f k = true.
Proof. intros Hw Hs. destruct (split_exons_partition exons Hw) as (R & HR & P1 & P3 & P4). rewrite Hs in HR. inversion HR; subst R.
  split; [exact P1|]. intros f Hf. unfold wfx in Hw. rewrite Forall_forall in Hw. pose proof (Hw f Hf) as Hfw.
  assert (Hc: cover blocks (fst f) = true).
  { rewrite P3. apply cover_true_iff. exists f. split; [exact Hf|lia]. }
  apply cover_true_iff in Hc. destruct Hc as (k & Hk & Hp). exists k. split; [exact Hk|].
  destruct (P4 k f Hk Hf) as [H|H]; [exact H|]. unfold py_overlaps in H. lia. Qed.
Theorem split_exon_profile_spec exons blocks F region : wfx exons -> split_exons exons = Some blocks -> sd F -> (forall f, In f F -> In f exons) ->
  isoform_profile py_contains blocks F region =
  map (fun k => if existsb (fun f => py_contains f k) F then 1 else if py_overlaps k region then -1 else -2) blocks.
Proof. intros Hw Hs HF Hsub. destruct (split_blocks_found exons blocks Hw Hs) as (Hsd & Hfound).
  apply isoform_profile_contains_spec; [exact Hsd|exact HF|]. intros f Hf. apply Hfound, Hsub, Hf. Qed.

(* corners: a transcript feature that is not among the known features makes the walk run off the end *)
Example isoform_profile_missing_feature_refuted :
  isoform_profile eqc [(1,2);(5,6)] [(3,4);(5,6)] (3,6) = [-2; -1].
Proof. vm_compute. reflexivity. Qed.
Example isoform_profile_eq_example :
  isoform_profile eqc [(1,2);(3,4);(3,6);(8,9);(11,12)] [(3,4);(8,9)] (3,9) = [-2; 1; -1; 1; -2].
Proof. vm_compute. reflexivity. Qed.
Example isoform_profile_contains_example :
  isoform_profile py_contains [(1,2);(3,5);(6,8);(10,12)] [(3,8);(10,12)] (3,12) = [-2; 1; 1; 1].
Proof. vm_compute. reflexivity. Qed.
Print Assumptions isoform_profile_eq_spec.
Print Assumptions isoform_profile_contains_spec.
Print Assumptions split_exon_profile_spec.
