(* Shared facts for the bridges of jaccard_similarity / merge_ranges (while fragment of tools/translate_loops.py): the `included` arrays of the
   source against the two boolean flags of the hand models.  Only the entry of the CURRENT position matters; the entries after it are 0. *)
From Coq Require Import ZArith NArith QArith List Bool Lia ZifyBool.
From IQ.gen Require Import Prims Loops.
From IQ Require Import CorrSupport Intervals LoopsSupport LoopsIndexSupport LoopsRunSupport LoopsRangeSupport.
Import ListNotations. Open Scope Z_scope.

Definition b2z (b:bool) : Z := if b then 1 else 0.

Lemma py_set_nat {A} (l:list A) n v : py_set l (Z.of_nat n) v = firstn n l ++ v :: skipn (S n) l.
Proof. unfold py_set. replace (Z.of_nat n <? 0) with false by lia. rewrite Nat2Z.id. reflexivity. Qed.
Lemma py_set_length {A} (l:list A) n v : (n < length l)%nat -> length (py_set l (Z.of_nat n) v) = length l.
Proof. intros H. rewrite py_set_nat, app_length, firstn_length. cbn [length]. rewrite skipn_length. lia. Qed.
Lemma py_set_nth {A} (l:list A) n m v d : (n < length l)%nat -> nth m (py_set l (Z.of_nat n) v) d = if Nat.eqb m n then v else nth m l d.
Proof. intros H. rewrite py_set_nat. destruct (Nat.eqb_spec m n) as [->|Ne].
  - rewrite app_nth2 by (rewrite firstn_length; lia). rewrite firstn_length. replace (n - Nat.min n (length l))%nat with 0%nat by lia. reflexivity.
  - destruct (Nat.lt_ge_cases m n) as [Lt|Ge].
    + rewrite app_nth1 by (rewrite firstn_length; lia). apply nth_firstn_lt. exact Lt.
    + rewrite app_nth2 by (rewrite firstn_length; lia). rewrite firstn_length. replace (m - Nat.min n (length l))%nat with (S (m - n - 1)) by lia.
      cbn [nth]. rewrite nth_skipn_add. f_equal. lia. Qed.

(* the state of the arrays at positions (i, j): lengths, the flags of the current heads, zeros after them *)
Definition arrays_ok (nA nB i j:nat) (inc1 inc2:list Z) (i1 i2:bool) : Prop :=
  length inc1 = nA /\ length inc2 = nB /\ (i <= nA)%nat /\ (j <= nB)%nat /\
  ((i < nA)%nat -> nth i inc1 0 = b2z i1) /\ ((j < nB)%nat -> nth j inc2 0 = b2z i2) /\
  (forall m, (i < m < nA)%nat -> nth m inc1 0 = 0) /\ (forall m, (j < m < nB)%nat -> nth m inc2 0 = 0).

Lemma arrays_ok_init nA nB : arrays_ok nA nB 0 0 (repeat 0 nA) (repeat 0 nB) false false.
Proof. unfold arrays_ok. rewrite !repeat_length. repeat split; try lia; intros; apply nth_repeat. Qed.

Lemma qeq_bool_inject0 x : Qeq_bool (inject_Z x) (inject_Z 0) = (x =? 0).
Proof. unfold Qeq_bool, inject_Z. cbn [Qnum Qden]. rewrite Z.mul_1_r. destruct x; reflexivity. Qed.
