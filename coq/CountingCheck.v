(* Decidable comparisons used by the C02/C09 correspondences: model output vs implementation output (the check_ functions) and the
   declarative output specifications counts_ok / grouped_ok of DESIGN Appendix E evaluated on implementation output (the prop_ functions). *)
From Coq Require Import ZArith NArith QArith Qabs List Bool Lia.
From IQ Require Import Counting CountingCounter.
Import ListNotations.
Open Scope Z_scope.

Definition qclose (tol a b:Q) : bool := Qle_bool (Qabs (a - b)) tol.
Definition tol_cell : Q := 5000001 # 1000000000.       (* "%.2f": half a cent, plus float summation slack 1e-9 *)
Definition tol_tpm : Q := 1 # 1000000.                 (* "%.6f": 5e-7, plus float slack *)
Definition qeqb (a b:Q) : bool := Qeq_bool a b.

Fixpoint find_row {A} (f:Z) (rows:list (Z * A)) : option A :=
  match rows with [] => None | r :: t => if fst r =? f then Some (snd r) else find_row f t end.
Fixpoint all2 {A B} (p:A -> B -> bool) (x:list A) (y:list B) : bool :=
  match x, y with [], [] => true | a :: s, b :: t => p a b && all2 p s t | _, _ => false end.
Fixpoint nodupb (l:list Z) : bool := match l with [] => true | x :: t => negb (memz x t) && nodupb t end.
Definition zs_eq (a b:list Z) : bool := all2 Z.eqb a b.

(* internal state of a counter before dump: feature_counter (features sorted, groups in insertion order), all_features (sorted),
   confirmed_features (sorted), the four statistics *)
Notation istate := (list (Z * list (Z * Q)) * list Z * list Z * list Z)%type.
Definition gd_eq (a b:list (Z * Q)) : bool := all2 (fun p q => (fst p =? fst q) && qeqb (snd p) (snd q)) a b.
Definition istate_of (st:cstate) : istate :=
  (map (fun f => (f, entries (fcount st) f)) (sortz (map fst (fcount st))), sortz (all_feats st), sortz (confirmed st),
   [n_amb st; n_noassign st; n_noalign st; n_tpm st]).
Definition istate_eq (a b:istate) : bool :=
  let '(fa, aa, ca, sa) := a in let '(fb, ab, cb, sb) := b in
  all2 (fun p q => (fst p =? fst q) && gd_eq (snd p) (snd q)) fa fb && zs_eq aa ab && zs_eq ca cb && zs_eq sa sb.

(* printed rows against model rows: same features (as sets, each once), cells within tolerance *)
Definition rows_close (tol:Q) (impl model:list (Z * list Q)) : bool :=
  Nat.eqb (length impl) (length model) && nodupb (map fst impl) &&
  forallb (fun r => match find_row (fst r) model with Some cells => all2 (qclose tol) (snd r) cells | None => false end) impl.
Definition lin_key (r:Z * Z * Q) : Z * Z := fst r.
Definition find_lin (f g:Z) (rows:list (Z * Z * Q)) : option Q :=
  match filter (fun r => (fst (fst r) =? f) && (snd (fst r) =? g)) rows with [r] => Some (snd r) | _ => None end.
Definition linear_close (tol:Q) (impl model:list (Z * Z * Q)) : bool :=
  Nat.eqb (length impl) (length model) &&
  forallb (fun r => match find_lin (fst (fst r)) (snd (fst r)) model with Some v => qclose tol (snd r) v | None => false end) impl &&
  forallb (fun r => match find_lin (fst (fst r)) (snd (fst r)) impl with Some _ => true | None => false end) impl.

(* ---------------------------------------------------------------- a unit case: several chromosomes, one counter kind *)
Record ccase := mkcase { k_strategy : strategy; k_level : level; k_na : Z; k_zeroes : bool; k_fmt : bool * bool;
                         k_usable : bool; k_unaligned : Z;
                         k_chrs : list (list Z * list Z * list event) }.   (* per chromosome: group collection as passed, complete features, events *)
Definition all_events (k:ccase) : list event := flat_map snd (k_chrs k).
Definition universe (k:ccase) : list Z :=
  nodupz (flat_map (fun c => snd (fst c) ++ flat_map (fun ev => match ev with
     | ERead r => flat_map (fun m => opt_list (m_tr m) ++ opt_list (m_gene m)) (ra_matches r)
     | ERaw _ fs _ => fs | EConfirm fs => fs | _ => [] end) (snd c)) (k_chrs k)).

(* model of the whole unit pipeline for one kind of counter *)
Definition chr_cfg (grouped:bool) (k:ccase) (c:list Z * list Z * list event) : cfg :=
  mk_counter (k_strategy k) (k_level k) (k_na k) (if grouped then fst (fst c) else []) (k_zeroes k) (k_fmt k).
Fixpoint opt_all {A} (l:list (option A)) : option (list A) :=
  match l with [] => Some [] | None :: _ => None | Some x :: t => match opt_all t with Some r => Some (x :: r) | None => None end end.
Definition model_states (grouped:bool) (k:ccase) : option (list cstate) :=
  opt_all (map (fun c => run (chr_cfg grouped k c) (init_state (snd (fst c))) (snd c)) (k_chrs k)).
Definition main_cfg (grouped:bool) (k:ccase) : cfg :=
  mk_counter (k_strategy k) (k_level k) (k_na k) (if grouped then flat_map (fun c => fst (fst c)) (k_chrs k) else []) (k_zeroes k) (k_fmt k).
Definition model_merged (grouped:bool) (k:ccase) : option merged :=
  match model_states grouped k with
  | Some sts => Some (merge (main_cfg grouped k) (map (fun p => dump (chr_cfg grouped k (fst p)) (snd p)) (combine (k_chrs k) sts)) (k_unaligned k))
  | None => None end.

(* ---------------------------------------------------------------- C02: ungrouped counter, merge, TPM *)
Record uobs := mkuobs { u_states : list istate; u_rows : list (Z * list Q); u_stats : list Z;     (* __ambiguous, __no_feature, __not_aligned *)
                        u_tpm : list (Z * list Q); u_unassigned : Q }.
Definition check_u_gen (with_states:bool) (c:ccase * uobs) : bool :=
  let (k, o) := c in
  match model_states false k, model_merged false k with
  | Some sts, Some m =>
      (negb with_states || all2 istate_eq (map istate_of sts) (u_states o)) &&
      rows_close tol_cell (u_rows o) (mg_rows m) &&
      match mg_stats m with Some (a, n, l) => zs_eq (u_stats o) [a; n; l] | None => false end &&
      (let (t, un) := tpm (main_cfg false k) (k_usable k) (mg_usable m) (u_rows o) in
       rows_close tol_tpm (u_tpm o) t && match un with Some x => qclose tol_tpm (u_unassigned o) x | None => false end)
  | _, _ => false
  end.

Definition check_u := check_u_gen true.
Definition check_u_files := check_u_gen false.     (* pipeline level: internal states are not observable *)

(* counts_ok: every printed cell is the documented weighted sum (or 0 when the feature is unconfirmed), every feature with a
   non-zero expected value is listed, the statistics lines are the tallies, TPM is the rescaled printed table *)
Definition counts_ok (s:strategy) (lv:level) (evs:list event) (univ:list Z) (rows:list (Z * list Q)) : bool :=
  nodupb (map fst rows) &&
  forallb (fun r => match snd r with [v] => qclose tol_cell v (spec_cell s lv evs (fst r) None) | _ => false end) rows &&
  forallb (fun f => qzero (spec_cell s lv evs f None) || match find_row f rows with Some _ => true | None => false end) univ.
Definition stats_ok (lv:level) (evs:list event) (unaligned:Z) (stats:list Z) : bool :=
  zs_eq stats [spec_ambiguous lv evs; spec_no_feature evs; if 0 <? unaligned then unaligned else spec_not_aligned evs].
Definition usable_reads_spec (evs:list event) : Z :=
  sumz (map (fun ev => match ev with ERead r => if counted r then 1 else 0 | ERaw true (_ :: _) _ => 1 | EUnassigned n => n | _ => 0 end) evs).
Definition tpm_ok (usable:bool) (usable_reads:Z) (rows tpm_rows:list (Z * list Q)) (unassigned:Q) : bool :=
  let total := qsum' (map (col 0) rows) in
  let tsum := qsum' (map (col 0) tpm_rows) in
  let n := inject_Z (Z.of_nat (length rows) + 1) in
  match rows with [] => match tpm_rows with [] => true | _ => false end | _ =>   (* an empty table has an empty TPM table; its __unassigned line is not constrained *)
  if usable && negb (usable_reads =? 0) then
    forallb (fun r => match find_row (fst r) tpm_rows with
                      | Some [t] => qclose tol_tpm t (million * col 0 r / inject_Z usable_reads)
                      | _ => qzero (col 0 r) end) rows &&
    qclose (tol_tpm * n) (tsum + unassigned) million
  else
    forallb (fun r => match find_row (fst r) tpm_rows with
                      | Some [t] => qclose tol_tpm t (if qpos total then million * col 0 r / total else million * col 0 r)
                      | _ => qzero (col 0 r) end) rows &&
    (negb (qpos total) || qclose (tol_tpm * n) tsum million) && qzero unassigned
  end.
Definition prop_u (c:ccase * uobs) : bool :=
  let (k, o) := c in
  counts_ok (k_strategy k) (k_level k) (all_events k) (universe k) (u_rows o) &&
  stats_ok (k_level k) (all_events k) (k_unaligned k) (u_stats o) &&
  tpm_ok (k_usable k) (usable_reads_spec (all_events k)) (u_rows o) (u_tpm o) (u_unassigned o).

(* ---------------------------------------------------------------- C09: grouped counter next to the ungrouped one *)
Record gobs := mkgobs { g_states : list istate; g_header : list Z; g_rows : list (Z * list Q); g_linear : list (Z * Z * Q);
                        g_tpm : list (Z * list Q); g_urows : list (Z * list Q) }.    (* g_urows: the ungrouped table of the same events *)
Definition check_g_gen (with_states:bool) (c:ccase * gobs) : bool :=
  let (k, o) := c in
  match model_states true k, model_merged true k with
  | Some sts, Some m =>
      (negb with_states || all2 istate_eq (map istate_of sts) (g_states o)) &&
      (negb (fst (k_fmt k)) || zs_eq (g_header o) (c_ordered (main_cfg true k))) &&
      rows_close tol_cell (g_rows o) (mg_rows m) &&
      linear_close tol_cell (g_linear o) (mg_linear m) &&
      rows_close tol_tpm (g_tpm o) (fst (tpm (main_cfg true k) (k_usable k) (mg_usable m) (g_rows o)))
  | _, _ => false
  end.
Definition check_g := check_g_gen true.
Definition check_g_files := check_g_gen false.
Definition nonzero_triples_of_matrix (hdr:list Z) (rows:list (Z * list Q)) : list (Z * Z * Q) :=
  flat_map (fun r => flat_map (fun gv => if qzero (snd gv) then [] else [(fst r, fst gv, snd gv)]) (combine hdr (snd r))) rows.
Definition triple_in (t:Z * Z * Q) (l:list (Z * Z * Q)) : bool :=
  existsb (fun x => (fst (fst x) =? fst (fst t)) && (snd (fst x) =? snd (fst t)) && qeqb (snd x) (snd t)) l.
(* grouped_ok: groups partition the ungrouped count; every cell is the documented weighted sum of the records of that group;
   matrix and linear renderings carry the same non-zero triples and every linear triple is a matrix cell *)
Definition grouped_ok (s:strategy) (lv:level) (evs:list event) (fmt:bool * bool) (hdr:list Z) (rows urows:list (Z * list Q))
                      (linear:list (Z * Z * Q)) : bool :=
  let n := inject_Z (Z.of_nat (length hdr) + 1) in
  (negb (fst fmt) ||
     (nodupb hdr && nodupb (map fst rows) &&
      forallb (fun r => Nat.eqb (length (snd r)) (length hdr) &&
                        all2 (fun g v => qclose tol_cell v (spec_cell s lv evs (fst r) (Some g))) hdr (snd r) &&
                        match find_row (fst r) urows with Some [u] => qclose (tol_cell * n) (qsum' (snd r)) u | _ => false end) rows &&
      forallb (fun u => qzero (col 0 u) || match find_row (fst u) rows with Some _ => true | None => false end) urows)) &&
  (negb (snd fmt) ||
     (forallb (fun t => qclose tol_cell (snd t) (spec_cell s lv evs (fst (fst t)) (Some (snd (fst t))))) linear &&
      forallb (fun t => match find_lin (fst (fst t)) (snd (fst t)) linear with Some _ => true | None => false end) linear &&
      forallb (fun u => match snd u with [v] => qclose (tol_cell * inject_Z (Z.of_nat (length (filter (fun t => fst (fst t) =? fst u) linear)) + 1)) v
                           (qsum' (map (fun t => if fst (fst t) =? fst u then snd t else 0%Q) linear)) | _ => false end) urows)) &&
  (negb (fst fmt && snd fmt) ||
     (let mt := nonzero_triples_of_matrix hdr rows in let lt := filter (fun t => negb (qzero (snd t))) linear in
      forallb (fun t => triple_in t lt) mt && forallb (fun t => triple_in t mt) lt &&
      forallb (fun t => match find_row (fst (fst t)) rows with
                        | Some cells => existsb (fun gv => (fst gv =? snd (fst t)) && qeqb (snd gv) (snd t)) (combine hdr cells)
                        | None => qzero (snd t) end) linear)).
Definition grouped_tpm_ok (hdr:list Z) (rows tpm_rows:list (Z * list Q)) : bool :=
  let n := inject_Z (Z.of_nat (length rows) + 1) in
  Nat.eqb (length rows) (length tpm_rows) &&
  forallb (fun j => let total := qsum' (map (col j) rows) in
             forallb (fun r => match find_row (fst r) tpm_rows with
                               | Some cells => qclose tol_tpm (nth j cells 0%Q) (if qpos total then million * col j r / total else million * col j r)
                               | None => false end) rows &&
             (negb (qpos total) || qclose (tol_tpm * n) (qsum' (map (col j) tpm_rows)) million)) (seq 0 (length hdr)).
Definition prop_g (c:ccase * gobs) : bool :=
  let (k, o) := c in
  grouped_ok (k_strategy k) (k_level k) (all_events k) (k_fmt k) (g_header o) (g_rows o) (g_urows o) (g_linear o) &&
  (negb (fst (k_fmt k)) || grouped_tpm_ok (g_header o) (g_rows o) (g_tpm o)).

(* ---------------------------------------------------------------- exceptions: the model raises exactly when the code does *)
Definition check_raises (c:ccase * bool) : bool :=
  let (k, raised) := c in
  match k_chrs k with
  | [ch] => Bool.eqb raised (match run (chr_cfg (match fst (fst ch) with [] => false | _ => true end) k ch) (init_state (snd (fst ch))) (snd ch)
                             with None => true | Some _ => false end)
  | _ => false end.
(* ... and never on well-formed input *)
Definition prop_raises (c:ccase * bool) : bool :=
  let (k, raised) := c in
  match k_chrs k with
  | [ch] => negb raised || negb (forallb (wf_event (chr_cfg (match fst (fst ch) with [] => false | _ => true end) k ch)) (snd ch))
  | _ => false end.

(* ---------------------------------------------------------------- weights and the strategy table *)
Definition flags_eqb (a b:flags) : bool :=
  Bool.eqb (use_amb a) (use_amb b) && Bool.eqb (use_inc_minor a) (use_inc_minor b) && Bool.eqb (use_inc a) (use_inc b).
(* case: strategy, the four predicates of the real enum member (ambiguous, inconsistent_minor, inconsistent, no_inconsistent), flags object *)
Definition check_strategy (c:strategy * (bool * bool * bool * bool) * (bool * bool * bool)) : bool :=
  let '(s, (a, m, i, n), (fa, fm, fi)) := c in
  Bool.eqb (s_ambiguous s) a && Bool.eqb (s_inconsistent_minor s) m && Bool.eqb (s_inconsistent s) i && Bool.eqb (s_no_inconsistent s) n &&
  flags_eqb (flags_of s) {| use_amb := fa; use_inc_minor := fm; use_inc := fi |}.
(* case: strategy, type, k, implementation value (None = ZeroDivisionError); ambiguous -> process_ambiguous, inconsistent* -> process_inconsistent *)
Definition model_weight (s:strategy) (t:atype) (k:Z) : option Q :=
  let n := Z.to_nat k in
  match t with
  | Ambiguous => Some (process_ambiguous (flags_of s) n)
  | _ => if (is_ia t || Nat.ltb 1 n) && s_ambiguous s && s_inconsistent s && Nat.eqb n 0 then None
         else Some (process_inconsistent (flags_of s) t n)
  end.
Definition check_weight (c:strategy * atype * Z * option Q) : bool :=
  let '(s, t, k, v) := c in
  match model_weight s t k, v with Some a, Some b => qeqb a b | None, None => true | _, _ => false end.
Definition prop_weight (c:strategy * atype * Z * option Q) : bool :=
  let '(s, t, k, v) := c in
  (k <=? 0) || match v with Some b => qeqb b (documented s t (Z.to_nat k)) | None => false end.

(* ---------------------------------------------------------------- one read, all its reported records (multi-mapped reads have several) *)
(* total weight the records of one read put into a table *)
Definition record_total (s:strategy) (lv:level) (ev:event) : Q :=
  match ev with
  | ERead r => if counted r then
                 (if is_unique (type_of lv r) then 1
                  else inject_Z (Z.of_nat (length (feats_of lv r))) * documented s (type_of lv r) (length (feats_of lv r)))%Q
               else 0%Q
  | _ => 0%Q end.
Definition read_total (s:strategy) (lv:level) (evs:list event) : Q := qsum' (map (record_total s lv) evs).
(* "no read contributes a total weight above 1 to any table" *)
Definition prop_read_total (c:strategy * level * list event) : bool := let '(s, lv, evs) := c in Qle_bool (read_total s lv evs) 1.
