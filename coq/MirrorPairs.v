(* C11: small faithful models of the left/right code pairs that had no model yet, BOTH halves written out as the code has them:
     PolyAVerifier.check_if_close, detect_reference_exons_beyond_polya / detect_reference_exons_before_polyt,
     verify_polya / verify_polyt                                                      (src/polya_verification.py)
     LongReadAssigner.select_similar_isoforms: the terminal penalties extra_left / extra_right and the candidate cut
     LongReadAssigner.categorize_exon_elongation_subtype: left part / right part      (src/long_read_assigner.py)
   Each half is corresponded separately against the real function by harness/props/c11.py; the mirror theorems are below
   (MirrorPairsProofs section). Events are (subtype, isoform_region, read_region, event_info) with the constants of gen/Tables.v. *)
From Coq Require Import ZArith NArith List Bool Lia ZifyBool.
From IQ.gen Require Import Prims Tables.
From IQ Require Import CorrSupport Mirror PolyA PolyA2.
From IQ Require Intervals.
Import ListNotations. Open Scope Z_scope.

Notation ev := (MES * iv * iv * Z)%type.
Definition ev_type (e:ev) : MES := fst (fst (fst e)).
Definition ev_iso (e:ev) : iv := snd (fst (fst e)).
Definition ev_read (e:ev) : iv := snd (fst e).
Definition ev_info (e:ev) : Z := snd e.
Definition UNDEF : Z := 2147483648.                     (* SupplementaryMatchConstants.undefined_position = 1 << 31 *)
Definition undef_region : iv := (UNDEF, UNDEF).
Definition mk_ev (t:MES) (i r:iv) (x:Z) : ev := (t, i, r, x).
Definition AssertionError : N := 3%N.
Definition IndexError : N := 1%N.
Definition is_type (t:MES) (e:ev) : bool := MES_eqb (ev_type e) t.

Record vparams := mkvp { apa_delta : Z; max_fake : Z; max_missed : Z; vdelta : Z }.

(* ---------------------------------------------------------------- check_if_close (shared by both sides) *)
(* distances with math.inf for an absent position *)
Definition dist_opt (isoform_end pos:Z) : option Z := if pos =? -1 then None else Some (Z.abs (isoform_end - pos)).
Definition le_fin (a:option Z) (b:Z) : bool := match a with Some x => x <=? b | None => false end.
Definition le_inf (a b:option Z) : bool := match a, b with Some x, Some y => x <=? y | Some _, None => true | None, Some _ => false | None, None => true end.
Definition check_if_close (P:vparams) (isoform_end ext int:Z) (events:list ev) (etype:MES) : option (list ev) :=
  let de := dist_opt isoform_end ext in let di := dist_opt isoform_end int in
  if le_fin di (apa_delta P) && le_inf di de then Some (events ++ [mk_ev etype undef_region undef_region int])
  else if le_fin de (apa_delta P) && negb (le_inf di de) then Some (events ++ [mk_ev etype undef_region undef_region ext])
  else None.

(* ---------------------------------------------------------------- detect_reference_exons_beyond_polya / before_polyt *)
Fixpoint count_while {A} (p:A -> bool) (l:list A) : nat := match l with [] => O | a :: t => if p a then Datatypes.S (count_while p t) else O end.
Fixpoint sum_len (l:list iv) : Z := match l with [] => 0 | a :: t => py_interval_len a + sum_len t end.     (* intervals_total_length *)
Fixpoint iota (n:nat) : list Z := match n with O => [] | Datatypes.S k => iota k ++ [Z.of_nat k] end.        (* range(n) *)

Definition short_exons_ok (P:vparams) (term_len dist:Z) : bool :=
  ((term_len <=? max_fake P) && (dist <=? max_fake P)) || ((term_len <=? max_missed P) && (Z.abs (term_len - dist) <=? vdelta P)).

Definition detect_beyond_polya (P:vparams) (iso:list iv) (ext int:Z) (events:list ev) : list ev * Z * Z :=
  let n := length iso in
  let polya_pos := if negb (int =? -1) then int else ext in
  let c := count_while (fun e => fst e >=? polya_pos) (rev iso) in          (* isoform_exons[-count-1][0] >= polya_pos, from the last exon *)
  if (c =? n)%nat || (c =? 0)%nat then (events, ext, int) else
  let term_len := sum_len (skipn (n - c) iso) in
  let anchor := snd (nth (n - c - 1) iso (0, 0)) in
  let dist := Z.min (Z.abs (anchor - ext)) (Z.abs (anchor - int)) in        (* the raw positions, -1 included, as in the code *)
  if short_exons_ok P term_len dist then
    let new := map (fun i => mk_ev MES_terminal_exon_misalignment_right (Z.of_nat n - 2 - i, Z.of_nat n - 2 - i) undef_region 0) (iota c) in
    let corrected := snd (last iso (0, 0)) in (events ++ new, corrected, corrected)
  else (events, ext, int).

Definition detect_before_polyt (P:vparams) (iso:list iv) (ext int:Z) (events:list ev) : list ev * Z * Z :=
  let n := length iso in
  let polyt_pos := if negb (int =? -1) then int else ext in
  let c := count_while (fun e => snd e <=? polyt_pos) iso in
  if (c =? 0)%nat || (c =? n)%nat then (events, ext, int) else
  let term_len := sum_len (firstn c iso) in
  let anchor := fst (nth c iso (0, 0)) in
  let dist := Z.min (Z.abs (anchor - ext)) (Z.abs (anchor - int)) in
  if short_exons_ok P term_len dist then
    let new := map (fun i => mk_ev MES_terminal_exon_misalignment_left (i, i) undef_region 0) (iota c) in
    let corrected := fst (hd (0, 0) iso) in (events ++ new, corrected, corrected)
  else (events, ext, int).

(* ---------------------------------------------------------------- verify_polya / verify_polyt *)
(* the scan over the events: index of the LAST elongation event (or -1), number of fake terminal exons, of misaligned terminal exons *)
Definition scan_step (t_major t_minor t_fake t_mis:MES) (acc:Z * Z * Z * Z) (e:ev) : Z * Z * Z * Z :=
  let '(i, rm, fake, mis) := acc in
  if is_type t_major e || is_type t_minor e then (i + 1, i, fake, mis)
  else if is_type t_fake e then (i + 1, rm, fake + 1, mis)
  else if is_type t_mis e then (i + 1, rm, fake, mis + 1)
  else (i + 1, rm, fake, mis).
Definition scan (t_major t_minor t_fake t_mis:MES) (events:list ev) : Z * Z * Z :=
  let '(_, rm, fake, mis) := fold_left (scan_step t_major t_minor t_fake t_mis) events (0, -1, 0, 0) in (rm, fake, mis).
Fixpoint remove_nth {A} (n:nat) (l:list A) : list A := match l, n with [] , _ => [] | _ :: t, O => t | a :: t, Datatypes.S k => a :: remove_nth k t end.
Definition del_event (rm:Z) (events:list ev) : list ev := if rm =? -1 then events else remove_nth (Z.to_nat rm) events.

Definition verify_polya (P:vparams) (iso read:list iv) (ext int:Z) (events:list ev) : outcome (list ev) :=
  if (ext =? -1) && (int =? -1) then Raises AssertionError else
  let isoform_end := snd (last iso (0, 0)) in
  let '(rm, fake, mis) := scan MES_major_exon_elongation_right MES_exon_elongation_right MES_fake_terminal_exon_right MES_terminal_exon_misalignment_right events in
  let events1 := del_event rm events in
  match check_if_close P isoform_end ext int events1 MES_correct_polya_site_right with
  | Some r => Ok r
  | None =>
    if negb (fake <? Z.of_nat (length read)) then Raises AssertionError else
    let ext2 := shift_polya read fake ext in let int2 := shift_polya read fake int in
    let '(events2, ext3, int3) := if 0 <? mis then (events1, isoform_end, isoform_end) else detect_beyond_polya P iso ext2 int2 events1 in
    match check_if_close P isoform_end ext3 int3 events2 MES_correct_polya_site_right with
    | Some r => Ok r
    | None =>
      let pos := if int3 =? -1 then ext3 else int3 in
      if Z.abs (pos - isoform_end) >? apa_delta P then Ok (events2 ++ [mk_ev MES_alternative_polya_site_right undef_region undef_region pos])
      else Ok (events2 ++ [mk_ev MES_correct_polya_site_right undef_region undef_region pos])
    end
  end.

Definition verify_polyt (P:vparams) (iso read:list iv) (ext int:Z) (events:list ev) : outcome (list ev) :=
  if (ext =? -1) && (int =? -1) then Raises AssertionError else
  let isoform_start := fst (hd (0, 0) iso) in
  let '(rm, fake, mis) := scan MES_major_exon_elongation_left MES_exon_elongation_left MES_fake_terminal_exon_left MES_terminal_exon_misalignment_left events in
  let events1 := del_event rm events in
  match check_if_close P isoform_start ext int events1 MES_correct_polya_site_left with
  | Some r => Ok r
  | None =>
    if negb (fake <? Z.of_nat (length read)) then Raises AssertionError else
    let ext2 := shift_polyt read fake ext in let int2 := shift_polyt read fake int in
    let '(events2, ext3, int3) := if 0 <? mis then (events1, isoform_start, isoform_start) else detect_before_polyt P iso ext2 int2 events1 in
    match check_if_close P isoform_start ext3 int3 events2 MES_correct_polya_site_left with
    | Some r => Ok r
    | None =>
      let pos := if int3 =? -1 then ext3 else int3 in
      if Z.abs (pos - isoform_start) >? apa_delta P then Ok (events2 ++ [mk_ev MES_alternative_polya_site_left undef_region undef_region pos])
      else Ok (events2 ++ [mk_ev MES_correct_polya_site_left undef_region undef_region pos])
    end
  end.

(* ---------------------------------------------------------------- select_similar_isoforms: terminal penalties and the candidate cut *)
(* candidates: (isoform number, number of differing introns, transcript region); read_region = (first exon start, last exon end) *)
Definition extra_left (delta:Z) (read_region tr:iv) : Z := if fst read_region + delta <? fst tr then 1 else 0.
Definition extra_right_cur (delta:Z) (read_region tr:iv) : Z := if fst read_region - delta >? snd tr then 1 else 0.     (* the code before fixes/C11_extra_right_typo.diff: read_region[0] *)
Definition extra_right_fix (delta:Z) (read_region tr:iv) : Z := if snd read_region - delta >? snd tr then 1 else 0.     (* the repaired code: the mirror image of extra_left *)
Definition best_candidates_gen (xr:Z -> iv -> iv -> Z) (delta:Z) (read_region:iv) (cands:list (Z * Z * iv)) : list Z :=
  let scored := map (fun c => let '(id, diff, tr) := c in (id, diff + xr delta read_region tr + extra_left delta read_region tr)) cands in
  match scored with
  | [] => []
  | s :: t => let best := fold_left (fun m x => Z.min m (snd x)) t (snd s) in
              map fst (filter (fun x => snd x <=? best + 3) scored)
  end.
Definition best_candidates := best_candidates_gen extra_right_cur.
Definition best_candidates_fix := best_candidates_gen extra_right_fix.

(* ---------------------------------------------------------------- categorize_exon_elongation_subtype *)
(* split_exons: the gene's split-exon features; iso_prof / read_prof: the two profiles over them; iso_range / read_range: profile
   ranges [a, b); read_first / read_last: first and last read exon.  Python's negative index wraps around when no common exon exists *)
Definition both_one (iso_prof read_prof:list Z) (i:Z) : bool :=
  (Intervals.nthz iso_prof i 0 =? 1) && (Intervals.nthz read_prof i 0 =? 1).
Fixpoint first_common (fuel:nat) (iso_prof read_prof:list Z) (i n:Z) : Z :=
  match fuel with O => -1 | Datatypes.S f => if i <? n then (if both_one iso_prof read_prof i then i else first_common f iso_prof read_prof (i + 1) n) else -1 end.
Fixpoint last_common (fuel:nat) (iso_prof read_prof:list Z) (i:Z) : Z :=
  match fuel with O => -1 | Datatypes.S f => if 0 <=? i then (if both_one iso_prof read_prof i then i else last_common f iso_prof read_prof (i - 1)) else -1 end.

Record eparams := mkep { minor_ext : Z; major_ext : Z; edelta : Z }.
Definition elong_left (E:eparams) (split_exons:list iv) (iso_prof read_prof:list Z) (iso_range read_range:iv) (read_first:iv) : option (list ev) :=
  let n := Z.of_nat (length split_exons) in
  let iso_first := fst iso_range in
  let cf := first_common (length split_exons) iso_prof read_prof (Z.max iso_first (fst read_range)) n in
  match Intervals.pyidx split_exons cf with
  | None => None
  | Some x =>
    if negb (py_overlaps read_first x) then Some [] else
    let extra := fst x - fst read_first in
    if cf =? iso_first then
      Some ((if Z.abs extra <=? minor_ext E
             then [mk_ev (if Z.abs extra <=? edelta E then MES_terminal_site_match_left_precise else MES_terminal_site_match_left) undef_region undef_region extra] else [])
            ++ (if extra >? minor_ext E then [mk_ev MES_major_exon_elongation_left undef_region undef_region extra]
                else if extra >? edelta E then [mk_ev MES_exon_elongation_left undef_region undef_region extra] else []))
    else if (minor_ext E >=? extra) && (extra >? edelta E) then Some [mk_ev MES_exon_elongation_left undef_region undef_region extra]
    else Some []
  end.
Definition elong_right (E:eparams) (split_exons:list iv) (iso_prof read_prof:list Z) (iso_range read_range:iv) (read_last:iv) : option (list ev) :=
  let iso_last := snd iso_range - 1 in
  let cl := last_common (Datatypes.S (length split_exons)) iso_prof read_prof (Z.min iso_last (snd read_range - 1)) in
  match Intervals.pyidx split_exons cl with
  | None => None
  | Some x =>
    if negb (py_overlaps read_last x) then Some [] else
    let extra := snd read_last - snd x in
    if cl =? iso_last then
      Some ((if Z.abs extra <=? minor_ext E
             then [mk_ev (if Z.abs extra <=? edelta E then MES_terminal_site_match_right_precise else MES_terminal_site_match_right) undef_region undef_region extra] else [])
            ++ (if extra >? minor_ext E then [mk_ev MES_major_exon_elongation_right undef_region undef_region extra]
                else if extra >? edelta E then [mk_ev MES_exon_elongation_right undef_region undef_region extra] else []))
    else if (minor_ext E >=? extra) && (extra >? edelta E) then Some [mk_ev MES_exon_elongation_right undef_region undef_region extra]
    else Some []
  end.
(* the whole function: left events, then right events (None = IndexError) *)
Definition categorize_elongation (E:eparams) (split_exons:list iv) (iso_prof read_prof:list Z) (iso_range read_range:iv) (read_exons:list iv) : option (list ev) :=
  match read_exons with
  | [] => None
  | f :: _ =>
    match elong_left E split_exons iso_prof read_prof iso_range read_range f,
          elong_right E split_exons iso_prof read_prof iso_range read_range (last read_exons f) with
    | Some l, Some r => Some (l ++ r)
    | _, _ => None
    end
  end.

(* ---------------------------------------------------------------- IntronPathProcessor.thread_ends / thread_starts *)
(* vertices (kind, position): kind 0 = polyA resp. polyT vertex, kind 1 = read-end resp. read-start vertex.  The lists are what
   intron_graph.get_outgoing / get_incoming return (terminal vertices of the two kinds, neighbouring introns), in that order *)
Notation vtx := (Z * Z)%type.
Fixpoint vinsert (x:vtx) (l:list vtx) : list vtx :=            (* stable: x goes after the elements with the same position *)
  match l with [] => [x] | y :: t => if snd x <? snd y then x :: l else y :: vinsert x t end.
Definition vsort (l:list vtx) : list vtx := fold_left (fun acc x => vinsert x acc) l [].       (* sorted(..., key=lambda x: x[1]) *)
Definition thread_ends (apa delta:Z) (polyas read_ends:list Z) (outgoing:list iv) (end_:Z) (trusted:bool) : option vtx :=
  match (if trusted then find (fun p => Z.abs (p - end_) <=? apa) polyas else None) with
  | Some p => Some (0, p)
  | None =>
    let blocked := match outgoing with
                   | [] => false
                   | i :: t => negb trusted && (end_ <=? fold_left (fun m x => Z.max m (fst x)) t (fst i) - 1 + delta) end in
    if blocked then None else
    let all := vsort (map (fun p => (1, p)) read_ends ++ map (fun p => (0, p)) polyas) in
    match rev all with
    | [] => None
    | r :: before =>
      if trusted && (end_ >=? snd r) && (fst r =? 1) then Some r
      else if negb trusted && (end_ <=? snd r + apa) && (match before with [] => true | s :: _ => end_ >? snd s end) then Some r
      else None
    end
  end.
Definition thread_starts (apa delta:Z) (polyts read_starts:list Z) (incoming:list iv) (start:Z) (trusted:bool) : option vtx :=
  match (if trusted then find (fun p => Z.abs (p - start) <=? apa) polyts else None) with
  | Some p => Some (0, p)
  | None =>
    let blocked := match incoming with
                   | [] => false
                   | i :: t => negb trusted && (start >=? fold_left (fun m x => Z.min m (snd x)) t (snd i) + 1 - delta) end in
    if blocked then None else
    let all := vsort (map (fun p => (1, p)) read_starts ++ map (fun p => (0, p)) polyts) in
    match all with
    | [] => None
    | l :: after =>
      if trusted && (start <=? snd l) && (fst l =? 1) then Some l
      else if negb trusted && (start >=? snd l) && (match after with [] => true | s :: _ => start <? snd s end) then Some l
      else None
    end
  end.

(* ---------------------------------------------------------------- IntronGraph.is_start_internal / is_end_internal *)
(* incoming / outgoing: the intron vertices adjacent to the read's first / last intron (what incoming_edges / outgoing_edges hold when
   collect_terminal_positions runs); a read start is internal if it does not lie left of the END of some preceding intron (minus delta) *)
Definition is_start_internal (delta:Z) (incoming:list iv) (read_start:Z) : bool := existsb (fun inc => snd inc - delta <=? read_start) incoming.
Definition is_end_internal (delta:Z) (outgoing:list iv) (read_end:Z) : bool := existsb (fun out => fst out + delta >=? read_end) outgoing.

(* ---------------------------------------------------------------- mirror image of an event *)
Definition is_polya_pos_type (t:MES) : bool :=
  mem_mes t [MES_alternative_polya_site_left; MES_alternative_polya_site_right; MES_correct_polya_site_left; MES_correct_polya_site_right;
             MES_internal_polya_left; MES_internal_polya_right].
Definition is_term_mis_type (t:MES) : bool := mem_mes t [MES_terminal_exon_misalignment_left; MES_terminal_exon_misalignment_right].
(* n = number of isoform exons (terminal_exon_misalignment regions are intron numbers 0..n-2), L = chromosome length *)
Definition mev (n L:Z) (e:ev) : ev :=
  let t := ev_type e in
  mk_ev (swap_mes t)
        (if is_term_mis_type t then (n - 2 - snd (ev_iso e), n - 2 - fst (ev_iso e)) else ev_iso e)
        (ev_read e)
        (if is_polya_pos_type t then rfp L (ev_info e) else ev_info e).
