(* C16: code-faithful (sentinel -1) versions of PolyAFixer.correct_read_info, shift_polya / shift_polyt and
   AlignmentInfo.add_polya_info, with the trimming theorems. *)
From Coq Require Import ZArith List Bool Lia ZifyBool.
From IQ Require Import PolyA.
Import ListNotations. Open Scope Z_scope.

Section F.
Variable max_fake : Z.

Definition count_polya_exons (exons:list iv) (pos:Z) : Z :=
  if pos =? -1 then 0 else Z.of_nat (cpa_rev max_fake pos (rev exons)).
Definition count_polyt_exons (exons:list iv) (pos:Z) : Z :=
  if pos =? -1 then 0 else Z.of_nat (cpt max_fake pos exons).

(* PolyAFixer.correct_read_info (after the repair: both counts are decremented, not below zero, until at least one exon is kept) *)
Fixpoint cri_loop (fuel:nat) (n a t:Z) : Z * Z :=
  match fuel with
  | O => (a, t)
  | Datatypes.S f => if t + a >=? n then cri_loop f n (Z.max 0 (a - 1)) (Z.max 0 (t - 1)) else (a, t)
  end.
Definition correct_read_info2 (exons:list iv) (int_a int_t:Z) : Z * Z :=
  match exons with
  | [] | [_] => (0, 0)
  | _ => cri_loop (Datatypes.S (length exons)) (Z.of_nat (length exons)) (count_polya_exons exons int_a) (count_polyt_exons exons int_t)
  end.

Definition ilen (e:iv) := snd e - fst e + 1.

(* shift_polya: distance travelled inside the removed exons, measured from the removed side *)
Definition dist_step_a (pos:Z) (d:Z) (e:iv) : Z :=
  if fst e >? pos then d else if d =? 0 then d + (pos - fst e) else d + ilen e.
Definition shift_polya (exons:list iv) (k pos:Z) : Z :=
  if (k =? 0) || (k =? Z.of_nat (length exons)) || (pos =? -1) then pos
  else let n := length exons in
       let removed := rev (skipn (n - Z.to_nat k) exons) in
       snd (nth (n - Z.to_nat k - 1) exons (0,0)) + fold_left (dist_step_a pos) removed 0.

Definition dist_step_t (pos:Z) (d:Z) (e:iv) : Z :=
  if snd e <? pos then d else if d =? 0 then d + (snd e - pos) else d + ilen e.
Definition shift_polyt (exons:list iv) (k pos:Z) : Z :=
  if (k =? 0) || (k =? Z.of_nat (length exons)) || (pos =? -1) then pos
  else fst (nth (Z.to_nat k) exons (0,0)) - fold_left (dist_step_t pos) (firstn (Z.to_nat k) exons) 0.

(* AlignmentInfo.add_polya_info: positions are (ext_a, ext_t, int_a, int_t) *)
Record pinfo := mkp { ext_a : Z; ext_t : Z; int_a : Z; int_t : Z }.
Definition drop_last {A} (k:Z) (l:list A) : list A := firstn (length l - Z.to_nat k) l.
Definition drop_first {A} (k:Z) (l:list A) : list A := skipn (Z.to_nat k) l.

Definition add_polya_info (exons:list iv) (p:pinfo) : list iv * pinfo * (Z * Z) :=
  let '(a, t) := correct_read_info2 exons (int_a p) (int_t p) in
  let '(ex1, p1) := if 0 <? a then (drop_last a exons, mkp (shift_polya exons a (ext_a p)) (ext_t p) (shift_polya exons a (int_a p)) (int_t p))
                    else (exons, p) in
  let '(ex2, p2) := if 0 <? t then (drop_first t ex1, mkp (ext_a p1) (shift_polyt ex1 t (ext_t p1)) (int_a p1) (shift_polyt ex1 t (int_t p1)))
                    else (ex1, p1) in
  (ex2, p2, (a, t)).

(* ---------- no exon is counted both as a polyA exon and as a polyT exon when polyT <= polyA ---------- *)
Definition condA (pa:Z) (e:iv) : bool := (pa <? snd e) && is_polya_exon max_fake pa e.
Definition condT (pt:Z) (e:iv) : bool := (fst e <? pt) && is_polyt_exon max_fake pt e.

Lemma cpa_rev_le_filter pa l : (cpa_rev max_fake pa l <= length (filter (condA pa) l))%nat.
Proof. induction l as [|e t IH]; cbn [cpa_rev filter length]; [lia|].
  unfold condA at 1. destruct (snd e <=? pa) eqn:E1.
  - replace (pa <? snd e) with false by lia. cbn [andb]. lia.
  - replace (pa <? snd e) with true by lia. cbn [andb]. destruct (is_polya_exon max_fake pa e); cbn [length]; lia. Qed.

Lemma cpt_le_filter pt l : (cpt max_fake pt l <= length (filter (condT pt) l))%nat.
Proof. induction l as [|e t IH]; cbn [cpt filter length]; [lia|].
  unfold condT at 1. destruct (fst e >=? pt) eqn:E1.
  - replace (fst e <? pt) with false by lia. cbn [andb]. lia.
  - replace (fst e <? pt) with true by lia. cbn [andb]. destruct (is_polyt_exon max_fake pt e); cbn [length]; lia. Qed.

Lemma cond_disjoint pa pt e : pt <= pa -> fst e <= snd e -> condA pa e = true -> condT pt e = true -> False.
Proof. unfold condA, condT, is_polya_exon, is_polyt_exon. cbv zeta. intros H Hw HA HT.
  apply andb_prop in HA. destruct HA as [A1 A2]. apply andb_prop in HT. destruct HT as [T1 T2]. lia. Qed.

Lemma filter_disjoint_len {A} (p q:A->bool) (l:list A) : (forall x, In x l -> p x = true -> q x = true -> False) ->
  (length (filter p l) + length (filter q l) <= length l)%nat.
Proof. induction l as [|x t IH]; intros H; cbn [filter length]; [lia|].
  assert (IH': (length (filter p t) + length (filter q t) <= length t)%nat) by (apply IH; intros y Hy; apply H; right; exact Hy).
  destruct (p x) eqn:Ep, (q x) eqn:Eq; cbn [length]; try lia.
  exfalso. apply (H x); [left; reflexivity|exact Ep|exact Eq]. Qed.

Lemma filter_rev_len {A} (p:A->bool) l : length (filter p (rev l)) = length (filter p l).
Proof. induction l as [|x t IH]; [reflexivity|]. cbn [rev filter]. rewrite filter_app, app_length, IH. cbn [filter].
  destruct (p x); cbn [length]; lia. Qed.

Theorem counts_le_exons exons pa pt : Forall (fun e => fst e <= snd e) exons -> pa <> -1 -> pt <> -1 -> pt <= pa ->
  count_polya_exons exons pa + count_polyt_exons exons pt <= Z.of_nat (length exons).
Proof. intros Hw Ha Ht Hle. unfold count_polya_exons, count_polyt_exons.
  replace (pa =? -1) with false by lia. replace (pt =? -1) with false by lia.
  pose proof (cpa_rev_le_filter pa (rev exons)) as H1. rewrite filter_rev_len in H1.
  pose proof (cpt_le_filter pt exons) as H2.
  pose proof (filter_disjoint_len (condA pa) (condT pt) exons) as H3.
  assert (H4: (length (filter (condA pa) exons) + length (filter (condT pt) exons) <= length exons)%nat).
  { apply H3. intros e He. rewrite Forall_forall in Hw. apply (cond_disjoint pa pt e Hle (Hw e He)). }
  lia. Qed.

Lemma count_a_bounds exons pa : 0 <= count_polya_exons exons pa <= Z.of_nat (length exons).
Proof. unfold count_polya_exons. destruct (pa =? -1); [lia|]. pose proof (cpa_rev_le max_fake pa (rev exons)) as H. rewrite rev_length in H. lia. Qed.
Lemma count_t_bounds exons pt : 0 <= count_polyt_exons exons pt <= Z.of_nat (length exons).
Proof. unfold count_polyt_exons. destruct (pt =? -1); [lia|]. pose proof (cpt_le max_fake pt exons) as H. lia. Qed.

(* the loop ends with fewer fake exons than exons: fuel n+1 suffices because the sum decreases while it is >= n >= 2 *)
Lemma cri_loop_spec : forall fuel n a t, 2 <= n -> 0 <= a <= n -> 0 <= t <= n -> (Z.to_nat (a + t - n + 1) <= fuel)%nat ->
  let '(a', t') := cri_loop fuel n a t in 0 <= a' /\ 0 <= t' /\ a' + t' < n /\ a' <= a /\ t' <= t.
Proof. induction fuel as [|f IH]; intros n a t Hn Ha Ht Hf; [cbn [cri_loop]; lia|]. cbn [cri_loop].
  destruct (t + a >=? n) eqn:E; [|lia].
  specialize (IH n (Z.max 0 (a - 1)) (Z.max 0 (t - 1)) Hn ltac:(lia) ltac:(lia) ltac:(lia)).
  destruct (cri_loop f n (Z.max 0 (a - 1)) (Z.max 0 (t - 1))) as [a' t']. lia. Qed.

(* ... for EVERY pair of tail positions (no ordering hypothesis is needed after the repair) *)
Theorem correct_read_info_leaves_one exons pa pt : exons <> [] ->
  let '(a, t) := correct_read_info2 exons pa pt in 0 <= a /\ 0 <= t /\ a + t < Z.of_nat (length exons).
Proof. intros Hne. unfold correct_read_info2.
  destruct exons as [|e1 [|e2 rest]]; [congruence|cbn; lia|].
  cbv iota beta. set (ex := e1 :: e2 :: rest) in *.
  pose proof (count_a_bounds ex pa) as Ba. pose proof (count_t_bounds ex pt) as Bt.
  assert (Hlen: 2 <= Z.of_nat (length ex)) by (unfold ex; cbn [length]; lia).
  pose proof (cri_loop_spec (Datatypes.S (length ex)) (Z.of_nat (length ex)) (count_polya_exons ex pa) (count_polyt_exons ex pt) Hlen Ba Bt ltac:(lia)) as H.
  destruct (cri_loop (Datatypes.S (length ex)) (Z.of_nat (length ex)) (count_polya_exons ex pa) (count_polyt_exons ex pt)) as [a t]. lia. Qed.

(* when polyT is not right of polyA no exon is counted twice, so the loop runs at most once (the historic behaviour) *)
Definition tails_ordered (pa pt:Z) : Prop := pa = -1 \/ pt = -1 \/ pt <= pa.
Theorem counts_do_not_overlap exons pa pt : Forall (fun e => fst e <= snd e) exons -> tails_ordered pa pt ->
  count_polya_exons exons pa + count_polyt_exons exons pt <= Z.of_nat (length exons).
Proof. intros Hw Ho. pose proof (count_a_bounds exons pa) as Ba. pose proof (count_t_bounds exons pt) as Bt.
  destruct Ho as [->|[->|Hle]].
  - change (count_polya_exons exons (-1)) with 0. lia.
  - change (count_polyt_exons exons (-1)) with 0. lia.
  - destruct (Z.eq_dec pa (-1)) as [->|Na]; [change (count_polya_exons exons (-1)) with 0; lia|].
    destruct (Z.eq_dec pt (-1)) as [->|Nt]; [change (count_polyt_exons exons (-1)) with 0; lia|].
    apply counts_le_exons; assumption. Qed.

(* trimming with the counts of correct_read_info never empties the exon list, and keeps a contiguous sub-list *)
Theorem add_polya_info_nonempty exons p : exons <> [] -> fst (fst (add_polya_info exons p)) <> [].
Proof. intros Hne. unfold add_polya_info.
  pose proof (correct_read_info_leaves_one exons (int_a p) (int_t p) Hne) as H.
  destruct (correct_read_info2 exons (int_a p) (int_t p)) as [a t].
  assert (L: forall l : list iv, (0 < length l)%nat -> l <> []) by (intros l Hl E; subst; simpl in Hl; lia).
  destruct (0 <? a) eqn:Ea, (0 <? t) eqn:Et; cbn [fst]; apply L; unfold drop_first, drop_last;
    rewrite ?skipn_length, ?firstn_length; destruct exons; try congruence; cbn [length] in *; lia. Qed.

Theorem add_polya_info_contiguous exons p : exists front back, exons = front ++ fst (fst (add_polya_info exons p)) ++ back.
Proof. unfold add_polya_info. destruct (correct_read_info2 exons (int_a p) (int_t p)) as [a t].
  unfold drop_first, drop_last. destruct (0 <? a) eqn:Ea, (0 <? t) eqn:Et; cbn [fst].
  - exists (firstn (Z.to_nat t) (firstn (length exons - Z.to_nat a) exons)), (skipn (length exons - Z.to_nat a) exons).
    rewrite app_assoc, firstn_skipn, firstn_skipn. reflexivity.
  - exists [], (skipn (length exons - Z.to_nat a) exons). simpl. rewrite firstn_skipn. reflexivity.
  - exists (firstn (Z.to_nat t) exons), []. rewrite app_nil_r, firstn_skipn. reflexivity.
  - exists [], []. rewrite app_nil_r. reflexivity. Qed.

(* ---------- the tail position moves onto the retained exon ---------- *)
Lemma dist_a_nonneg pos l : forall d, 0 <= d -> Forall (fun e => fst e <= snd e) l -> 0 <= fold_left (dist_step_a pos) l d.
Proof. induction l as [|e t IH]; intros d Hd Hw; [exact Hd|]. cbn [fold_left]. inversion Hw; subst. apply IH; [|assumption].
  unfold dist_step_a, ilen. destruct (fst e >? pos) eqn:E1; [lia|]. destruct (d =? 0); lia. Qed.
Lemma dist_t_nonneg pos l : forall d, 0 <= d -> Forall (fun e => fst e <= snd e) l -> 0 <= fold_left (dist_step_t pos) l d.
Proof. induction l as [|e t IH]; intros d Hd Hw; [exact Hd|]. cbn [fold_left]. inversion Hw; subst. apply IH; [|assumption].
  unfold dist_step_t, ilen. destruct (snd e <? pos) eqn:E1; [lia|]. destruct (d =? 0); lia. Qed.

Lemma Forall_skipn {A} (P:A->Prop) n l : Forall P l -> Forall P (skipn n l).
Proof. revert l; induction n as [|n IH]; intros l H; [exact H|]. destruct l; [constructor|]. inversion H; subst. apply IH; assumption. Qed.
Lemma Forall_firstn {A} (P:A->Prop) n l : Forall P l -> Forall P (firstn n l).
Proof. revert l; induction n as [|n IH]; intros l H; [constructor|]. destruct l; [constructor|]. inversion H; subst. constructor; [assumption|apply IH; assumption]. Qed.
Lemma Forall_rev' {A} (P:A->Prop) l : Forall P l -> Forall P (rev l).
Proof. intros H. apply Forall_forall. intros x Hx. rewrite Forall_forall in H. apply H, in_rev, Hx. Qed.

(* polyA: the new position is the end of the last retained exon plus a non-negative exonic distance *)
Theorem shift_polya_on_retained exons k pos : Forall (fun e => fst e <= snd e) exons ->
  0 < k < Z.of_nat (length exons) -> pos <> -1 ->
  exists d, 0 <= d /\ shift_polya exons k pos = snd (last (drop_last k exons) (0,0)) + d.
Proof. intros Hw Hk Hp. unfold shift_polya.
  replace ((k =? 0) || (k =? Z.of_nat (length exons)) || (pos =? -1)) with false by lia.
  exists (fold_left (dist_step_a pos) (rev (skipn (length exons - Z.to_nat k) exons)) 0). split.
  - apply dist_a_nonneg; [lia|]. apply Forall_rev', Forall_skipn, Hw.
  - f_equal. f_equal. unfold drop_last.
    set (m := (length exons - Z.to_nat k)%nat).
    assert (Hm: (0 < m <= length exons)%nat) by (unfold m; lia).
    rewrite <- (firstn_skipn m exons) at 1.
    rewrite app_nth1 by (rewrite firstn_length; lia).
    assert (Hl: length (firstn m exons) = m) by (rewrite firstn_length; lia).
    generalize dependent (firstn m exons). intros l Hl.
    destruct (exists_last (l:=l)) as [l' [x Hx]]; [intros ->; simpl in Hl; lia|]. subst l.
    rewrite last_last. rewrite app_length in Hl. cbn [length] in Hl.
    rewrite app_nth2 by lia. replace (m - 1 - length l')%nat with 0%nat by lia. reflexivity. Qed.

(* polyT: the new position is the start of the first retained exon minus a non-negative exonic distance *)
Theorem shift_polyt_on_retained exons k pos : Forall (fun e => fst e <= snd e) exons ->
  0 < k < Z.of_nat (length exons) -> pos <> -1 ->
  exists d, 0 <= d /\ shift_polyt exons k pos = fst (hd (0,0) (drop_first k exons)) - d.
Proof. intros Hw Hk Hp. unfold shift_polyt.
  replace ((k =? 0) || (k =? Z.of_nat (length exons)) || (pos =? -1)) with false by lia.
  exists (fold_left (dist_step_t pos) (firstn (Z.to_nat k) exons) 0). split.
  - apply dist_t_nonneg; [lia|]. apply Forall_firstn, Hw.
  - f_equal. f_equal. unfold drop_first.
    rewrite <- (firstn_skipn (Z.to_nat k) exons) at 1.
    rewrite app_nth2 by (rewrite firstn_length; lia).
    rewrite firstn_length. replace (Z.to_nat k - Nat.min (Z.to_nat k) (length exons))%nat with 0%nat by lia.
    destruct (skipn (Z.to_nat k) exons); reflexivity. Qed.
End F.
