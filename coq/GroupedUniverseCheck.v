(* Decidable comparisons for the C09 correspondences on the group universe (real collect_reads_in_parallel write / resume read-back, info file,
   load_read_info, AssignedFeatureCounter.__init__) and on the table grouper's option parsing and per-chromosome split files. *)
From Coq Require Import ZArith List Bool Lia.
From IQ Require Import GroupedGroupers GroupedCheck GroupedUniverse GroupedTable.
Import ListNotations.
Open Scope Z_scope.

Definition subset_str (a b:list str) : bool := forallb (fun x => mem_str x b) a.
Definition set_eq_str (a b:list str) : bool := subset_str a b && subset_str b a.
Fixpoint nodup_str (l:list str) : bool := match l with [] => true | x :: t => negb (mem_str x t) && nodup_str t end.
Fixpoint all2s {A B} (p:A -> B -> bool) (x:list A) (y:list B) : bool :=
  match x, y with [], [] => true | a :: s, b :: t => p a b && all2s p s t | _, _ => false end.
Definition strs_eqb (a b:list str) : bool := all2s str_eqb a b.

(* universe case: resume?, answers of the grouper per chromosome (processing order);
   observed: per chromosome the lines of the group file and the set collect_reads_in_parallel returned, the set load_read_info returned,
   ordered_groups and group_numeric_ids of a counter built with it *)
Definition ucase := (bool * list (list str) * (list (list str) * list (list str) * list str * list str * list (str * Z)))%type.
(* clean: the read-back of the checked-out code (rstrip_nl after commit 40e2502, strip before) *)
Definition check_universe_gen (clean:str -> str) (c:ucase) : bool :=
  let '(resume, chrs, (files, returned, univ, ordered, ids)) := c in
  let id := fun l:list str => l in
  all2s (fun answers lines => set_eq_str (registered_groups answers) lines && nodup_str lines) chrs files &&
  all2s (fun answers ret => set_eq_str (chr_groups_gen clean resume id answers) ret) chrs returned &&
  set_eq_str (universe_gen clean resume id id chrs) univ && nodup_str univ &&
  strs_eqb (counter_ordered (universe_gen clean resume id id chrs)) ordered &&
  all2s (fun g p => str_eqb g (fst p)) ordered ids && all2s (fun i p => Z.of_nat i =? snd p) (seq 0 (length ids)) ids.
Definition check_universe := check_universe_gen rstrip_nl.
Definition check_universe_unrepaired := check_universe_gen strip.
(* the specification on the implementation's output: every group a processed read carries is a key of group_numeric_ids, its id is a position of
   ordered_groups and that position holds the group; ordered_groups has no group that no alignment was given *)
Fixpoint assoc_str (g:str) (l:list (str * Z)) : option Z := match l with [] => None | p :: t => if str_eqb (fst p) g then Some (snd p) else assoc_str g t end.
Definition prop_universe (c:ucase) : bool :=
  let '(resume, chrs, (files, returned, univ, ordered, ids)) := c in
  forallb (fun answers => forallb (fun g => mem_str g univ &&
              match assoc_str g ids with Some i => (0 <=? i) && str_eqb (nth (Z.to_nat i) ordered [0]) g | None => false end) answers) chrs &&
  match univ with [] => true | _ => forallb (fun g => existsb (fun answers => mem_str g answers) chrs) ordered end.

(* option string: (option, what get_file_grouping_properties returned: file, read column, group column, delimiter; None = exception) *)
Definition check_option (c:str * option (str * Z * Z * str)) : bool :=
  let (opt, impl) := c in
  match option_layout opt, impl with
  | Some (f, a, b, d), Some (f', a', b', d') => str_eqb f f' && (Z.of_nat a =? a') && (Z.of_nat b =? b') && str_eqb d d'
  | None, None => true
  | _, _ => false end.

(* split files: (read column, group column, delimiter, lines of the table, per chromosome (query names of its alignments in file order, lines of its split file)) *)
Definition scase := (Z * Z * str * list str * list (list str * list str))%type.
Definition check_split (c:scase) : bool :=
  let '(rc, gc, d, lines, chrs) := c in
  forallb (fun p => strs_eqb (split_file (Z.to_nat rc) (Z.to_nat gc) d lines (fst p)) (snd p)) chrs.
Definition count_str (x:str) (l:list str) : nat := length (filter (str_eqb x) l).
(* split_preserves_rows on the real files: every read of the chromosome that has a row is in the chromosome's file exactly once with the group of its
   last row, and every line of the file is such a row *)
Definition prop_split (c:scase) : bool :=
  let '(rc, gc, d, lines, chrs) := c in
  let tbl := load_table (Z.to_nat rc) (Z.to_nat gc) d lines in
  forallb (fun p => forallb (fun n => match lookup_last tbl n with Some g => Nat.eqb (count_str (n ++ [9] ++ g) (snd p)) 1 | None => true end) (fst p) &&
                    forallb (fun l => existsb (fun n => match lookup_last tbl n with Some g => str_eqb l (n ++ [9] ++ g) | None => false end) (fst p)) (snd p)) chrs.

(* the answer of the real ReadTableGrouper (case of GroupedCheck.check_table) against the statement of table_group_is_the_row_entry / table_missing_row_is_NA:
   the row's group exactly, unless the group does not survive the re-writing (empty, contains TAB, ends in white space - the theorem's hypothesis safe_group) *)
Definition prop_table_strict (c:Z * Z * str * list str * str * option str * list str) : bool :=
  let '(rc, gc, d, lines, name, impl, reg) := c in
  registered impl reg &&
  match lookup_last (load_table (Z.to_nat rc) (Z.to_nat gc) d lines) name with
  | None => is_na impl
  | Some g => ostr_eqb impl (Some g) || negb (safe_group g) || negb (clean_name name)       (* clean_name: non-empty, no white space; may start with '#' *)
  end.
(* model of the checked-out code for that case: the read's line of the split file read without comment skipping (after commit 614fc16) / GroupedCheck.check_table before *)
Definition check_table_repaired (c:Z * Z * str * list str * str * option str * list str) : bool :=
  let '(rc, gc, d, lines, name, impl, reg) := c in ostr_eqb (Some (table_group_repaired (Z.to_nat rc) (Z.to_nat gc) d lines name)) impl.
