From Coq Require Import NArith List Bool Lia.
Import ListNotations. Open Scope N_scope.

(* The shared JSON cache: a dictionary key -> value, or unreadable (empty / half-written). *)
Notation dict := (list (N * N)).
Inductive pc := Start | Loaded | Truncated | Done | Crashed.
Record proc := { p_key : N; p_val : N; p_pc : pc; p_local : dict }.
Record world := { file : option dict; procs : list proc }.

Definition upd (d:dict) (k v:N) : dict := (k, v) :: filter (fun e => negb (fst e =? k)) d.

(* one step of one process; `atomic` selects the repaired protocol (write aside + atomic replace) *)
Definition step1 (atomic:bool) (f:option dict) (p:proc) : option dict * proc :=
  match p_pc p with
  | Start => match f with
             | Some d => (f, {| p_key := p_key p; p_val := p_val p; p_pc := Loaded; p_local := upd d (p_key p) (p_val p) |})
             | None => (f, {| p_key := p_key p; p_val := p_val p; p_pc := Crashed; p_local := [] |})     (* json.load fails *)
             end
  | Loaded => if atomic
              then (Some (p_local p), {| p_key := p_key p; p_val := p_val p; p_pc := Done; p_local := p_local p |})      (* os.replace *)
              else (None, {| p_key := p_key p; p_val := p_val p; p_pc := Truncated; p_local := p_local p |})              (* open(path,'w') *)
  | Truncated => (Some (p_local p), {| p_key := p_key p; p_val := p_val p; p_pc := Done; p_local := p_local p |})        (* dump + close *)
  | Done | Crashed => (f, p)
  end.

Fixpoint step_nth (atomic:bool) (f:option dict) (ps:list proc) (i:nat) : option dict * list proc :=
  match ps, i with
  | [], _ => (f, [])
  | p::t, O => let '(f', p') := step1 atomic f p in (f', p'::t)
  | p::t, S j => let '(f', t') := step_nth atomic f t j in (f', p::t')
  end.
Definition step (atomic:bool) (w:world) (i:nat) : world := let '(f, ps) := step_nth atomic (file w) (procs w) i in {| file := f; procs := ps |}.
Definition run (atomic:bool) (w:world) (sched:list nat) : world := fold_left (step atomic) sched w.

(* ---------- repaired protocol: for EVERY schedule and EVERY number of processes ---------- *)
Definition proc_ok (p:proc) := p_pc p <> Crashed /\ p_pc p <> Truncated.
Definition inv (w:world) := (exists d, file w = Some d) /\ Forall proc_ok (procs w).

Lemma step1_atomic_ok d p : proc_ok p -> exists d', fst (step1 true (Some d) p) = Some d' /\ proc_ok (snd (step1 true (Some d) p)).
Proof. intros [H1 H2]. unfold step1. destruct (p_pc p) eqn:E; try congruence; simpl;
  eexists; (split; [reflexivity|]); unfold proc_ok; simpl; rewrite ?E; split; congruence. Qed.

Lemma step_nth_atomic_ok : forall ps i d, Forall proc_ok ps ->
  exists d', fst (step_nth true (Some d) ps i) = Some d' /\ Forall proc_ok (snd (step_nth true (Some d) ps i)).
Proof. induction ps as [|p t IH]; intros i d H; [exists d; simpl; auto|].
  inversion H; subst. destruct i as [|j]; cbn [step_nth].
  - destruct (step1_atomic_ok d p H2) as [d' [E1 E2]]. destruct (step1 true (Some d) p) as [f' p']. simpl in *. exists d'. split; auto.
  - destruct (IH j d H3) as [d' [E1 E2]]. destruct (step_nth true (Some d) t j) as [f' t']. simpl in *. exists d'. split; auto. Qed.

Theorem reader_never_sees_partial : forall sched w, inv w -> inv (run true w sched).
Proof. induction sched as [|i t IH]; intros w Hw; [exact Hw|]. cbn [run fold_left]. apply IH.
  destruct Hw as [[d Hd] Hp]. unfold step. rewrite Hd.
  destruct (step_nth_atomic_ok (procs w) i d Hp) as [d' [E1 E2]].
  destruct (step_nth true (Some d) (procs w) i) as [f' ps']. simpl in *. split; [exists d'; exact E1|exact E2]. Qed.

(* ---------- current protocol: two processes, one schedule suffices ---------- *)
Definition mkp k v := {| p_key := k; p_val := v; p_pc := Start; p_local := [] |}.
Definition w0 := {| file := Some []; procs := [mkp 1 10; mkp 2 20] |}.
Example reader_sees_partial_refuted :
  exists sched, Exists (fun p => p_pc p = Crashed) (procs (run false w0 sched)).
Proof. exists [0; 0; 1]%nat. vm_compute. apply Exists_cons_tl, Exists_cons_hd. reflexivity. Qed.
(* and a lost update, harmless: the survivor's dictionary lacks the other entry *)
Example lost_update : file (run true w0 [0; 1; 0; 1]%nat) = Some [(2, 20)].
Proof. vm_compute. reflexivity. Qed.
Print Assumptions reader_never_sees_partial.
