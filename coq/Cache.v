(* C20 / C12 — the per-user cache of converted annotations ($HOME/.config/IsoQuant/db_config.json and its three siblings).

   Anchors:  isoquant.py set_configs_directory; src/gtf2db.py convert_db / find_converted_db / compare_stored_gtf;
             src/read_mapper.py find_stored_* / store_* (same read-modify-write cycle, with a second read before the write).

   The model has three layers.
   1. The cache-hit predicates, field by field (`find_converted_db`, `compare_stored_gtf`, the db2gtf loop of convert_db),
      over an abstract file system path -> (mtime, content).
   2. One process = a straight-line program of atomic operations on the shared cache file and the file system; the two
      write protocols are two programs:  in place  (`open(path,'w')` = truncate, then `json.dump` + close)  and
      atomic (dump to a private temporary file, then `os.replace`).
   3. A world = shared file + file system + clock + n processes; a schedule is a list of process indices.

   The shared file is  Absent | Data (Some d) len  (a complete JSON text of d, len bytes) | Data None len  (anything a
   reader cannot parse: empty after truncation, or a complete text followed by the tail of a longer one).  A writer that
   opened the file with 'w' writes its text at ITS offset 0: over a file that meanwhile grew longer than that text the
   result is unparseable for good ("Extra data") — `write`. *)
From Coq Require Import ZArith NArith List Bool Lia.
From IQ Require Import CorrSupport.
Import ListNotations. Open Scope Z_scope.

Notation path := Z.

(* ------------------------------------------------------------------ files *)
Inductive content :=
| Gtf (a : Z)                 (* an annotation text, identified by a *)
| Db (a : Z) (c : bool).      (* the gffutils database built from text a with (c = true) or without --complete_genedb *)
Record fstat := mkstat { f_mtime : Z; f_content : content }.
Definition fsys := path -> option fstat.
Definition fs_empty : fsys := fun _ => None.
Definition fs_set (fs : fsys) (p : path) (s : fstat) : fsys := fun q => if q =? p then Some s else fs q.
Fixpoint fs_of_list (l : list (path * fstat)) : fsys :=
  match l with [] => fs_empty | (p, s) :: t => fs_set (fs_of_list t) p s end.

(* os.path.exists(p) ; os.path.getmtime(p) == m  where m comes from dict.get (None when the field is missing) *)
Definition exists_ (fs : fsys) (p : path) : bool := match fs p with Some _ => true | None => false end.
Definition mtime_is (fs : fsys) (p : path) (m : option Z) : bool :=
  match fs p, m with Some s, Some m => f_mtime s =? m | _, _ => false end.

(* ------------------------------------------------------------------ the JSON dictionary *)
(* one value of db_config.json: {'genedb':…, 'gtf_mtime':…, 'db_mtime':…, 'complete_db':…}; a field may be missing *)
Record entry := mkentry { e_genedb : option path; e_gtf_mtime : option Z; e_db_mtime : option Z; e_complete : option bool }.
Notation dict := (list (path * entry)).          (* a Python dict: insertion-ordered, keys unique *)
Fixpoint dget (d : dict) (k : path) : option entry :=
  match d with [] => None | (k', e) :: t => if k' =? k then Some e else dget t k end.
(* d[k] = e : in place when the key is present, appended otherwise *)
Fixpoint dset (d : dict) (k : path) (e : entry) : dict :=
  match d with [] => [(k, e)] | (k', e') :: t => if k' =? k then (k, e) :: t else (k', e') :: dset t k e end.
(* d.get(k, {}).get(field) *)
Definition field {A} (d : dict) (k : path) (f : entry -> option A) : option A :=
  match dget d k with Some e => f e | None => None end.
Definition obool_eqb (a b : option bool) : bool :=
  match a, b with Some x, Some y => Bool.eqb x y | None, None => true | _, _ => false end.

(* ------------------------------------------------------------------ cache-hit predicates (src/gtf2db.py) *)
(* find_converted_db(converted_gtfs, gtf_filename, complete_genedb); `os.path.exists(None)` raises TypeError (3),
   reached only when the entry matches the GTF's mtime but has no 'genedb' field *)
Definition find_converted_db (d : dict) (g : path) (c : bool) (fs : fsys) : outcome (option path) :=
  let gtf_mtime := field d g e_gtf_mtime in
  let db_mtime := field d g e_db_mtime in
  let db_file := field d g e_genedb in
  let is_complete := field d g e_complete in
  if exists_ fs g && mtime_is fs g gtf_mtime then
    match db_file with
    | None => Raises 3%N
    | Some r => if exists_ fs r && mtime_is fs r db_mtime && obool_eqb (Some c) is_complete then Ok (Some r) else Ok None
    end
  else Ok None.

(* compare_stored_gtf(converted_gtfs, gtf_filename, genedb_filename).  `checkpath` = the repaired predicate
   (fixes/C20_db2gtf_compare_db_path.diff), which also compares the recorded database path. *)
Definition opath_eqb (a : option path) (b : path) : bool := match a with Some x => x =? b | None => false end.
Definition compare_stored_gtf (checkpath : bool) (d : dict) (g : path) (db : path) (fs : fsys) : bool :=
  exists_ fs g && mtime_is fs g (field d g e_gtf_mtime) && exists_ fs db && mtime_is fs db (field d g e_db_mtime)
  && (if checkpath then opath_eqb (field d g e_genedb) db else true).
(* the db2gtf branch of convert_db: the first key (dict order) that passes *)
Definition find_converted_gtf (checkpath : bool) (d : dict) (db : path) (fs : fsys) : option path :=
  match find (fun ke => compare_stored_gtf checkpath d (fst ke) db fs) d with Some ke => Some (fst ke) | None => None end.

(* ------------------------------------------------------------------ cache-hit predicates (src/read_mapper.py) *)
(* index_config.json / bed_config.json / alignment_config.json: the same shape - a key, the stored file, recorded
   modification times, for the index the k-mer size the data type asks for *)
Fixpoint aget {A} (d : list (path * A)) (k : path) : option A :=
  match d with [] => None | (k', e) :: t => if k' =? k then Some e else aget t k end.
Definition afield {A B} (d : list (path * A)) (k : path) (f : A -> option B) : option B :=
  match aget d k with Some e => f e | None => None end.
Definition oz_is (a : Z) (b : option Z) : bool := match b with Some y => a =? y | None => false end.

(* find_stored_index(args): key = abspath(args.reference); KMER_SIZE[args.data_type] == kmer_size *)
Record ientry := mkientry { i_index : option path; i_ref_mtime : option Z; i_index_mtime : option Z; i_kmer : option Z }.
Definition find_stored_index (d : list (path * ientry)) (ref : path) (kmer : Z) (fs : fsys) : option path :=
  match afield d ref i_index with
  | None => None
  | Some idx =>
      if exists_ fs ref && mtime_is fs ref (afield d ref i_ref_mtime) then
        if exists_ fs idx && mtime_is fs idx (afield d ref i_index_mtime) then
          if oz_is kmer (afield d ref i_kmer) then Some idx else None
        else None
      else None
  end.

(* find_stored_bed(args): key = abspath(args.genedb) *)
Record bentry := mkbentry { b_bed : option path; b_ref_mtime : option Z; b_bed_mtime : option Z }.
Definition find_stored_bed (d : list (path * bentry)) (db : path) (fs : fsys) : option path :=
  match afield d db b_bed with
  | None => None
  | Some bed =>
      if exists_ fs db && mtime_is fs db (afield d db b_ref_mtime) then
        if exists_ fs bed && mtime_is fs bed (afield d db b_bed_mtime) then Some bed else None
      else None
  end.

(* find_stored_alignment(fastq, annotation, args): the key is the string "<fastq>_aligned_to_<index>[_<annotation>]" (one id
   per string here); os.path.getmtime of the index / the annotation is called unguarded (FileNotFoundError = Raises 2) *)
Record alentry := mkalentry { a_bam : option path; a_index_mtime : option Z; a_fastq_mtime : option Z; a_bam_mtime : option Z; a_ann_mtime : option Z }.
Definition find_stored_alignment (d : list (path * alentry)) (key fastq index : path) (ann : option path) (fs : fsys) : outcome (option path) :=
  match afield d key a_bam with
  | None => Ok None
  | Some bam =>
      let rest := if exists_ fs fastq && mtime_is fs fastq (afield d key a_fastq_mtime) then
                    if exists_ fs bam && mtime_is fs bam (afield d key a_bam_mtime) then Ok (Some bam) else Ok None
                  else Ok None in
      match fs index with
      | None => Raises 2%N
      | Some _ =>
          if negb (mtime_is fs index (afield d key a_index_mtime)) then Ok None
          else match ann with
               | None => rest
               | Some ap => match fs ap with
                            | None => Raises 2%N
                            | Some _ => if negb (mtime_is fs ap (afield d key a_ann_mtime)) then Ok None else rest
                            end
               end
      end
  end.

(* ------------------------------------------------------------------ processes *)
Inductive op :=
| OExists        (* set_configs_directory: os.path.exists(config_path); remembers "absent" *)
| OInitTrunc     (* in place, only when absent: open(config_path,'w')  — creates the file, empty *)
| OInitDump      (* in place, only when absent: json.dump({}) + close *)
| OInitReplace   (* atomic,   only when absent: dump {} aside, os.replace *)
| ORead          (* open(path,'r') + json.load *)
| OLookup        (* find_converted_db on the loaded dictionary; a hit ends the program *)
| OConvert       (* gtf2db: (re)writes the process's own database file *)
| OModify        (* converted_gtfs[gtf] = {... getmtime(gtf), getmtime(db) ...} *)
| OTrunc         (* in place: open(path,'w') *)
| ODump          (* in place: json.dump(converted_gtfs) + close *)
| OReplace.      (* atomic: dump aside, os.replace(tmp, path) *)

Inductive status := Running | Done (r : option path) | Crashed (k : Z).
(* crash kinds: 1 JSONDecodeError, 2 FileNotFoundError (cache file), 3 TypeError, 4 conversion failed, 5 OSError in getmtime *)

Record proc := mkproc {
  p_gtf : path; p_out : path; p_complete : bool;     (* the run's input annotation, its own database path, --complete_genedb *)
  p_len : Z;                                         (* byte length of the JSON text it dumps (observed, any value in the theorems) *)
  p_prog : list op; p_local : dict; p_st : status;
  p_absent : bool;                                   (* result of OExists *)
  p_conv : bool }.                                   (* it has run its conversion *)
Definition pupd (p : proc) (prog : list op) (local : dict) (st : status) (absent conv : bool) : proc :=
  mkproc (p_gtf p) (p_out p) (p_complete p) (p_len p) prog local st absent conv.

Inductive fstate := Absent | Data (v : option dict) (len : Z).
Record shared := mkshared { s_file : fstate; s_fs : fsys; s_clock : Z }.

(* a writer holding a handle opened with 'w' (offset 0) writes n bytes *)
Definition write (f : fstate) (v : option dict) (n : Z) : fstate :=
  match f with Absent => Data v n | Data _ len => if len <=? n then Data v n else Data None len end.

Definition crash (p : proc) (k : Z) : proc := pupd p [] (p_local p) (Crashed k) (p_absent p) (p_conv p).
Definition next (p : proc) (rest : list op) : proc := pupd p rest (p_local p) (p_st p) (p_absent p) (p_conv p).

Definition exec (o : op) (rest : list op) (sh : shared) (p : proc) : shared * proc :=
  let f := s_file sh in let fs := s_fs sh in let ck := s_clock sh in
  match o with
  | OExists => (sh, pupd p rest (p_local p) (p_st p) (match f with Absent => true | _ => false end) (p_conv p))
  | OInitTrunc => if p_absent p then (mkshared (Data None 0) fs ck, next p rest) else (sh, next p rest)
  | OInitDump => if p_absent p then (mkshared (write f (Some []) 2) fs ck, next p rest) else (sh, next p rest)
  | OInitReplace => if p_absent p then (mkshared (Data (Some []) 2) fs ck, next p rest) else (sh, next p rest)
  | ORead => match f with
             | Data (Some d) _ => (sh, pupd p rest d (p_st p) (p_absent p) (p_conv p))
             | Data None _ => (sh, crash p 1)
             | Absent => (sh, crash p 2)
             end
  | OLookup => match find_converted_db (p_local p) (p_gtf p) (p_complete p) fs with
               | Ok (Some r) => (sh, pupd p [] (p_local p) (Done (Some r)) (p_absent p) (p_conv p))
               | Ok None => (sh, next p rest)
               | Raises _ => (sh, crash p 3)
               end
  | OConvert => match fs (p_gtf p) with
                | Some (mkstat _ (Gtf a)) =>
                    (mkshared f (fs_set fs (p_out p) (mkstat ck (Db a (p_complete p)))) (ck + 1),
                     pupd p rest (p_local p) (p_st p) (p_absent p) true)
                | _ => (sh, crash p 4)
                end
  | OModify => match fs (p_gtf p), fs (p_out p) with
               | Some sg, Some sd =>
                   (sh, pupd p rest (dset (p_local p) (p_gtf p) (mkentry (Some (p_out p)) (Some (f_mtime sg)) (Some (f_mtime sd)) (Some (p_complete p))))
                             (p_st p) (p_absent p) (p_conv p))
               | _, _ => (sh, crash p 5)
               end
  | OTrunc => (mkshared (Data None 0) fs ck, next p rest)
  | ODump => (mkshared (write f (Some (p_local p)) (p_len p)) fs ck, next p rest)
  | OReplace => (mkshared (Data (Some (p_local p)) (p_len p)) fs ck, next p rest)
  end.

(* the program ran to its end: the run goes on with its own database if it built one *)
Definition fin (p : proc) : proc :=
  match p_st p, p_prog p with
  | Running, [] => pupd p [] (p_local p) (Done (if p_conv p then Some (p_out p) else None)) (p_absent p) (p_conv p)
  | _, _ => p
  end.

Definition step1 (sh : shared) (p : proc) : shared * proc :=
  match p_st p, p_prog p with
  | Running, o :: rest => let '(sh', p') := exec o rest sh p in (sh', fin p')
  | _, _ => (sh, p)
  end.

Fixpoint step_nth (sh : shared) (ps : list proc) (i : nat) : shared * list proc :=
  match ps, i with
  | [], _ => (sh, [])
  | p :: t, O => let '(sh', p') := step1 sh p in (sh', p' :: t)
  | p :: t, Datatypes.S j => let '(sh', t') := step_nth sh t j in (sh', p :: t')
  end.

Record world := mkworld { w_sh : shared; w_procs : list proc }.
Definition step (w : world) (i : nat) : world := let '(sh, ps) := step_nth (w_sh w) (w_procs w) i in mkworld sh ps.
Definition run (w : world) (sched : list nat) : world := fold_left step sched w.

(* ------------------------------------------------------------------ the programs of the real code *)
Definition prog_init (atomic : bool) : list op := if atomic then [OExists; OInitReplace] else [OExists; OInitTrunc; OInitDump].
Definition prog_write (atomic : bool) : list op := if atomic then [OReplace] else [OTrunc; ODump].
(* convert_db(…, gtf2db, args) *)
Definition prog_convert_db (atomic clean : bool) : list op :=
  ORead :: (if clean then [] else [OLookup]) ++ [OConvert; OModify] ++ prog_write atomic.
(* isoquant.py up to the end of convert_gtf_to_db *)
Definition prog_run (atomic clean : bool) : list op := prog_init atomic ++ prog_convert_db atomic clean.
(* read_mapper: find_stored_X (read, lookup); build; store_X (read again, modify, write) *)
Definition prog_stored (atomic : bool) : list op := [ORead; OLookup; OConvert; ORead; OModify] ++ prog_write atomic.

Definition mkp (g out : path) (c : bool) (len : Z) (prog : list op) : proc := mkproc g out c len prog [] Running false false.

(* ------------------------------------------------------------------ observation (what the replay harness compares) *)
(* the event a step is going to perform, None when the step is silent in the real process *)
Definition op_code (o : op) : Z :=
  match o with OExists => 1 | OInitTrunc => 2 | OInitDump => 3 | OInitReplace => 4 | ORead => 5 | OLookup => 6 | OConvert => 7
          | OModify => 8 | OTrunc => 2 | ODump => 3 | OReplace => 4 end.
Definition op_event (p : proc) : option Z :=
  match p_st p, p_prog p with
  | Running, o :: _ => match o with
                       | OInitTrunc | OInitDump | OInitReplace => if p_absent p then Some (op_code o) else None
                       | OModify | OLookup => None       (* no operation on the shared file *)
                       | _ => Some (op_code o)
                       end
  | _, _ => None
  end.
Fixpoint trace (w : world) (sched : list nat) : list (nat * Z) :=
  match sched with
  | [] => []
  | i :: t => match nth_error (w_procs w) i with
              | Some p => match op_event p with Some c => [(i, c)] | None => [] end
              | None => []
              end ++ trace (step w i) t
  end.

(* a dictionary as the harness sees it: paths and flags verbatim, an mtime only as "equals the file's current mtime" *)
Definition abs_entry (fs : fsys) (ke : path * entry) : path * (option path * bool * bool * option bool) :=
  let '(k, e) := ke in
  (k, (e_genedb e, mtime_is fs k (e_gtf_mtime e), match e_genedb e with Some r => mtime_is fs r (e_db_mtime e) | None => false end, e_complete e)).
Definition abs_file (sh : shared) : option (option (list (path * (option path * bool * bool * option bool)))) :=
  match s_file sh with
  | Absent => None
  | Data None _ => Some None
  | Data (Some d) _ => Some (Some (map (abs_entry (s_fs sh)) d))
  end.
Definition abs_status (p : proc) : Z * Z :=
  match p_st p with Running => (0, 0) | Done None => (1, -1) | Done (Some r) => (1, r) | Crashed k => (2, k) end.

(* ------------------------------------------------------------------ creation of $HOME/.config/IsoQuant *)
(* The first thing set_configs_directory does, before any cache file is touched: os.makedirs(config_dir, exist_ok=True).
   The directory is a separate piece of shared state (present / absent) and these steps precede all steps on the cache
   files, so they are modelled on their own:  DMake = makedirs(exist_ok=True), one atomic idempotent step (mkdir(2) is
   atomic, EEXIST is swallowed);  check-then-create = DCheck (os.path.isdir, remembered) followed by DCreate
   (os.makedirs without exist_ok when the check said "missing": FileExistsError if the directory has appeared since). *)
Inductive dop := DMake | DCheck | DCreate.
Record dproc := mkdproc { d_prog : list dop; d_saw_missing : bool; d_failed : bool }.
Definition dstep1 (dir : bool) (p : dproc) : bool * dproc :=
  if d_failed p then (dir, p) else
  match d_prog p with
  | [] => (dir, p)
  | DMake :: r => (true, mkdproc r (d_saw_missing p) false)
  | DCheck :: r => (dir, mkdproc r (negb dir) false)
  | DCreate :: r => if d_saw_missing p then (if dir then (dir, mkdproc [] true true) else (true, mkdproc r true false))
                    else (dir, mkdproc r false false)
  end.
Fixpoint dstep_nth (dir : bool) (ps : list dproc) (i : nat) : bool * list dproc :=
  match ps, i with
  | [], _ => (dir, [])
  | p :: t, O => let '(d', p') := dstep1 dir p in (d', p' :: t)
  | p :: t, Datatypes.S j => let '(d', t') := dstep_nth dir t j in (d', p :: t')
  end.
Definition drun (dir : bool) (ps : list dproc) (sched : list nat) : bool * list dproc :=
  fold_left (fun st i => dstep_nth (fst st) (snd st) i) sched (dir, ps).
Definition prog_mkdir (idempotent : bool) : list dop := if idempotent then [DMake] else [DCheck; DCreate].
Definition dp (prog : list dop) (saw : bool) : dproc := mkdproc prog saw false.
(* the event a step performs in the real process: 9 = os.path.isdir, 10 = os.makedirs; None = nothing happens *)
Definition dop_event (p : dproc) : option Z :=
  if d_failed p then None else
  match d_prog p with
  | DMake :: _ => Some 10 | DCheck :: _ => Some 9
  | DCreate :: _ => if d_saw_missing p then Some 10 else None
  | [] => None
  end.
Fixpoint dtrace (dir : bool) (ps : list dproc) (sched : list nat) : list (nat * Z) :=
  match sched with
  | [] => []
  | i :: t => match nth_error ps i with
              | Some p => match dop_event p with Some c => [(i, c)] | None => [] end
              | None => []
              end ++ let st := dstep_nth dir ps i in dtrace (fst st) (snd st) t
  end.

(* check-then-create: both runs see the directory missing, the slower one dies with FileExistsError *)
Example check_then_create_fails :
  map d_failed (snd (drun false [dp (prog_mkdir false) false; dp (prog_mkdir false) false] [0; 1; 0; 1]%nat)) = [false; true].
Proof. vm_compute. reflexivity. Qed.

(* ------------------------------------------------------------------ witnesses against the in-place protocol *)
Definition g1 := 1. Definition g2 := 2. Definition o1 := 11. Definition o2 := 12. Definition o3 := 13.
Definition fs0 : fsys := fs_of_list [(g1, mkstat 1 (Gtf 100)); (g2, mkstat 2 (Gtf 200))].
Definition sh_existing : shared := mkshared (Data (Some []) 2) fs0 10.     (* a HOME that has been used before *)
Definition sh_fresh : shared := mkshared Absent fs0 10.                      (* a new HOME *)
Definition two (atomic : bool) (l1 l2 : Z) : list proc :=
  [mkp g1 o1 true l1 (prog_run atomic false); mkp g2 o2 true l2 (prog_run atomic false)].
Definition crashed (p : proc) : bool := match p_st p with Crashed _ => true | _ => false end.
Definition done_ok (p : proc) : bool := match p_st p with Done _ => true | _ => false end.

(* (a) a used HOME: P0 truncates, P1 reads the empty file: JSONDecodeError *)
Definition sched_partial : list nat := [0; 0; 0; 0; 0; 0; 0; 0; 1; 1; 1; 1; 0]%nat.
Example inplace_reader_sees_partial :
  map abs_status (w_procs (run (mkworld sh_existing (two false 120 120)) sched_partial)) = [(1, o1); (2, 1)].
Proof. vm_compute. reflexivity. Qed.
(* (b) a new HOME, both start together: P0 creates the file, P1 finds it present and reads it empty *)
Definition sched_fresh : list nat := [0; 0; 1; 1; 1; 1; 0; 0; 0; 0; 0; 0; 0]%nat.
Example inplace_fresh_home_crash :
  map abs_status (w_procs (run (mkworld sh_fresh (two false 120 120)) sched_fresh)) = [(1, o1); (2, 1)].
Proof. vm_compute. reflexivity. Qed.
(* (c) both truncate, the longer text is written first: the file is unparseable for good, and a third run started
       afterwards dies too *)
Definition sched_corrupt : list nat := [0; 0; 0; 0; 0; 0; 0; 1; 1; 1; 1; 1; 1; 1; 0; 1; 0; 1; 2; 2; 2; 2]%nat.
Definition three_inplace : list proc := two false 140 120 ++ [mkp g1 o3 true 130 (prog_run false false)].
Example inplace_corrupt_forever :
  let w := run (mkworld sh_existing three_inplace) sched_corrupt in
  abs_file (w_sh w) = Some None /\ map abs_status (w_procs w) = [(1, o1); (1, o2); (2, 1)].
Proof. vm_compute. split; reflexivity. Qed.
(* the same three schedules under the atomic protocol *)
Example atomic_same_schedules :
  forallb done_ok (w_procs (run (mkworld sh_existing (two true 120 120)) (sched_partial ++ [1; 1; 1; 1; 1; 1]%nat))) = true /\
  forallb done_ok (w_procs (run (mkworld sh_fresh (two true 120 120)) (sched_fresh ++ [1; 1; 1; 1; 1; 1]%nat))) = true /\
  forallb done_ok (w_procs (run (mkworld sh_existing (two true 140 120 ++ [mkp g1 o3 true 130 (prog_run true false)])) (sched_corrupt ++ [2; 2; 2; 2; 2; 2]%nat))) = true.
Proof. vm_compute. repeat split; reflexivity. Qed.
(* a lost update under the atomic protocol: both read {}, both store; the survivor lacks P0's entry *)
Definition sched_lost : list nat := [0; 0; 1; 1; 0; 1; 0; 1; 0; 1; 0; 1; 0; 1]%nat.
Example atomic_lost_update :
  abs_file (w_sh (run (mkworld sh_existing (two true 120 120)) sched_lost)) = Some (Some [(g2, (Some o2, true, true, Some true))]).
Proof. vm_compute. reflexivity. Qed.
