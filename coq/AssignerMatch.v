(* C01: executable model of the decision tree of src/long_read_assigner.py LongReadAssigner.assign_to_isoform, faithful to the code
   as it is (after the repair of select_similar_isoforms' extra_right), on top of
     - the C19 models of GeneInfo.split_exons, FeatureProfiles.set_profiles and the two read-profile constructors (Intervals.v),
     - the comparator (Junctions.v), the exon-elongation subtype and the polyA verification (AssignerEnds.v), classify (Assigner.v).
   Modelled here: the gene-level profiles as GeneInfo.from_models builds them, CombinedProfileConstructor.construct_profiles,
   assign_to_isoform, match_consistent (spliced and unspliced), find_containing_isoforms / find_overlapping_isoforms /
   find_matching_isoforms (equal_profiles_in_range), match_profile (difference_in_present_features), select_similar_isoforms,
   detect_inconsistensies, check_read_ends, verify_read_ends_for_assignment, categorize_correct_splice_match / detect_ism_subtype,
   resolve_by_nucleotide_score with the two nucleotide scores, match_inconsistent.
   Float arithmetic is kept OUT of this file: the nucleotide scores and the penalty selection are parameters of the section -
     sc_make  : builds a score from the two fractions (similarity num/den, flanking num/den)
     sc_lt, sc_ge_min, sc_keeps : score comparisons (a < b;  x >= -0.5;  x * 1.5 >= best)
     select_min : select_best_among_inconsistent before its tie-break (isoforms with the minimal penalty)
   AssignerMatchFloat.v instantiates them bit-exactly with primitive floats for the correspondence with the real method;
   AssignerMatchProofs.v proves the theorems for ANY instantiation satisfying explicitly stated hypotheses.
   Isoform ids are integers ordered like the Python strings; sets of isoform ids are kept as id-sorted lists (every place where the
   code's result could depend on set iteration order sorts afterwards). *)
From Coq Require Import ZArith NArith QArith List Bool Lia ZifyBool.
From IQ Require Import CorrSupport Intervals Junctions AssignerDefs AssignerEndsDefs.
From IQ.gen Require Import Tables Prims.
Import ListNotations. Open Scope Z_scope.

(* ---------------------------------------------------------------- genes *)
Record isof := mkIso { i_id : Z; i_strand : Z; i_exons : list iv }.        (* strand: 1 '+', -1 '-', 0 anything else *)
Definition i_introns (t:isof) : list iv := jfb (i_exons t).                    (* junctions_from_blocks *)
Definition i_region (t:isof) : iv := (fst (hd (0,0) (i_exons t)), snd (last (i_exons t) (0,0))).

Definition iv_ltb (a b:iv) : bool := (fst a <? fst b) || ((fst a =? fst b) && (snd a <? snd b)).
Fixpoint ivins (x:iv) (l:list iv) : list iv :=          (* insertion into a strictly sorted list, dropping duplicates: sorted(set(...)) *)
  match l with
  | [] => [x]
  | y :: t => if iv_eqb x y then l else if iv_ltb x y then x :: l else y :: ivins x t
  end.
Definition sorted_set (l:list iv) : list iv := fold_left (fun acc x => ivins x acc) l [].

Record gene := mkGene { g_isos : list isof; g_introns : list iv; g_split : list iv; g_region : iv }.
(* GeneInfo.from_models; None when split_exons does not terminate within its fuel (never on exon lists) *)
Definition mk_gene (isos:list isof) : option gene :=
  let introns := sorted_set (flat_map i_introns isos) in
  let exons := sorted_set (flat_map i_exons isos) in
  match split_exons exons with
  | None => None
  | Some sp =>
    let s := fold_left (fun a t => Z.min a (fst (i_region t))) isos (fst (i_region (hd (mkIso 0 0 []) isos))) in
    let e := fold_left (fun a t => Z.max a (snd (i_region t))) isos (snd (i_region (hd (mkIso 0 0 []) isos))) in
    Some (mkGene isos introns sp (s, e))
  end.
Definition intron_prof (g:gene) (t:isof) : list Z := isoform_profile (fun f k => py_equal_ranges f k 0) (g_introns g) (i_introns t) (i_region t).
Definition split_prof (g:gene) (t:isof) : list Z := isoform_profile (fun f k => py_contains f k) (g_split g) (i_exons t) (i_region t).
Definition find_iso (g:gene) (id:Z) : isof :=
  match find (fun t => i_id t =? id) (g_isos g) with Some t => t | None => mkIso id 0 [] end.

(* ---------------------------------------------------------------- reads *)
Record read := mkRead { r_exons : list iv; r_polya : polya }.
Definition r_region (r:read) : iv := (fst (hd (0,0) (r_exons r)), snd (last (r_exons r) (0,0))).
Record rprof := mkRP { gp : list Z; rp : list Z; prange : iv }.        (* MappedReadProfile: gene_profile, read_profile, gene_profile_range *)

Section Assign.
Variable P : params.
Variable absd : Z.                  (* minimal_intron_absence_overlap *)
Variable arm : ARM.                 (* resolve_ambiguous *)
Variable SC : Type.
Variable sc_make : (Z * Z) -> (Z * Z) -> SC.
Variable sc_lt : SC -> SC -> bool.
Variable sc_ge_min : SC -> bool.
Variable sc_keeps : SC -> SC -> bool.
Variable select_min : list (Z * list xev) -> option (list Z).
Let delta := p_delta P.

Definition intron_rprof (g:gene) (r:read) : outcome rprof :=
  match overlapping_profile (fun x k => py_equal_ranges x k delta) (fun reg f => py_overlaps_at_least reg f absd) delta
          (g_introns g) (g_region g) (jfb (r_exons r)) (r_region r) (pa_ext_a (r_polya r)) (pa_ext_t (r_polya r)) with
  | Some (g', r', rg) => Ok (mkRP g' r' rg)
  | None => Raises 9%N
  end.
Definition split_rprof (g:gene) (r:read) : outcome rprof :=
  match nonoverlapping_profile (fun x k => py_overlaps_at_least_when_overlap x k (p_minimal_exon_overlap P)) delta
          (g_split g) (r_exons r) (pa_ext_a (r_polya r)) (pa_ext_t (r_polya r)) with
  | Ok (g', r', rg) => Ok (mkRP g' r' rg)
  | Raises k => Raises k
  end.

(* ---------------------------------------------------------------- profile comparisons (src/common.py) *)
Definition pz (l:list Z) (i:Z) : Z := nthz l i 0.
Definition range_list (rg:iv) : list Z := zrange (fst rg) (snd rg).               (* range over profile_range *)
Definition has_overlapping_features (p1 p2:list Z) (rg:iv) : bool := existsb (fun i => (pz p1 i =? pz p2 i) && (pz p2 i =? 1)) (range_list rg).
Definition equal_profiles_in_range (isop rdp:list Z) (rg:iv) : bool :=
  forallb (fun i => (pz rdp i =? 0) || (pz isop i =? pz rdp i)) (range_list rg).
(* difference_in_present_features with diff_limit = -1 (the limit len+1 is never exceeded) *)
Definition difference_in_present (p1 p2:list Z) (rg:iv) : Z :=
  Z.of_nat (length (filter (fun i => negb ((pz p2 i =? 0) || (pz p1 i =? 0)) && negb (pz p1 i =? pz p2 i)) (range_list rg))).

(* ---------------------------------------------------------------- nucleotide scores *)
Definition flank_region (t:isof) : iv := (fst (i_region t) - p_minor_ext P, snd (i_region t) + p_minor_ext P).
Definition score_of (jac:bool) (r:read) (t:isof) : outcome SC :=
  match (if jac then jaccard (r_exons r) (i_exons t) else coverage_fraction (r_exons r) (i_exons t)), extra_exon_pair (flank_region t) (r_exons r) with
  | Ok a, Ok b => Ok (sc_make a b)
  | Raises k, _ => Raises k
  | _, Raises k => Raises k
  end.
Fixpoint scores_of (jac:bool) (r:read) (g:gene) (ids:list Z) : outcome (list (Z * SC)) :=
  match ids with
  | [] => Ok []
  | id :: t => match score_of jac r (find_iso g id), scores_of jac r g t with
               | Ok s, Ok l => Ok ((id, s) :: l)
               | Raises k, _ => Raises k
               | _, Raises k => Raises k
               end
  end.
Definition best_score (l:list (Z * SC)) (d:SC) : SC := fold_left (fun m x => if sc_lt m (snd x) then snd x else m) l d.
(* resolve_by_nucleotide_score; ids sorted on entry, the result is sorted again by the code (sorted(filter(...)) on (id, score) pairs) *)
Definition resolve (jac:bool) (factor0:bool) (r:read) (g:gene) (ids:list Z) : outcome (list Z) :=
  match ids with
  | [] => Ok []
  | _ => match scores_of jac r g ids with
         | Raises k => Raises k
         | Ok sc => match sc with
                    | [] => Ok []
                    | (_, s0) :: _ =>
                      let b := best_score sc s0 in
                      Ok (map fst (filter (fun x => (if factor0 then true else sc_keeps (snd x) b) && sc_ge_min (snd x)) sc))
                    end
         end
  end.

(* ---------------------------------------------------------------- candidate selection *)
Definition ids_of (g:gene) : list Z := map i_id (g_isos g).
Definition find_containing (g:gene) (r:read) (hint:list Z) : list Z :=
  filter (fun id => py_contains_approx (i_region (find_iso g id)) (r_region r) (p_min_abs_exon_overlap P)) hint.
Definition ov_range (a b:iv) : iv := (Z.max (fst a) (fst b), Z.min (snd a) (snd b)).       (* overlap_intervals *)
Definition find_overlapping (g:gene) (rs:rprof) (hint:list Z) : list Z :=
  filter (fun id => let t := find_iso g id in
                    has_overlapping_features (split_prof g t) (gp rs) (ov_range (prange rs) (profile_range_lt1 (split_prof g t)))) hint.
Definition find_matching (prof:isof -> list Z) (g:gene) (rpr:rprof) (hint:list Z) : list Z :=
  filter (fun id => equal_profiles_in_range (prof (find_iso g id)) (gp rpr) (prange rpr)) hint.

(* ---------------------------------------------------------------- match subtypes *)
Definition intron_span (t:isof) : outcome iv :=
  match i_introns t with [] => Raises IndexError | i0 :: _ => Ok (fst i0, snd (last (i_introns t) (0,0))) end.
Definition is_fsm (r:read) (t:isof) : outcome bool :=
  match intron_span t with Ok s => Ok (py_contains (r_region r) s) | Raises k => Raises k end.
(* categorize_correct_splice_match: the event of the match *)
Definition splice_match_event (ri:rprof) (r:read) (t:isof) : outcome MES :=
  if (length (rp ri) =? 0)%nat || (length (i_introns t) =? 0)%nat then Ok MES_mono_exon_match
  else match intron_span t with
       | Raises k => Raises k
       | Ok s => if py_contains (r_region r) s then Ok MES_fsm
                 else let lt := fst s <? fst (r_region r) in let rt := snd s >? snd (r_region r) in
                      Ok (if lt && rt then MES_ism_internal else if lt then MES_ism_left else if rt then MES_ism_right else MES_none_)
       end.
Definition unspliced_match_event (t:isof) : MES := if (length (i_exons t) =? 1)%nat then MES_mono_exon_match else MES_mono_exonic.

(* ---------------------------------------------------------------- read ends *)
Definition elong (g:gene) (rs:rprof) (r:read) (t:isof) : outcome (list xev) :=
  elongation_subtype P (g_split g) (split_prof g t) (profile_range_lt1 (split_prof g t)) (gp rs) (prange rs) (r_exons r).
Definition verify (r:read) (t:isof) (evs:list xev) : outcome (list xev) :=
  verify_read_ends P true (i_strand t) (i_exons t) (r_exons r) (r_polya r) evs.

Fixpoint omap {A B} (f:A -> outcome B) (l:list A) : outcome (list B) :=
  match l with
  | [] => Ok []
  | x :: t => match f x, omap f t with Ok y, Ok r => Ok (y :: r) | Raises k, _ => Raises k | _, Raises k => Raises k end
  end.
Definition types_of (l:list (Z * list xev)) : list MES := flat_map (fun m => map x_type (snd m)) l.
(* IsoformMatch: a list given to the constructor loses its `none` events; add_subclassification replaces a lone none/undefined event *)
Definition is_none (e:xev) : bool := MES_eqb (x_type e) MES_none_.
Definition drop_none (l:list xev) : list xev := filter (fun e => negb (is_none e)) l.
Definition add_sub (l:list xev) (e:xev) : list xev :=
  match l with
  | [x] => if is_none x || MES_eqb (x_type x) MES_undefined then [e] else l ++ [e]
  | _ => l ++ [e]
  end.

(* the result of assign_to_isoform: assignment type and, per reported isoform (id order), the event types of its match *)
Definition result := (RAT * list (Z * list MES))%type.
Definition report (t:RAT) (ms:list (Z * list xev)) : result := (t, map (fun m => (fst m, map x_type (snd m))) ms).

(* ---------------------------------------------------------------- match_consistent *)
(* None = the code returns None (the caller falls back to match_inconsistent) *)
Definition match_consistent (g:gene) (ri rs:rprof) (r:read) : outcome (option result) :=
  let containing := find_containing g r (ids_of g) in
  match containing with [] => Ok None | _ =>
  let overlapping := find_overlapping g rs containing in
  match overlapping with [] => Ok None | _ =>
  let consistent := find_matching (intron_prof g) g ri overlapping in
  let matched : outcome (list Z * bool) :=          (* (matched isoforms, spliced?) *)
    if (length (rp ri) =? 0)%nat then
      (if (1 <? Z.of_nat (length consistent)) && negb (match arm with ARM_none_ => true | _ => false end)
       then match resolve true false r g consistent with Ok l => Ok (l, false) | Raises k => Raises k end
       else Ok (consistent, false))
    else
      let m1 := if (1 <? Z.of_nat (length consistent))
                then match find_matching (split_prof g) g rs consistent with [] => consistent | em => em end
                else consistent in
      if (1 <? Z.of_nat (length m1)) then
        match (match arm with
               | ARM_all_ => Ok true
               | ARM_monoexon_and_fsm =>
                 (* any(self.is_fsm(...) for ...): evaluated left to right, stops at the first True *)
                 (fix any_fsm (l:list Z) : outcome bool :=
                    match l with [] => Ok false
                    | id :: t => match is_fsm r (find_iso g id) with Ok true => Ok true | Ok false => any_fsm t | Raises k => Raises k end end) m1
               | _ => Ok false end) with
        | Raises k => Raises k
        | Ok true => match resolve true false r g m1 with Ok l => Ok (l, true) | Raises k => Raises k end
        | Ok false => Ok (m1, true)
        end
      else Ok (m1, true) in
  match matched with
  | Raises k => Raises k
  | Ok ([], _) => Ok None
  | Ok (ids, spliced) =>
    (* the match event, check_read_ends (elongation events appended), verify_read_ends_for_assignment (polyA), classify_assignment *)
    match omap (fun id => let t := find_iso g id in
                  match (if spliced then splice_match_event ri r t else Ok (unspliced_match_event t)) with
                  | Raises k => Raises k
                  | Ok ev => match elong g rs r t with
                             | Raises k => Raises k
                             | Ok el => match verify r t (fold_left add_sub el [xe ev 0]) with Ok evs => Ok (id, evs) | Raises k => Raises k end
                             end
                  end) ids with
    | Raises k => Raises k
    | Ok ms => let ty := classify (1 <? Z.of_nat (length ms)) (types_of ms) in
               if rmem ty RAT_is_inconsistent then Ok None else Ok (Some (report ty ms))
    end
  end end end.

(* ---------------------------------------------------------------- match_inconsistent *)
Definition select_similar (g:gene) (ri rs:rprof) (r:read) : outcome (list Z) :=
  let overlapping := find_overlapping g rs (ids_of g) in
  match overlapping with [] => Ok [] | _ =>
  match resolve false true r g overlapping with
  | Raises k => Raises k
  | Ok [] => Ok []
  | Ok sig =>
    let cand := map (fun id => let t := find_iso g id in
                  (id, difference_in_present (intron_prof g t) (gp ri) (prange ri)
                       + (if fst (r_region r) + delta <? fst (i_region t) then 1 else 0)
                       + (if snd (r_region r) - delta >? snd (i_region t) then 1 else 0))) sig in
    let best := fold_left (fun m x => Z.min m (snd x)) cand (snd (hd (0, 0) cand)) in
    Ok (map fst (filter (fun x => snd x <=? best + 3) cand))
  end end.

Definition known_of (g:gene) : list iv -> bool := known_introns delta (g_introns g) (g_region g).
(* detect_inconsistensies for one isoform *)
Definition detect_one (g:gene) (ri rs:rprof) (r:read) (t:isof) : outcome (list xev) :=
  let evs := map of_event (compare_junctions P (known_of g) (r_region r) (jfb (r_exons r)) (i_region t) (i_introns t)) in
  match elong g rs r t with
  | Raises k => Raises k
  | Ok el => verify r t (evs ++ el)
  end.

Definition match_inconsistent (g:gene) (ri rs:rprof) (r:read) : outcome result :=
  match select_similar g ri rs r with
  | Raises k => Raises k
  | Ok [] => Ok (RAT_noninformative, [])
  | Ok cands =>
    match omap (fun id => match detect_one g ri rs r (find_iso g id) with Ok evs => Ok (id, evs) | Raises k => Raises k end) cands with
    | Raises k => Raises k
    | Ok rms =>
      match select_min rms with
      | None => Raises 5%N                                    (* KeyError: an event type without a cost *)
      | Some best0 =>
        match (if (1 <? Z.of_nat (length best0)) then resolve false false r g best0 else Ok best0) with
        | Raises k => Raises k
        | Ok [] => Ok (RAT_noninformative, [])
        | Ok best =>
          let sel := filter (fun m => existsb (Z.eqb (fst m)) best) rms in
          let ty := classify (1 <? Z.of_nat (length best)) (types_of sel) in
          if (length (rp ri) =? 0)%nat || rmem ty RAT_is_inconsistent then Ok (report ty (map (fun m => (fst m, drop_none (snd m))) sel))
          else
            (* create_consistent_matches: the splice-match event followed by the events other than `none` *)
            match omap (fun m => match splice_match_event ri r (find_iso g (fst m)) with
                                 | Ok ev => Ok (fst m, fold_left add_sub (drop_none (snd m)) [xe ev 0])
                                 | Raises k => Raises k end) sel with
            | Ok ms => Ok (report ty ms)
            | Raises k => Raises k
            end
        end
      end
    end
  end.

(* ---------------------------------------------------------------- assign_to_isoform *)
Definition has_v (v:Z) (l:list Z) : bool := existsb (Z.eqb v) l.
Definition assign (g:gene) (r:read) : outcome result :=
  match g_isos g with [] => Ok (RAT_intergenic, []) | _ =>
  match intron_rprof g r, split_rprof g r with
  | Raises k, _ => Raises k
  | _, Raises k => Raises k
  | Ok ri, Ok rs =>
    if forallb (fun v => negb (v =? 1)) (rp rs) || forallb (fun v => (v =? 0) || (v =? -2)) (gp rs) then Ok (RAT_noninformative, [])
    else if has_v (-1) (rp ri) || has_v (-1) (rp rs) then match_inconsistent g ri rs r
    else if has_v 0 (rp ri) || has_v 0 (rp rs) then match_inconsistent g ri rs r
    else match match_consistent g ri rs r with
         | Raises k => Raises k
         | Ok (Some res) => Ok res
         | Ok None => match_inconsistent g ri rs r
         end
  end end.
End Assign.
