From Coq Require Import ZArith List Bool Lia ZifyBool.
Import ListNotations. Open Scope Z_scope.
Notation iv := (Z*Z)%type.
Definition overlaps (a b:iv) : bool := negb ((snd a <? fst b) || (snd b <? fst a)).
Definition left_of (a b:iv) : bool := snd a <? fst b.
Definition isect (a b:iv) : Z := Z.max 0 (Z.min (snd a) (snd b) - Z.max (fst a) (fst b) + 1).

Fixpoint sd (l:list iv) : Prop :=
  match l with
  | [] => True
  | a::t => fst a <= snd a /\ match t with [] => True | b::_ => snd a < fst b end /\ sd t
  end.

Fixpoint inter_f (n:nat) (A B:list iv) : Z :=
  match n with O => 0 | S n' =>
    match A, B with
    | [], _ => 0 | _, [] => 0
    | a::A', b::B' =>
      if overlaps a b then
        (Z.min (snd a) (snd b) - Z.max (fst a) (fst b) + 1) +
        (if snd b <? snd a then inter_f n' A B' else inter_f n' A' B)
      else if left_of b a then inter_f n' A B' else inter_f n' A' B
    end end.
Definition inter A B := inter_f (length A + length B) A B.

Fixpoint row (a:iv) (B:list iv) : Z := match B with [] => 0 | b::t => isect a b + row a t end.
Fixpoint pairs (A B:list iv) : Z := match A with [] => 0 | a::t => row a B + pairs t B end.

Lemma pairs_nil_r A : pairs A [] = 0. Proof. induction A; simpl; auto. Qed.
Lemma pairs_cons_r A b B : pairs A (b::B) = pairs A [b] + pairs A B.
Proof. induction A as [|a t IH]; simpl; [reflexivity|]. rewrite IH. lia. Qed.

Lemma sd_after a B : sd (a::B) -> Forall (fun b => snd a < fst b) B.
Proof. revert a; induction B as [|b t IH]; intros a H; constructor.
 - simpl in H. lia.
 - simpl in H. destruct H as (Ha & Hab & Hb & Hbt & Ht).
   assert (Hs: sd (b::t)) by (simpl; auto). specialize (IH b Hs).
   eapply Forall_impl; [|exact IH]. simpl. intros; lia. Qed.
Lemma row_zero a B : Forall (fun b => snd a < fst b) B -> row a B = 0.
Proof. induction 1; simpl; [reflexivity|]. rewrite IHForall. unfold isect. lia. Qed.
Lemma col_zero b A : Forall (fun a => snd b < fst a) A -> pairs A [b] = 0.
Proof. induction 1; simpl; [reflexivity|]. rewrite IHForall. unfold isect. lia. Qed.
Lemma Forall_lt_trans (x y:Z) (l:list iv) : x <= y -> Forall (fun c => y < fst c) l -> Forall (fun c => x < fst c) l.
Proof. intros H F. eapply Forall_impl; [|exact F]. simpl; intros; lia. Qed.

Theorem inter_f_pairs : forall n A B, (length A + length B <= n)%nat -> sd A -> sd B -> inter_f n A B = pairs A B.
Proof.
  induction n as [|n IH]; intros A B Hn HA HB.
  - destruct A; [reflexivity|simpl in Hn; lia].
  - destruct A as [|a A']; [reflexivity|]. destruct B as [|b B']; [simpl; rewrite pairs_nil_r; reflexivity|].
    cbn [inter_f].
    pose proof (sd_after _ _ HA) as FA. pose proof (sd_after _ _ HB) as FB.
    assert (HA': sd A') by (simpl in HA; tauto). assert (HB': sd B') by (simpl in HB; tauto).
    assert (Ha: fst a <= snd a) by (simpl in HA; tauto). assert (Hb: fst b <= snd b) by (simpl in HB; tauto).
    simpl in Hn.
    destruct (overlaps a b) eqn:Eo; unfold overlaps in Eo.
    + destruct (snd b <? snd a) eqn:E1.
      * (* advance B: b cannot meet A' *)
        rewrite IH by (simpl; auto; lia). rewrite (pairs_cons_r (a::A') b B'). cbn [pairs row].
        rewrite (col_zero b A') by (eapply Forall_lt_trans; [|exact FA]; lia).
        unfold isect. lia.
      * (* advance A: a cannot meet B' *)
        rewrite IH by (simpl; auto; lia). cbn [pairs row].
        rewrite (row_zero a B') by (eapply Forall_lt_trans; [|exact FB]; lia).
        unfold isect. lia.
    + destruct (left_of b a) eqn:E1; unfold left_of in E1.
      * rewrite IH by (simpl; auto; lia). rewrite (pairs_cons_r (a::A') b B'). cbn [pairs row].
        rewrite (col_zero b A') by (eapply Forall_lt_trans; [|exact FA]; lia).
        unfold isect. lia.
      * rewrite IH by (simpl; auto; lia). cbn [pairs row].
        rewrite (row_zero a B') by (eapply Forall_lt_trans; [|exact FB]; lia).
        unfold isect. lia.
Qed.
Print Assumptions inter_f_pairs.
