(* C19: OverlappingFeaturesProfileConstructor.construct_profile_for_features (model Intervals.ovs / overlapping_profile) —
   READ-side characterisation for ALL inputs (known features in start order, read features strictly increasing and disjoint):
     read feature r is 1  iff some known feature k with cmp r k overlaps it and starts after the end of the previous read feature
                             (a feature reached by an earlier read feature is consumed there: the "shadow" corner of DESIGN §6 #18);
                   else -1 iff its initial value is 0, a known feature starts after end(r) and a known feature starts at or before end(r);
                   else its initial value (-1 if absence_condition(gene_region, r), else 0).
   The gene side is Profile.gp_char (C19_gene_profile_char). *)
From Coq Require Import ZArith NArith List Bool Lia ZifyBool ZifyN.
From IQ.gen Require Import Prims.
From IQ Require Import CorrSupport Intervals IntervalsSpec IntervalsProofs IntervalsProofs2 Profile.
Import ListNotations. Open Scope Z_scope.

Section OvsRead.
Variable cmp : iv -> iv -> bool.          (* comparator(read_feature, known_feature) *)
Variable absent : iv -> iv -> bool.
Variable mapped : iv.
Variable ini : iv -> Z.                   (* initial read value: -1 if absence_condition(gene_region, r) else 0 *)

Definition olt (lo:option Z) (x:Z) : bool := match lo with None => true | Some v => v <? x end.
Definition matchedO (lo:option Z) (K:list iv) (r:iv) : bool :=
  existsb (fun k => olt lo (fst k) && (fst k <=? snd r) && (fst r <=? snd k) && cmp r k) K.
Definition afterO (K:list iv) (r:iv) : bool := existsb (fun k => snd r <? fst k) K.
Definition beforeO (K:list iv) (r:iv) : bool := existsb (fun k => fst k <=? snd r) K.
(* gp0: a known feature has been consumed already; lo: end of the previous read feature; v0: value so far *)
Definition valO (gp0:bool) (lo:option Z) (K:list iv) (v0:Z) (r:iv) : Z :=
  if (v0 =? 1) || matchedO lo K r then 1 else if (v0 =? 0) && afterO K r && (gp0 || beforeO K r) then -1 else v0.
Fixpoint rtail (gp0:bool) (K:list iv) (p:iv) (R:list iv) : list Z :=
  match R with [] => [] | r :: R' => valO gp0 (Some (snd p)) K (ini r) r :: rtail gp0 K r R' end.

Lemma valO_nil gp0 lo v0 r : valO gp0 lo [] v0 r = v0.
Proof. unfold valO. cbn. rewrite orb_false_r, andb_false_r. destruct (v0 =? 1) eqn:E; [lia|reflexivity]. Qed.
Lemma rtail_nil gp0 p R : rtail gp0 [] p R = map ini R.
Proof. revert p. induction R as [|r R IH]; intros p; [reflexivity|]. cbn [rtail map]. rewrite valO_nil, IH. reflexivity. Qed.

(* a known feature k not to the right of the head read feature r is consumed *)
Lemma valO_pop_k_head gp0 k K' v0 r : fst k <= snd r ->
  valO gp0 None (k :: K') v0 r = valO true None K' (if negb (snd k <? fst r) && cmp r k then 1 else v0) r.
Proof. intros Hk. unfold valO, matchedO, afterO, beforeO. cbn [existsb olt andb].
  replace (fst k <=? snd r) with true by lia. replace (snd r <? fst k) with false by lia. cbn [andb orb]. rewrite orb_true_r.
  replace (fst r <=? snd k) with (negb (snd k <? fst r)) by lia.
  destruct (negb (snd k <? fst r) && cmp r k); [|reflexivity].
  cbn [orb]. rewrite orb_true_r. change (1 =? 1) with true. reflexivity. Qed.
Lemma valO_pop_k_tail gp0 k K' lo v0 r' (r:iv) : fst k <= snd r -> snd r <= lo -> lo < fst r' -> fst r' <= snd r' ->
  valO gp0 (Some lo) (k :: K') v0 r' = valO true (Some lo) K' v0 r'.
Proof. intros Hk Hlo Hr Hw. unfold valO, matchedO, afterO, beforeO. cbn [existsb olt].
  replace (lo <? fst k) with false by lia. replace (snd r' <? fst k) with false by lia. replace (fst k <=? snd r') with true by lia.
  cbn [andb orb]. rewrite orb_true_r. reflexivity. Qed.
Lemma rtail_pop_k gp0 k K' (r:iv) : fst k <= snd r -> forall R p, snd r <= snd p -> sd (p :: R) ->
  rtail gp0 (k :: K') p R = rtail true K' p R.
Proof. intros Hk. induction R as [|r' R IH]; intros p Hp HS; [reflexivity|]. cbn [rtail].
  pose proof (sd_tail _ _ HS) as HS'. pose proof (sd_wf _ _ HS') as Hw. pose proof (sd_wf _ _ HS) as Hpw.
  assert (Hlt: snd p < fst r') by (destruct HS as (_ & H & _); exact H).
  rewrite (valO_pop_k_tail gp0 k K' (snd p) (ini r') r' r Hk Hp Hlt Hw). f_equal. apply IH; [lia|exact HS']. Qed.
(* the head read feature r lies entirely left of every remaining known feature: it is emitted *)
Lemma valO_pop_r gp0 K v0 r : (forall k, In k K -> snd r < fst k) -> K <> [] -> (v0 = 1 \/ v0 = 0 \/ v0 = -1) ->
  valO gp0 None K v0 r = if (v0 =? 0) && gp0 then -1 else v0.
Proof. intros Hr Hne Hv. unfold valO.
  assert (H1: matchedO None K r = false).
  { apply not_true_is_false. intros Hc. apply existsb_exists in Hc. destruct Hc as (k & Hk & H). specialize (Hr k Hk). lia. }
  assert (H2: beforeO K r = false).
  { apply not_true_is_false. intros Hc. apply existsb_exists in Hc. destruct Hc as (k & Hk & H). specialize (Hr k Hk). lia. }
  assert (H3: afterO K r = true).
  { destruct K as [|k K']; [congruence|]. unfold afterO. cbn [existsb]. specialize (Hr k (or_introl eq_refl)). replace (snd r <? fst k) with true by lia. reflexivity. }
  rewrite H1, H2, H3, orb_false_r, orb_false_r. cbn [andb]. rewrite andb_true_r.
  destruct Hv as [-> | [-> | ->]]; reflexivity. Qed.
Lemma existsb_ext_in {A} (f g:A -> bool) l : (forall x, In x l -> f x = g x) -> existsb f l = existsb g l.
Proof. induction l as [|a l IH]; intros H; [reflexivity|]. cbn [existsb]. rewrite (H a (or_introl eq_refl)), IH; [reflexivity|].
  intros x Hx. apply H. right. exact Hx. Qed.
Lemma valO_lo_vacuous gp0 lo K v0 r : (forall k, In k K -> lo < fst k) -> valO gp0 (Some lo) K v0 r = valO gp0 None K v0 r.
Proof. intros Hl. unfold valO. replace (matchedO (Some lo) K r) with (matchedO None K r); [reflexivity|].
  unfold matchedO. apply existsb_ext_in. intros k Hk. cbn [olt]. replace (lo <? fst k) with true by (specialize (Hl k Hk); lia). reflexivity. Qed.

Lemma starts_sorted_In k K k' : starts_sorted (k :: K) -> In k' K -> fst k <= fst k'.
Proof. intros HS Hk'. pose proof (starts_lower k K HS) as F. rewrite Forall_forall in F. exact (F k' Hk'). Qed.

Definition rside (gp0:bool) (K:list iv) (rvh:Z) (R:list iv) : list Z :=
  match R with [] => [] | r :: R' => valO gp0 None K rvh r :: rtail gp0 K r R' end.
Definition rvs (rvh:Z) (R:list iv) : list Z := match R with [] => [] | _ :: R' => rvh :: map ini R' end.

Lemma ovs_read : forall fuel K kv gpos R rvh rpos gacc racc m, (length K + length R < fuel)%nat -> length kv = length K ->
  starts_sorted K -> sd R -> 0 <= gpos -> (rvh = 1 \/ rvh = 0 \/ rvh = -1) -> (forall r, ini r = 0 \/ ini r = -1) ->
  exists g m', ovs cmp absent fuel mapped K kv gpos R (rvs rvh R) rpos gacc racc m = Some (g, rev racc ++ rside (0 <? gpos) K rvh R, m').
Proof.
  induction fuel as [|f IH]; intros K kv gpos R rvh rpos gacc racc m Hf Hlen HK HR Hg Hv Hini; [lia|].
  destruct K as [|k K'].
  { destruct kv; [|discriminate]. cbn [ovs]. eexists; eexists. f_equal. f_equal. f_equal. f_equal.
    destruct R as [|r R']; [reflexivity|]. cbn [rvs rside]. rewrite valO_nil, rtail_nil. reflexivity. }
  destruct kv as [|kvh kv']; [discriminate|].
  destruct R as [|r R'].
  { cbn [ovs rvs rside]. eexists; eexists. reflexivity. }
  cbn [rvs ovs]. cbn [length] in Hf, Hlen.
  pose proof (sd_wf _ _ HR) as Hrw. pose proof (sd_tail _ _ HR) as HR'.
  assert (HK': starts_sorted K') by (cbn [starts_sorted] in HK; tauto).
  destruct (snd r <? fst k) eqn:E1.
  - (* the read feature is emitted *)
    assert (Hall: forall k', In k' (k :: K') -> snd r < fst k').
    { intros k' [<-|Hk']; [lia|]. pose proof (starts_sorted_In k K' k' HK Hk'). lia. }
    destruct R' as [|r' R''].
    + destruct (IH (k :: K') (kvh :: kv') gpos [] 0 (rpos + 1) gacc ((if (rvh =? 0) && (0 <? gpos) then -1 else rvh) :: racc) m)
        as (g & m' & Hres); [cbn [length]; lia|cbn [length]; lia|exact HK|exact Logic.I|lia|lia|exact Hini|].
      cbn [rvs] in Hres. cbn [map]. rewrite Hres. exists g, m'. f_equal. f_equal. f_equal.
      cbn [rev rside rtail]. rewrite <- app_assoc. cbn [app]. f_equal. f_equal.
      rewrite (valO_pop_r (0 <? gpos) (k :: K') rvh r Hall ltac:(discriminate) Hv). reflexivity.
    + cbn [map].
      destruct (IH (k :: K') (kvh :: kv') gpos (r' :: R'') (ini r') (rpos + 1) gacc ((if (rvh =? 0) && (0 <? gpos) then -1 else rvh) :: racc) m)
        as (g & m' & Hres); [cbn [length] in *; lia|cbn [length]; lia|exact HK|exact HR'|lia|destruct (Hini r') as [-> | ->]; lia|exact Hini|].
      cbn [rvs] in Hres. rewrite Hres. exists g, m'. f_equal. f_equal. f_equal.
      cbn [rev rside rtail]. rewrite <- app_assoc. cbn [app]. f_equal. f_equal.
      * rewrite (valO_pop_r (0 <? gpos) (k :: K') rvh r Hall ltac:(discriminate) Hv). reflexivity.
      * f_equal. symmetry. apply valO_lo_vacuous. exact Hall.
  - (* a known feature is consumed; which of the three branches only matters for the value carried by the head read feature *)
    assert (Hk: fst k <= snd r) by lia.
    assert (Hgoal: forall kv1 gacc1 m1 rvh1, length kv1 = length K' -> rvh1 = (if negb (snd k <? fst r) && cmp r k then 1 else rvh) ->
              exists g m', ovs cmp absent f mapped K' kv1 (gpos + 1) (r :: R') (rvh1 :: map ini R') rpos gacc1 racc m1 =
                           Some (g, rev racc ++ rside (0 <? gpos) (k :: K') rvh (r :: R'), m')).
    { intros kv1 gacc1 m1 rvh1 Hl1 Hr1.
      destruct (IH K' kv1 (gpos + 1) (r :: R') rvh1 rpos gacc1 racc m1) as (g & m' & Hres);
        [cbn [length]; lia|exact Hl1|exact HK'|exact HR|lia|subst rvh1; destruct (negb (snd k <? fst r) && cmp r k); [left; reflexivity|exact Hv]|exact Hini|].
      cbn [rvs] in Hres. rewrite Hres. exists g, m'. f_equal. f_equal. f_equal. cbn [rside].
      replace (0 <? gpos + 1) with true by lia. subst rvh1. apply f_equal. f_equal.
      - symmetry. apply valO_pop_k_head. exact Hk.
      - symmetry. apply (rtail_pop_k (0 <? gpos) k K' r Hk R' r); [lia|exact HR]. }
    destruct (snd k <? fst r) eqn:E2.
    + apply Hgoal; [lia|reflexivity].
    + destruct (cmp r k) eqn:E3.
      * apply Hgoal; [lia|reflexivity].
      * apply Hgoal; [lia|reflexivity].
Qed.
End OvsRead.

(* ---------- the constructor ---------- *)
Definition read_init (absent:iv -> iv -> bool) (gene_region:iv) (r:iv) : Z := if absent gene_region r then -1 else 0.

Theorem overlapping_profile_read_char cmp absent delta K gene_region R mapped polya polyt : starts_sorted K -> sd R ->
  exists gp rg, overlapping_profile cmp absent delta K gene_region R mapped polya polyt =
    Some (gp, match R with [] => [] | r :: R' => valO cmp false None K (read_init absent gene_region r) r :: rtail cmp (read_init absent gene_region) false K r R' end, rg).
Proof. intros HK HR. unfold overlapping_profile.
  set (ini := read_init absent gene_region).
  assert (Hini: forall r, ini r = 0 \/ ini r = -1) by (intros r; unfold ini, read_init; destruct (absent gene_region r); [right|left]; reflexivity).
  assert (Hrv: map (fun r => if absent gene_region r then -1 else 0) R = rvs ini (match R with [] => 0 | r :: _ => ini r end) R).
  { destruct R as [|r R']; reflexivity. }
  rewrite Hrv.
  destruct (ovs_read cmp absent mapped ini (Datatypes.S (length K + length R)) K (map (fun k => if absent mapped k then -1 else 0) K) 0 R
              (match R with [] => 0 | r :: _ => ini r end) 0 [] [] []) as (g & m' & Hres);
    [lia|apply map_length|exact HK|exact HR|lia|destruct R as [|r R']; [right; left; reflexivity|destruct (Hini r) as [-> | ->]; lia]|exact Hini|].
  rewrite Hres. eexists; eexists. f_equal. f_equal. f_equal. cbn [rev app]. destruct R as [|r R']; reflexivity. Qed.

(* reading the value of one read feature *)
Lemma valO_1_iff cmp gp0 lo K v0 r : v0 <> 1 ->
  (valO cmp gp0 lo K v0 r = 1 <-> exists k, In k K /\ olt lo (fst k) = true /\ fst k <= snd r /\ fst r <= snd k /\ cmp r k = true).
Proof. intros Hv. unfold valO. replace (v0 =? 1) with false by lia. cbn [orb]. split.
  - destruct (matchedO cmp lo K r) eqn:E.
    + intros _. apply existsb_exists in E. destruct E as (k & Hk & H). exists k. split; [exact Hk|].
      apply andb_true_iff in H. destruct H as (H & H4). apply andb_true_iff in H. destruct H as (H & H3). apply andb_true_iff in H. destruct H as (H1 & H2).
      repeat split; [exact H1|lia|lia|exact H4].
    + destruct (_ && _ && _); intros H; [discriminate|contradiction].
  - intros (k & Hk & H1 & H2 & H3 & H4). replace (matchedO cmp lo K r) with true; [reflexivity|]. symmetry. apply existsb_exists. exists k. split; [exact Hk|].
    rewrite H1, H4. replace (fst k <=? snd r) with true by lia. replace (fst r <=? snd k) with true by lia. reflexivity. Qed.
Lemma valO_unmatched cmp gp0 lo K v0 r : v0 <> 1 -> matchedO cmp lo K r = false ->
  valO cmp gp0 lo K v0 r = if (v0 =? 0) && existsb (fun k => snd r <? fst k) K && (gp0 || existsb (fun k => fst k <=? snd r) K) then -1 else v0.
Proof. intros Hv Hm. unfold valO. rewrite Hm. replace (v0 =? 1) with false by lia. reflexivity. Qed.

(* the shadow corner on the read side: (5,9) is 2-equal to the known (3,9), but (3,9) was consumed by the read feature (1,3) *)
Example overlapping_profile_read_shadow :
  overlapping_profile (fun r k => py_equal_ranges r k 2) (fun reg f => py_contains reg f) 2 [(3,9)] (3,9) [(1,3);(5,9)] (1,9) (-1) (-1)
  = Some ([-1], [0; -1], (0, 1)).
Proof. vm_compute. reflexivity. Qed.
Print Assumptions overlapping_profile_read_char.
