(* C02: the strategy table, the flags and the two weight functions of the hand-written model Counting.v are those of the source.
   gen/Extra.v (CountingStrategy with its four predicates, COUNTING_STRATEGIES, CountingStrategyFlags.__init__,
   ReadWeightCounter.process_inconsistent / process_ambiguous, GroupedOutputFormat) and gen/Tables.v (ReadAssignmentType with its
   classification sets) are regenerated from src/long_read_counter.py / src/isoform_assignment.py on every check; an edit there
   changes the right-hand sides below and the equalities stop being provable.
   Floats are read as exact rationals, as in Counting.v; `x / y` is Qdiv (the ZeroDivisionError of y = 0 is excluded by the guard
   0 < k of Counting.pi_range / weight_tk_range, not by these equalities). *)
From Coq Require Import ZArith NArith QArith List Bool Lia.
From IQ Require Import Counting CountingBridgeDefs.
From IQ.gen Require Import Tables Extra.
Import ListNotations.

(* the model's strategies are exactly the members of CountingStrategy, in the order of the class body and of COUNTING_STRATEGIES *)
Lemma strategies_are_the_enum : map cs_of all_strategies = CS_all /\ CS_COUNTING_STRATEGIES = CS_all.
Proof. split; reflexivity. Qed.
(* the classification predicates of the model are the source's is_unique / is_inconsistent / is_unassigned *)
Lemma classes_are_the_sources t :
  is_unique t = rat_mem (rat_of t) RAT_is_unique /\ is_inconsistent t = rat_mem (rat_of t) RAT_is_inconsistent /\
  is_unassigned t = rat_mem (rat_of t) RAT_is_unassigned.
Proof. destruct t; vm_compute; repeat split. Qed.

(* CountingStrategy.ambiguous / inconsistent_minor / inconsistent / no_inconsistent and CountingStrategyFlags.__init__ *)
Lemma flags_are_the_sources s :
  csf_of (flags_of s) = CSF_init (cs_of s) /\
  s_ambiguous s = CS_mem (cs_of s) CS_ambiguous /\ s_inconsistent_minor s = CS_mem (cs_of s) CS_inconsistent_minor /\
  s_inconsistent s = CS_mem (cs_of s) CS_inconsistent /\ s_no_inconsistent s = CS_mem (cs_of s) CS_no_inconsistent.
Proof. destruct s; vm_compute; repeat split. Qed.

(* ReadWeightCounter.process_ambiguous, for every flag record and every feature count *)
Lemma process_ambiguous_is_the_source fl k : process_ambiguous fl k = py_process_ambiguous (csf_of fl) (Z.of_nat k).
Proof. destruct k as [|[|k]]; [reflexivity|reflexivity|].
  unfold py_process_ambiguous, process_ambiguous, qk, csf_of. cbn [csf_use_ambiguous].
  replace (Z.eqb (Z.of_nat (S (S k))) 0) with false by (symmetry; apply Z.eqb_neq; lia).
  replace (Z.eqb (Z.of_nat (S (S k))) 1) with false by (symmetry; apply Z.eqb_neq; lia).
  reflexivity. Qed.

Lemma is_ia_source t : is_ia t = RAT_eqb (rat_of t) RAT_inconsistent_ambiguous. Proof. destruct t; reflexivity. Qed.
Lemma is_ni_source t : is_ni t = RAT_eqb (rat_of t) RAT_inconsistent_non_intronic. Proof. destruct t; reflexivity. Qed.
Lemma ltb1_source k : Nat.ltb 1 k = Z.gtb (Z.of_nat k) 1.
Proof. destruct (Nat.ltb_spec 1 k); symmetry; [apply Z.gtb_lt; lia|]. rewrite Z.gtb_ltb. apply Z.ltb_ge. lia. Qed.

(* ReadWeightCounter.process_inconsistent, for every flag record, assignment type and feature count *)
Lemma process_inconsistent_is_the_source fl t k :
  process_inconsistent fl t k = py_process_inconsistent (csf_of fl) (rat_of t) (Z.of_nat k).
Proof. unfold py_process_inconsistent, process_inconsistent, qk, csf_of.
  cbn [csf_use_ambiguous csf_use_inconsistent csf_use_inconsistent_minor].
  rewrite is_ia_source, is_ni_source, ltb1_source. reflexivity. Qed.

(* finite sweep over the strategies, lifted to every assignment type and every feature count *)
Theorem weights_are_the_sources : forall s t k,
  process_ambiguous (flags_of s) k = py_process_ambiguous (CSF_init (cs_of s)) (Z.of_nat k) /\
  process_inconsistent (flags_of s) t k = py_process_inconsistent (CSF_init (cs_of s)) (rat_of t) (Z.of_nat k) /\
  csf_of (flags_of s) = CSF_init (cs_of s) /\
  s_no_inconsistent s = CS_mem (cs_of s) CS_no_inconsistent /\
  map cs_of all_strategies = CS_all /\ CS_COUNTING_STRATEGIES = CS_all /\
  is_unique t = rat_mem (rat_of t) RAT_is_unique /\ is_inconsistent t = rat_mem (rat_of t) RAT_is_inconsistent /\
  is_unassigned t = rat_mem (rat_of t) RAT_is_unassigned.
Proof. intros s t k. destruct (flags_are_the_sources s) as (F & _ & _ & _ & NI). destruct (classes_are_the_sources t) as (U & I & N).
  rewrite <- F. split; [apply process_ambiguous_is_the_source|]. split; [apply process_inconsistent_is_the_source|].
  split; [reflexivity|]. split; [exact NI|]. split; [reflexivity|]. split; [reflexivity|]. split; [exact U|]. split; [exact I|exact N]. Qed.

(* the weight of a record as a function of strategy, type and count, written with the source's functions only *)
Corollary weight_tk_is_the_source s t k :
  weight_tk (flags_of s) t k =
  let fl := CSF_init (cs_of s) in
  if rat_mem (rat_of t) RAT_is_unique then 1%Q
  else if RAT_eqb (rat_of t) RAT_ambiguous then py_process_ambiguous fl (Z.of_nat k)
  else if rat_mem (rat_of t) RAT_is_inconsistent then py_process_inconsistent fl (rat_of t) (Z.of_nat k)
  else 0%Q.
Proof. destruct (weights_are_the_sources s t k) as (A & I & _). cbv zeta. rewrite <- A, <- I. destruct t; reflexivity. Qed.
