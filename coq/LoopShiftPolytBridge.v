(* C16: PolyA2.shift_polyt is shift_polyt of src/polya_verification.py as regenerated into gen/Loops.v (tools/translate_loops.py, on every check).
   The exon list is read with Python indices (negative = from the end): the equality holds for every exon count the code can be called
   with, 0 <= exon_count <= len(read_exons), and for those the exception-freedom condition py_shift_polyt_pre holds. *)
From Coq Require Import ZArith List Bool Lia ZifyBool.
From IQ.gen Require Import Prims Loops.
From IQ Require Import Cigar PolyA PolyA2 LoopsSupport LoopsIndexSupport.
Import ListNotations. Open Scope Z_scope.

Lemma shift_polyt_loop exons pos k0 : forall k a, (k <= length exons)%nat ->
  fold_left (py_shift_polyt_step exons k0 pos) (seq 0 k) a = fold_left (dist_step_t pos) (firstn k exons) a.
Proof. intros k a H. rewrite <- (fold_seq_nth_firstn (dist_step_t pos) (0, 0) k exons a) by exact H.
  apply fold_left_ext. intros s i. unfold py_shift_polyt_step. cbv zeta. rewrite py_index_nonneg. reflexivity. Qed.
Theorem shift_polyt_is_the_source exons k pos : 0 <= k <= Z.of_nat (length exons) ->
  PolyA2.shift_polyt exons k pos = py_shift_polyt exons k pos /\ py_shift_polyt_pre exons k pos = true.
Proof. intros H. unfold PolyA2.shift_polyt, py_shift_polyt, py_shift_polyt_pre.
  destruct ((k =? 0) || (k =? Z.of_nat (length exons)) || (pos =? -1)) eqn:G; [split; reflexivity|].
  assert (K: 0 < k < Z.of_nat (length exons)) by lia. cbv zeta. split.
  - rewrite shift_polyt_loop by lia. replace k with (Z.of_nat (Z.to_nat k)) at 3 by lia. rewrite py_index_nonneg. reflexivity.
  - cbn [orb]. apply andb_true_intro. split; [unfold py_index_ok; lia|]. apply forallb_forall. intros i Hi. apply in_seq in Hi. unfold py_index_ok. lia. Qed.
