(* C15 — the binary save format of read assignments (src/serialization.py, src/isoform_assignment.py,
   src/gene_info.py, src/assignment_io.py, src/dataset_processor.py), modelled as codecs
   {enc; dec; dom} with round-trip theorems  dec (enc a ++ rest) = Some (a, rest)  for a in dom.

   Conventions
   - a byte is an N (Codec0.byte); integers of the records are Z; strings are lists of Unicode code points (N);
   - `dec` returns None where the real reader raises (ValueError of an enum constructor / of read_dict,
     UnicodeDecodeError, IndexError of the abridged reader) and where the input is shorter than the record
     (the real reader silently reads short there: truncated files are outside the model);
   - every record decoder is written statement by statement in the order of the Python reader, every encoder
     in the order of the Python writer; the abridged reader (deserialize_from_read_assignment) is a separate
     definition that mirrors its own Python text, NOT derived from the full decoder;
   - `sg : bool` selects how read_dict reads integer values: true = read_int_neg (repaired code,
     fixes/C15_read_dict_sign.diff), false = read_int (code before the repair). *)
From Coq Require Import ZArith NArith List Bool Lia ZifyBool ZifyN QArith Qround Lqa.
Import ListNotations.
From IQ Require Import Codec0 SaveFormat CorrSupport.
From IQ.gen Require Import Tables.
Open Scope N_scope.

Notation "'do' ( x , r ) <- e ; k" := (match e with Some (x, r) => k | None => None end)
  (at level 200, x name, r name, e at level 100, k at level 200).

(* exception classes used by the checked writers (harness side: OverflowError = 1, AssertionError = 2,
   ValueError = 3, UnicodeError = 4, IndexError = 5, TypeError/other = 6, EOF of the strict harness stream = 7) *)
Definition E_OVERFLOW : N := 1.
Definition E_ASSERT : N := 2.
Definition E_VALUE : N := 3.

(* the constants of serialization.py as regenerated from the sources agree with the literals used below *)
Lemma ser_constants_agree :
  SER_STR_LEN_BYTES = 2 /\ SER_NONE_STR_LEN = 65535 /\ SER_SHORT_INT_BYTES = 2 /\ SER_LONG_INT_BYTES = 4 /\
  SER_TERMINATION_INT = 4294967295 /\ SER_SHORT_TERMINATION_INT = 65535 /\ SER_SHORT_FLOAT_MULTIPLIER = 1048576 /\
  SER_DICT_TYPE_LEN = 1 /\ SER_DICT_INT_TYPE = 9 /\ SER_DICT_INT_PAIR_TYPE = 10 /\ SER_DICT_STR_TYPE = 17.
Proof. repeat split; reflexivity. Qed.

(* ------------------------------------------------------------------ unsigned integers: write_int / read_int *)
Definition c_u32 : codec Z :=
 {| enc := fun v => enc_be 4 (Z.to_N v);
    dec := fun l => do (n, r) <- dec_be 4 l; Some (Z.of_N n, r);
    dom := fun v => (0 <= v < 4294967296)%Z |}.
Definition c_u16 : codec Z :=
 {| enc := fun v => enc_be 2 (Z.to_N v);
    dec := fun l => do (n, r) <- dec_be 2 l; Some (Z.of_N n, r);
    dom := fun v => (0 <= v < 65536)%Z |}.
Lemma rt_u32 : rt c_u32.
Proof. intros v rest D. cbn [enc dec dom c_u32] in *. rewrite be_roundtrip by (change (256 ^ N.of_nat 4) with 4294967296; lia).
  rewrite Z2N.id by lia. reflexivity. Qed.
Lemma rt_u16 : rt c_u16.
Proof. intros v rest D. cbn [enc dec dom c_u16] in *. rewrite be_roundtrip by (change (256 ^ N.of_nat 2) with 65536; lia).
  rewrite Z2N.id by lia. reflexivity. Qed.

(* val.to_bytes(w, "big") raises OverflowError for negative values and values of more than w bytes *)
Definition write_int_chk (w:nat) (v:Z) : outcome (list byte) :=
  if ((0 <=? v) && (v <? Z.of_N (256 ^ N.of_nat w)))%Z then Ok (enc_be w (Z.to_N v)) else Raises E_OVERFLOW.
(* write_int_neg: assert on bit 31 of |v|, then to_bytes(4) *)
Definition write_int_neg_chk (v:Z) : outcome (list byte) :=
  let a := Z.abs v in
  if Z.testbit a 31 then Raises E_ASSERT
  else let a' := (if v <? 0 then a + 2147483648 else a)%Z in write_int_chk 4 a'.
Lemma write_int_chk_dom v : dom c_u32 v -> write_int_chk 4 v = Ok (enc c_u32 v).
Proof. cbn [dom c_u32]. intros D. unfold write_int_chk. change (Z.of_N (256 ^ N.of_nat 4)) with 4294967296%Z.
  destruct ((0 <=? v)%Z && (v <? 4294967296)%Z) eqn:E; [reflexivity|lia]. Qed.
Lemma testbit31_small a : (0 <= a < 2147483648)%Z -> Z.testbit a 31 = false.
Proof. intros H. destruct (Z.eq_dec a 0) as [->|Hn]; [reflexivity|]. apply Z.bits_above_log2; [lia|].
  apply Z.log2_lt_pow2; [lia|]. change (2 ^ 31)%Z with 2147483648%Z. lia. Qed.
Lemma write_int_neg_chk_dom v : dom c_neg v -> write_int_neg_chk v = Ok (enc c_neg v).
Proof. cbn [dom c_neg enc]. intros D. unfold write_int_neg_chk, enc_neg.
  rewrite testbit31_small by lia. unfold write_int_chk. change (Z.of_N (256 ^ N.of_nat 4)) with 4294967296%Z.
  destruct (v <? 0)%Z eqn:E.
  - destruct ((0 <=? Z.abs v + 2147483648)%Z && (Z.abs v + 2147483648 <? 4294967296)%Z) eqn:E2; [|lia].
    f_equal. f_equal. lia.
  - destruct ((0 <=? Z.abs v)%Z && (Z.abs v <? 4294967296)%Z) eqn:E2; [|lia]. f_equal. f_equal. lia. Qed.

(* ------------------------------------------------------------------ strings: code points, UTF-8 bytes, length prefix *)
Definition str := list N.
Definition utf8_cp (c:N) : list byte :=
  if c <? 128 then [c]
  else if c <? 2048 then [192 + c / 64; 128 + c mod 64]
  else if c <? 65536 then [224 + c / 4096; 128 + (c / 64) mod 64; 128 + c mod 64]
  else [240 + c / 262144; 128 + (c / 4096) mod 64; 128 + (c / 64) mod 64; 128 + c mod 64].
Definition utf8 (s:str) : list byte := flat_map utf8_cp s.
Definition is_cont (b:N) : bool := (128 <=? b) && (b <? 192).
Definition ocons (c:N) (o:option str) : option str := match o with Some s => Some (c :: s) | None => None end.
(* strict decoder (rejects truncated sequences, overlong forms, surrogates, > U+10FFFF) like Python's *)
Fixpoint utf8_dec (l:list byte) : option str :=
  match l with
  | [] => Some []
  | b0 :: t =>
    if b0 <? 128 then ocons b0 (utf8_dec t)
    else if (194 <=? b0) && (b0 <? 224) then
      match t with
      | b1 :: t1 => if is_cont b1 then ocons ((b0 - 192) * 64 + (b1 - 128)) (utf8_dec t1) else None
      | _ => None end
    else if (224 <=? b0) && (b0 <? 240) then
      match t with
      | b1 :: b2 :: t2 =>
        if is_cont b1 && is_cont b2 then
          let c := (b0 - 224) * 4096 + (b1 - 128) * 64 + (b2 - 128) in
          if (2048 <=? c) && negb ((55296 <=? c) && (c <? 57344)) then ocons c (utf8_dec t2) else None
        else None
      | _ => None end
    else if (240 <=? b0) && (b0 <? 245) then
      match t with
      | b1 :: b2 :: b3 :: t3 =>
        if is_cont b1 && is_cont b2 && is_cont b3 then
          let c := (b0 - 240) * 262144 + (b1 - 128) * 4096 + (b2 - 128) * 64 + (b3 - 128) in
          if (65536 <=? c) && (c <? 1114112) then ocons c (utf8_dec t3) else None
        else None
      | _ => None end
    else None
  end.
Definition ascii (s:str) : Prop := Forall (fun c => c < 128) s.
Lemma utf8_ascii s : ascii s -> utf8 s = s.
Proof. induction 1 as [|c t Hc _ IH]; [reflexivity|]. cbn [utf8 flat_map]. fold (utf8 t). rewrite IH. unfold utf8_cp.
  destruct (c <? 128) eqn:E; [reflexivity|lia]. Qed.
Lemma utf8_dec_ascii s : ascii s -> utf8_dec s = Some s.
Proof. induction 1 as [|c t Hc _ IH]; [reflexivity|]. cbn [utf8_dec]. destruct (c <? 128) eqn:E; [|lia]. rewrite IH. reflexivity. Qed.

(* every Unicode scalar value (code points 0 .. U+10FFFF without the surrogates U+D800 .. U+DFFF: what a Python str encodes to UTF-8) *)
Definition scalar (c:N) : bool := (c <? 55296) || ((57344 <=? c) && (c <? 1114112)).
Definition text (s:str) : Prop := Forall (fun c => scalar c = true) s.
Lemma ascii_text s : ascii s -> text s.
Proof. apply Forall_impl. intros c H. unfold scalar. lia. Qed.

Ltac ifs := repeat match goal with |- context[if ?b then _ else _] => let E := fresh "E" in destruct b eqn:E; try lia end.
(* the strict decoder inverts the encoder, code point by code point *)
Lemma utf8_dec_cp c t : scalar c = true -> utf8_dec (utf8_cp c ++ t) = ocons c (utf8_dec t).
Proof. unfold scalar, utf8_cp. intros H.
  destruct (c <? 128) eqn:E1; [cbn [app utf8_dec]; rewrite E1; reflexivity|].
  pose proof (N.div_mod' c 64) as D0. pose proof (N.mod_lt c 64 ltac:(lia)) as M0.
  destruct (c <? 2048) eqn:E2.
  { set (q := c / 64) in *. set (r := c mod 64) in *. clearbody q r. cbn [app utf8_dec]. unfold is_cont. ifs. f_equal. lia. }
  pose proof (N.div_mod' (c / 64) 64) as D1. pose proof (N.mod_lt (c / 64) 64 ltac:(lia)) as M1.
  destruct (c <? 65536) eqn:E3.
  { replace (c / 4096) with (c / 64 / 64) by (rewrite N.div_div by lia; reflexivity).
    set (q0 := c / 64) in *. set (r0 := c mod 64) in *. set (q1 := q0 / 64) in *. set (r1 := q0 mod 64) in *. clearbody q0 r0 q1 r1.
    cbn [app utf8_dec]. unfold is_cont. cbv zeta. ifs. f_equal. lia. }
  pose proof (N.div_mod' (c / 64 / 64) 64) as D2. pose proof (N.mod_lt (c / 64 / 64) 64 ltac:(lia)) as M2.
  replace (c / 262144) with (c / 64 / 64 / 64) by (rewrite !N.div_div by lia; reflexivity).
  replace (c / 4096) with (c / 64 / 64) by (rewrite N.div_div by lia; reflexivity).
  set (q0 := c / 64) in *. set (r0 := c mod 64) in *. set (q1 := q0 / 64) in *. set (r1 := q0 mod 64) in *.
  set (q2 := q1 / 64) in *. set (r2 := q1 mod 64) in *. clearbody q0 r0 q1 r1 q2 r2.
  cbn [app utf8_dec]. unfold is_cont. cbv zeta. ifs. f_equal. lia. Qed.
Lemma utf8_roundtrip s : text s -> utf8_dec (utf8 s) = Some s.
Proof. induction 1 as [|c t Hc _ IH]; [reflexivity|]. cbn [utf8 flat_map]. fold (utf8 t). rewrite utf8_dec_cp by exact Hc. rewrite IH. reflexivity. Qed.
Definition blen (s:str) : N := N.of_nat (length (utf8 s)).       (* len(s.encode('utf-8')) *)
Lemma blen_ascii s : ascii s -> blen s = N.of_nat (length s).
Proof. intros H. unfold blen. rewrite utf8_ascii by exact H. reflexivity. Qed.

(* write_string / read_string (after fixes/C15_string_length_in_bytes.diff): the 2-byte prefix is the number of UTF-8 BYTES, which is what
   the reader takes.  Domain: any text whose encoding is shorter than 2^16 bytes *)
Definition dec_str (l:list byte) : option (str * list byte) :=
  do (n, r) <- dec_be 2 l; do (b, r') <- take_n (N.to_nat n) r;
  match utf8_dec b with Some s => Some (s, r') | None => None end.
Definition c_str : codec str :=
 {| enc := fun s => enc_be 2 (blen s) ++ utf8 s;
    dec := dec_str;
    dom := fun s => blen s < 65536 /\ text s |}.
Lemma rt_str : rt c_str.
Proof. intros s rest [Hl Ha]. cbn [enc dec c_str]. unfold dec_str, blen in *. rewrite <- app_assoc, be_roundtrip by exact Hl.
  rewrite Nnat.Nat2N.id, take_n_app, utf8_roundtrip by exact Ha. reflexivity. Qed.
(* the code before that repair: the prefix is the number of CHARACTERS; the reader is the same.  Only ASCII strings survive *)
Definition c_str_unrepaired : codec str :=
 {| enc := fun s => enc_be 2 (N.of_nat (length s)) ++ utf8 s;
    dec := dec_str;
    dom := fun s => N.of_nat (length s) < 65536 /\ ascii s |}.
Lemma rt_str_unrepaired : rt c_str_unrepaired.
Proof. intros s rest [Hl Ha]. cbn [enc dec c_str_unrepaired]. unfold dec_str. rewrite <- app_assoc, be_roundtrip by exact Hl.
  rewrite utf8_ascii by exact Ha. rewrite Nnat.Nat2N.id, take_n_app, utf8_dec_ascii by exact Ha. reflexivity. Qed.
(* on ASCII strings the two writers produce the same bytes *)
Lemma enc_str_ascii s : ascii s -> enc c_str s = enc c_str_unrepaired s.
Proof. intros H. cbn [enc c_str c_str_unrepaired]. rewrite blen_ascii by exact H. reflexivity. Qed.
(* sb = true: repaired writer; an encoding of 2^16 bytes or more does not fit the prefix (OverflowError of int.to_bytes) *)
Definition write_string_chk (sb:bool) (s:str) : outcome (list byte) :=
  if sb then (if blen s <? 65536 then Ok (enc c_str s) else Raises E_OVERFLOW)
  else (if N.of_nat (length s) <? 65536 then Ok (enc c_str_unrepaired s) else Raises E_OVERFLOW).

(* write_string_or_none / read_string_or_none: length 65535 is the None marker *)
Definition dec_str_opt (l:list byte) : option (option str * list byte) :=
  do (n, r) <- dec_be 2 l;
  if n =? 65535 then Some (None, r)
  else do (b, r') <- take_n (N.to_nat n) r;
       match utf8_dec b with Some s => Some (Some s, r') | None => None end.
Definition c_str_opt : codec (option str) :=
 {| enc := fun o => match o with None => enc_be 2 65535 | Some s => enc c_str s end;
    dec := dec_str_opt;
    dom := fun o => match o with None => True | Some s => blen s < 65535 /\ text s end |}.
Lemma rt_str_opt : rt c_str_opt.
Proof. intros [s|] rest D; cbn [enc dec c_str_opt c_str]; unfold dec_str_opt.
  - destruct D as [Hl Ha]. unfold blen in *. rewrite <- app_assoc, be_roundtrip by (change (256 ^ N.of_nat 2) with 65536; lia).
    destruct (N.of_nat (length (utf8 s)) =? 65535) eqn:E; [lia|].
    rewrite Nnat.Nat2N.id, take_n_app, utf8_roundtrip by exact Ha. reflexivity.
  - rewrite be_roundtrip by (vm_compute; reflexivity). reflexivity. Qed.
Definition c_str_opt_unrepaired : codec (option str) :=
 {| enc := fun o => match o with None => enc_be 2 65535 | Some s => enc c_str_unrepaired s end;
    dec := dec_str_opt;
    dom := fun o => match o with None => True | Some s => N.of_nat (length s) < 65535 /\ ascii s end |}.
Lemma rt_str_opt_unrepaired : rt c_str_opt_unrepaired.
Proof. intros [s|] rest D; cbn [enc dec c_str_opt_unrepaired c_str_unrepaired]; unfold dec_str_opt.
  - destruct D as [Hl Ha]. rewrite <- app_assoc, be_roundtrip by (change (256 ^ N.of_nat 2) with 65536; lia).
    destruct (N.of_nat (length s) =? 65535) eqn:E; [lia|].
    rewrite utf8_ascii by exact Ha. rewrite Nnat.Nat2N.id, take_n_app, utf8_dec_ascii by exact Ha. reflexivity.
  - rewrite be_roundtrip by (vm_compute; reflexivity). reflexivity. Qed.
Definition write_string_or_none_chk (sb:bool) (o:option str) : outcome (list byte) :=
  match o with None => Ok (enc c_str_opt None) | Some s => write_string_chk sb s end.

(* outside the documented domain of the UNREPAIRED writer (known finding C15:string-length-in-characters) *)
(* "e-acute": one character, two bytes; the reader takes one byte and fails to decode it *)
Lemma non_ascii_string_refuted : dec c_str_unrepaired (enc c_str_unrepaired [233]) = None /\ dec c_str (enc c_str [233]) = Some ([233], []).
Proof. vm_compute. split; reflexivity. Qed.
(* "e-acute a": the reader returns a different string and leaves one byte unread: the stream is misaligned *)
Lemma non_ascii_string_misaligned_refuted : forall rest,
  dec c_str_unrepaired (enc c_str_unrepaired [233; 97] ++ rest) = Some ([233], 97 :: rest) /\ dec c_str (enc c_str [233; 97] ++ rest) = Some ([233; 97], rest).
Proof. intros rest. vm_compute. split; reflexivity. Qed.
(* a string of exactly 65535 bytes written by write_string_or_none reads back as None, its bytes stay unread *)
Lemma len65535_or_none_refuted : forall s, blen s = 65535 ->
  forall rest, dec c_str_opt (enc c_str_opt (Some s) ++ rest) = Some (None, utf8 s ++ rest).
Proof. intros s H rest. cbn [enc dec c_str_opt c_str]. unfold dec_str_opt. rewrite H. rewrite <- app_assoc.
  rewrite be_roundtrip by (vm_compute; reflexivity). rewrite N.eqb_refl. reflexivity. Qed.

(* ------------------------------------------------------------------ bool arrays: one byte, bit i = element i *)
Fixpoint bools_val (l:list bool) : N := match l with [] => 0 | b :: t => b2n b + 2 * bools_val t end.
Fixpoint bools_of (n:nat) (v:N) : list bool := match n with O => [] | Datatypes.S k => N.odd v :: bools_of k (v / 2) end.
Definition c_bools (n:nat) : codec (list bool) :=
 {| enc := fun l => [bools_val l];
    dec := fun l => match l with [] => None | x :: r => Some (bools_of n x, r) end;
    dom := fun l => length l = n /\ (n <= 8)%nat |}.
Lemma bools_of_val l : bools_of (length l) (bools_val l) = l.
Proof. induction l as [|b t IH]; [reflexivity|]. cbn [length bools_of bools_val].
  assert (H1: N.odd (b2n b + 2 * bools_val t) = b).
  { rewrite N.odd_add_mul_2. destruct b; reflexivity. }
  assert (H2: (b2n b + 2 * bools_val t) / 2 = bools_val t).
  { symmetry. apply N.div_unique with (r := b2n b); destruct b; cbn [b2n]; lia. }
  rewrite H1, H2, IH. reflexivity. Qed.
Lemma rt_bools n : rt (c_bools n).
Proof. intros l rest [Hl _]. cbn [enc dec c_bools app]. subst n. rewrite bools_of_val. reflexivity. Qed.
Definition write_bool_array_chk (l:list bool) : outcome (list byte) :=
  if (length l <=? 8)%nat then Ok [bools_val l] else Raises E_ASSERT.

(* ------------------------------------------------------------------ enum members: 2 bytes, constructor rejects other values *)
Definition c_enum {E} (value:E -> N) (all:list E) : codec E :=
 {| enc := fun x => enc_be 2 (value x);
    dec := fun l => do (n, r) <- dec_be 2 l;
                    match find (fun y => value y =? n) all with Some y => Some (y, r) | None => None end;
    dom := fun x => value x < 65536 /\ find (fun y => value y =? value x) all = Some x |}.
Lemma rt_enum {E} (value:E -> N) all : rt (c_enum value all).
Proof. intros x rest [Hv Hf]. cbn [enc dec c_enum]. rewrite be_roundtrip by exact Hv. rewrite Hf. reflexivity. Qed.
Definition c_rat := c_enum RAT_value RAT_all.
Definition c_mes := c_enum MES_value MES_all.
Definition c_mc := c_enum MC_value MC_all.
(* every member of the regenerated enums is in the domain: values fit two bytes and identify the member *)
Lemma rat_dom_all : forall x, dom c_rat x. Proof. intros x; destruct x; split; reflexivity. Qed.
Lemma mes_dom_all : forall x, dom c_mes x. Proof. intros x; destruct x; split; reflexivity. Qed.
Lemma mc_dom_all : forall x, dom c_mc x. Proof. intros x; destruct x; split; reflexivity. Qed.

(* ------------------------------------------------------------------ write_list / read_list.  Same bytes as Codec0.c_list; the decoder
   refuses a count larger than the number of unread bytes before iterating (every element takes at least one byte, so the
   real reader runs off the end of the stream in that case) - this keeps evaluation on corrupted streams bounded. *)
Definition c_listg {A} (c:codec A) : codec (list A) :=
 {| enc := enc (c_list c);
    dec := fun b => do (n, r) <- dec_be 4 b; if N.of_nat (length r) <? n then None else dec_n c (N.to_nat n) r;
    dom := dom (c_list c) |}.
Lemma enc_list_len {A} (c:codec A) : (forall x, enc c x <> []) -> forall l, (length l <= length (enc_list c l))%nat.
Proof. intros Hne l; induction l as [|x t IH]; [apply le_n|]. cbn [enc_list length]. rewrite app_length.
  specialize (Hne x). destruct (enc c x); [congruence|]. cbn [length]. lia. Qed.
Lemma rt_listg {A} (c:codec A) : rt c -> (forall x, enc c x <> []) -> rt (c_listg c).
Proof. intros H Hne l rest D. pose proof (rt_list c H l rest D) as E. cbn [enc dec c_listg c_list] in *.
  rewrite <- app_assoc in *. destruct D as [Hl _]. rewrite be_roundtrip in * by exact Hl.
  pose proof (enc_list_len c Hne l). destruct (N.of_nat (length (enc_list c l ++ rest)) <? N.of_nat (length l)) eqn:G.
  - rewrite app_length in G. lia.
  - exact E. Qed.
Ltac ne := intros ?x; cbn [enc c_pair c_u32 c_u16 c_neg c_str c_str_opt]; unfold enc_neg; cbn [enc_be app]; discriminate.

(* ------------------------------------------------------------------ dictionaries *)
Definition str_eqb (a b:str) : bool := list_eqb N.eqb a b.
Lemma str_eqb_eq a b : str_eqb a b = true <-> a = b.
Proof. unfold str_eqb. revert b; induction a as [|x s IH]; intros [|y t]; cbn [list_eqb]; try (split; congruence).
  rewrite andb_true_iff, N.eqb_eq, IH. split; [intros [-> ->]; reflexivity|intros H; inversion H; auto]. Qed.
Inductive dval := DInt (v:Z) | DStr (s:str) | DPair (a b:Z).
Definition enc_dval (v:dval) : list byte :=
  match v with
  | DInt x => [9] ++ enc c_neg x
  | DStr s => [17] ++ enc c_str s
  | DPair a b => [10] ++ enc c_neg a ++ enc c_neg b end.
Definition c_dint (sg:bool) : codec Z := if sg then c_neg else c_u32.
Definition dec_dval (sg:bool) (l:list byte) : option (dval * list byte) :=
  match l with
  | [] => None
  | t :: r =>
    if t =? 9 then do (x, r1) <- dec (c_dint sg) r; Some (DInt x, r1)
    else if t =? 17 then do (s, r1) <- dec c_str r; Some (DStr s, r1)
    else if t =? 10 then do (a, r1) <- dec (c_dint sg) r; do (b, r2) <- dec (c_dint sg) r1; Some (DPair a b, r2)
    else None
  end.
Definition dint_dom (sg:bool) (v:Z) : Prop := if sg then (-2147483648 < v < 2147483648)%Z else (0 <= v < 2147483648)%Z.
Definition c_dval (sg:bool) : codec dval :=
 {| enc := enc_dval; dec := dec_dval sg;
    dom := fun v => match v with DInt x => dint_dom sg x | DStr s => dom c_str s | DPair a b => dint_dom sg a /\ dint_dom sg b end |}.
Lemma rt_dint sg v rest : dint_dom sg v -> dec (c_dint sg) (enc c_neg v ++ rest) = Some (v, rest).
Proof. destruct sg; cbn [dint_dom c_dint]; intros D.
  - apply rt_neg. exact D.
  - cbn [enc c_neg]. unfold enc_neg. destruct (v <? 0)%Z eqn:E; [lia|]. apply rt_u32. cbn [dom c_u32]. lia. Qed.
Lemma rt_dval sg : rt (c_dval sg).
Proof. intros [x|s|a b] rest D; cbn [enc dec c_dval enc_dval dec_dval app dom] in *.
  - change (9 =? 9) with true. cbv beta iota. rewrite rt_dint by exact D. reflexivity.
  - change (17 =? 9) with false. change (17 =? 17) with true. cbv beta iota.
    rewrite (rt_str s rest D). reflexivity.
  - change (10 =? 9) with false. change (10 =? 17) with false. change (10 =? 10) with true. cbv beta iota.
    destruct D as [Da Db]. rewrite <- app_assoc, rt_dint by exact Da. rewrite rt_dint by exact Db. reflexivity. Qed.

Definition dict := list (str * dval).
Fixpoint dict_set (k:str) (v:dval) (d:dict) : dict :=
  match d with [] => [(k, v)] | (k', v') :: t => if str_eqb k k' then (k', v) :: t else (k', v') :: dict_set k v t end.
Definition dict_of (l:list (str * dval)) : dict := fold_left (fun d e => dict_set (fst e) (snd e) d) l [].
Definition c_entry (sg:bool) := c_pair c_str (c_dval sg).
Definition c_dict (sg:bool) : codec dict :=
 {| enc := enc (c_listg (c_entry sg));
    dec := fun l => do (es, r) <- dec (c_listg (c_entry sg)) l; Some (dict_of es, r);
    dom := fun d => dom (c_listg (c_entry sg)) d /\ NoDup (map fst d) |}.
Lemma dict_set_fresh k v d : ~ In k (map fst d) -> dict_set k v d = d ++ [(k, v)].
Proof. induction d as [|[k' v'] t IH]; intros H; [reflexivity|]. cbn [dict_set app].
  destruct (str_eqb k k') eqn:E. { apply str_eqb_eq in E. subst. exfalso. apply H. left. reflexivity. }
  rewrite IH; [reflexivity|]. intros Hi. apply H. right. exact Hi. Qed.
Lemma dict_of_nodup l : NoDup (map fst l) -> dict_of l = l.
Proof. unfold dict_of. intros H.
  assert (G: forall acc, NoDup (map fst (acc ++ l)) -> fold_left (fun d e => dict_set (fst e) (snd e) d) l acc = acc ++ l).
  { clear H. induction l as [|[k v] t IH]; intros acc Hn; cbn [fold_left].
    - rewrite app_nil_r. reflexivity.
    - cbn [fst snd]. rewrite dict_set_fresh.
      + rewrite IH; rewrite <- app_assoc; [reflexivity|exact Hn].
      + rewrite map_app in Hn. cbn [map fst] in Hn. apply NoDup_remove_2 in Hn. intros Hi. apply Hn.
        apply in_or_app. left. exact Hi. }
  apply (G []). exact H. Qed.
Lemma rt_entry sg : rt (c_entry sg). Proof. apply rt_pair; [apply rt_str|apply rt_dval]. Qed.
Lemma ne_entry sg : forall x, enc (c_entry sg) x <> []. Proof. unfold c_entry. ne. Qed.
Lemma rt_dict sg : rt (c_dict sg).
Proof. intros d rest [D Hn]. cbn [enc dec c_dict]. rewrite (rt_listg (c_entry sg) (rt_entry sg) (ne_entry sg) d rest D).
  rewrite dict_of_nodup by exact Hn. reflexivity. Qed.
(* the reader before the repair: a negative value comes back as 2^31 + |v| *)
Lemma dict_negative_int_refuted :
  dec (c_dict false) (enc (c_dict false) [([97], DInt (-5)); ([98], DPair (-1) 3)]) =
  Some ([([97], DInt 2147483653); ([98], DPair 2147483649 3)], []).
Proof. vm_compute. reflexivity. Qed.
Lemma dict_negative_int_repaired :
  dec (c_dict true) (enc (c_dict true) [([97], DInt (-5)); ([98], DPair (-1) 3)]) = Some ([([97], DInt (-5)); ([98], DPair (-1) 3)], []).
Proof. vm_compute. reflexivity. Qed.

(* ------------------------------------------------------------------ lists used by the records *)
Definition c_zpair := c_pair c_u32 c_u32.                       (* one element of write_list_of_pairs(.., write_int) *)
Lemma rt_zpair : rt c_zpair. Proof. apply rt_pair; apply rt_u32. Qed.
Definition c_pairs := c_listg c_zpair.                          (* write_list_of_pairs / read_list_of_pairs *)
Lemma rt_pairs : rt c_pairs. Proof. apply rt_listg; [apply rt_zpair|unfold c_zpair; ne]. Qed.
Definition c_negs := c_listg c_neg.                             (* write_list(.., write_int_neg) *)
Lemma rt_negs : rt c_negs. Proof. apply rt_listg; [apply rt_neg|ne]. Qed.
Definition c_strs := c_listg c_str.                             (* write_list(.., write_string) *)
Lemma rt_strs : rt c_strs. Proof. apply rt_listg; [apply rt_str|ne]. Qed.

(* rewriting with a round-trip lemma, the side condition being one of the hypotheses *)
Ltac rts :=
  repeat (first [ rewrite rt_u32 by assumption | rewrite rt_u16 by assumption | rewrite rt_neg by assumption
                | rewrite rt_str by assumption | rewrite rt_str_opt by assumption | rewrite (rt_bools _) by assumption
                | rewrite (rt_enum _ _) by assumption | rewrite rt_pairs by assumption | rewrite rt_negs by assumption
                | rewrite rt_strs by assumption | rewrite (rt_dict _) by assumption ]; cbv beta iota).

(* ------------------------------------------------------------------ MatchEvent *)
Record event := MkEvent { ev_type : MES; ev_iso : Z * Z; ev_read : Z * Z; ev_info : Z }.
Definition enc_event (e:event) : list byte :=
  enc c_mes (ev_type e) ++ enc c_u32 (fst (ev_iso e)) ++ enc c_u32 (snd (ev_iso e)) ++
  enc c_u32 (fst (ev_read e)) ++ enc c_u32 (snd (ev_read e)) ++ enc c_neg (ev_info e).
Definition dec_event (l:list byte) : option (event * list byte) :=
  do (t, r) <- dec c_mes l;
  do (i0, r) <- dec c_u32 r; do (i1, r) <- dec c_u32 r;
  do (r0, r) <- dec c_u32 r; do (r1, r) <- dec c_u32 r;
  do (x, r) <- dec c_neg r;
  Some (MkEvent t (i0, i1) (r0, r1) x, r).
Definition dom_event (e:event) : Prop :=
  dom c_mes (ev_type e) /\ dom c_u32 (fst (ev_iso e)) /\ dom c_u32 (snd (ev_iso e)) /\
  dom c_u32 (fst (ev_read e)) /\ dom c_u32 (snd (ev_read e)) /\ dom c_neg (ev_info e).
Definition c_event : codec event := {| enc := enc_event; dec := dec_event; dom := dom_event |}.
Lemma rt_event : rt c_event.
Proof. intros [t [i0 i1] [r0 r1] x] rest D. cbn [enc dec dom c_event] in *. unfold dom_event, enc_event, dec_event in *.
  cbn [ev_type ev_iso ev_read ev_info fst snd] in *. destruct D as (D1 & D2 & D3 & D4 & D5 & D6).
  repeat rewrite <- app_assoc. unfold c_mes in *. rts. reflexivity. Qed.
Definition c_events := c_listg c_event.
Lemma rt_events : rt c_events.
Proof. apply rt_listg; [apply rt_event|]. intros x. cbn [enc c_event]. unfold enc_event, c_mes. cbn [enc c_enum enc_be app]. discriminate. Qed.

(* ------------------------------------------------------------------ IsoformMatch; the penalty is the fixed-point integer
   int(penalty_score * 2^20) (see enc_penalty below) *)
Record imatch := MkMatch { m_gene : option str; m_tr : option str; m_strand : str; m_class : MC; m_penalty : Z; m_events : list event }.
Definition enc_match (m:imatch) : list byte :=
  enc c_str_opt (m_gene m) ++ enc c_str_opt (m_tr m) ++ enc c_str (m_strand m) ++ enc c_mc (m_class m) ++
  enc c_u32 (m_penalty m) ++ enc c_events (m_events m).
Definition dec_match (l:list byte) : option (imatch * list byte) :=
  do (g, r) <- dec c_str_opt l;
  do (t, r) <- dec c_str_opt r;
  do (s, r) <- dec c_str r;
  do (c, r) <- dec c_mc r;
  do (p, r) <- dec c_u32 r;
  do (es, r) <- dec c_events r;
  Some (MkMatch g t s c p es, r).
Definition dom_match (m:imatch) : Prop :=
  dom c_str_opt (m_gene m) /\ dom c_str_opt (m_tr m) /\ dom c_str (m_strand m) /\ dom c_mc (m_class m) /\
  dom c_u32 (m_penalty m) /\ dom c_events (m_events m).
Definition c_match : codec imatch := {| enc := enc_match; dec := dec_match; dom := dom_match |}.
Lemma rt_match : rt c_match.
Proof. intros [g t s c p es] rest D. cbn [enc dec dom c_match] in *. unfold dom_match, enc_match, dec_match in *.
  cbn [m_gene m_tr m_strand m_class m_penalty m_events] in *. destruct D as (D1 & D2 & D3 & D4 & D5 & D6).
  repeat rewrite <- app_assoc. unfold c_mc in *. rts. rewrite rt_events by assumption. reflexivity. Qed.
Definition c_matches := c_listg c_match.
Lemma rt_matches : rt c_matches.
Proof. apply rt_listg; [apply rt_match|]. intros x. cbn [enc c_match]. unfold enc_match. destruct (m_gene x); cbn [enc c_str_opt c_str enc_be app]; discriminate. Qed.

(* ------------------------------------------------------------------ ReadAssignment (gene_info and corrected_introns are re-derived, not stored) *)
Record rassign := MkRA {
  ra_id : Z; ra_read_id : str; ra_region : Z * Z; ra_exons : list (Z * Z); ra_corrected : list (Z * Z);
  ra_flags : list bool;                      (* [multimapper; polyA_found; cage_found] *)
  ra_polya : Z * Z * Z * Z;                  (* external polyA, external polyT, internal polyA, internal polyT *)
  ra_group : str; ra_mapped_strand : str; ra_strand : str; ra_chr : str;
  ra_mapq : Z; ra_type : RAT; ra_gene_type : RAT;
  ra_matches : list imatch; ra_info : dict; ra_attrs : dict; ra_introns_match : bool;
  ra_exon_profile : list Z; ra_intron_profile : list Z }.
Definition pa1 (p:Z*Z*Z*Z) := fst (fst (fst p)).
Definition pa2 (p:Z*Z*Z*Z) := snd (fst (fst p)).
Definition pa3 (p:Z*Z*Z*Z) := snd (fst p).
Definition pa4 (p:Z*Z*Z*Z) := snd p.
Definition z_of_bool (b:bool) : Z := if b then 1%Z else 0%Z.
Definition enc_ra (sg:bool) (a:rassign) : list byte :=
  enc c_u32 (ra_id a) ++ enc c_str (ra_read_id a) ++
  enc c_u32 (fst (ra_region a)) ++ enc c_u32 (snd (ra_region a)) ++
  enc c_pairs (ra_exons a) ++ enc c_pairs (ra_corrected a) ++
  enc (c_bools 3) (ra_flags a) ++
  enc c_neg (pa1 (ra_polya a)) ++ enc c_neg (pa2 (ra_polya a)) ++ enc c_neg (pa3 (ra_polya a)) ++ enc c_neg (pa4 (ra_polya a)) ++
  enc c_str (ra_group a) ++ enc c_str (ra_mapped_strand a) ++ enc c_str (ra_strand a) ++ enc c_str (ra_chr a) ++
  enc c_u16 (ra_mapq a) ++ enc c_rat (ra_type a) ++ enc c_rat (ra_gene_type a) ++
  enc c_matches (ra_matches a) ++ enc (c_dict sg) (ra_info a) ++ enc (c_dict sg) (ra_attrs a) ++
  enc c_u16 (z_of_bool (ra_introns_match a)) ++
  enc c_negs (ra_exon_profile a) ++ enc c_negs (ra_intron_profile a).
Definition dec_ra (sg:bool) (l:list byte) : option (rassign * list byte) :=
  do (id, r) <- dec c_u32 l;
  do (rid, r) <- dec c_str r;
  do (g0, r) <- dec c_u32 r; do (g1, r) <- dec c_u32 r;
  do (ex, r) <- dec c_pairs r;
  do (cex, r) <- dec c_pairs r;
  do (fl, r) <- dec (c_bools 3) r;
  do (p1, r) <- dec c_neg r; do (p2, r) <- dec c_neg r; do (p3, r) <- dec c_neg r; do (p4, r) <- dec c_neg r;
  do (grp, r) <- dec c_str r;
  do (ms, r) <- dec c_str r;
  do (st, r) <- dec c_str r;
  do (chr, r) <- dec c_str r;
  do (mq, r) <- dec c_u16 r;
  do (ty, r) <- dec c_rat r;
  do (gty, r) <- dec c_rat r;
  do (mts, r) <- dec c_matches r;
  do (inf, r) <- dec (c_dict sg) r;
  do (att, r) <- dec (c_dict sg) r;
  do (im, r) <- dec c_u16 r;
  do (ep, r) <- dec c_negs r;
  do (ip, r) <- dec c_negs r;
  Some (MkRA id rid (g0, g1) ex cex fl (p1, p2, p3, p4) grp ms st chr mq ty gty mts inf att (negb (im =? 0)%Z) ep ip, r).
Definition dom_ra (sg:bool) (a:rassign) : Prop :=
  dom c_u32 (ra_id a) /\ dom c_str (ra_read_id a) /\
  dom c_u32 (fst (ra_region a)) /\ dom c_u32 (snd (ra_region a)) /\
  dom c_pairs (ra_exons a) /\ dom c_pairs (ra_corrected a) /\
  dom (c_bools 3) (ra_flags a) /\
  dom c_neg (pa1 (ra_polya a)) /\ dom c_neg (pa2 (ra_polya a)) /\ dom c_neg (pa3 (ra_polya a)) /\ dom c_neg (pa4 (ra_polya a)) /\
  dom c_str (ra_group a) /\ dom c_str (ra_mapped_strand a) /\ dom c_str (ra_strand a) /\ dom c_str (ra_chr a) /\
  dom c_u16 (ra_mapq a) /\ dom c_rat (ra_type a) /\ dom c_rat (ra_gene_type a) /\
  dom c_matches (ra_matches a) /\ dom (c_dict sg) (ra_info a) /\ dom (c_dict sg) (ra_attrs a) /\
  dom c_negs (ra_exon_profile a) /\ dom c_negs (ra_intron_profile a).
Definition c_ra (sg:bool) : codec rassign := {| enc := enc_ra sg; dec := dec_ra sg; dom := dom_ra sg |}.
Lemma dom_bool16 b : dom c_u16 (z_of_bool b). Proof. destruct b; cbn; lia. Qed.
Lemma rt_ra sg : rt (c_ra sg).
Proof. intros [id rid [g0 g1] ex cex fl [[[p1 p2] p3] p4] grp ms st chr mq ty gty mts inf att im ep ip] rest D.
  cbn [enc dec dom c_ra] in *. unfold dom_ra, enc_ra, dec_ra in *.
  cbn [ra_id ra_read_id ra_region ra_exons ra_corrected ra_flags ra_polya ra_group ra_mapped_strand ra_strand ra_chr
       ra_mapq ra_type ra_gene_type ra_matches ra_info ra_attrs ra_introns_match ra_exon_profile ra_intron_profile
       fst snd pa1 pa2 pa3 pa4] in *.
  destruct D as (D1 & D2 & D3 & D4 & D5 & D6 & D7 & D8 & D9 & D10 & D11 & D12 & D13 & D14 & D15 & D16 & D17 & D18 & D19 & D20 & D21 & D22 & D23).
  pose proof (dom_bool16 im) as Dim.
  repeat rewrite <- app_assoc. unfold c_rat in *. rts. rewrite rt_matches by assumption. cbv beta iota. rts.
  destruct im; reflexivity. Qed.

(* ------------------------------------------------------------------ BasicReadAssignment: serialize / deserialize *)
Record bassign := MkBasic {
  b_id : Z; b_read_id : str; b_chr : str; b_start : Z; b_end : Z; b_region : Z * Z;
  b_flags : list bool;                       (* [multimapper; polyA_found] *)
  b_type : RAT; b_gene_type : RAT; b_penalty : Z; b_genes : list str; b_isoforms : list str }.
Definition enc_basic (b:bassign) : list byte :=
  enc c_u32 (b_id b) ++ enc c_str (b_read_id b) ++ enc c_str (b_chr b) ++ enc c_u32 (b_start b) ++ enc c_u32 (b_end b) ++
  enc c_u32 (fst (b_region b)) ++ enc c_u32 (snd (b_region b)) ++ enc (c_bools 2) (b_flags b) ++
  enc c_rat (b_type b) ++ enc c_rat (b_gene_type b) ++ enc c_u32 (b_penalty b) ++
  enc c_strs (b_genes b) ++ enc c_strs (b_isoforms b).
Definition dec_basic (l:list byte) : option (bassign * list byte) :=
  do (id, r) <- dec c_u32 l;
  do (rid, r) <- dec c_str r;
  do (chr, r) <- dec c_str r;
  do (s, r) <- dec c_u32 r; do (e, r) <- dec c_u32 r;
  do (g0, r) <- dec c_u32 r; do (g1, r) <- dec c_u32 r;
  do (fl, r) <- dec (c_bools 2) r;
  do (ty, r) <- dec c_rat r; do (gty, r) <- dec c_rat r;
  do (p, r) <- dec c_u32 r;
  do (gs, r) <- dec c_strs r;
  do (is, r) <- dec c_strs r;
  Some (MkBasic id rid chr s e (g0, g1) fl ty gty p gs is, r).
Definition dom_basic (b:bassign) : Prop :=
  dom c_u32 (b_id b) /\ dom c_str (b_read_id b) /\ dom c_str (b_chr b) /\ dom c_u32 (b_start b) /\ dom c_u32 (b_end b) /\
  dom c_u32 (fst (b_region b)) /\ dom c_u32 (snd (b_region b)) /\ dom (c_bools 2) (b_flags b) /\
  dom c_rat (b_type b) /\ dom c_rat (b_gene_type b) /\ dom c_u32 (b_penalty b) /\
  dom c_strs (b_genes b) /\ dom c_strs (b_isoforms b).
Definition c_basic : codec bassign := {| enc := enc_basic; dec := dec_basic; dom := dom_basic |}.
Lemma rt_basic : rt c_basic.
Proof. intros [id rid chr s e [g0 g1] fl ty gty p gs is] rest D.
  cbn [enc dec dom c_basic] in *. unfold dom_basic, enc_basic, dec_basic in *.
  cbn [b_id b_read_id b_chr b_start b_end b_region b_flags b_type b_gene_type b_penalty b_genes b_isoforms fst snd] in *.
  destruct D as (D1 & D2 & D3 & D4 & D5 & D6 & D7 & D8 & D9 & D10 & D11 & D12 & D13).
  repeat rewrite <- app_assoc. unfold c_rat in *. rts. reflexivity. Qed.

(* ------------------------------------------------------------------ the projection BasicReadAssignment.__init__ *)
Definition truthy (o:option str) : list str := match o with Some (c :: t) => [c :: t] | _ => [] end.
Fixpoint dedup (l:list str) : list str :=
  match l with [] => [] | x :: t => if existsb (str_eqb x) t then dedup t else x :: dedup t end.
Definition gene_set (ms:list imatch) : list str := dedup (flat_map (fun m => truthy (m_gene m)) ms).
Definition isoform_set (ms:list imatch) : list str := dedup (flat_map (fun m => truthy (m_tr m)) ms).
(* penalty_score = 0.0; for m in matches: penalty_score = min(penalty_score, matches[0].penalty_score) *)
Definition basic_penalty (ms:list imatch) : Z :=
  match ms with [] => 0%Z | m0 :: _ => fold_left (fun p _ => Z.min p (m_penalty m0)) ms 0%Z end.
Definition first_last (ex:list (Z*Z)) : Z * Z := match ex with [] => (0, 0)%Z | e0 :: _ => (fst e0, snd (last ex e0)) end.
Definition basic_of (a:rassign) : bassign :=
  MkBasic (ra_id a) (ra_read_id a) (ra_chr a) (fst (first_last (ra_exons a))) (snd (first_last (ra_exons a))) (ra_region a)
          (firstn 2 (ra_flags a)) (ra_type a) (ra_gene_type a) (basic_penalty (ra_matches a))
          (gene_set (ra_matches a)) (isoform_set (ra_matches a)).
Lemma basic_penalty_zero ms : Forall (fun m => (0 <= m_penalty m)%Z) ms -> basic_penalty ms = 0%Z.
Proof. destruct ms as [|m0 t]; [reflexivity|]. intros H. unfold basic_penalty. inversion H; subst.
  assert (G: forall (l:list imatch), fold_left (fun p _ => Z.min p (m_penalty m0)) l 0%Z = 0%Z).
  { induction l as [|x l IH]; [reflexivity|]. cbn [fold_left]. replace (Z.min 0 (m_penalty m0)) with 0%Z by lia. exact IH. }
  apply G. Qed.

(* ------------------------------------------------------------------ the abridged reader BasicReadAssignment.deserialize_from_read_assignment,
   statement by statement (u = value read and dropped) *)
Definition dec_quick (sg:bool) (l:list byte) : option (bassign * list byte) :=
  do (id, r) <- dec c_u32 l;
  do (rid, r) <- dec c_str r;
  do (g0, r) <- dec c_u32 r; do (g1, r) <- dec c_u32 r;
  do (ex, r) <- dec c_pairs r;
  match ex with
  | [] => None                                (* exons[0][0]: IndexError *)
  | e0 :: _ =>
    do (u, r) <- dec c_pairs r;
    do (fl, r) <- dec (c_bools 3) r;
    do (u, r) <- dec c_neg r; do (u, r) <- dec c_neg r; do (u, r) <- dec c_neg r; do (u, r) <- dec c_neg r;
    do (u, r) <- dec c_str r; do (u, r) <- dec c_str r; do (u, r) <- dec c_str r;
    do (chr, r) <- dec c_str r;
    do (u, r) <- dec c_u16 r;
    do (ty, r) <- dec c_rat r;
    do (gty, r) <- dec c_rat r;
    do (mts, r) <- dec c_matches r;
    do (u, r) <- dec (c_dict sg) r;
    do (u, r) <- dec (c_dict sg) r;
    do (u, r) <- dec c_u16 r;
    do (u, r) <- dec c_negs r;
    do (u, r) <- dec c_negs r;
    Some (MkBasic id rid chr (fst e0) (snd (last ex e0)) (g0, g1) (firstn 2 fl) ty gty (basic_penalty mts)
                  (gene_set mts) (isoform_set mts), r)
  end.
(* the abridged reader consumes exactly the bytes of the record and returns the projection *)
Lemma quick_reader_aligned sg : forall a rest, dom (c_ra sg) a -> ra_exons a <> [] ->
  dec_quick sg (enc (c_ra sg) a ++ rest) = Some (basic_of a, rest).
Proof. intros [id rid [g0 g1] ex cex fl [[[p1 p2] p3] p4] grp ms st chr mq ty gty mts inf att im ep ip] rest D Hex.
  cbn [enc dec dom c_ra] in *. unfold dom_ra, enc_ra, dec_quick, basic_of in *.
  cbn [ra_id ra_read_id ra_region ra_exons ra_corrected ra_flags ra_polya ra_group ra_mapped_strand ra_strand ra_chr
       ra_mapq ra_type ra_gene_type ra_matches ra_info ra_attrs ra_introns_match ra_exon_profile ra_intron_profile
       fst snd pa1 pa2 pa3 pa4] in *.
  destruct D as (D1 & D2 & D3 & D4 & D5 & D6 & D7 & D8 & D9 & D10 & D11 & D12 & D13 & D14 & D15 & D16 & D17 & D18 & D19 & D20 & D21 & D22 & D23).
  pose proof (dom_bool16 im) as Dim.
  repeat rewrite <- app_assoc. unfold c_rat in *. rts.
  destruct ex as [|e0 ex']; [congruence|]. cbv beta iota. rts. rewrite rt_matches by assumption. cbv beta iota. rts.
  reflexivity. Qed.
(* with an empty exon list the full reader succeeds, the abridged one raises *)
Definition ra_min (ex:list (Z*Z)) : rassign :=
  MkRA 0 [] (0,0)%Z ex [] [false;false;false] (-1,-1,-1,-1)%Z [] [] [] [] 0 RAT_unique RAT_unique [] [] [] false [] [].
Lemma quick_reader_empty_exons_refuted :
  dec_quick true (enc (c_ra true) (ra_min [])) = None /\ dec (c_ra true) (enc (c_ra true) (ra_min [])) = Some (ra_min [], []).
Proof. split; vm_compute; reflexivity. Qed.

(* ------------------------------------------------------------------ GeneInfo header (the rest of GeneInfo is re-derived from the annotation) *)
(* Two layouts.  rr = true: the header also carries the reference window of the reads collected for the gene set (all_read_region_start / _end),
   written after the gene region (fixes/C18_serialize_read_region.diff).  rr = false: the layout before that repair - the window is not stored
   and the reader sets it to the gene region, so only headers whose window IS the gene region survive the round trip. *)
Record ghead := MkGene { g_delta : Z; g_genes : list str; g_chr : str; g_start : Z; g_end : Z; g_rstart : Z; g_rend : Z }.
Definition enc_ghead (rr:bool) (g:ghead) : list byte :=
  enc c_u32 (g_delta g) ++ enc c_strs (g_genes g) ++ enc c_str (g_chr g) ++ enc c_u32 (g_start g) ++ enc c_u32 (g_end g) ++
  (if rr then enc c_u32 (g_rstart g) ++ enc c_u32 (g_rend g) else []).
Definition dec_ghead (rr:bool) (l:list byte) : option (ghead * list byte) :=
  do (d, r) <- dec c_u32 l;
  do (gs, r) <- dec c_strs r;
  do (chr, r) <- dec c_str r;
  do (s, r) <- dec c_u32 r;
  do (e, r) <- dec c_u32 r;
  if rr then
    do (rs, r) <- dec c_u32 r;
    do (re, r) <- dec c_u32 r;
    Some (MkGene d gs chr s e rs re, r)
  else Some (MkGene d gs chr s e s e, r).
Definition dom_ghead (rr:bool) (g:ghead) : Prop :=
  dom c_u32 (g_delta g) /\ dom c_strs (g_genes g) /\ dom c_str (g_chr g) /\ dom c_u32 (g_start g) /\ dom c_u32 (g_end g) /\
  (if rr then dom c_u32 (g_rstart g) /\ dom c_u32 (g_rend g) else g_rstart g = g_start g /\ g_rend g = g_end g).
Definition c_ghead (rr:bool) : codec ghead := {| enc := enc_ghead rr; dec := dec_ghead rr; dom := dom_ghead rr |}.
Lemma rt_ghead rr : rt (c_ghead rr).
Proof. intros [d gs chr s e rs re] rest D. cbn [enc dec dom c_ghead] in *. unfold dom_ghead, enc_ghead, dec_ghead in *.
  cbn [g_delta g_genes g_chr g_start g_end g_rstart g_rend] in *. destruct D as (D1 & D2 & D3 & D4 & D5 & D6).
  destruct rr.
  - destruct D6 as [D6 D7]. repeat rewrite <- app_assoc. rts. reflexivity.
  - destruct D6 as [-> ->]. rewrite app_nil_r. repeat rewrite <- app_assoc. rts. reflexivity. Qed.
(* the layout without the window loses it: a header whose window is not the gene region comes back with the gene region as its window *)
Example ghead_window_lost_unrepaired :
  dec (c_ghead false) (enc (c_ghead false) (MkGene 6 [] [] 3395440 3453804 3391000 3460000)) = Some (MkGene 6 [] [] 3395440 3453804 3395440 3453804, []) /\
  dec (c_ghead true) (enc (c_ghead true) (MkGene 6 [] [] 3395440 3453804 3391000 3460000)) = Some (MkGene 6 [] [] 3395440 3453804 3391000 3460000, []).
Proof. split; vm_compute; reflexivity. Qed.

(* ------------------------------------------------------------------ stream framing (TmpFileAssignmentPrinter and the loaders of assignment_io.py /
   dataset_processor.py): (GENE_INFO header (READ_ASSIGNMENT record)* )* SHORT_TERMINATION_INT.
   Generic in the item decoders so that the full and the abridged loader are instances of one loop. *)
Definition GENE_MARK : N := 255.
Definition READ_MARK : N := 65280.       (* 255 << 8 *)
Definition TERM16 : N := 65535.
Definition TERM32 : N := 4294967295.
Lemma markers_distinct : GENE_MARK <> READ_MARK /\ GENE_MARK <> TERM16 /\ READ_MARK <> TERM16 /\
  GENE_MARK < 65536 /\ READ_MARK < 65536 /\ TERM16 = SER_SHORT_TERMINATION_INT /\ TERM32 = SER_TERMINATION_INT.
Proof. repeat split; try discriminate; reflexivity. Qed.

Section Stream.
  Variables G R G' R' : Type.
  Variables (eg : G -> list byte) (er : R -> list byte).
  Variables (dg : list byte -> option (G' * list byte)) (dr : list byte -> option (R' * list byte)).
  Variables (pg : G -> G') (pr : R -> R') (okg : G -> Prop) (okr : R -> Prop).
  Hypothesis Hg : forall g rest, okg g -> dg (eg g ++ rest) = Some (pg g, rest).
  Hypothesis Hr : forall a rest, okr a -> dr (er a ++ rest) = Some (pr a, rest).

  Definition enc_group (g:G * list R) : list byte :=
    enc_be 2 GENE_MARK ++ eg (fst g) ++ flat_map (fun a => enc_be 2 READ_MARK ++ er a) (snd g).
  Definition enc_stream (gs:list (G * list R)) : list byte := flat_map enc_group gs ++ enc_be 2 TERM16.

  (* state of a loader: the marker already read (current_id) and the unread bytes.
     while is_read_assignment(): get_object() *)
  Fixpoint dec_reads (fuel:nat) (id:N) (l:list byte) : option (list R' * (N * list byte)) :=
    if id =? READ_MARK then
      match fuel with O => None | Datatypes.S f =>
        do (a, r) <- dr l; do (id', r) <- dec_be 2 r; do (rs, st) <- dec_reads f id' r; Some (a :: rs, st) end
    else Some ([], (id, l)).
  (* while has_next(): assert is_gene_info(); get_object(); <reads> *)
  Fixpoint dec_groups (fuel:nat) (id:N) (l:list byte) : option (list (G' * list R') * list byte) :=
    if id =? TERM16 then Some ([], l)
    else if id =? GENE_MARK then
      match fuel with O => None | Datatypes.S f =>
        do (g, r) <- dg l; do (id', r) <- dec_be 2 r; do (rs, st) <- dec_reads (length l) id' r;
        do (gs, r') <- dec_groups f (fst st) (snd st); Some ((g, rs) :: gs, r') end
    else None.
  Definition dec_stream (l:list byte) : option (list (G' * list R') * list byte) :=
    do (id, r) <- dec_be 2 l; dec_groups (length l) id r.

  Lemma be2 v rest : v < 65536 -> dec_be 2 (enc_be 2 v ++ rest) = Some (v, rest).
  Proof. intros H. apply be_roundtrip. exact H. Qed.
  Lemma len_be2 v : length (enc_be 2 v) = 2%nat. Proof. reflexivity. Qed.

  (* the same stream written as loader states: (marker already read, unread bytes) *)
  Definition enc_st (st:N * list byte) : list byte := enc_be 2 (fst st) ++ snd st.
  Fixpoint reads_st (rs:list R) (nxt:N * list byte) : N * list byte :=
    match rs with [] => nxt | a :: t => (READ_MARK, er a ++ enc_st (reads_st t nxt)) end.
  Fixpoint groups_st (gs:list (G * list R)) (rest:list byte) : N * list byte :=
    match gs with [] => (TERM16, rest) | g :: t => (GENE_MARK, eg (fst g) ++ enc_st (reads_st (snd g) (groups_st t rest))) end.
  Lemma enc_reads_st rs nxt : enc_st (reads_st rs nxt) = flat_map (fun a => enc_be 2 READ_MARK ++ er a) rs ++ enc_st nxt.
  Proof. induction rs as [|a t IH]; [reflexivity|]. cbn [reads_st flat_map]. unfold enc_st at 1. cbn [fst snd].
    rewrite IH. repeat rewrite <- app_assoc. reflexivity. Qed.
  Lemma enc_groups_st gs rest : enc_st (groups_st gs rest) = enc_stream gs ++ rest.
  Proof. unfold enc_stream. induction gs as [|g t IH]; [reflexivity|]. cbn [groups_st flat_map]. unfold enc_st at 1. cbn [fst snd].
    rewrite enc_reads_st, IH. unfold enc_group. repeat rewrite <- app_assoc. reflexivity. Qed.
  Lemma dec_st st : fst st < 65536 -> dec_be 2 (enc_st st) = Some st.
  Proof. intros H. unfold enc_st. rewrite be2 by exact H. destruct st; reflexivity. Qed.
  Lemma reads_st_fst rs nxt : fst (reads_st rs nxt) = READ_MARK \/ fst (reads_st rs nxt) = fst nxt.
  Proof. destruct rs; [right|left]; reflexivity. Qed.
  Lemma groups_st_fst gs rest : fst (groups_st gs rest) = TERM16 \/ fst (groups_st gs rest) = GENE_MARK.
  Proof. destruct gs; [left|right]; reflexivity. Qed.
  Lemma reads_st_len rs nxt : (length rs <= length (enc_st (reads_st rs nxt)))%nat.
  Proof. induction rs as [|a t IH]; [apply Nat.le_0_l|]. cbn [reads_st length]. unfold enc_st at 1. cbn [fst snd].
    rewrite !app_length, len_be2. lia. Qed.

  Lemma dec_reads_ok : forall (rs:list R) fuel nxt, Forall okr rs -> fst nxt <> READ_MARK -> fst nxt < 65536 -> (length rs <= fuel)%nat ->
    dec_reads fuel (fst (reads_st rs nxt)) (snd (reads_st rs nxt)) = Some (map pr rs, nxt).
  Proof.
    induction rs as [|a t IH]; intros fuel nxt Hf Hid Hlt Hfuel.
    - cbn [reads_st map]. destruct fuel; cbn [dec_reads]; destruct (fst nxt =? READ_MARK) eqn:E; try lia; destruct nxt; reflexivity.
    - inversion Hf as [|? ? Ha Ht]; subst. cbn [reads_st fst snd map].
      destruct fuel as [|f]; [cbn [length] in Hfuel; lia|]. cbn [dec_reads]. change (READ_MARK =? READ_MARK) with true. cbv beta iota.
      rewrite Hr by exact Ha. rewrite dec_st.
      2:{ destruct (reads_st_fst t nxt) as [E|E]; rewrite E; [reflexivity|exact Hlt]. }
      destruct (reads_st t nxt) as [i l] eqn:Est.
      specialize (IH f nxt Ht Hid Hlt). rewrite Est in IH. cbn [fst snd] in IH. rewrite IH by (cbn [length] in Hfuel; lia). reflexivity.
  Qed.

  Lemma dec_groups_ok : forall (gs:list (G * list R)) fuel rest, Forall (fun g => okg (fst g) /\ Forall okr (snd g)) gs -> (length gs <= fuel)%nat ->
    dec_groups fuel (fst (groups_st gs rest)) (snd (groups_st gs rest)) = Some (map (fun g => (pg (fst g), map pr (snd g))) gs, rest).
  Proof.
    induction gs as [|[g rs] t IH]; intros fuel rest Hf Hfuel.
    - cbn [groups_st fst snd map]. destruct fuel; reflexivity.
    - inversion Hf as [|? ? [Hg0 Hrs] Ht]; subst. cbn [fst snd] in *. cbn [groups_st fst snd map].
      destruct fuel as [|f]; [cbn [length] in Hfuel; lia|]. cbn [dec_groups].
      change (GENE_MARK =? TERM16) with false. change (GENE_MARK =? GENE_MARK) with true. cbv beta iota.
      rewrite Hg by exact Hg0.
      assert (Hn: fst (groups_st t rest) <> READ_MARK /\ fst (groups_st t rest) < 65536).
      { destruct (groups_st_fst t rest) as [E|E]; rewrite E; split; try discriminate; reflexivity. }
      destruct Hn as [Hn1 Hn2].
      rewrite dec_st.
      2:{ destruct (reads_st_fst rs (groups_st t rest)) as [E|E]; rewrite E; [reflexivity|exact Hn2]. }
      pose proof (dec_reads_ok rs (length (eg g ++ enc_st (reads_st rs (groups_st t rest)))) (groups_st t rest) Hrs Hn1 Hn2) as Hd.
      destruct (reads_st rs (groups_st t rest)) as [i l] eqn:Est. cbn [fst snd] in Hd.
      rewrite Hd.
      2:{ rewrite app_length. pose proof (reads_st_len rs (groups_st t rest)) as Hl. rewrite Est in Hl. lia. }
      cbn [fst snd]. rewrite IH; [reflexivity|exact Ht|cbn [length] in Hfuel; lia].
  Qed.

  Theorem stream_generic : forall (gs:list (G * list R)) rest, Forall (fun g => okg (fst g) /\ Forall okr (snd g)) gs ->
    dec_stream (enc_stream gs ++ rest) = Some (map (fun g => (pg (fst g), map pr (snd g))) gs, rest).
  Proof. intros gs rest Hf. unfold dec_stream. rewrite <- enc_groups_st.
    rewrite dec_st by (destruct (groups_st_fst gs rest) as [E|E]; rewrite E; reflexivity).
    destruct (groups_st gs rest) as [i l] eqn:Est.
    pose proof (dec_groups_ok gs (length (enc_st (i, l))) rest Hf) as Hd. rewrite Est in Hd. cbn [fst snd] in Hd. apply Hd.
    assert (L: forall (x:list (G * list R)) r, (length x <= length (enc_st (groups_st x r)))%nat).
    { induction x as [|y t IH]; intros r; [apply Nat.le_0_l|]. cbn [groups_st length]. unfold enc_st at 1. cbn [fst snd].
      rewrite !app_length, len_be2. pose proof (reads_st_len (snd y) (groups_st t r)). pose proof (IH r).
      assert (length (enc_st (groups_st t r)) <= length (enc_st (reads_st (snd y) (groups_st t r))))%nat.
      { rewrite enc_reads_st, app_length. lia. }
      lia. }
    specialize (L gs rest). rewrite Est in L. exact L. Qed.
End Stream.

(* the two loaders as instances *)
Definition group := (ghead * list rassign)%type.
Definition enc_save (sg rr:bool) : list group -> list byte := enc_stream ghead rassign (enc (c_ghead rr)) (enc (c_ra sg)).
(* NormalTmpFileAssignmentLoader driven by ReadAssignmentLoader.get_next *)
Definition dec_save_full (sg rr:bool) : list byte -> option (list (ghead * list rassign) * list byte) :=
  dec_stream ghead rassign (dec (c_ghead rr)) (dec (c_ra sg)).
(* QuickTmpFileAssignmentLoader driven by BasicReadAssignmentLoader.get_next: headers are read and dropped *)
Definition dec_save_quick (sg rr:bool) : list byte -> option (list (unit * list bassign) * list byte) :=
  dec_stream unit bassign (fun l => do (g, r) <- dec (c_ghead rr) l; Some (tt, r)) (dec_quick sg).
Definition dom_save (sg rr:bool) (gs:list group) : Prop := Forall (fun g => dom (c_ghead rr) (fst g) /\ Forall (dom (c_ra sg)) (snd g)) gs.

Theorem stream_roundtrip sg rr : forall gs rest, dom_save sg rr gs -> dec_save_full sg rr (enc_save sg rr gs ++ rest) = Some (gs, rest).
Proof. intros gs rest H. unfold dec_save_full, enc_save.
  rewrite (stream_generic ghead rassign ghead rassign (enc (c_ghead rr)) (enc (c_ra sg)) (dec (c_ghead rr)) (dec (c_ra sg)) (fun g => g) (fun a => a)
             (dom (c_ghead rr)) (dom (c_ra sg)) (rt_ghead rr) (rt_ra sg) gs rest H).
  assert (E: map (fun g : ghead * list rassign => (fst g, map (fun a : rassign => a) (snd g))) gs = gs).
  { clear. induction gs as [|[g rs] t IH]; [reflexivity|]. cbn [map fst snd]. rewrite map_id, IH. reflexivity. }
  rewrite E. reflexivity. Qed.

Theorem stream_quick_aligned sg rr : forall gs rest, dom_save sg rr gs -> Forall (fun g => Forall (fun a => ra_exons a <> []) (snd g)) gs ->
  dec_save_quick sg rr (enc_save sg rr gs ++ rest) = Some (map (fun g => (tt, map basic_of (snd g))) gs, rest).
Proof. intros gs rest H Hex. unfold dec_save_quick, enc_save.
  apply (stream_generic ghead rassign unit bassign (enc (c_ghead rr)) (enc (c_ra sg)) _ (dec_quick sg) (fun _ => tt) basic_of
             (dom (c_ghead rr)) (fun a => dom (c_ra sg) a /\ ra_exons a <> [])).
  - intros g r D. rewrite (rt_ghead rr) by exact D. reflexivity.
  - intros a r [D E]. apply quick_reader_aligned; assumption.
  - clear rest. induction gs as [|g t IH]; constructor.
    + inversion H; inversion Hex; subst. destruct H2 as [Hg Hr]. split; [exact Hg|].
      clear - Hr H6. induction (snd g) as [|a l IHl]; constructor; inversion Hr; inversion H6; subst; auto.
    + inversion H; inversion Hex; subst. apply IH; assumption. Qed.

(* ------------------------------------------------------------------ multimappers file (dataset_processor.resolve_multimappers /
   construct_models_in_parallel): (write_list(list, BasicReadAssignment.serialize))* TERMINATION_INT *)
Lemma ne_basic : forall x, enc c_basic x <> []. Proof. intros x. cbn [enc c_basic]. unfold enc_basic. cbn [enc c_u32 enc_be app]. discriminate. Qed.
Definition c_basics := c_list c_basic.
Lemma rt_basics : rt c_basics. Proof. apply rt_list, rt_basic. Qed.
Definition enc_mm (ls:list (list bassign)) : list byte := flat_map (enc c_basics) ls ++ enc_be 4 TERM32.
Fixpoint dec_mm (fuel:nat) (l:list byte) : option (list (list bassign) * list byte) :=
  match fuel with O => None | Datatypes.S f =>
    do (n, r) <- dec_be 4 l;
    if n =? TERM32 then Some ([], r)
    else if N.of_nat (length r) <? n then None
    else do (x, r) <- dec_n c_basic (N.to_nat n) r; do (xs, r) <- dec_mm f r; Some (x :: xs, r) end.
Definition dec_mm_file (l:list byte) := dec_mm (Datatypes.S (length l)) l.
Definition dom_mm (ls:list (list bassign)) : Prop := Forall (fun l => N.of_nat (length l) < TERM32 /\ Forall (dom c_basic) l) ls.
Lemma dec_mm_ok : forall ls fuel rest, dom_mm ls -> (length ls < fuel)%nat -> dec_mm fuel (enc_mm ls ++ rest) = Some (ls, rest).
Proof. induction ls as [|x t IH]; intros fuel rest D Hf; (destruct fuel as [|f]; [lia|]); cbn [dec_mm].
  - unfold enc_mm. cbn [flat_map app]. rewrite be_roundtrip by reflexivity. rewrite N.eqb_refl. reflexivity.
  - inversion D as [|? ? [Hl Hx] Dt]; subst. unfold enc_mm. cbn [flat_map]. cbn [enc c_basics c_list]. repeat rewrite <- app_assoc.
    rewrite be_roundtrip by (change (256 ^ N.of_nat 4) with 4294967296; unfold TERM32 in Hl; lia).
    destruct (N.of_nat (length x) =? TERM32) eqn:E; [lia|].
    match goal with |- context [N.of_nat (length ?L) <? _] => destruct (N.of_nat (length L) <? N.of_nat (length x)) eqn:G end.
    { pose proof (enc_list_len c_basic ne_basic x). rewrite app_length in G. lia. }
    rewrite Nnat.Nat2N.id.
    rewrite (dec_n_enc c_basic rt_basic x _ Hx). specialize (IH f rest Dt). unfold enc_mm in IH. rewrite <- app_assoc in IH.
    cbn [enc c_basics c_list] in IH. rewrite IH by (cbn [length] in Hf; lia). reflexivity. Qed.
Theorem multimap_file_roundtrip : forall ls rest, dom_mm ls -> dec_mm_file (enc_mm ls ++ rest) = Some (ls, rest).
Proof. intros ls rest D. unfold dec_mm_file. apply dec_mm_ok; [exact D|].
  assert (L: (length ls <= length (flat_map (enc c_basics) ls))%nat).
  { clear D. induction ls as [|x t IH]; [apply le_n|]. cbn [flat_map length]. rewrite app_length. cbn [enc c_basics c_list] in *.
    rewrite app_length. change (length (enc_be 4 (N.of_nat (length x)))) with 4%nat. lia. }
  unfold enc_mm. rewrite !app_length. lia. Qed.
(* a list of 2^32 - 1 assignments would be taken for the terminator (the only collision of the framing) *)
Lemma multimap_terminator_collision_refuted : forall rest, dec_mm_file (enc_be 4 TERM32 ++ rest) = Some ([], rest).
Proof. intros rest. unfold dec_mm_file. cbn [dec_mm]. rewrite be_roundtrip by reflexivity. reflexivity. Qed.

(* the <save>_info file: total assignments, polyA assignments, read groups *)
Definition c_info : codec (Z * (Z * list str)) := c_pair c_u32 (c_pair c_u32 c_strs).
Lemma rt_info : rt c_info. Proof. repeat apply rt_pair; try apply rt_u32. apply rt_strs. Qed.

(* ------------------------------------------------------------------ penalties: int(penalty_score * 2^20) written as an unsigned int,
   float(k) / float(2^20) on reading.  A double times 2^20 is exact, so over Q: *)
Definition Qtrunc (q:Q) : Z := if Qle_bool 0 q then Qfloor q else Qceiling q.      (* Python int() *)
Definition enc_penalty (p:Q) : Z := Qtrunc (p * (1048576 # 1)).
Definition dec_penalty (k:Z) : Q := k # 1048576.
Lemma penalty_idempotent k : (0 <= k)%Z -> enc_penalty (dec_penalty k) = k.
Proof. intros H. unfold enc_penalty, dec_penalty, Qtrunc.
  assert (E: ((k # 1048576) * (1048576 # 1) == inject_Z k)%Q).
  { unfold Qeq, Qmult, inject_Z. cbn [Qnum Qden]. lia. }
  assert (L: Qle_bool 0 ((k # 1048576) * (1048576 # 1)) = true).
  { apply Qle_bool_iff. rewrite E. unfold Qle, inject_Z. cbn [Qnum Qden]. lia. }
  rewrite L. rewrite (Qfloor_comp _ _ E). apply Qfloor_Z. Qed.
Lemma penalty_error_bound p : (0 <= p)%Q ->
  (dec_penalty (enc_penalty p) <= p)%Q /\ (p < dec_penalty (enc_penalty p) + (1 # 1048576))%Q /\ (0 <= enc_penalty p)%Z.
Proof. intros H. unfold enc_penalty, dec_penalty, Qtrunc.
  set (x := (p * (1048576 # 1))%Q).
  assert (Hx: (0 <= x)%Q) by (unfold x; apply Qmult_le_0_compat; [exact H|discriminate]).
  assert (L: Qle_bool 0 x = true) by (apply Qle_bool_iff; exact Hx). rewrite L.
  pose proof (Qfloor_le x) as F1. pose proof (Qlt_floor x) as F2.
  assert (F3: (0 <= Qfloor x)%Z). { change 0%Z with (Qfloor 0). apply Qfloor_resp_le. exact Hx. }
  set (k := Qfloor x) in *.
  assert (Ek: (k # 1048576 == inject_Z k * (1 # 1048576))%Q) by (unfold Qeq, Qmult, inject_Z; cbn [Qnum Qden]; lia).
  assert (Ep: (p == x * (1 # 1048576))%Q) by (unfold x; field).
  rewrite inject_Z_plus in F2.
  repeat split.
  - rewrite Ek, Ep. apply Qmult_le_compat_r; [exact F1|discriminate].
  - rewrite Ek, Ep. setoid_replace (inject_Z k * (1 # 1048576) + (1 # 1048576))%Q with ((inject_Z k + inject_Z 1) * (1 # 1048576))%Q by (unfold inject_Z; field).
    apply Qmult_lt_compat_r; [reflexivity|exact F2].
  - exact F3. Qed.

(* ------------------------------------------------------------------ the documented domain in elementary terms.  Every member of the three
   enums is allowed (rat_dom_all, mes_dom_all, mc_dom_all), so the enum fields carry no condition. *)
Definition u32 (v:Z) : Prop := (0 <= v < 4294967296)%Z.
Definition u16 (v:Z) : Prop := (0 <= v < 65536)%Z.
Definition s31 (v:Z) : Prop := (-2147483648 < v < 2147483648)%Z.
(* strings of the documented domain: ANY text (list of Unicode scalar values) whose UTF-8 encoding is shorter than 2^16 bytes;
   gene / transcript ids: None, or a text whose encoding is shorter than 65 535 bytes (65 535 is the None marker) *)
Definition short_text (s:str) : Prop := blen s < 65536 /\ text s.
Definition id_or_none (o:option str) : Prop := match o with None => True | Some s => blen s < 65535 /\ text s end.
(* the domain before fixes/C15_string_length_in_bytes.diff: ASCII only *)
Definition short_ascii (s:str) : Prop := N.of_nat (length s) < 65536 /\ ascii s.
Lemma short_ascii_text s : short_ascii s -> short_text s.
Proof. intros [H A]. split; [rewrite blen_ascii by exact A; exact H|apply ascii_text, A]. Qed.
Definition count32 {A} (l:list A) : Prop := N.of_nat (length l) < 4294967296.
Definition list_wf {A} (P:A -> Prop) (l:list A) : Prop := count32 l /\ Forall P l.
Definition event_wf (e:event) : Prop :=
  u32 (fst (ev_iso e)) /\ u32 (snd (ev_iso e)) /\ u32 (fst (ev_read e)) /\ u32 (snd (ev_read e)) /\ s31 (ev_info e).
Definition match_wf (m:imatch) : Prop :=
  id_or_none (m_gene m) /\ id_or_none (m_tr m) /\ short_text (m_strand m) /\ u32 (m_penalty m) /\ list_wf event_wf (m_events m).
Definition dval_wf (sg:bool) (v:dval) : Prop :=
  match v with DInt x => dint_dom sg x | DStr s => short_text s | DPair a b => dint_dom sg a /\ dint_dom sg b end.
Definition dict_wf (sg:bool) (d:dict) : Prop :=
  list_wf (fun e => short_text (fst e) /\ dval_wf sg (snd e)) d /\ NoDup (map fst d).
Definition pair_wf (p:Z*Z) : Prop := u32 (fst p) /\ u32 (snd p).
Definition ra_wf (sg:bool) (a:rassign) : Prop :=
  u32 (ra_id a) /\ short_text (ra_read_id a) /\ pair_wf (ra_region a) /\
  list_wf pair_wf (ra_exons a) /\ list_wf pair_wf (ra_corrected a) /\ length (ra_flags a) = 3%nat /\
  s31 (pa1 (ra_polya a)) /\ s31 (pa2 (ra_polya a)) /\ s31 (pa3 (ra_polya a)) /\ s31 (pa4 (ra_polya a)) /\
  short_text (ra_group a) /\ short_text (ra_mapped_strand a) /\ short_text (ra_strand a) /\ short_text (ra_chr a) /\
  u16 (ra_mapq a) /\ list_wf match_wf (ra_matches a) /\ dict_wf sg (ra_info a) /\ dict_wf sg (ra_attrs a) /\
  list_wf s31 (ra_exon_profile a) /\ list_wf s31 (ra_intron_profile a).
Definition basic_wf (b:bassign) : Prop :=
  u32 (b_id b) /\ short_text (b_read_id b) /\ short_text (b_chr b) /\ u32 (b_start b) /\ u32 (b_end b) /\ pair_wf (b_region b) /\
  length (b_flags b) = 2%nat /\ u32 (b_penalty b) /\ list_wf short_text (b_genes b) /\ list_wf short_text (b_isoforms b).
Definition ghead_wf (rr:bool) (g:ghead) : Prop :=
  u32 (g_delta g) /\ list_wf short_text (g_genes g) /\ short_text (g_chr g) /\ u32 (g_start g) /\ u32 (g_end g) /\
  (if rr then u32 (g_rstart g) /\ u32 (g_rend g) else g_rstart g = g_start g /\ g_rend g = g_end g).

Lemma list_wf_dom {A} (c:codec A) (P:A -> Prop) l : (forall x, P x -> dom c x) -> list_wf P l -> dom (c_listg c) l.
Proof. intros H [Hl Hf]. split; [exact Hl|]. eapply Forall_impl; [exact H|exact Hf]. Qed.
Lemma event_wf_dom e : event_wf e -> dom c_event e.
Proof. intros (H1 & H2 & H3 & H4 & H5). split; [apply mes_dom_all|]. split; [exact H1|]. split; [exact H2|]. split; [exact H3|]. split; [exact H4|exact H5]. Qed.
Lemma match_wf_dom m : match_wf m -> dom c_match m.
Proof. intros (H1 & H2 & H3 & H4 & H5). split; [exact H1|]. split; [exact H2|]. split; [exact H3|]. split; [apply mc_dom_all|].
  split; [exact H4|]. apply (list_wf_dom c_event event_wf); [exact event_wf_dom|exact H5]. Qed.
Lemma dict_wf_dom sg d : dict_wf sg d -> dom (c_dict sg) d.
Proof. intros [H Hn]. split; [|exact Hn]. apply (list_wf_dom (c_entry sg) _ d) in H; [exact H|].
  intros [k v] [Hk Hv]. split; [exact Hk|]. destruct v; exact Hv. Qed.
Lemma pairs_wf_dom l : list_wf pair_wf l -> dom c_pairs l.
Proof. apply list_wf_dom. intros p H. exact H. Qed.
Lemma ra_wf_dom sg a : ra_wf sg a -> dom (c_ra sg) a.
Proof. intros (H1 & H2 & [H3 H3'] & H4 & H5 & H6 & H7 & H8 & H9 & H10 & H11 & H12 & H13 & H14 & H15 & H16 & H17 & H18 & H19 & H20).
  unfold c_ra, dom, dom_ra. fold (@dom Z). fold (@dom str). fold (@dom (list (Z*Z))). fold (@dom (list bool)). fold (@dom RAT).
  fold (@dom (list imatch)). fold (@dom dict). fold (@dom (list Z)).
  repeat match goal with |- _ /\ _ => split end; try assumption; try apply rat_dom_all;
    try (apply pairs_wf_dom; assumption); try (apply dict_wf_dom; assumption);
    try (repeat constructor; fail);
    try (apply (list_wf_dom c_match match_wf); [exact match_wf_dom|assumption]);
    try (apply (list_wf_dom c_neg s31); [intros x Hx; exact Hx|assumption]).
  split; [exact H6|repeat constructor]. Qed.
Lemma basic_wf_dom b : basic_wf b -> dom c_basic b.
Proof. intros (H1 & H2 & H3 & H4 & H5 & [H6 H6'] & H7 & H8 & H9 & H10).
  unfold c_basic, dom, dom_basic. fold (@dom Z). fold (@dom str). fold (@dom (list bool)). fold (@dom RAT). fold (@dom (list str)).
  repeat match goal with |- _ /\ _ => split end; try assumption; try apply rat_dom_all;
    try (repeat constructor; fail);
    try (apply (list_wf_dom c_str short_text); [intros x Hx; exact Hx|assumption]).
  split; [exact H7|repeat constructor]. Qed.
Lemma ghead_wf_dom rr g : ghead_wf rr g -> dom (c_ghead rr) g.
Proof. intros (H1 & H2 & H3 & H4 & H5 & H6). split; [exact H1|]. split; [|split; [exact H3|split; [exact H4|split; [exact H5|]]]].
  - apply (list_wf_dom c_str short_text); [intros x Hx; exact Hx|exact H2].
  - destruct rr; exact H6. Qed.
Lemma penalties_nonneg_of_wf sg a : ra_wf sg a -> Forall (fun m => (0 <= m_penalty m)%Z) (ra_matches a).
Proof. intros H. destruct H as (_ & _ & _ & _ & _ & _ & _ & _ & _ & _ & _ & _ & _ & _ & _ & [_ H16] & _).
  eapply Forall_impl; [|exact H16]. intros m (_ & _ & _ & Hp & _). apply Hp. Qed.

(* ------------------------------------------------------------------ decidable equality of the records (used by the correspondences) *)
Definition zz_eqb (a b:Z*Z) : bool := (fst a =? fst b)%Z && (snd a =? snd b)%Z.
Definition bools_eqb := list_eqb Bool.eqb.
Definition ostr_eqb := opt_eqb str_eqb.
Definition strs_eqb := list_eqb str_eqb.
Definition event_eqb (a b:event) : bool :=
  MES_eqb (ev_type a) (ev_type b) && zz_eqb (ev_iso a) (ev_iso b) && zz_eqb (ev_read a) (ev_read b) && (ev_info a =? ev_info b)%Z.
Definition match_eqb (a b:imatch) : bool :=
  ostr_eqb (m_gene a) (m_gene b) && ostr_eqb (m_tr a) (m_tr b) && str_eqb (m_strand a) (m_strand b) && MC_eqb (m_class a) (m_class b) &&
  (m_penalty a =? m_penalty b)%Z && list_eqb event_eqb (m_events a) (m_events b).
Definition dval_eqb (a b:dval) : bool :=
  match a, b with DInt x, DInt y => (x =? y)%Z | DStr s, DStr t => str_eqb s t | DPair x y, DPair u v => (x =? u)%Z && (y =? v)%Z | _, _ => false end.
Definition dict_eqb : dict -> dict -> bool := list_eqb (pair_eqb str_eqb dval_eqb).
Definition z4_eqb (a b:Z*Z*Z*Z) : bool := (pa1 a =? pa1 b)%Z && (pa2 a =? pa2 b)%Z && (pa3 a =? pa3 b)%Z && (pa4 a =? pa4 b)%Z.
Definition ra_eqb (a b:rassign) : bool :=
  (ra_id a =? ra_id b)%Z && str_eqb (ra_read_id a) (ra_read_id b) && zz_eqb (ra_region a) (ra_region b) &&
  list_eqb zz_eqb (ra_exons a) (ra_exons b) && list_eqb zz_eqb (ra_corrected a) (ra_corrected b) && bools_eqb (ra_flags a) (ra_flags b) &&
  z4_eqb (ra_polya a) (ra_polya b) && str_eqb (ra_group a) (ra_group b) && str_eqb (ra_mapped_strand a) (ra_mapped_strand b) &&
  str_eqb (ra_strand a) (ra_strand b) && str_eqb (ra_chr a) (ra_chr b) && (ra_mapq a =? ra_mapq b)%Z &&
  RAT_eqb (ra_type a) (ra_type b) && RAT_eqb (ra_gene_type a) (ra_gene_type b) && list_eqb match_eqb (ra_matches a) (ra_matches b) &&
  dict_eqb (ra_info a) (ra_info b) && dict_eqb (ra_attrs a) (ra_attrs b) && Bool.eqb (ra_introns_match a) (ra_introns_match b) &&
  zs_eqb (ra_exon_profile a) (ra_exon_profile b) && zs_eqb (ra_intron_profile a) (ra_intron_profile b).
(* genes / isoforms of the projection come out of a Python set: compared as sets *)
Definition set_eqb (a b:list str) : bool :=
  (length a =? length b)%nat && forallb (fun x => existsb (str_eqb x) b) a && forallb (fun x => existsb (str_eqb x) a) b.
Definition basic_eqb_gen (leq:list str -> list str -> bool) (a b:bassign) : bool :=
  (b_id a =? b_id b)%Z && str_eqb (b_read_id a) (b_read_id b) && str_eqb (b_chr a) (b_chr b) && (b_start a =? b_start b)%Z &&
  (b_end a =? b_end b)%Z && zz_eqb (b_region a) (b_region b) && bools_eqb (b_flags a) (b_flags b) && RAT_eqb (b_type a) (b_type b) &&
  RAT_eqb (b_gene_type a) (b_gene_type b) && (b_penalty a =? b_penalty b)%Z && leq (b_genes a) (b_genes b) && leq (b_isoforms a) (b_isoforms b).
Definition basic_eqb := basic_eqb_gen strs_eqb.
Definition basic_seteqb := basic_eqb_gen set_eqb.
Definition ghead_eqb (a b:ghead) : bool :=
  (g_delta a =? g_delta b)%Z && strs_eqb (g_genes a) (g_genes b) && str_eqb (g_chr a) (g_chr b) && (g_start a =? g_start b)%Z && (g_end a =? g_end b)%Z &&
  (g_rstart a =? g_rstart b)%Z && (g_rend a =? g_rend b)%Z.
Definition bytes_eqb : list byte -> list byte -> bool := list_eqb N.eqb.
Definition dec_eqb {A} (e:A -> A -> bool) (x y:option (A * list byte)) : bool := opt_eqb (pair_eqb e bytes_eqb) x y.

Print Assumptions rt_ra.
Print Assumptions quick_reader_aligned.
Print Assumptions stream_roundtrip.
Print Assumptions stream_quick_aligned.
Print Assumptions multimap_file_roundtrip.
Print Assumptions penalty_error_bound.
