(* C20 / C12 — theorems about the cache model of Cache.v. *)
From Coq Require Import ZArith NArith List Bool Lia.
From IQ Require Import CorrSupport Cache.
Import ListNotations. Open Scope Z_scope.

(* ================================================================== 1. the hit predicates, field by field *)
Lemma obool_eqb_some c o : obool_eqb (Some c) o = true <-> o = Some c.
Proof. destruct o as [[]|], c; simpl; split; intro H; try discriminate; try reflexivity; inversion H; reflexivity. Qed.
Lemma mtime_is_true fs p m : mtime_is fs p m = true <-> exists s, fs p = Some s /\ m = Some (f_mtime s).
Proof. unfold mtime_is. destruct (fs p) as [s|]; [destruct m as [m|]|].
  - rewrite Z.eqb_eq. split; [intro H; exists s; split; [reflexivity|congruence]|intros [s' [E1 E2]]; inversion E1; inversion E2; reflexivity].
  - split; [discriminate|intros [s' [_ E]]; discriminate].
  - split; [discriminate|intros [s' [E _]]; discriminate]. Qed.

(* a stored database is reused exactly when the entry of THIS annotation path names it, the annotation and the database
   exist with the recorded modification times, and the recorded completeness flag is the one asked for *)
Theorem cache_hit_sound : forall d g c fs r,
  find_converted_db d g c fs = Ok (Some r) <->
  exists e sg sr, dget d g = Some e /\ e_genedb e = Some r /\
                  fs g = Some sg /\ e_gtf_mtime e = Some (f_mtime sg) /\
                  fs r = Some sr /\ e_db_mtime e = Some (f_mtime sr) /\
                  e_complete e = Some c.
Proof.
  intros d g c fs r. unfold find_converted_db, field. split.
  - destruct (dget d g) as [e|] eqn:E.
    + destruct (exists_ fs g && mtime_is fs g (e_gtf_mtime e)) eqn:A; [|discriminate].
      apply andb_true_iff in A. destruct A as [_ A]. apply mtime_is_true in A. destruct A as [sg [A1 A2]].
      destruct (e_genedb e) as [r'|] eqn:G; [|discriminate].
      destruct (exists_ fs r' && mtime_is fs r' (e_db_mtime e) && obool_eqb (Some c) (e_complete e)) eqn:B; [|discriminate].
      intro H. inversion H; subst r'. apply andb_true_iff in B. destruct B as [B B3]. apply andb_true_iff in B. destruct B as [_ B2].
      apply mtime_is_true in B2. destruct B2 as [sr [B1 B2]]. apply obool_eqb_some in B3.
      exists e, sg, sr. repeat split; assumption.
    + unfold mtime_is. destruct (fs g); rewrite ?andb_false_r; simpl; discriminate.
  - intros [e [sg [sr [E [G [A1 [A2 [B1 [B2 B3]]]]]]]]]. rewrite E, G.
    assert (X: exists_ fs g && mtime_is fs g (e_gtf_mtime e) = true).
    { apply andb_true_iff. split; [unfold exists_; rewrite A1; reflexivity|apply mtime_is_true; exists sg; split; assumption]. }
    rewrite X.
    assert (Y: exists_ fs r && mtime_is fs r (e_db_mtime e) && obool_eqb (Some c) (e_complete e) = true).
    { repeat (apply andb_true_iff; split); [unfold exists_; rewrite B1; reflexivity|apply mtime_is_true; exists sr; split; assumption|apply obool_eqb_some; assumption]. }
    rewrite Y. reflexivity.
Qed.

(* the db2gtf direction: with the recorded path compared (repaired predicate) a GTF is reused only for the database it
   was made from; the predicate as it stands does not look at the path *)
Lemma find_some_fst {A} (f : A -> bool) l x : find f l = Some x -> In x l /\ f x = true.
Proof. apply find_some. Qed.
Theorem db2gtf_hit_sound : forall d db fs k,
  find_converted_gtf true d db fs = Some k ->
  exists sg sd, field d k e_genedb = Some db /\ fs k = Some sg /\ field d k e_gtf_mtime = Some (f_mtime sg) /\
                fs db = Some sd /\ field d k e_db_mtime = Some (f_mtime sd).
Proof.
  intros d db fs k. unfold find_converted_gtf. destruct (find _ d) as [[k' e']|] eqn:F; [|discriminate].
  intro H; inversion H; subst k'. apply find_some in F. destruct F as [_ F]. cbn [fst] in F. unfold compare_stored_gtf in F.
  repeat (apply andb_true_iff in F; destruct F as [F ?]).
  apply mtime_is_true in H1. destruct H1 as [sd [D1 D2]]. apply mtime_is_true in H3. destruct H3 as [sg [G1 G2]].
  exists sg, sd. unfold opath_eqb in H0. destruct (field d k e_genedb) as [x|]; [|discriminate]. apply Z.eqb_eq in H0. subst x.
  repeat split; assumption.
Qed.
(* witness: the GTF made from database 21 is handed to a run whose input is database 22 with the same mtime *)
Example db2gtf_hit_sound_refuted :
  let fs := fs_of_list [(5, mkstat 7 (Gtf 100)); (21, mkstat 9 (Db 100 true)); (22, mkstat 9 (Db 200 true))] in
  let d := [(5, mkentry (Some 21) (Some 7) (Some 9) (Some true))] in
  find_converted_gtf false d 22 fs = Some 5 /\ find_converted_gtf true d 22 fs = None /\ find_converted_gtf true d 21 fs = Some 5.
Proof. vm_compute. repeat split; reflexivity. Qed.

(* ---- the caches of read_mapper: an index / BED / BAM is reused exactly when the entry under this key names it and every
        recorded modification time (and the k-mer size) equals the current one *)
Lemma oz_is_true a b : oz_is a b = true <-> b = Some a.
Proof. unfold oz_is. destruct b as [y|]; [rewrite Z.eqb_eq; split; [intros ->; reflexivity|intro H; inversion H; reflexivity]|split; discriminate]. Qed.
Lemma exists_mtime fs p m : exists_ fs p && mtime_is fs p m = true <-> exists s, fs p = Some s /\ m = Some (f_mtime s).
Proof. rewrite andb_true_iff, mtime_is_true. split; [intros [_ H]; exact H|intros (s & H1 & H2); split; [unfold exists_; rewrite H1; reflexivity|exists s; split; assumption]]. Qed.

Theorem index_hit_sound : forall d ref kmer fs r,
  find_stored_index d ref kmer fs = Some r <->
  exists e sr si, aget d ref = Some e /\ i_index e = Some r /\
                  fs ref = Some sr /\ i_ref_mtime e = Some (f_mtime sr) /\
                  fs r = Some si /\ i_index_mtime e = Some (f_mtime si) /\ i_kmer e = Some kmer.
Proof.
  intros d ref kmer fs r. unfold find_stored_index, afield. destruct (aget d ref) as [e|]; [|split; [discriminate|intros (e & _ & _ & H & _); discriminate]].
  destruct (i_index e) as [idx|] eqn:Ei; [|split; [discriminate|intros (e' & sr & si & H & H2 & _); inversion H; subst e'; congruence]].
  destruct (exists_ fs ref && mtime_is fs ref (i_ref_mtime e)) eqn:A.
  - apply exists_mtime in A. destruct A as (sr & A1 & A2).
    destruct (exists_ fs idx && mtime_is fs idx (i_index_mtime e)) eqn:B.
    + apply exists_mtime in B. destruct B as (si & B1 & B2). destruct (oz_is kmer (i_kmer e)) eqn:K.
      * apply oz_is_true in K. split.
        -- intro H; inversion H; subst idx. exists e, sr, si. repeat split; assumption.
        -- intros (e' & _ & _ & H & H2 & _). inversion H; subst e'. congruence.
      * split; [discriminate|]. intros (e' & _ & _ & H & _ & _ & _ & _ & _ & K2). inversion H; subst e'. apply oz_is_true in K2. congruence.
    + split; [discriminate|]. intros (e' & sr' & si & H & H2 & _ & _ & B1 & B2 & _). inversion H; subst e'. assert (idx = r) by congruence. subst idx.
      assert (X: exists_ fs r && mtime_is fs r (i_index_mtime e) = true) by (apply exists_mtime; exists si; split; assumption). congruence.
  - split; [discriminate|]. intros (e' & sr & si & H & _ & A1 & A2 & _). inversion H; subst e'.
    assert (X: exists_ fs ref && mtime_is fs ref (i_ref_mtime e) = true) by (apply exists_mtime; exists sr; split; assumption). congruence.
Qed.

Theorem bed_hit_sound : forall d db fs r,
  find_stored_bed d db fs = Some r <->
  exists e sd sb, aget d db = Some e /\ b_bed e = Some r /\
                  fs db = Some sd /\ b_ref_mtime e = Some (f_mtime sd) /\
                  fs r = Some sb /\ b_bed_mtime e = Some (f_mtime sb).
Proof.
  intros d db fs r. unfold find_stored_bed, afield. destruct (aget d db) as [e|]; [|split; [discriminate|intros (e & _ & _ & H & _); discriminate]].
  destruct (b_bed e) as [bed|] eqn:Ei; [|split; [discriminate|intros (e' & sr & si & H & H2 & _); inversion H; subst e'; congruence]].
  destruct (exists_ fs db && mtime_is fs db (b_ref_mtime e)) eqn:A.
  - apply exists_mtime in A. destruct A as (sr & A1 & A2).
    destruct (exists_ fs bed && mtime_is fs bed (b_bed_mtime e)) eqn:B.
    + apply exists_mtime in B. destruct B as (si & B1 & B2). split.
      * intro H; inversion H; subst bed. exists e, sr, si. repeat split; assumption.
      * intros (e' & _ & _ & H & H2 & _). inversion H; subst e'. congruence.
    + split; [discriminate|]. intros (e' & sr' & si & H & H2 & _ & _ & B1 & B2). inversion H; subst e'. assert (bed = r) by congruence. subst bed.
      assert (X: exists_ fs r && mtime_is fs r (b_bed_mtime e) = true) by (apply exists_mtime; exists si; split; assumption). congruence.
  - split; [discriminate|]. intros (e' & sr & si & H & _ & A1 & A2 & _). inversion H; subst e'.
    assert (X: exists_ fs db && mtime_is fs db (b_ref_mtime e) = true) by (apply exists_mtime; exists sr; split; assumption). congruence.
Qed.

(* soundness of the alignment cache (the direction the property needs): a BAM is reused only if the entry under this key
   names it and the index, the annotation (when one is used), the reads and the BAM all carry the recorded times *)
Theorem alignment_hit_sound : forall d key fastq index ann fs r,
  find_stored_alignment d key fastq index ann fs = Ok (Some r) ->
  exists e si sf sb, aget d key = Some e /\ a_bam e = Some r /\
                     fs index = Some si /\ a_index_mtime e = Some (f_mtime si) /\
                     (forall ap, ann = Some ap -> exists sa, fs ap = Some sa /\ a_ann_mtime e = Some (f_mtime sa)) /\
                     fs fastq = Some sf /\ a_fastq_mtime e = Some (f_mtime sf) /\
                     fs r = Some sb /\ a_bam_mtime e = Some (f_mtime sb).
Proof.
  intros d key fastq index ann fs r. unfold find_stored_alignment, afield. destruct (aget d key) as [e|]; [|discriminate].
  destruct (a_bam e) as [bam|] eqn:Eb; [|discriminate].
  destruct (fs index) as [si|] eqn:Fi; [|discriminate].
  destruct (mtime_is fs index (a_index_mtime e)) eqn:Mi; [|discriminate]. cbn [negb].
  apply mtime_is_true in Mi. destruct Mi as (si' & Fi' & Mi). rewrite Fi in Fi'. inversion Fi'; subst si'.
  assert (REST: (if exists_ fs fastq && mtime_is fs fastq (a_fastq_mtime e) then if exists_ fs bam && mtime_is fs bam (a_bam_mtime e) then Ok (Some bam) else Ok None else Ok None) = Ok (Some r) ->
                exists sf sb, bam = r /\ fs fastq = Some sf /\ a_fastq_mtime e = Some (f_mtime sf) /\ fs r = Some sb /\ a_bam_mtime e = Some (f_mtime sb)).
  { destruct (exists_ fs fastq && mtime_is fs fastq (a_fastq_mtime e)) eqn:A; [|discriminate]. apply exists_mtime in A. destruct A as (sf & A1 & A2).
    destruct (exists_ fs bam && mtime_is fs bam (a_bam_mtime e)) eqn:B; [|discriminate]. apply exists_mtime in B. destruct B as (sb & B1 & B2).
    intro H; inversion H; subst bam. exists sf, sb. repeat split; assumption. }
  destruct ann as [ap|].
  - destruct (fs ap) as [sa|] eqn:Fa; [|discriminate]. destruct (mtime_is fs ap (a_ann_mtime e)) eqn:Ma; [|discriminate]. cbn [negb].
    apply mtime_is_true in Ma. destruct Ma as (sa' & Fa' & Ma). intro H. destruct (REST H) as (sf & sb & -> & R).
    exists e, si, sf, sb. split; [reflexivity|]. split; [exact Eb|]. split; [reflexivity|]. split; [exact Mi|]. split; [|exact R].
    intros ap' Hap. inversion Hap; subst ap'. exists sa'. split; assumption.
  - intro H. destruct (REST H) as (sf & sb & -> & R).
    exists e, si, sf, sb. split; [reflexivity|]. split; [exact Eb|]. split; [reflexivity|]. split; [exact Mi|]. split; [|exact R]. intros ap Hap; discriminate.
Qed.

(* ================================================================== 2. dictionaries *)
Lemma dget_dset_same d k e : dget (dset d k e) k = Some e.
Proof. induction d as [|[k' e'] t IH]; cbn [dset dget]; [rewrite Z.eqb_refl; reflexivity|].
  destruct (k' =? k) eqn:E; cbn [dget]; [rewrite Z.eqb_refl; reflexivity|rewrite E; exact IH]. Qed.
Lemma dget_dset_other d k e k2 : k2 <> k -> dget (dset d k e) k2 = dget d k2.
Proof. intro N. induction d as [|[k' e'] t IH]; cbn [dset dget].
  - destruct (k =? k2) eqn:E; [apply Z.eqb_eq in E; congruence|reflexivity].
  - destruct (k' =? k) eqn:E; cbn [dget].
    + apply Z.eqb_eq in E. subst k'. destruct (k =? k2) eqn:E2; [apply Z.eqb_eq in E2; congruence|reflexivity].
    + destruct (k' =? k2); [reflexivity|exact IH]. Qed.

(* ================================================================== 3. stepping the n-th process *)
Lemma step_nth_none : forall ps i sh, nth_error ps i = None -> step_nth sh ps i = (sh, ps).
Proof. induction ps as [|p t IH]; intros i sh H; [reflexivity|]. destruct i as [|j]; [discriminate|]. cbn [step_nth]. cbn in H. rewrite (IH j sh H). reflexivity. Qed.
Lemma step_nth_shared : forall ps i sh p, nth_error ps i = Some p -> fst (step_nth sh ps i) = fst (step1 sh p).
Proof. induction ps as [|q t IH]; intros i sh p H; [destruct i; discriminate|]. destruct i as [|j]; cbn [step_nth].
  - inversion H; subst. destruct (step1 sh p); reflexivity.
  - cbn in H. specialize (IH j sh p H). destruct (step_nth sh t j). exact IH. Qed.
Lemma step_nth_same : forall ps i sh p, nth_error ps i = Some p -> nth_error (snd (step_nth sh ps i)) i = Some (snd (step1 sh p)).
Proof. induction ps as [|q t IH]; intros i sh p H; [destruct i; discriminate|]. destruct i as [|j]; cbn [step_nth].
  - inversion H; subst. destruct (step1 sh p); reflexivity.
  - cbn in H. specialize (IH j sh p H). destruct (step_nth sh t j). exact IH. Qed.
Lemma step_nth_other : forall ps i j sh, i <> j -> nth_error (snd (step_nth sh ps i)) j = nth_error ps j.
Proof. induction ps as [|q t IH]; intros i j sh N; [reflexivity|]. destruct i as [|i]; cbn [step_nth].
  - destruct (step1 sh q). destruct j; [congruence|reflexivity].
  - specialize (IH i). destruct j as [|j]; [destruct (step_nth sh t i); reflexivity|].
    specialize (IH j sh). destruct (step_nth sh t i). cbn. apply IH. congruence. Qed.
Lemma step_nth_length : forall ps i sh, length (snd (step_nth sh ps i)) = length ps.
Proof. induction ps as [|q t IH]; intros i sh; [reflexivity|]. destruct i as [|i]; cbn [step_nth].
  - destruct (step1 sh q); reflexivity.
  - specialize (IH i sh). destruct (step_nth sh t i). cbn in *. congruence. Qed.

(* a world invariant of the form  J shared /\ every process satisfies Q shared  is preserved by every step, given
   (self) the stepping process re-establishes J and its own Q, (others) Q of any OTHER process survives the change of
   the shared state; "other" = at a different position, so static pairwise facts may be used through R *)
Section Preservation.
  Variable J : shared -> Prop.
  Variable Q : shared -> proc -> Prop.
  Variable R : proc -> proc -> Prop.       (* relation between the stepping process and another one, static *)
  Definition winv (w : world) := J (w_sh w) /\ forall i p, nth_error (w_procs w) i = Some p -> Q (w_sh w) p.
  Definition pairwise (ps : list proc) := forall i j p q, i <> j -> nth_error ps i = Some p -> nth_error ps j = Some q -> R p q.
  Hypothesis self : forall sh p, J sh -> Q sh p -> J (fst (step1 sh p)) /\ Q (fst (step1 sh p)) (snd (step1 sh p)).
  Hypothesis others : forall sh p q, J sh -> Q sh p -> Q sh q -> R p q -> Q (fst (step1 sh p)) q.
  Lemma step_winv w i : pairwise (w_procs w) -> winv w -> winv (step w i).
  Proof.
    intros PW [HJ HQ]. unfold step. destruct (nth_error (w_procs w) i) as [p|] eqn:E.
    - pose proof (step_nth_shared _ _ (w_sh w) _ E) as S1. pose proof (step_nth_same _ _ (w_sh w) _ E) as S2.
      pose proof (fun j => step_nth_other (w_procs w) i j (w_sh w)) as S3.
      destruct (step_nth (w_sh w) (w_procs w) i) as [sh' ps']. cbn [fst snd] in *. subst sh'.
      destruct (self _ _ HJ (HQ _ _ E)) as [J' Q']. split; [exact J'|]. cbn [w_sh w_procs].
      intros j q Hq. destruct (Nat.eq_dec i j) as [->|N].
      + rewrite S2 in Hq. inversion Hq; subst. exact Q'.
      + rewrite (S3 j N) in Hq. apply (others _ p q HJ (HQ _ _ E) (HQ _ _ Hq)). exact (PW i j p q N E Hq).
    - rewrite (step_nth_none _ _ _ E). split; assumption.
  Qed.
End Preservation.

(* static data never change *)
Definition same_static (p q : proc) := p_gtf p = p_gtf q /\ p_out p = p_out q /\ p_complete p = p_complete q /\ p_len p = p_len q.
Lemma exec_static o rest sh p : same_static (snd (exec o rest sh p)) p.
Proof. unfold same_static. destruct o; cbn [exec];
  repeat match goal with
         | |- context [if ?b then _ else _] => destruct b
         | |- context [match ?x with _ => _ end] => destruct x
         end; cbn; auto. Qed.
Lemma fin_static p : same_static (fin p) p.
Proof. unfold same_static, fin. destruct (p_st p); [destruct (p_prog p)|..]; cbn; auto. Qed.
Lemma step1_static sh p : same_static (snd (step1 sh p)) p.
Proof. unfold step1. destruct (p_st p); try (unfold same_static; auto; fail). destruct (p_prog p) as [|o rest]; [unfold same_static; auto|].
  pose proof (exec_static o rest sh p) as E. destruct (exec o rest sh p) as [sh' p']. cbn [snd] in *.
  pose proof (fin_static p') as F. unfold same_static in *. intuition congruence. Qed.

(* ================================================================== 4. a run only ever uses a conversion of its own input *)
(* An entry is HONEST w.r.t. the file system when, if all the facts the lookup tests hold of it now, the database it
   names is the conversion of the annotation under its key with the recorded flag.  Modification times identify file
   versions: every write stamps a fresh time (the clock), so entries about an overwritten file can never match again. *)
Definition bounded (ck : Z) (d : dict) := forall k e m, dget d k = Some e -> e_db_mtime e = Some m -> m < ck.
Definition honest (fs : fsys) (d : dict) :=
  forall k e a gm r dm x c, dget d k = Some e -> fs k = Some (mkstat gm (Gtf a)) -> e_gtf_mtime e = Some gm ->
    e_genedb e = Some r -> fs r = Some (mkstat dm x) -> e_db_mtime e = Some dm -> e_complete e = Some c -> x = Db a c.
Definition dict_ok (sh : shared) (d : dict) := honest (s_fs sh) d /\ bounded (s_clock sh) d.
Definition clock_ok (sh : shared) := forall q s, s_fs sh q = Some s -> f_mtime s < s_clock sh.
Definition JB (sh : shared) := clock_ok sh /\ forall d n, s_file sh = Data (Some d) n -> dict_ok sh d.
(* r holds the conversion of p's input with p's flag *)
Definition own_ok (fs : fsys) (p : proc) (r : path) :=
  exists gm a dm, fs (p_gtf p) = Some (mkstat gm (Gtf a)) /\ fs r = Some (mkstat dm (Db a (p_complete p))).
(* the program never records an entry before the conversion it describes *)
Fixpoint guarded (conv : bool) (prog : list op) : Prop :=
  match prog with
  | [] => True
  | OConvert :: t => guarded true t
  | OModify :: t => conv = true /\ guarded conv t
  | _ :: t => guarded conv t
  end.
Definition QB (sh : shared) (p : proc) :=
  dict_ok sh (p_local p) /\
  (p_conv p = true -> own_ok (s_fs sh) p (p_out p)) /\
  (p_conv p = false -> s_fs sh (p_out p) = None) /\
  (forall r, p_st p = Done (Some r) -> own_ok (s_fs sh) p r) /\
  guarded (p_conv p) (p_prog p) /\
  p_out p <> p_gtf p /\
  (exists gm a, s_fs sh (p_gtf p) = Some (mkstat gm (Gtf a))).        (* the input annotation is there *)
Definition RB (p q : proc) := p_out p <> p_out q /\ p_out p <> p_gtf q.

Lemma dict_ok_nil sh : dict_ok sh [].
Proof. split; intros k e; intros; discriminate. Qed.

Lemma QB_fin sh p : QB sh p -> QB sh (fin p).
Proof. intros H. pose proof H as (D & C1 & C2 & Rr & G & N & In). unfold fin. destruct (p_st p) eqn:S; try exact H.
  destruct (p_prog p) eqn:Pg; [|exact H].
  unfold QB. cbn. split; [exact D|]. split; [exact C1|]. split; [exact C2|]. split; [|split; [exact I|split; [exact N|exact In]]].
  intros r H0. inversion H0 as [H1]. destruct (p_conv p) eqn:Cv; [|discriminate]. inversion H1; subst r. apply C1. reflexivity. Qed.

(* effect of a conversion on the facts about dictionaries *)
Lemma dict_ok_convert sh f out a c d :
  clock_ok sh -> dict_ok sh d -> dict_ok (mkshared f (fs_set (s_fs sh) out (mkstat (s_clock sh) (Db a c))) (s_clock sh + 1)) d.
Proof. intros CK [H B]. split; cbn [s_fs s_clock].
  - intros k e a' gm r dm x c' E Fk Eg Er Fr Ed Ec. unfold fs_set in Fk, Fr.
    destruct (k =? out) eqn:K; [discriminate|].
    destruct (r =? out) eqn:Rr.
    + inversion Fr; subst. specialize (B k e _ E Ed). lia.
    + eapply H; eassumption.
  - intros k e m E Ed. specialize (B k e m E Ed). lia. Qed.
Lemma clock_ok_convert sh f out x :
  clock_ok sh -> clock_ok (mkshared f (fs_set (s_fs sh) out (mkstat (s_clock sh) x)) (s_clock sh + 1)).
Proof. intros CK q s. cbn [s_fs s_clock]. unfold fs_set. destruct (q =? out).
  - intro H; inversion H; subst; cbn; lia.
  - intro H. specialize (CK q s H). lia. Qed.

Ltac same_fs := cbn [s_fs s_clock s_file] in *.

Lemma dict_ok_modify sh p sg sd :
  p_conv p = true -> (p_conv p = true -> own_ok (s_fs sh) p (p_out p)) -> clock_ok sh ->
  s_fs sh (p_gtf p) = Some sg -> s_fs sh (p_out p) = Some sd -> dict_ok sh (p_local p) ->
  dict_ok sh (dset (p_local p) (p_gtf p) (mkentry (Some (p_out p)) (Some (f_mtime sg)) (Some (f_mtime sd)) (Some (p_complete p)))).
Proof. intros Cv C1 CK Fg Fo [H B]. destruct (C1 Cv) as (gm & a & dm & Og & Oo). split.
  - intros k e a' gm' r dm' x c E Fk Eg Er Fr Ed Ec. destruct (Z.eq_dec k (p_gtf p)) as [->|N].
    + rewrite dget_dset_same in E. inversion E; subst e. cbn in *. inversion Er; subst r. inversion Ec; subst c.
      rewrite Og in Fk. inversion Fk; subst. rewrite Oo in Fr. inversion Fr; subst. reflexivity.
    + rewrite dget_dset_other in E by exact N. eapply H; eassumption.
  - intros k e m E Ed. destruct (Z.eq_dec k (p_gtf p)) as [->|N].
    + rewrite dget_dset_same in E. inversion E; subst e. cbn in Ed. inversion Ed; subst m. apply (CK _ _ Fo).
    + rewrite dget_dset_other in E by exact N. eapply B; eassumption. Qed.

Lemma lookup_hit_own sh p r : dict_ok sh (p_local p) ->
  find_converted_db (p_local p) (p_gtf p) (p_complete p) (s_fs sh) = Ok (Some r) ->
  (exists gm a, s_fs sh (p_gtf p) = Some (mkstat gm (Gtf a))) -> own_ok (s_fs sh) p r.
Proof. intros [H _] F (gm & a & Fg). apply cache_hit_sound in F. destruct F as (e & sg & sr & E & Er & Fg' & Eg & Fr & Ed & Ec).
  rewrite Fg in Fg'. inversion Fg'; subst sg. destruct sr as [dm x]. cbn in *.
  assert (x = Db a (p_complete p)) by (eapply H; eassumption). subst x. exists gm, a, dm. split; assumption. Qed.

Lemma write_some f d n d' n' : write f (Some d) n = Data (Some d') n' -> d' = d.
Proof. unfold write. destruct f as [|v len]; [intro H; inversion H; reflexivity|]. destruct (len <=? n); intro H; inversion H; reflexivity. Qed.

Lemma QB_crash sh p k : QB sh p -> QB sh (crash p k).
Proof. intros (D & C1 & C2 & Rr & G & N & In). unfold QB, crash. cbn.
  split; [exact D|]. split; [exact C1|]. split; [exact C2|]. split; [intros r H; discriminate|]. split; [exact I|split; [exact N|exact In]]. Qed.

(* QB of a process whose local dictionary / program / flags are replaced, shared state the same *)
Lemma QB_upd sh p prog local absent :
  QB sh p -> p_st p = Running -> dict_ok sh local -> guarded (p_conv p) prog -> QB sh (pupd p prog local (p_st p) absent (p_conv p)).
Proof. intros (D & C1 & C2 & Rr & G & N & In) S DL GP. unfold QB. cbn.
  split; [exact DL|]. split; [exact C1|]. split; [exact C2|]. split; [rewrite S; intros r H; discriminate|]. split; [exact GP|split; [exact N|exact In]]. Qed.
Lemma QB_file sh p f : QB sh p -> QB (mkshared f (s_fs sh) (s_clock sh)) p.
Proof. intro H. exact H. Qed.
Lemma JB_file sh f : JB sh -> (forall d n, f = Data (Some d) n -> dict_ok sh d) -> JB (mkshared f (s_fs sh) (s_clock sh)).
Proof. intros [CK FD] H. split; [exact CK|]. intros d n E. cbn [s_file] in E. exact (H d n E). Qed.

Lemma execB o rest sh p : p_st p = Running -> p_prog p = o :: rest -> JB sh -> QB sh p ->
  JB (fst (exec o rest sh p)) /\ QB (fst (exec o rest sh p)) (snd (exec o rest sh p)).
Proof.
  intros S Pg HJ HQ. pose proof HJ as [CK FD]. pose proof HQ as (D & C1 & C2 & Rr & G & N & In). rewrite Pg in G.
  destruct o; cbn [exec]; cbn [guarded] in G.
  - (* OExists *) split; [exact HJ|]. apply QB_upd; assumption.
  - (* OInitTrunc *) destruct (p_absent p); cbn [fst snd]; (split; [|apply QB_upd; assumption]); [|exact HJ].
    apply JB_file; [exact HJ|]. intros d n E; discriminate.
  - (* OInitDump *) destruct (p_absent p); cbn [fst snd]; (split; [|apply QB_upd; assumption]); [|exact HJ].
    apply JB_file; [exact HJ|]. intros d n E. apply write_some in E. subst d. apply dict_ok_nil.
  - (* OInitReplace *) destruct (p_absent p); cbn [fst snd]; (split; [|apply QB_upd; assumption]); [|exact HJ].
    apply JB_file; [exact HJ|]. intros d n E. inversion E; subst. apply dict_ok_nil.
  - (* ORead *) destruct (s_file sh) as [|[d|] n] eqn:F; cbn [fst snd]; (split; [exact HJ|]); try (apply QB_crash; exact HQ).
    apply QB_upd; try assumption. exact (FD d n eq_refl).
  - (* OLookup *) destruct (find_converted_db (p_local p) (p_gtf p) (p_complete p) (s_fs sh)) as [[r|]|k] eqn:L; cbn [fst snd]; (split; [exact HJ|]).
    + unfold QB. cbn. split; [exact D|]. split; [exact C1|]. split; [exact C2|]. split; [|split; [exact I|split; [exact N|exact In]]].
      intros r' H. inversion H; subst r'. eapply lookup_hit_own; eassumption.
    + apply QB_upd; assumption.
    + apply QB_crash; exact HQ.
  - (* OConvert *) destruct In as (gm & a & Fg). rewrite Fg. cbn [fst snd]. split.
    + split; [apply clock_ok_convert; exact CK|]. intros d n E. cbn [s_file] in E. apply dict_ok_convert; [exact CK|exact (FD d n E)].
    + unfold QB. cbn [p_local p_conv p_out p_gtf p_st p_prog p_complete pupd s_fs s_clock].
      split; [apply dict_ok_convert; assumption|].
      assert (OK: own_ok (fs_set (s_fs sh) (p_out p) (mkstat (s_clock sh) (Db a (p_complete p)))) (pupd p rest (p_local p) (p_st p) (p_absent p) true) (p_out p)).
      { exists gm, a, (s_clock sh). cbn. unfold fs_set. rewrite Z.eqb_refl. destruct (p_gtf p =? p_out p) eqn:E; [apply Z.eqb_eq in E; congruence|]. split; [exact Fg|reflexivity]. }
      split; [intros _; exact OK|]. split; [discriminate|]. split; [rewrite S; intros r H; discriminate|]. split; [exact G|]. split; [exact N|].
      exists gm, a. unfold fs_set. destruct (p_gtf p =? p_out p) eqn:E; [apply Z.eqb_eq in E; congruence|exact Fg].
  - (* OModify *) destruct G as [Cv G]. destruct (s_fs sh (p_gtf p)) as [sg|] eqn:Fg; [destruct (s_fs sh (p_out p)) as [sd|] eqn:Fo|]; cbn [fst snd];
      (split; [exact HJ|]); try (apply QB_crash; exact HQ).
    apply QB_upd; try assumption. apply dict_ok_modify; assumption.
  - (* OTrunc *) cbn [fst snd]. split; [|apply QB_upd; assumption]. apply JB_file; [exact HJ|]. intros d n E; discriminate.
  - (* ODump *) cbn [fst snd]. split; [|apply QB_upd; assumption]. apply JB_file; [exact HJ|]. intros d n E. apply write_some in E. subst d. exact D.
  - (* OReplace *) cbn [fst snd]. split; [|apply QB_upd; assumption]. apply JB_file; [exact HJ|]. intros d n E. inversion E; subst. exact D.
Qed.

Lemma selfB sh p : JB sh -> QB sh p -> JB (fst (step1 sh p)) /\ QB (fst (step1 sh p)) (snd (step1 sh p)).
Proof. intros HJ HQ. unfold step1. destruct (p_st p) eqn:S; try (split; assumption).
  destruct (p_prog p) as [|o rest] eqn:Pg; [split; assumption|].
  destruct (execB o rest sh p S Pg HJ HQ) as [J' Q']. destruct (exec o rest sh p) as [sh' p']. cbn [fst snd] in *.
  split; [exact J'|apply QB_fin; exact Q']. Qed.

(* what a step can do to the file system and the clock: nothing, or the stepping process's own conversion *)
Lemma exec_fs o rest sh p :
  (s_fs (fst (exec o rest sh p)) = s_fs sh /\ s_clock (fst (exec o rest sh p)) = s_clock sh) \/
  (exists gm a, s_fs sh (p_gtf p) = Some (mkstat gm (Gtf a)) /\
                s_fs (fst (exec o rest sh p)) = fs_set (s_fs sh) (p_out p) (mkstat (s_clock sh) (Db a (p_complete p))) /\
                s_clock (fst (exec o rest sh p)) = s_clock sh + 1).
Proof. destruct o; cbn [exec];
  try (left; repeat match goal with |- context [if ?b then _ else _] => destruct b | |- context [match ?x with _ => _ end] => destruct x end; cbn; split; reflexivity).
  destruct (s_fs sh (p_gtf p)) as [[gm [a|a c]]|] eqn:F; try (left; cbn; split; reflexivity).
  right. exists gm, a. cbn. repeat split; reflexivity. Qed.
Lemma step1_fs sh p :
  (s_fs (fst (step1 sh p)) = s_fs sh /\ s_clock (fst (step1 sh p)) = s_clock sh) \/
  (exists gm a, s_fs sh (p_gtf p) = Some (mkstat gm (Gtf a)) /\
                s_fs (fst (step1 sh p)) = fs_set (s_fs sh) (p_out p) (mkstat (s_clock sh) (Db a (p_complete p))) /\
                s_clock (fst (step1 sh p)) = s_clock sh + 1).
Proof. unfold step1. destruct (p_st p); try (left; split; reflexivity). destruct (p_prog p) as [|o rest]; [left; split; reflexivity|].
  pose proof (exec_fs o rest sh p) as H. destruct (exec o rest sh p) as [sh' p']. exact H. Qed.

Lemma QB_ext sh sh' q : s_fs sh' = s_fs sh -> s_clock sh' = s_clock sh -> QB sh q -> QB sh' q.
Proof. intros E1 E2 H. unfold QB, dict_ok in *. rewrite E1, E2. exact H. Qed.

Lemma othersB sh p q : JB sh -> QB sh p -> QB sh q -> RB p q -> QB (fst (step1 sh p)) q.
Proof.
  intros [CK _] HP HQ [R1 R2]. destruct (step1_fs sh p) as [[E1 E2]|(gm & a & Fg & E1 & E2)]; [eapply QB_ext; eassumption|].
  destruct HQ as (D & C1 & C2 & Rr & G & N & In). destruct HP as (_ & PC1 & PC2 & _ & _ & PN & _).
  set (sh' := fst (step1 sh p)) in *.
  assert (OTH: forall x, x <> p_out p -> s_fs sh' x = s_fs sh x).
  { intros x Hx. rewrite E1. unfold fs_set. destruct (x =? p_out p) eqn:E; [apply Z.eqb_eq in E; congruence|reflexivity]. }
  assert (DK: forall d, dict_ok sh d -> dict_ok sh' d).
  { intros d Hd. pose proof (dict_ok_convert sh (s_file sh) (p_out p) a (p_complete p) d CK Hd) as X.
    unfold dict_ok in *. cbn [s_fs s_clock] in X. rewrite E1, E2. exact X. }
  unfold QB. split; [apply DK; exact D|].
  assert (OWN: forall r, own_ok (s_fs sh) q r -> own_ok (s_fs sh') q r).
  { intros r (gm' & a' & dm' & Og & Or). destruct (Z.eq_dec r (p_out p)) as [->|Nr].
    - (* q's database is the file p rewrites: p had converted before, with the same content *)
      destruct (p_conv p) eqn:Cv; [|rewrite (PC2 eq_refl) in Or; discriminate].
      destruct (PC1 eq_refl) as (gm2 & a2 & dm2 & Pg & Po). rewrite Po in Or. injection Or as Edm Ea Ec. rewrite Fg in Pg. injection Pg as Egm Ea2.
      exists gm', a', (s_clock sh). split; [rewrite OTH by congruence; exact Og|]. rewrite E1. unfold fs_set. rewrite Z.eqb_refl. rewrite <- Ec, <- Ea, <- Ea2. reflexivity.
    - exists gm', a', dm'. split; [rewrite OTH by congruence; exact Og|rewrite OTH by exact Nr; exact Or]. }
  split; [intro Cv; apply OWN, C1, Cv|]. split; [intro Cv; rewrite OTH by congruence; apply C2, Cv|].
  split; [intros r Hr; apply OWN, Rr, Hr|]. split; [exact G|]. split; [exact N|].
  destruct In as (gm' & a' & Iq). exists gm', a'. rewrite OTH by congruence. exact Iq.
Qed.

(* ---------- along a whole schedule *)
Lemma same_static_trans p q r : same_static p q -> same_static q r -> same_static p r.
Proof. unfold same_static. intuition congruence. Qed.
Lemma same_static_refl p : same_static p p. Proof. unfold same_static. auto. Qed.

Lemma step_static w i j q' : nth_error (w_procs (step w i)) j = Some q' -> exists q, nth_error (w_procs w) j = Some q /\ same_static q' q.
Proof. unfold step. intro H. destruct (nth_error (w_procs w) i) as [p|] eqn:E.
  - pose proof (step_nth_same _ _ (w_sh w) _ E) as S2. pose proof (fun j => step_nth_other (w_procs w) i j (w_sh w)) as S3.
    destruct (step_nth (w_sh w) (w_procs w) i) as [sh' ps']. cbn [w_procs snd] in *. destruct (Nat.eq_dec i j) as [->|N].
    + rewrite S2 in H. inversion H; subst. exists p. split; [exact E|apply step1_static].
    + rewrite (S3 j N) in H. exists q'. split; [exact H|apply same_static_refl].
  - rewrite (step_nth_none _ _ _ E) in H. exists q'. split; [exact H|apply same_static_refl]. Qed.
Lemma run_static : forall sched w j q', nth_error (w_procs (run w sched)) j = Some q' -> exists q, nth_error (w_procs w) j = Some q /\ same_static q' q.
Proof. induction sched as [|i t IH]; intros w j q' H; [exists q'; split; [exact H|apply same_static_refl]|].
  cbn [run fold_left] in H. destruct (IH (step w i) j q' H) as (q1 & H1 & S1). destruct (step_static w i j q1 H1) as (q & H2 & S2).
  exists q. split; [exact H2|eapply same_static_trans; eassumption]. Qed.

Lemma pairwise_step (R : proc -> proc -> Prop) w i :
  (forall p q p' q', same_static p' p -> same_static q' q -> R p q -> R p' q') -> pairwise R (w_procs w) -> pairwise R (w_procs (step w i)).
Proof. intros Rs PW a b p' q' N Ha Hb. destruct (step_static w i a p' Ha) as (p & Hp & Sp). destruct (step_static w i b q' Hb) as (q & Hq & Sq).
  eapply Rs; [exact Sp|exact Sq|]. exact (PW a b p q N Hp Hq). Qed.
Lemma RB_static p q p' q' : same_static p' p -> same_static q' q -> RB p q -> RB p' q'.
Proof. unfold same_static, RB. intros (A1 & A2 & _) (B1 & B2 & _) [H1 H2]. rewrite A2, B2, B1. split; assumption. Qed.

Lemma run_winvB : forall sched w, pairwise RB (w_procs w) -> winv JB QB w -> winv JB QB (run w sched).
Proof. induction sched as [|i t IH]; intros w PW H; [exact H|]. cbn [run fold_left]. apply IH.
  - apply pairwise_step; [apply RB_static|exact PW].
  - apply (step_winv JB QB RB selfB othersB); assumption. Qed.

(* input files are never written: only the processes' own database paths are *)
Lemma step_fs_other w i x : (forall j q, nth_error (w_procs w) j = Some q -> p_out q <> x) -> s_fs (w_sh (step w i)) x = s_fs (w_sh w) x.
Proof. intro H. unfold step. destruct (nth_error (w_procs w) i) as [p|] eqn:E.
  - pose proof (step_nth_shared _ _ (w_sh w) _ E) as S1. destruct (step_nth (w_sh w) (w_procs w) i) as [sh' ps']. cbn [fst w_sh] in *. subst sh'.
    destruct (step1_fs (w_sh w) p) as [[E1 _]|(gm & a & _ & E1 & _)]; rewrite E1; [reflexivity|].
    unfold fs_set. destruct (x =? p_out p) eqn:X; [apply Z.eqb_eq in X; specialize (H i p E); congruence|reflexivity].
  - rewrite (step_nth_none _ _ _ E). reflexivity. Qed.
Lemma run_fs_other : forall sched w x, (forall j q, nth_error (w_procs w) j = Some q -> p_out q <> x) -> s_fs (w_sh (run w sched)) x = s_fs (w_sh w) x.
Proof. induction sched as [|i t IH]; intros w x H; [reflexivity|]. cbn [run fold_left]. fold (run (step w i) t). rewrite IH.
  - apply step_fs_other, H.
  - intros j q' Hq. destruct (step_static w i j q' Hq) as (q & Hq0 & (_ & S2 & _)). rewrite S2. exact (H j q Hq0). Qed.

(* the start of the runs: separate output folders that hold no database yet, inputs that are annotations, a cache whose
   entries are honest (left by earlier runs), any programs that record an entry only after converting *)
Definition fresh_proc (sh : shared) (p : proc) :=
  p_local p = [] /\ p_conv p = false /\ p_st p = Running /\ s_fs sh (p_out p) = None /\ guarded false (p_prog p) /\
  p_out p <> p_gtf p /\ exists gm a, s_fs sh (p_gtf p) = Some (mkstat gm (Gtf a)).
Definition init_ok (w : world) :=
  JB (w_sh w) /\ (forall i p, nth_error (w_procs w) i = Some p -> fresh_proc (w_sh w) p) /\ pairwise RB (w_procs w).

Lemma init_winvB w : init_ok w -> winv JB QB w.
Proof. intros (HJ & HF & _). split; [exact HJ|]. intros i p E. destruct (HF i p E) as (L & Cv & S & Fo & G & N & In).
  unfold QB. rewrite L, Cv, S. split; [apply dict_ok_nil|]. split; [discriminate|]. split; [intros _; exact Fo|].
  split; [intros r H; discriminate|]. split; [exact G|]. split; [exact N|exact In]. Qed.

Theorem uses_own_conversion : forall w sched, init_ok w ->
  forall i p r, nth_error (w_procs (run w sched)) i = Some p -> p_st p = Done (Some r) ->
  exists p0 gm a dm, nth_error (w_procs w) i = Some p0 /\ same_static p p0 /\
                     s_fs (w_sh w) (p_gtf p0) = Some (mkstat gm (Gtf a)) /\
                     s_fs (w_sh (run w sched)) r = Some (mkstat dm (Db a (p_complete p0))).
Proof.
  intros w sched HI i p r E S. pose proof (init_winvB w HI) as W0. destruct HI as (HJ & HF & PW).
  destruct (run_winvB sched w PW W0) as [_ HQ]. destruct (HQ i p E) as (_ & _ & _ & Rr & _ & _ & _).
  destruct (Rr r S) as (gm & a & dm & Fg & Fr). destruct (run_static sched w i p E) as (p0 & E0 & St).
  exists p0, gm, a, dm. split; [exact E0|]. split; [exact St|]. destruct St as (S1 & S2 & S3 & _). rewrite <- S1, <- S3. split; [|exact Fr].
  rewrite <- Fg. symmetry. apply run_fs_other. intros j q Hq. rewrite S1.
  destruct (Nat.eq_dec j i) as [->|N].
  - rewrite E0 in Hq. inversion Hq; subst q. destruct (HF i p0 E0) as (_ & _ & _ & _ & _ & N0 & _). exact N0.
  - destruct (PW j i q p0 N Hq E0) as [_ R2]. exact R2. Qed.

(* the shared file, whenever it parses, holds honest entries only — whichever updates were lost on the way *)
Theorem file_always_honest : forall w sched, init_ok w ->
  forall d n, s_file (w_sh (run w sched)) = Data (Some d) n -> honest (s_fs (w_sh (run w sched))) d.
Proof. intros w sched HI d n E. pose proof (init_winvB w HI) as W0. destruct HI as (_ & _ & PW).
  destruct (run_winvB sched w PW W0) as [[_ FD] _]. exact (proj1 (FD d n E)). Qed.

(* ================================================================== 5. lost updates are harmless *)
(* d' = d with any entries dropped (the dictionary a reader finds after another writer overwrote an update) *)
Definition subdict (d' d : dict) := forall k e, dget d' k = Some e -> dget d k = Some e.
Theorem lost_update_harmless : forall d d' fs, subdict d' d ->
  (honest fs d -> honest fs d') /\
  (forall g c r, find_converted_db d' g c fs = Ok (Some r) -> find_converted_db d g c fs = Ok (Some r)).
Proof. intros d d' fs S. split.
  - intros H k e a gm r dm x c E. apply S in E. apply H. exact E.
  - intros g c r F. apply cache_hit_sound in F. destruct F as (e & sg & sr & E & Rest). apply cache_hit_sound. exists e, sg, sr. split; [apply S, E|exact Rest]. Qed.

(* ================================================================== 6. the atomic protocol: the file is never seen half-written *)
Definition atomic_op (o : op) : bool := match o with OInitTrunc | OInitDump | OTrunc | ODump => false | _ => true end.
Definition file_whole (f : fstate) : Prop := match f with Data None _ => False | _ => True end.
Definition JA (sh : shared) := file_whole (s_file sh).
Definition QA (sh : shared) (p : proc) := forallb atomic_op (p_prog p) = true /\ p_st p <> Crashed 1.

Lemma execA o rest sh p : atomic_op o = true -> forallb atomic_op rest = true -> p_st p = Running -> JA sh ->
  JA (fst (exec o rest sh p)) /\ QA (fst (exec o rest sh p)) (snd (exec o rest sh p)).
Proof. intros Ao Ar S HJ. unfold JA, QA in *. destruct sh as [f fs ck]. cbn [s_file s_fs s_clock] in *.
  destruct o; try discriminate; cbn [exec s_file s_fs s_clock];
  repeat match goal with
         | |- context [if ?b then _ else _] => destruct b
         | |- context [match f with _ => _ end] => destruct f as [|[d|] n]
         | |- context [match ?x with _ => _ end] => destruct x
         end; cbn; try rewrite S; try (split; [first [exact HJ|exact I]|split; [first [exact Ar|reflexivity]|discriminate]]); try contradiction. Qed.
Lemma QA_fin sh p : QA sh p -> QA sh (fin p).
Proof. unfold QA, fin. intros [A B]. destruct (p_st p) eqn:S; [destruct (p_prog p) eqn:Pg|..]; cbn; rewrite ?S, ?Pg; (split; [first [exact A|reflexivity]|first [exact B|discriminate]]). Qed.
Lemma selfA sh p : JA sh -> QA sh p -> JA (fst (step1 sh p)) /\ QA (fst (step1 sh p)) (snd (step1 sh p)).
Proof. intros HJ HQ. unfold step1. destruct (p_st p) eqn:S; try (split; [exact HJ|exact HQ]).
  destruct (p_prog p) as [|o rest] eqn:Pg; [split; [exact HJ|exact HQ]|].
  destruct HQ as [A B]. rewrite Pg in A. cbn [forallb] in A. apply andb_true_iff in A. destruct A as [Ao Ar].
  destruct (execA o rest sh p Ao Ar S HJ) as [J' Q']. destruct (exec o rest sh p) as [sh' p']. cbn [fst snd] in *. split; [exact J'|apply QA_fin; exact Q']. Qed.

Theorem reader_never_sees_partial : forall sched w,
  file_whole (s_file (w_sh w)) ->
  (forall i p, nth_error (w_procs w) i = Some p -> forallb atomic_op (p_prog p) = true /\ p_st p <> Crashed 1) ->
  file_whole (s_file (w_sh (run w sched))) /\
  forall i p, nth_error (w_procs (run w sched)) i = Some p -> p_st p <> Crashed 1.
Proof.
  intros sched w F P.
  assert (W: winv JA QA (run w sched)).
  { assert (W0: winv JA QA w) by (split; [exact F|exact P]). clear F P. revert w W0.
    induction sched as [|i t IH]; intros w W0; [exact W0|]. cbn [run fold_left]. apply IH.
    apply (step_winv JA QA (fun _ _ => True) selfA); [|intros a b x y _ _ _; exact I|exact W0].
    intros sh p q _ _ Hq _. exact Hq. }
  destruct W as [WJ WQ]. split; [exact WJ|]. intros i p E. exact (proj2 (WQ i p E)). Qed.

(* ================================================================== 7. the atomic protocol: every run succeeds *)
Definition wf_dict (d : dict) := forall k e, dget d k = Some e -> e_genedb e <> None.      (* entries as the code writes them *)
(* a process that has not yet made sure the cache file exists does not read it *)
Definition safe_prog (absent : bool) (prog : list op) : Prop :=
  match prog with OExists :: OInitReplace :: _ => True | OInitReplace :: _ => absent = true | _ => False end.
Definition JS (sh : shared) := JB sh /\ file_whole (s_file sh) /\ forall d n, s_file sh = Data (Some d) n -> wf_dict d.
Definition QS (sh : shared) (p : proc) :=
  QB sh p /\ forallb atomic_op (p_prog p) = true /\ wf_dict (p_local p) /\ (forall k, p_st p <> Crashed k) /\
  (s_file sh = Absent -> p_st p <> Running \/ safe_prog (p_absent p) (p_prog p)).

Lemma wf_dict_nil : wf_dict []. Proof. intros k e H; discriminate. Qed.
Lemma wf_dict_dset d k e : wf_dict d -> e_genedb e <> None -> wf_dict (dset d k e).
Proof. intros W N k2 e2 H. destruct (Z.eq_dec k2 k) as [->|Nk]; [rewrite dget_dset_same in H; inversion H; subst; exact N|].
  rewrite dget_dset_other in H by exact Nk. exact (W k2 e2 H). Qed.
Lemma find_no_raise d g c fs k : wf_dict d -> find_converted_db d g c fs <> Raises k.
Proof. intros W. unfold find_converted_db, field. destruct (dget d g) as [e|] eqn:E.
  - destruct (exists_ fs g && mtime_is fs g (e_gtf_mtime e)); [|discriminate]. destruct (e_genedb e) as [r|] eqn:G; [|exfalso; exact (W g e E G)].
    destruct (exists_ fs r && mtime_is fs r (e_db_mtime e) && obool_eqb (Some c) (e_complete e)); discriminate.
  - unfold mtime_is. destruct (fs g); rewrite ?andb_false_r; simpl; discriminate. Qed.

Definition rest_ok (sh' : shared) (p' : proc) :=
  file_whole (s_file sh') /\ (forall d n, s_file sh' = Data (Some d) n -> wf_dict d) /\
  forallb atomic_op (p_prog p') = true /\ wf_dict (p_local p') /\ (forall k, p_st p' <> Crashed k) /\
  (s_file sh' = Absent -> p_st p' <> Running \/ safe_prog (p_absent p') (p_prog p')).

Lemma execS o rest sh p : p_st p = Running -> p_prog p = o :: rest -> JS sh -> QS sh p ->
  rest_ok (fst (exec o rest sh p)) (snd (exec o rest sh p)).
Proof.
  intros S Pg (HJB & FW & FD) (HQB & At & WL & NC & NF). rewrite Pg in At, NF. cbn [forallb] in At. apply andb_true_iff in At. destruct At as [Ao Ar].
  destruct HQB as (D & C1 & C2 & Rr & G & N & In). rewrite Pg in G.
  assert (NR: forall k, Running <> Crashed k) by (intros; discriminate).
  destruct sh as [f fs ck]. cbn [s_file s_fs s_clock] in *. unfold rest_ok.
  destruct o; try discriminate; cbn [exec s_file s_fs s_clock fst snd guarded] in *.
  - (* OExists *) cbn. rewrite S. repeat split; try assumption. intro E. rewrite E. right.
    destruct (NF E) as [X|X]; [congruence|]. destruct rest as [|[] r]; try contradiction. reflexivity.
  - (* OInitReplace *) destruct (p_absent p) eqn:Ab; cbn; rewrite S.
    + repeat split; try assumption; try exact I. * intros d n E; inversion E; subst; apply wf_dict_nil. * intro; discriminate.
    + repeat split; try assumption. intro E. destruct (NF E) as [X|X]; [congruence|discriminate].
  - (* ORead *) destruct f as [|[d|] n]; cbn; try contradiction.
    + destruct (NF eq_refl) as [X|X]; [congruence|contradiction].
    + rewrite S. repeat split; try assumption; try exact I. * exact (FD d n eq_refl). * intro; discriminate.
  - (* OLookup *) assert (NA: f <> Absent) by (intro E; destruct (NF E) as [X|X]; [congruence|contradiction]).
    destruct (find_converted_db (p_local p) (p_gtf p) (p_complete p) fs) as [[r|]|k] eqn:L; cbn; rewrite ?S.
    + repeat split; try assumption; try discriminate. intro; left; discriminate.
    + repeat split; try assumption. intro E; congruence.
    + exfalso. exact (find_no_raise _ _ _ _ k WL L).
  - (* OConvert *) assert (NA: f <> Absent) by (intro E; destruct (NF E) as [X|X]; [congruence|contradiction]).
    destruct In as (gm & a & Fg). rewrite Fg. cbn. rewrite S. repeat split; try assumption. intro E; congruence.
  - (* OModify *) assert (NA: f <> Absent) by (intro E; destruct (NF E) as [X|X]; [congruence|contradiction]).
    destruct G as [Cv G]. destruct (C1 Cv) as (gm & a & dm & Fg & Fo). rewrite Fg, Fo. cbn. rewrite S. repeat split; try assumption.
    * apply wf_dict_dset; [exact WL|discriminate]. * intro E; congruence.
  - (* OReplace *) cbn. rewrite S. repeat split; try assumption; try exact I. * intros d n E; inversion E; subst; exact WL. * intro; discriminate.
Qed.

Lemma rest_ok_fin sh p : rest_ok sh p -> rest_ok sh (fin p).
Proof. intros (A & B & C & D & E & F). unfold fin. destruct (p_st p) eqn:S; [destruct (p_prog p) eqn:Pg|..]; unfold rest_ok; cbn; rewrite ?S, ?Pg;
  repeat split; try assumption; try discriminate; try (intros; left; discriminate). Qed.

Lemma selfS sh p : JS sh -> QS sh p -> JS (fst (step1 sh p)) /\ QS (fst (step1 sh p)) (snd (step1 sh p)).
Proof. intros HJ HQ. pose proof HJ as (HJB & FW & FD). pose proof HQ as (HQB & At & WL & NC & NF).
  destruct (selfB sh p HJB HQB) as [JB' QB'].
  assert (X: rest_ok (fst (step1 sh p)) (snd (step1 sh p))).
  { unfold step1. destruct (p_st p) eqn:S; try (unfold rest_ok; cbn [fst snd]; rewrite ?S; repeat split; assumption).
    destruct (p_prog p) as [|o rest] eqn:Pg; [unfold rest_ok; cbn [fst snd]; rewrite ?S, ?Pg; repeat split; assumption|].
    pose proof (execS o rest sh p S Pg HJ HQ) as E. destruct (exec o rest sh p) as [sh' p']. cbn [fst snd] in *. apply rest_ok_fin, E. }
  destruct X as (A & B & C & D & E & F). split; [split; [exact JB'|split; [exact A|exact B]]|]. split; [exact QB'|]. repeat split; assumption. Qed.

Lemma exec_not_absent o rest sh p : s_file (fst (exec o rest sh p)) = Absent -> s_file sh = Absent.
Proof. destruct sh as [f fs ck]. destruct o; cbn [exec s_file];
  repeat match goal with
         | |- context [if ?b then _ else _] => destruct b
         | |- context [match f with _ => _ end] => destruct f as [|[d|] n]
         | |- context [match ?x with _ => _ end] => destruct x
         end; cbn; unfold write; try discriminate; try (intro H; exact H);
  destruct f as [|v len]; try discriminate; destruct (len <=? _); discriminate. Qed.
Lemma step1_not_absent sh p : s_file (fst (step1 sh p)) = Absent -> s_file sh = Absent.
Proof. unfold step1. destruct (p_st p); try (intro H; exact H). destruct (p_prog p) as [|o rest]; [intro H; exact H|].
  pose proof (exec_not_absent o rest sh p) as E. destruct (exec o rest sh p). exact E. Qed.

Lemma othersS sh p q : JS sh -> QS sh p -> QS sh q -> RB p q -> QS (fst (step1 sh p)) q.
Proof. intros (HJB & _) (PB & _) (QBq & At & WL & NC & NF) R. split; [apply (othersB sh p q HJB PB QBq R)|].
  repeat split; try assumption. intro E. apply NF. apply (step1_not_absent sh p E). Qed.

Lemma run_winvS : forall sched w, pairwise RB (w_procs w) -> winv JS QS w -> winv JS QS (run w sched).
Proof. induction sched as [|i t IH]; intros w PW H; [exact H|]. cbn [run fold_left]. apply IH.
  - apply pairwise_step; [apply RB_static|exact PW].
  - apply (step_winv JS QS RB selfS othersS); assumption. Qed.

(* the start of n runs of the repaired code: any honest cache file or none at all *)
Definition start_ok (w : world) :=
  init_ok w /\ file_whole (s_file (w_sh w)) /\ (forall d n, s_file (w_sh w) = Data (Some d) n -> wf_dict d) /\
  forall i p, nth_error (w_procs w) i = Some p -> p_absent p = false /\ exists clean, p_prog p = prog_run true clean.

Theorem all_runs_succeed : forall w sched, start_ok w ->
  file_whole (s_file (w_sh (run w sched))) /\
  forall i p, nth_error (w_procs (run w sched)) i = Some p -> forall k, p_st p <> Crashed k.
Proof.
  intros w sched (HI & FW & FD & HP). pose proof (init_winvB w HI) as [HJB HQB]. pose proof HI as (_ & HF & PW).
  assert (W0: winv JS QS w).
  { split; [split; [exact HJB|split; [exact FW|exact FD]]|]. intros i p E. destruct (HP i p E) as [Ab [clean Pg]]. destruct (HF i p E) as (L & Cv & S & _).
    split; [exact (HQB i p E)|]. rewrite Pg, L, S. repeat split; try (destruct clean; reflexivity); try apply wf_dict_nil; try discriminate.
    intros _. right. destruct clean; exact I. }
  destruct (run_winvS sched w PW W0) as [(_ & FW' & _) HQ]. split; [exact FW'|]. intros i p E. destruct (HQ i p E) as (_ & _ & _ & NC & _). exact NC. Qed.

(* ================================================================== 8. progress: a run that is scheduled often enough ends *)
Definition live (p : proc) := p_st p = Running -> p_prog p <> [].
Definition budget (p : proc) : nat := match p_st p with Running => length (p_prog p) | _ => O end.

Lemma exec_prog o rest sh p :
  (p_prog (snd (exec o rest sh p)) = rest /\ p_st (snd (exec o rest sh p)) = p_st p) \/
  (p_prog (snd (exec o rest sh p)) = [] /\ p_st (snd (exec o rest sh p)) <> Running).
Proof. destruct o; cbn [exec];
  repeat match goal with
         | |- context [if ?b then _ else _] => destruct b
         | |- context [match ?x with _ => _ end] => destruct x
         end; cbn; try (left; split; reflexivity); right; (split; [reflexivity|discriminate]). Qed.

Lemma step1_budget sh p : live p -> live (snd (step1 sh p)) /\ (budget (snd (step1 sh p)) <= pred (budget p))%nat.
Proof. intro L. unfold step1. destruct (p_st p) eqn:S; try (cbn [snd]; split; [exact L|unfold budget; rewrite S; apply Nat.le_0_l]).
  destruct (p_prog p) as [|o rest] eqn:Pg; [exfalso; exact (L S Pg)|].
  pose proof (exec_prog o rest sh p) as E. destruct (exec o rest sh p) as [sh' p']. cbn [snd] in *.
  unfold budget at 2. rewrite S, Pg. cbn [length pred]. unfold live, budget, fin.
  destruct E as [[E1 E2]|[E1 E2]]; rewrite E1.
  - rewrite E2, S. destruct rest as [|o2 r2]; cbn; [split; [discriminate|apply Nat.le_0_l]|]. rewrite E1, E2, S. split; [discriminate|apply le_n].
  - destruct (p_st p') eqn:S'; [congruence|..]; cbn; rewrite S'; (split; [discriminate|apply Nat.le_0_l]). Qed.

Theorem every_run_terminates : forall sched w,
  (forall i p, nth_error (w_procs w) i = Some p -> live p) ->
  forall i p, nth_error (w_procs w) i = Some p -> (budget p <= count_occ Nat.eq_dec sched i)%nat ->
  exists p', nth_error (w_procs (run w sched)) i = Some p' /\ p_st p' <> Running.
Proof.
  assert (G: forall sched w, (forall i p, nth_error (w_procs w) i = Some p -> live p) ->
             forall i p, nth_error (w_procs w) i = Some p ->
             exists p', nth_error (w_procs (run w sched)) i = Some p' /\ live p' /\ (budget p' <= budget p - count_occ Nat.eq_dec sched i)%nat).
  { induction sched as [|j t IH]; intros w AL i p E.
    - exists p. split; [exact E|]. split; [exact (AL i p E)|]. cbn. lia.
    - cbn [run fold_left]. fold (run (step w j) t).
      assert (AL1: forall i p, nth_error (w_procs (step w j)) i = Some p -> live p).
      { intros a q Hq. unfold step in Hq. destruct (nth_error (w_procs w) j) as [pj|] eqn:Ej.
        - pose proof (step_nth_same _ _ (w_sh w) _ Ej) as S2. pose proof (fun b => step_nth_other (w_procs w) j b (w_sh w)) as S3.
          destruct (step_nth (w_sh w) (w_procs w) j) as [sh' ps']. cbn [snd w_procs] in *. destruct (Nat.eq_dec j a) as [->|Na].
          + rewrite S2 in Hq. inversion Hq; subst. apply step1_budget. exact (AL a pj Ej).
          + rewrite (S3 a Na) in Hq. exact (AL a q Hq).
        - rewrite (step_nth_none _ _ _ Ej) in Hq. exact (AL a q Hq). }
      destruct (Nat.eq_dec j i) as [->|N].
      + assert (E1: nth_error (w_procs (step w i)) i = Some (snd (step1 (w_sh w) p))).
        { unfold step. pose proof (step_nth_same _ _ (w_sh w) _ E) as S2. destruct (step_nth (w_sh w) (w_procs w) i). exact S2. }
        destruct (IH (step w i) AL1 i _ E1) as (p' & Hp & Lp & Bp). exists p'. split; [exact Hp|]. split; [exact Lp|].
        destruct (step1_budget (w_sh w) p (AL i p E)) as [_ B1]. cbn [count_occ]. destruct (Nat.eq_dec i i); [|congruence]. lia.
      + assert (E1: nth_error (w_procs (step w j)) i = Some p).
        { unfold step. pose proof (step_nth_other (w_procs w) j i (w_sh w) N) as S3. destruct (step_nth (w_sh w) (w_procs w) j). cbn [snd w_procs] in *. rewrite S3. exact E. }
        destruct (IH (step w j) AL1 i p E1) as (p' & Hp & Lp & Bp). exists p'. split; [exact Hp|]. split; [exact Lp|].
        cbn [count_occ]. destruct (Nat.eq_dec j i); [congruence|]. exact Bp. }
  intros sched w AL i p E B. destruct (G sched w AL i p E) as (p' & Hp & Lp & Bp). exists p'. split; [exact Hp|].
  intro R. unfold budget in Bp at 1. rewrite R in Bp. specialize (Lp R). destruct (p_prog p'); [congruence|]. cbn in Bp. lia. Qed.

(* a process that ends normally has a database to go on with *)
Definition QC (sh : shared) (p : proc) :=
  match p_st p with Done None => False | Running => p_conv p = true \/ In OConvert (p_prog p) | _ => True end.
Lemma QC_fin_next sh p rest local absent conv' :
  (conv' = true \/ In OConvert rest) -> QC sh (fin (pupd p rest local Running absent conv')).
Proof. intro H. unfold fin, QC. cbn. destruct rest as [|o r]; cbn.
  - destruct H as [->|[]]. exact I.
  - exact H. Qed.
Lemma QC_fin_stopped sh p : p_prog p = [] -> match p_st p with Done None | Running => False | _ => True end -> QC sh (fin p).
Proof. intros Pg H. unfold fin, QC. destruct (p_st p) as [|[r|]|k] eqn:S; try contradiction; cbn; rewrite S; exact I. Qed.

Lemma selfC sh p : True -> QC sh p -> True /\ QC (fst (step1 sh p)) (snd (step1 sh p)).
Proof. intros _ H. split; [exact I|]. unfold step1. destruct (p_st p) eqn:S; try (unfold QC; cbn [snd]; rewrite S; unfold QC in H; rewrite S in H; exact H).
  destruct (p_prog p) as [|o rest] eqn:Pg; [unfold QC; cbn [snd]; rewrite S; unfold QC in H; rewrite S in H; exact H|].
  unfold QC in H. rewrite S, Pg in H.
  assert (X: QC sh (fin (snd (exec o rest sh p)))).
  { assert (H': o = OConvert \/ (p_conv p = true \/ In OConvert rest)) by (destruct H as [H|[H|H]]; [right; left; exact H|left; exact H|right; right; exact H]).
    destruct o; cbn [exec]; unfold next, crash; rewrite ?S;
    repeat match goal with
           | |- context [if ?b then _ else _] => destruct b
           | |- context [match s_file sh with _ => _ end] => destruct (s_file sh) as [|[d|] n]
           | |- context [match find_converted_db ?a ?b ?c ?d with _ => _ end] => destruct (find_converted_db a b c d) as [[r|]|k]
           | |- context [match s_fs sh ?x with _ => _ end] => destruct (s_fs sh x) as [[? [?|? ?]]|]
           end; cbn [snd];
    first [ apply QC_fin_stopped; [reflexivity|exact I]
          | apply QC_fin_next; first [left; reflexivity | destruct H' as [H'|H']; [discriminate|exact H']] ]. }
  destruct (exec o rest sh p) as [sh' p']. cbn [fst snd] in *. exact X. Qed.
Lemma run_winvC : forall sched w, winv (fun _ => True) QC w -> winv (fun _ => True) QC (run w sched).
Proof. induction sched as [|i t IH]; intros w H; [exact H|]. cbn [run fold_left]. apply IH.
  apply (step_winv (fun _ => True) QC (fun _ _ => True) selfC); [|intros a b x y _ _ _; exact I|exact H].
  intros sh p q _ _ Hq _. exact Hq. Qed.

(* ================================================================== 9. the statement of C20 for the repaired protocol *)
(* n runs start together under one HOME (fresh or used), with separate fresh output folders and equal or different
   annotations.  Under EVERY schedule in which each is scheduled to its end, each ends normally with a database that is
   the conversion of its own annotation with its own flag; the cache file is never unparseable. *)
Theorem concurrent_runs_do_not_interfere : forall w sched, start_ok w ->
  (forall i p, nth_error (w_procs w) i = Some p -> (7 <= count_occ Nat.eq_dec sched i)%nat) ->
  file_whole (s_file (w_sh (run w sched))) /\
  forall i p, nth_error (w_procs (run w sched)) i = Some p ->
  exists r p0 gm a dm, p_st p = Done (Some r) /\ nth_error (w_procs w) i = Some p0 /\ same_static p p0 /\
                       s_fs (w_sh w) (p_gtf p0) = Some (mkstat gm (Gtf a)) /\
                       s_fs (w_sh (run w sched)) r = Some (mkstat dm (Db a (p_complete p0))).
Proof.
  intros w sched HS Cnt. pose proof HS as (HI & _ & _ & HP). pose proof HI as (_ & HF & _).
  destruct (all_runs_succeed w sched HS) as [FW NC]. split; [exact FW|]. intros i p E.
  destruct (run_static sched w i p E) as (p0 & E0 & St).
  destruct (HP i p0 E0) as [_ [clean Pg]]. destruct (HF i p0 E0) as (_ & Cv & S0 & _).
  assert (AL: forall j q, nth_error (w_procs w) j = Some q -> live q).
  { intros j q Hq _. destruct (HP j q Hq) as [_ [cl Pq]]. rewrite Pq. destruct cl; discriminate. }
  assert (B: (budget p0 <= count_occ Nat.eq_dec sched i)%nat).
  { specialize (Cnt i p0 E0). unfold budget. rewrite S0, Pg. destruct clean; cbn; lia. }
  destruct (every_run_terminates sched w AL i p0 E0 B) as (p' & E' & NR). rewrite E in E'. inversion E'; subst p'.
  assert (WC: winv (fun _ => True) QC w).
  { split; [exact I|]. intros j q Hq. destruct (HP j q Hq) as [_ [cl Pq]]. destruct (HF j q Hq) as (_ & _ & Sq & _). unfold QC. rewrite Sq, Pq. right. destruct cl; cbn; auto 10. }
  destruct (run_winvC sched w WC) as [_ HC]. specialize (HC i p E). unfold QC in HC.
  destruct (p_st p) as [|[r|]|k] eqn:S; [congruence| |contradiction|exfalso; exact (NC i p E k S)].
  destruct (uses_own_conversion w sched HI i p r E S) as (p1 & gm & a & dm & E1 & _ & Fg & Fr). rewrite E0 in E1. inversion E1; subst p1.
  exists r, p0, gm, a, dm. repeat split; try assumption; apply St. Qed.

(* the hypotheses are satisfiable: two runs of the repaired code with different annotations on a new and on a used HOME *)
Lemma clock_ok_fs0 f : clock_ok (mkshared f fs0 10).
Proof. intros q s. cbn [s_fs s_clock]. unfold fs0, fs_of_list, fs_set, fs_empty, g1, g2.
  destruct (q =? 1); [intro H; inversion H; cbn; lia|]. destruct (q =? 2); [intro H; inversion H; cbn; lia|discriminate]. Qed.
Lemma pairwise_two : pairwise RB (two true 120 120).
Proof. intros i j p q N Hi Hj. destruct i as [|[|i]], j as [|[|j]]; try congruence; cbn in Hi, Hj;
  try (destruct i; discriminate); try (destruct j; discriminate); inversion Hi; inversion Hj; subst; split; cbn; discriminate. Qed.
Example start_ok_fresh_home : start_ok (mkworld sh_fresh (two true 120 120)).
Proof. split; [split; [split; [apply clock_ok_fs0|intros d n H; discriminate]|split; [|apply pairwise_two]]|].
  - intros i p E. destruct i as [|[|i]]; cbn in E; try (destruct i; discriminate); inversion E; subst;
    (unfold fresh_proc; cbn; split; [reflexivity|]; split; [reflexivity|]; split; [reflexivity|]; split; [reflexivity|]; split; [auto|]; split; [discriminate|]; eexists; eexists; reflexivity).
  - split; [exact I|]. split; [intros d n H; discriminate|].
    intros i p E. destruct i as [|[|i]]; cbn in E; try (destruct i; discriminate); inversion E; subst; (split; [reflexivity|exists false; reflexivity]). Qed.
Example start_ok_used_home : start_ok (mkworld sh_existing (two true 120 120)).
Proof. split; [split; [split; [apply clock_ok_fs0|intros d n H; inversion H; subst; apply dict_ok_nil]|split; [|apply pairwise_two]]|].
  - intros i p E. destruct i as [|[|i]]; cbn in E; try (destruct i; discriminate); inversion E; subst;
    (unfold fresh_proc; cbn; split; [reflexivity|]; split; [reflexivity|]; split; [reflexivity|]; split; [reflexivity|]; split; [auto|]; split; [discriminate|]; eexists; eexists; reflexivity).
  - split; [exact I|]. split; [intros d n H; inversion H; subst; apply wf_dict_nil|].
    intros i p E. destruct i as [|[|i]]; cbn in E; try (destruct i; discriminate); inversion E; subst; (split; [reflexivity|exists false; reflexivity]). Qed.

(* ================================================================== 10. creating the configuration directory *)
(* os.makedirs(config_dir, exist_ok=True): any number of runs, any schedule, a new or a used HOME - nobody fails *)
Definition dok (p : dproc) := d_failed p = false /\ Forall (fun o => o = DMake) (d_prog p).
Lemma dstep1_ok dir p : dok p -> dok (snd (dstep1 dir p)).
Proof. intros [F P]. unfold dstep1. rewrite F. destruct (d_prog p) as [|o r] eqn:E; [split; [exact F|cbn [snd]; rewrite E; constructor]|].
  inversion P; subst. split; [reflexivity|assumption]. Qed.
Lemma dstep_nth_ok : forall ps i dir, Forall dok ps -> Forall dok (snd (dstep_nth dir ps i)).
Proof. induction ps as [|p t IH]; intros i dir H; [constructor|]. inversion H; subst. destruct i as [|j]; cbn [dstep_nth].
  - pose proof (dstep1_ok dir p H2) as X. destruct (dstep1 dir p). constructor; assumption.
  - specialize (IH j dir H3). destruct (dstep_nth dir t j). constructor; assumption. Qed.
Theorem mkdir_idempotent_never_fails : forall sched dir ps,
  Forall dok ps -> Forall (fun p => d_failed p = false) (snd (drun dir ps sched)).
Proof.
  assert (G: forall sched dir ps, Forall dok ps -> Forall dok (snd (drun dir ps sched))).
  { induction sched as [|i t IH]; intros dir ps H; [exact H|]. unfold drun. cbn [fold_left fst snd].
    pose proof (dstep_nth_ok ps i dir H) as X. destruct (dstep_nth dir ps i) as [d' ps']. apply (IH d' ps' X). }
  intros sched dir ps H. eapply Forall_impl; [|apply G, H]. intros p [F _]. exact F. Qed.
