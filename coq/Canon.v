(* C18 — canonical-site flags and strands.
   Model of IOSupport.check_sites_are_canonical / add_canonical_info_for_model and the Canonical= field of the read table
   (src/assignment_io.py), of get_intron_strand / get_strand / count_noncanonincal (src/common.py), StrandDetector (src/gene_info.py),
   AlignmentCollector.get_assignment_strand (src/alignment_processor.py) and of the novel branch of
   GraphBasedModelConstructor.construct_fl_isoforms (strand decision, reporting filter, gene choice, id formatting).
   Bases are byte values; the stored reference window is explicit (all_read_region_start, reference_region) and sliced with
   Python's slice semantics.  The model describes the code after fixes/C18_memo_key_strand.diff and
   fixes/C18_canonical_upper_case.diff; the unrepaired checker is kept as check_sites_cur with its refutations. *)
From Coq Require Import ZArith List Bool Lia ZifyBool.
From IQ Require Import Ids.
Import ListNotations. Open Scope Z_scope.

Notation intron := (Z * Z)%type.
Inductive strand := Plus | Minus | Dot.                 (* '+', '-', anything else ('.') *)
Definition strand_eqb (a b:strand) : bool := match a, b with Plus, Plus | Minus, Minus | Dot, Dot => true | _, _ => false end.
Definition intron_eqb (a b:intron) : bool := (fst a =? fst b) && (snd a =? snd b).
Lemma intron_eqb_eq a b : intron_eqb a b = true <-> a = b.
Proof. destruct a, b; unfold intron_eqb; simpl; split; intros H; [f_equal; lia|inversion H; subst; lia]. Qed.
Lemma strand_eqb_eq a b : strand_eqb a b = true <-> a = b. Proof. destruct a, b; simpl; split; congruence. Qed.

(* ------------------------------------------------------------------ Python slices and the stored window *)
Definition clamp_index (len i:Z) : Z := if i <? 0 then Z.max (i + len) 0 else Z.min i len.
(* s[a:b]: negative indices count from the end, everything is clipped to the string *)
Definition py_slice (s:str) (a b:Z) : str :=
  let len := Z.of_nat (length s) in
  let a' := clamp_index len a in let b' := clamp_index len b in
  firstn (Z.to_nat (b' - a')) (skipn (Z.to_nat a') s).
Definition upper (c:Z) : Z := if (97 <=? c) && (c <=? 122) then c - 32 else c.

Record window := { wstart : Z; wseq : str }.           (* gene_info.all_read_region_start, gene_info.reference_region *)
Definition wlen (w:window) : Z := Z.of_nat (length (wseq w)).

(* (left_site, right_site) exactly as the code slices them *)
Definition site_pair (w:window) (i:intron) : str * str :=
  let l := fst i - wstart w in let r := snd i - wstart w in
  (py_slice (wseq w) l (l + 2), py_slice (wseq w) (r - 1) (r + 1)).
Definition upper_pair (p:str * str) : str * str := (map upper (fst p), map upper (snd p)).

(* ------------------------------------------------------------------ the site sets *)
Definition bA := 65. Definition bC := 67. Definition bG := 71. Definition bT := 84.
Definition fwd_sites : list (str * str) := [([bG;bT],[bA;bG]); ([bG;bC],[bA;bG]); ([bA;bT],[bA;bC])].     (* CANONICAL_FWD_SITES *)
Definition rev_sites : list (str * str) := [([bC;bT],[bA;bC]); ([bC;bT],[bG;bC]); ([bG;bT],[bA;bT])].     (* CANONICAL_REV_SITES *)
Definition pair_eqb (p q:str * str) : bool := str_eqb (fst p) (fst q) && str_eqb (snd p) (snd q).
Definition in_sites (l:list (str * str)) (p:str * str) : bool := existsb (pair_eqb p) l.
Definition sites (st:strand) : list (str * str) := match st with Plus => fwd_sites | _ => rev_sites end.

(* the reverse-strand set is generated from the forward set: read the intron on the other strand *)
Definition comp (c:Z) : Z := if c =? bA then bT else if c =? bT then bA else if c =? bC then bG else if c =? bG then bC else c.
Definition revcomp (s:str) : str := map comp (rev s).
Definition mirror (p:str * str) : str * str := (revcomp (snd p), revcomp (fst p)).
Lemma rev_sites_generated : rev_sites = map mirror fwd_sites. Proof. reflexivity. Qed.
Lemma comp_invol c : comp (comp c) = c.
Proof. unfold comp, bA, bT, bC, bG.
  destruct (c =? 65) eqn:E1; [replace c with 65 by lia; reflexivity|]. destruct (c =? 84) eqn:E2; [replace c with 84 by lia; reflexivity|].
  destruct (c =? 67) eqn:E3; [replace c with 67 by lia; reflexivity|]. destruct (c =? 71) eqn:E4; [replace c with 71 by lia; reflexivity|].
  rewrite E1, E2, E3, E4. reflexivity. Qed.
Lemma revcomp_invol s : revcomp (revcomp s) = s.
Proof. unfold revcomp. rewrite <- map_rev, rev_involutive, map_map. rewrite <- (map_id s) at 2. apply map_ext. apply comp_invol. Qed.
Lemma mirror_invol p : mirror (mirror p) = p. Proof. destruct p; unfold mirror; simpl. rewrite !revcomp_invol. reflexivity. Qed.
Lemma pair_eqb_eq p q : pair_eqb p q = true <-> p = q.
Proof. destruct p, q; unfold pair_eqb; simpl. rewrite andb_true_iff, !str_eqb_eq. split; [intros [? ?]; subst; reflexivity|intros H; inversion H; auto]. Qed.
Lemma in_sites_In l p : in_sites l p = true <-> In p l.
Proof. unfold in_sites. rewrite existsb_exists. split; [intros (q & H & E); apply pair_eqb_eq in E; subst; exact H|intros H; exists p; split; [exact H|apply pair_eqb_eq; reflexivity]]. Qed.
(* canonical on '-' = canonical on '+' after reverse-complementing the two sites *)
Theorem rev_strand_is_mirror p : in_sites rev_sites p = in_sites fwd_sites (mirror p).
Proof. apply eq_true_iff_eq. rewrite !in_sites_In, rev_sites_generated, in_map_iff. split.
 - intros (q & E & H). subst p. rewrite mirror_invol. exact H.
 - intros H. exists (mirror p). split; [apply mirror_invol|exact H]. Qed.

(* ------------------------------------------------------------------ the pure test *)
Definition canonical_on (w:window) (st:strand) (i:intron) : bool := in_sites (sites st) (upper_pair (site_pair w i)).
(* before the upper-case repair *)
Definition canonical_on_raw (w:window) (st:strand) (i:intron) : bool := in_sites (sites st) (site_pair w i).

(* the reference as a function from 1-based positions to bases; the declarative predicate of the property *)
Definition canonical_ref (ref:Z -> Z) (st:strand) (i:intron) : bool :=
  in_sites (sites st) ([upper (ref (fst i)); upper (ref (fst i + 1))], [upper (ref (snd i - 1)); upper (ref (snd i))]).
Definition covers (ref:Z -> Z) (w:window) := forall k, 0 <= k < wlen w -> nth (Z.to_nat k) (wseq w) 0 = ref (wstart w + k).
Definition inside (w:window) (i:intron) := wstart w <= fst i /\ fst i < snd i /\ snd i < wstart w + wlen w.

Lemma skipn_nth : forall (s:str) n, (n < length s)%nat -> skipn n s = nth n s 0 :: skipn (Datatypes.S n) s.
Proof. induction s as [|c s IH]; intros n H; simpl in H; [lia|]. destruct n as [|n]; [reflexivity|]. cbn [skipn nth]. apply IH. lia. Qed.
Lemma py_slice_two s a : 0 <= a -> a + 2 <= Z.of_nat (length s) ->
  py_slice s a (a + 2) = [nth (Z.to_nat a) s 0; nth (Z.to_nat (a + 1)) s 0].
Proof. intros Ha Hb. unfold py_slice, clamp_index.
  destruct (a <? 0) eqn:E1; [lia|]. destruct (a + 2 <? 0) eqn:E2; [lia|].
  rewrite !Z.min_l by lia. replace (a + 2 - a) with 2 by lia. change (Z.to_nat 2) with 2%nat.
  rewrite skipn_nth by lia. rewrite skipn_nth by lia. cbn [firstn]. replace (Z.to_nat (a + 1)) with (Datatypes.S (Z.to_nat a)) by lia. reflexivity. Qed.

(* inside the stored window the test reads the reference's own bases *)
Theorem canonical_pure_spec ref w st i : covers ref w -> inside w i -> canonical_on w st i = canonical_ref ref st i.
Proof. intros C (H1 & H2 & H3). unfold canonical_on, canonical_ref, site_pair, upper_pair. cbn [fst snd]. unfold wlen in *.
  rewrite py_slice_two by lia. replace (snd i - wstart w + 1) with (snd i - wstart w - 1 + 2) by lia. rewrite py_slice_two by lia.
  unfold covers, wlen in C. cbn [map]. rewrite !C by lia.
  replace (wstart w + (fst i - wstart w)) with (fst i) by lia. replace (wstart w + (fst i - wstart w + 1)) with (fst i + 1) by lia.
  replace (wstart w + (snd i - wstart w - 1)) with (snd i - 1) by lia. replace (wstart w + (snd i - wstart w - 1 + 1)) with (snd i) by lia. reflexivity. Qed.
(* ... and the declarative reading: true iff the upper-cased dinucleotide pair is in the set for that strand *)
Theorem canonical_ref_iff ref st i : canonical_ref ref st i = true <->
  In ([upper (ref (fst i)); upper (ref (fst i + 1))], [upper (ref (snd i - 1)); upper (ref (snd i))]) (sites st).
Proof. apply in_sites_In. Qed.

(* ------------------------------------------------------------------ the memoising checker *)
Definition memo := list (intron * strand * bool).        (* gene_info.canonical_sites after the repair: key (intron, strand) *)
Fixpoint mlook (i:intron) (st:strand) (m:memo) : option bool :=
  match m with [] => None | (k, s, v) :: t => if intron_eqb i k && strand_eqb st s then Some v else mlook i st t end.
Definition check1 (w:window) (m:memo) (st:strand) (i:intron) : memo * bool :=
  match mlook i st m with Some v => (m, v) | None => let v := canonical_on w st i in ((i, st, v) :: m, v) end.
(* check_sites_are_canonical: stops at the first non-canonical intron *)
Fixpoint check_sites (w:window) (m:memo) (st:strand) (l:list intron) : memo * bool :=
  match l with [] => (m, true) | i :: t => let '(m1, v) := check1 w m st i in if v then check_sites w m1 st t else (m1, false) end.

Definition sound (w:window) (m:memo) := forall i st v, mlook i st m = Some v -> v = canonical_on w st i.
Lemma check1_sound w m st i : sound w m -> sound w (fst (check1 w m st i)) /\ snd (check1 w m st i) = canonical_on w st i.
Proof. intros S. unfold check1. destruct (mlook i st m) eqn:E; cbn [fst snd].
 - split; [exact S|]. apply (S _ _ _ E).
 - split; [|reflexivity]. intros i' st' v. cbn [mlook]. destruct (intron_eqb i' i && strand_eqb st' st) eqn:Ek.
   + apply andb_prop in Ek. destruct Ek as [E1 E2]. apply intron_eqb_eq in E1. apply strand_eqb_eq in E2. subst. congruence.
   + apply S. Qed.
Lemma check_sites_sound w : forall l m st, sound w m ->
  sound w (fst (check_sites w m st l)) /\ snd (check_sites w m st l) = forallb (canonical_on w st) l.
Proof. induction l as [|i t IH]; intros m st S; cbn [check_sites forallb]; [split; auto|].
  destruct (check1_sound w m st i S) as [S1 V1]. destruct (check1 w m st i) as [m1 v] eqn:E. cbn [fst snd] in *. subst v.
  destruct (canonical_on w st i); cbn [andb]; [apply IH; exact S1|split; auto]. Qed.

(* a history of queries against one gene_info *)
Fixpoint run_queries (w:window) (m:memo) (qs:list (strand * list intron)) : memo * list bool :=
  match qs with [] => (m, []) | (st, l) :: t => let '(m1, v) := check_sites w m st l in let '(m2, vs) := run_queries w m1 t in (m2, v :: vs) end.

(* whatever was asked before, every answer is the pure conjunction *)
Theorem memo_history_independent w : forall qs m, sound w m ->
  snd (run_queries w m qs) = map (fun q => forallb (canonical_on w (fst q)) (snd q)) qs.
Proof. induction qs as [|[st l] t IH]; intros m S; cbn [run_queries map]; [reflexivity|].
  destruct (check_sites_sound w l m st S) as [S1 V]. destruct (check_sites w m st l) as [m1 v]. cbn [fst snd] in *.
  specialize (IH m1 S1). destruct (run_queries w m1 t) as [m2 vs]. cbn [snd] in *. subst. reflexivity. Qed.
Lemma sound_nil w : sound w []. Proof. intros i st v H. discriminate. Qed.

(* the code before the repairs: memo keyed by the intron only, no upper-casing *)
Definition memo1 := list (intron * bool).
Fixpoint mlook1 (i:intron) (m:memo1) : option bool := match m with [] => None | (k, v) :: t => if intron_eqb i k then Some v else mlook1 i t end.
Definition check1_cur (w:window) (m:memo1) (st:strand) (i:intron) : memo1 * bool :=
  match mlook1 i m with Some v => (m, v) | None => let v := canonical_on_raw w st i in ((i, v) :: m, v) end.
Fixpoint check_sites_cur (w:window) (m:memo1) (st:strand) (l:list intron) : memo1 * bool :=
  match l with [] => (m, true) | i :: t => let '(m1, v) := check1_cur w m st i in if v then check_sites_cur w m1 st t else (m1, false) end.

(* ------------------------------------------------------------------ the printed flags *)
(* junctions_from_blocks *)
Fixpoint jfb (l:list intron) : list intron :=
  match l with
  | a :: ((b :: _) as t) => (if snd a + 1 <? fst b then [(snd a + 1, fst b - 1)] else []) ++ jfb t
  | _ => []
  end.
Inductive flag := Unspliced | Flag (b:bool).
(* Canonical= of a read record (BasicTSVAssignmentPrinter.add_read_info under --check_canonical): None when no reference is stored *)
Definition read_flag (w:window) (m:memo) (st:strand) (exons:list intron) : memo * option flag :=
  match wseq w with
  | [] => (m, None)
  | _ => match jfb exons with
         | [] => (m, Some Unspliced)
         | introns => let '(m1, v) := check_sites w m st introns in (m1, Some (Flag v))
         end
  end.
(* add_canonical_info_for_model: an existing attribute is kept *)
Definition model_flag (w:window) (m:memo) (existing:option flag) (st:strand) (exons:list intron) : memo * option flag :=
  match wseq w with
  | [] => (m, existing)
  | _ => match existing with
         | Some f => (m, Some f)
         | None => match jfb exons with
                   | [] => (m, Some Unspliced)
                   | introns => let '(m1, v) := check_sites w m st introns in (m1, Some (Flag v))
                   end
         end
  end.
Definition flag_spec (w:window) (st:strand) (exons:list intron) : flag :=
  match jfb exons with [] => Unspliced | introns => Flag (forallb (canonical_on w st) introns) end.

Theorem model_flag_spec w m st exons : wseq w <> [] -> sound w m ->
  snd (model_flag w m None st exons) = Some (flag_spec w st exons) /\ sound w (fst (model_flag w m None st exons)).
Proof. intros Hw S. unfold model_flag, flag_spec. destruct (wseq w) as [|c0 cs] eqn:E; [congruence|]. destruct (jfb exons) as [|i l] eqn:J; [split; auto|].
  destruct (check_sites_sound w (i :: l) m st S) as [S1 V]. destruct (check_sites w m st (i :: l)) as [m1 v]. cbn [fst snd] in *. subst. split; auto. Qed.
Theorem read_flag_spec w m st exons : wseq w <> [] -> sound w m ->
  snd (read_flag w m st exons) = Some (flag_spec w st exons) /\ sound w (fst (read_flag w m st exons)).
Proof. intros Hw S. unfold read_flag, flag_spec. destruct (wseq w) as [|c0 cs] eqn:E; [congruence|]. destruct (jfb exons) as [|i l] eqn:J; [split; auto|].
  destruct (check_sites_sound w (i :: l) m st S) as [S1 V]. destruct (check_sites w m st (i :: l)) as [m1 v]. cbn [fst snd] in *. subst. split; auto. Qed.
Theorem unspliced_flag w st e : flag_spec w st [e] = Unspliced. Proof. reflexivity. Qed.
(* a flag already attached to a model (the novel models when the extended annotation is written) is never recomputed *)
Theorem model_flag_kept w m f st exons : snd (model_flag w m (Some f) st exons) = Some f.
Proof. unfold model_flag. destruct (wseq w); reflexivity. Qed.

(* ------------------------------------------------------------------ splice-site strand: common.get_intron_strand, get_strand, count_noncanonincal *)
Definition get_intron_strand (w:window) (i:intron) : strand :=
  let p := upper_pair (site_pair w i) in
  let f := in_sites fwd_sites p in let r := in_sites rev_sites p in
  if Bool.eqb f r then Dot else if f then Plus else Minus.
(* common.get_strand (no upper-casing there) *)
Definition count_sites (w:window) (l:list intron) : Z * Z :=
  fold_left (fun acc i => let p := site_pair w i in
                          (fst acc + (if in_sites fwd_sites p then 1 else 0), snd acc + (if in_sites rev_sites p then 1 else 0))) l (0, 0).
Definition common_get_strand (w:window) (l:list intron) : strand :=
  match l with [] => Dot | _ => let '(f, r) := count_sites w l in if f =? r then Dot else if r <? f then Plus else Minus end.
Definition count_noncanonical (w:window) (st:strand) (l:list intron) : Z :=
  fold_left (fun acc i => acc + (if pair_eqb (site_pair w i) (match st with Plus => ([bG;bT],[bA;bG]) | _ => ([bC;bT],[bA;bC]) end) then 0 else 1)) l 0.

(* the two sets are disjoint, so an intron is '+' iff canonical on '+', '-' iff canonical on '-' *)
Lemma sites_disjoint p : in_sites fwd_sites p = true -> in_sites rev_sites p = true -> False.
Proof. rewrite !in_sites_In. unfold fwd_sites, rev_sites. simpl. intros [H|[H|[H|[]]]] [H'|[H'|[H'|[]]]]; rewrite <- H in H'; discriminate. Qed.
Theorem intron_strand_spec w i :
  (get_intron_strand w i = Plus <-> canonical_on w Plus i = true) /\ (get_intron_strand w i = Minus <-> canonical_on w Minus i = true).
Proof. unfold get_intron_strand, canonical_on. cbn [sites]. pose proof (sites_disjoint (upper_pair (site_pair w i))) as D.
  destruct (in_sites fwd_sites (upper_pair (site_pair w i))), (in_sites rev_sites (upper_pair (site_pair w i))); cbn [Bool.eqb]; split; split; intros H; try congruence; try reflexivity; exfalso; auto. Qed.

(* ------------------------------------------------------------------ StrandDetector *)
Definition sdict := list (intron * strand).
Fixpoint slook (i:intron) (d:sdict) : option strand := match d with [] => None | (k, v) :: t => if intron_eqb i k then Some v else slook i t end.
(* set_strand(intron, strand=None): a given strand wins, otherwise the reference decides (when there is one) *)
Definition set_strand (w:window) (d:sdict) (i:intron) (s:option strand) : sdict :=
  match s with Some v => (i, v) :: d | None => match wseq w with [] => d | _ => (i, get_intron_strand w i) :: d end end.
Definition count_canonical_sites (w:window) (d:sdict) (l:list intron) : sdict * (Z * Z) :=
  fold_left (fun acc i => let '(d, (f, r)) := acc in
                          let '(d1, s) := match slook i d with Some s => (d, s) | None => let s := get_intron_strand w i in ((i, s) :: d, s) end in
                          (d1, match s with Plus => (f + 1, r) | Minus => (f, r + 1) | Dot => (f, r) end)) l (d, (0, 0)).
Definition decide_strand (f r:Z) (has_polya has_polyt:bool) : strand :=
  if f =? r then (if has_polya && negb has_polyt then Plus else if has_polyt && negb has_polya then Minus else Dot)
  else if r <? f then Plus else Minus.
Definition decide_clean (f r:Z) : strand := if (f =? 0) && (0 <? r) then Minus else if (0 <? f) && (r =? 0) then Plus else Dot.
Definition detector_get_strand (w:window) (d:sdict) (l:list intron) (has_polya has_polyt:bool) : sdict * strand :=
  let '(d1, (f, r)) := count_canonical_sites w d l in (d1, decide_strand f r has_polya has_polyt).
Definition detector_get_clean_strand (w:window) (d:sdict) (l:list intron) : sdict * strand :=
  let '(d1, (f, r)) := count_canonical_sites w d l in (d1, decide_clean f r).

(* GraphBasedModelConstructor.set_gene_properties: an intron annotated on exactly one strand takes that strand, the others are decided by the reference *)
Fixpoint add_strand (i:intron) (s:strand) (acc:list (intron * list strand)) : list (intron * list strand) :=
  match acc with
  | [] => [(i, [s])]
  | (k, ss) :: t => if intron_eqb i k then (k, if existsb (strand_eqb s) ss then ss else ss ++ [s]) :: t else (k, ss) :: add_strand i s t
  end.
Notation isoform := (strand * Z * list intron)%type.                   (* isoform_strands[t], gene_id_map[t] (interned), all_isoforms_introns[t] *)
Definition annotated_strands (isoforms:list isoform) : list (intron * list strand) :=
  fold_left (fun acc iso => fold_left (fun acc i => add_strand i (fst (fst iso)) acc) (snd iso) acc) isoforms [].
(* intron_genes: intron -> set of genes annotating it *)
Fixpoint add_gene (i:intron) (g:Z) (acc:list (intron * list Z)) : list (intron * list Z) :=
  match acc with
  | [] => [(i, [g])]
  | (k, gs) :: t => if intron_eqb i k then (k, if existsb (Z.eqb g) gs then gs else gs ++ [g]) :: t else (k, gs) :: add_gene i g t
  end.
Definition intron_genes_of (isoforms:list isoform) : list (intron * list Z) :=
  fold_left (fun acc iso => fold_left (fun acc i => add_gene i (snd (fst iso)) acc) (snd iso) acc) isoforms [].
Definition preseed (w:window) (isoforms:list isoform) : sdict :=
  fold_left (fun d e => match snd e with [s] => set_strand w d (fst e) (Some s) | _ => set_strand w d (fst e) None end) (annotated_strands isoforms) [].

(* the evidence the detector works with: the pre-seeded strand if there is one, else the splice sites in the reference *)
Definition evidence (w:window) (d0:sdict) (i:intron) : strand := match slook i d0 with Some s => s | None => get_intron_strand w i end.
Definition good (w:window) (d0 d:sdict) :=
  (forall i s, slook i d0 = Some s -> slook i d = Some s) /\ (forall i s, slook i d = Some s -> s = evidence w d0 i).
Definition tally_step (w:window) (d0:sdict) (acc:Z * Z) (i:intron) : Z * Z :=
  match evidence w d0 i with Plus => (fst acc + 1, snd acc) | Minus => (fst acc, snd acc + 1) | Dot => acc end.
Definition tally (w:window) (d0:sdict) (l:list intron) : Z * Z := fold_left (tally_step w d0) l (0, 0).

Lemma good_refl w d0 : good w d0 d0.
Proof. split; [auto|]. intros i s H. unfold evidence. rewrite H. reflexivity. Qed.
Definition ccs_step (w:window) (acc:sdict * (Z * Z)) (i:intron) : sdict * (Z * Z) :=
  let '(d, (f, r)) := acc in
  let '(d1, s) := match slook i d with Some s => (d, s) | None => let s := get_intron_strand w i in ((i, s) :: d, s) end in
  (d1, match s with Plus => (f + 1, r) | Minus => (f, r + 1) | Dot => (f, r) end).
Lemma count_canonical_sites_unfold w d l : count_canonical_sites w d l = fold_left (ccs_step w) l (d, (0, 0)).
Proof. reflexivity. Qed.
Lemma ccs_fold_spec w d0 : forall l d f r, good w d0 d ->
  good w d0 (fst (fold_left (ccs_step w) l (d, (f, r)))) /\
  snd (fold_left (ccs_step w) l (d, (f, r))) = fold_left (tally_step w d0) l (f, r).
Proof. induction l as [|i t IH]; intros d f r G; cbn [fold_left]; [split; [exact G|reflexivity]|].
  destruct G as [Ext Agr].
  assert (S: exists d', ccs_step w (d, (f, r)) i = (d', tally_step w d0 (f, r) i) /\ good w d0 d').
  { unfold ccs_step, tally_step. cbn [fst snd]. destruct (slook i d) as [s|] eqn:E.
    - exists d. rewrite <- (Agr i s E). split; [destruct s; reflexivity|split; assumption].
    - assert (E0: slook i d0 = None). { destruct (slook i d0) as [s0|] eqn:E0; [|reflexivity]. apply Ext in E0. congruence. }
      assert (Ev: evidence w d0 i = get_intron_strand w i) by (unfold evidence; rewrite E0; reflexivity).
      exists ((i, get_intron_strand w i) :: d). rewrite Ev. split; [destruct (get_intron_strand w i); reflexivity|].
      split; intros i' s'; cbn [slook]; destruct (intron_eqb i' i) eqn:Ei.
      + apply intron_eqb_eq in Ei. subst i'. congruence.
      + apply Ext.
      + apply intron_eqb_eq in Ei. subst i'. intros H. inversion H; subst. symmetry; exact Ev.
      + apply Agr. }
  destruct S as (d' & S1 & S2). rewrite S1. destruct (tally_step w d0 (f, r) i) as [f' r']. apply IH. exact S2. Qed.

(* for every history of queries the detector answers with the pure function of the evidence *)
Theorem detector_history_independent w d0 d l pa pt : good w d0 d ->
  snd (detector_get_strand w d l pa pt) = (let '(f, r) := tally w d0 l in decide_strand f r pa pt) /\
  snd (detector_get_clean_strand w d l) = (let '(f, r) := tally w d0 l in decide_clean f r) /\
  good w d0 (fst (detector_get_strand w d l pa pt)) /\ good w d0 (fst (detector_get_clean_strand w d l)).
Proof. intros G. unfold detector_get_strand, detector_get_clean_strand, tally. rewrite count_canonical_sites_unfold.
  destruct (ccs_fold_spec w d0 l d 0 0 G) as [G1 E]. destruct (fold_left (ccs_step w) l (d, (0, 0))) as [d1 [f r]]. cbn [fst snd] in *.
  rewrite <- E. auto. Qed.

Lemma tally_nonneg w d0 : forall l f r, 0 <= f -> 0 <= r -> 0 <= fst (fold_left (tally_step w d0) l (f, r)) /\ 0 <= snd (fold_left (tally_step w d0) l (f, r)).
Proof. induction l as [|i t IH]; intros f r Hf Hr; cbn [fold_left]; [simpl; lia|].
  assert (S: exists f' r', tally_step w d0 (f, r) i = (f', r') /\ 0 <= f' /\ 0 <= r').
  { unfold tally_step. cbn [fst snd]. destruct (evidence w d0 i); eexists; eexists; (split; [reflexivity|lia]). }
  destruct S as (f' & r' & S & A & B). rewrite S. apply IH; assumption. Qed.

(* the decision never contradicts the evidence: '+' needs more '+' introns than '-' ones, or a tie broken by a polyA tail alone *)
Theorem strand_agrees_with_sites f r pa pt : 0 <= f -> 0 <= r ->
  match decide_strand f r pa pt with
  | Plus => (r < f \/ (f = r /\ pa = true /\ pt = false)) /\ (0 < f \/ pa = true)
  | Minus => (f < r \/ (f = r /\ pt = true /\ pa = false)) /\ (0 < r \/ pt = true)
  | Dot => f = r /\ (pa = pt)
  end.
Proof. intros Hf Hr. unfold decide_strand. destruct (f =? r) eqn:E.
  - destruct pa, pt; cbn [andb negb]; repeat split; auto; try lia.
  - destruct (r <? f) eqn:E2; split; try lia. Qed.
Theorem clean_strand_spec f r : 0 <= f -> 0 <= r ->
  match decide_clean f r with Plus => 0 < f /\ r = 0 | Minus => f = 0 /\ 0 < r | Dot => (f = 0 /\ r = 0) \/ (0 < f /\ 0 < r) end.
Proof. intros Hf Hr. unfold decide_clean. destruct ((f =? 0) && (0 <? r)) eqn:A; [lia|]. destruct ((0 <? f) && (r =? 0)) eqn:B; lia. Qed.
(* a clean strand is also the decided strand *)
Lemma clean_implies_strand f r pa pt : 0 <= f -> 0 <= r -> decide_clean f r <> Dot -> decide_strand f r pa pt = decide_clean f r.
Proof. intros Hf Hr. unfold decide_clean, decide_strand. destruct ((f =? 0) && (0 <? r)) eqn:A.
  - intros _. destruct (f =? r) eqn:E; [lia|]. destruct (r <? f) eqn:E2; [lia|reflexivity].
  - destruct ((0 <? f) && (r =? 0)) eqn:B; [|congruence]. intros _. destruct (f =? r) eqn:E; [lia|]. destruct (r <? f) eqn:E2; [reflexivity|lia]. Qed.

(* ------------------------------------------------------------------ AlignmentCollector.get_assignment_strand *)
(* matched = strand of the first isoform match when the read is unique / unique_minor_difference *)
Definition get_assignment_strand (w:window) (d:sdict) (matched:option strand) (ext_a int_a ext_t int_t:Z) (n_exons:Z) (introns:list intron) : sdict * strand :=
  match matched with
  | Some s => (d, s)
  | None =>
    let has_polya := negb (ext_a =? -1) || negb (int_a =? -1) in
    let has_polyt := negb (ext_t =? -1) || negb (int_t =? -1) in
    if n_exons =? 1 then (d, if has_polya && negb has_polyt then Plus else if has_polyt && negb has_polya then Minus else Dot)
    else detector_get_strand w d introns has_polya has_polyt
  end.

(* ------------------------------------------------------------------ construct_fl_isoforms: strand decision, reporting filter, gene, id *)
Inductive level := OnlyCanonical | OnlyStranded | ReportAll.       (* StrandnessReportingLevel 1, 2, 3 *)
Record params := { min_novel_count : Z; min_known_count : Z; require_monointronic_polya : bool; report_level : level }.
Record path := { p_count : Z; p_polyt : bool; p_polya : bool; p_introns : list intron;
                 p_matching : bool;          (* the assigner calls the path a match of a reference isoform *)
                 p_in_known : bool }.        (* intron_path in known_isoforms_in_graph *)
Record gene_ctx := { g_empty : bool;                               (* gene_info.empty() *)
                     g_intron_genes : list (intron * list Z);      (* intron -> ids of the genes annotating it *)
                     g_strands : list (Z * strand);                (* gene -> strand *)
                     g_known_introns : list intron }.
Fixpoint zlook {A} (k:Z) (l:list (Z * A)) : option A := match l with [] => None | (k', v) :: t => if k =? k' then Some v else zlook k t end.
Fixpoint ilook {A} (i:intron) (l:list (intron * A)) : option A := match l with [] => None | (k, v) :: t => if intron_eqb i k then Some v else ilook i t end.
Fixpoint bump (g:Z) (c:list (Z * Z)) : list (Z * Z) := match c with [] => [(g, 1)] | (k, n) :: t => if g =? k then (k, n + 1) :: t else (k, n) :: bump g t end.
(* sorted(gene_counts.items(), key=(count, id), reverse=True): insertion sort, keys are pairwise different *)
Definition gene_before (a b:Z * Z) : bool := (snd b <? snd a) || ((snd a =? snd b) && (fst b <? fst a)).
Fixpoint insert_gene (a:Z * Z) (l:list (Z * Z)) : list (Z * Z) := match l with [] => [a] | b :: t => if gene_before a b then a :: l else b :: insert_gene a t end.
Definition select_reference_gene (g:gene_ctx) (introns:list intron) (st:strand) : option Z :=
  if g_empty g then None else
  let counts := fold_left (fun c i => match ilook i (g_intron_genes g) with Some gs => fold_left (fun c x => bump x c) gs c | None => c end) introns [] in
  let ordered := fold_right insert_gene [] counts in
  match filter (fun e => match st with Dot => true | _ => match zlook (fst e) (g_strands g) with Some s => strand_eqb s st | None => false end end) ordered with
  | e :: _ => Some (fst e) | [] => None end.

Inductive model_gene := RefGene (g:Z) | NovelGene (id:str).
Inductive fl_out := NoModel | Known | Novel (st:strand) (tid:str) (gene:model_gene) (nic:bool).
Definition fl_state := (Z * sdict)%type.                              (* id_distributor.value, strand_detector.strand_dict *)

Definition fl_step (w:window) (pr:params) (g:gene_ctx) (forb:list Z) (chr:str) (s:fl_state) (p:path) : fl_state * fl_out :=
  let '(v, d) := s in
  match p_introns p with
  | [] => (s, NoModel)                                                 (* if not intron_path: continue *)
  | _ =>
    let n1 := increment forb v in
    if p_matching p then ((n1, d), if p_count p <? min_known_count pr then NoModel else Known)
    else if p_in_known p then ((n1, d), NoModel)
    else
      let polya_site := p_polya p || p_polyt p in
      let '(d1, st) := detector_get_strand w d (p_introns p) (p_polya p) (p_polyt p) in
      let '(d2, clean) := detector_get_clean_strand w d1 (p_introns p) in
      let two_exons := (length (p_introns p) =? 1)%nat in
      if p_count p <? min_novel_count pr then ((n1, d2), NoModel)
      else if two_exons && ((require_monointronic_polya pr && negb polya_site) || strand_eqb clean Dot) then ((n1, d2), NoModel)
      else if match report_level pr with OnlyCanonical => strand_eqb clean Dot | OnlyStranded => strand_eqb st Dot | ReportAll => false end then ((n1, d2), NoModel)
      else
        let nic := forallb (fun i => existsb (intron_eqb i) (g_known_introns g)) (p_introns p) in
        match select_reference_gene g (p_introns p) st with
        | None => let n2 := increment forb n1 in ((n2, d2), Novel st (transcript_id n1 chr nic) (NovelGene (novel_gene_id chr n2)) nic)
        | Some gid => let st' := match st with Dot => match zlook gid (g_strands g) with Some s => s | None => Dot end | _ => st end in
                      ((n1, d2), Novel st' (transcript_id n1 chr nic) (RefGene gid) nic)
        end
  end.
Fixpoint fl_run (w:window) (pr:params) (g:gene_ctx) (forb:list Z) (chr:str) (s:fl_state) (ps:list path) : fl_state * list fl_out :=
  match ps with [] => (s, []) | p :: t => let '(s1, o) := fl_step w pr g forb chr s p in let '(s2, os) := fl_run w pr g forb chr s1 t in (s2, o :: os) end.

(* under only_stranded / only_canonical a reported novel spliced model without a reference gene always has a strand *)
Theorem reported_novel_has_strand w pr g forb chr s p st tid id nic : report_level pr <> ReportAll ->
  snd (fl_step w pr g forb chr s p) = Novel st tid (NovelGene id) nic -> st <> Dot.
Proof. intros HL. unfold fl_step. destruct s as [v d]. destruct (p_introns p) as [|i0 il] eqn:EI; [discriminate|].
  destruct (p_matching p); [cbn [snd]; destruct (p_count p <? min_known_count pr); discriminate|].
  destruct (p_in_known p); [discriminate|].
  unfold detector_get_strand, detector_get_clean_strand.
  destruct (count_canonical_sites w d (i0 :: il)) as [d1 [f r]] eqn:C1.
  destruct (count_canonical_sites w d1 (i0 :: il)) as [d2 [f2 r2]] eqn:C2.
  (* both counts are tallies of the same evidence *)
  pose proof (ccs_fold_spec w d (i0 :: il) d 0 0 (good_refl w d)) as [G1 T1]. rewrite <- count_canonical_sites_unfold, C1 in G1, T1. cbn [fst snd] in G1, T1.
  pose proof (ccs_fold_spec w d (i0 :: il) d1 0 0 G1) as [G2 T2]. rewrite <- count_canonical_sites_unfold, C2 in G2, T2. cbn [fst snd] in T2.
  assert (EQ: (f2, r2) = (f, r)) by congruence. inversion EQ; subst f2 r2.
  pose proof (tally_nonneg w d (i0 :: il) 0 0 ltac:(lia) ltac:(lia)) as [Nf Nr]. rewrite <- T1 in Nf, Nr. cbn [fst snd] in Nf, Nr.
  destruct (p_count p <? min_novel_count pr); [discriminate|].
  match goal with |- context [if ?c then _ else _] => destruct c; [discriminate|] end.
  destruct (report_level pr) eqn:L; [| |congruence].
  - destruct (strand_eqb (decide_clean f r) Dot) eqn:EC; [discriminate|].
    assert (NC: decide_clean f r <> Dot) by (intros X; rewrite X in EC; discriminate).
    rewrite (clean_implies_strand f r (p_polya p) (p_polyt p) Nf Nr NC).
    destruct (select_reference_gene g (i0 :: il) (decide_clean f r)); cbn [snd]; intros H; inversion H; subst; exact NC.
  - destruct (strand_eqb (decide_strand f r (p_polya p) (p_polyt p)) Dot) eqn:ES; [discriminate|].
    assert (NS: decide_strand f r (p_polya p) (p_polyt p) <> Dot) by (intros X; rewrite X in ES; discriminate).
    destruct (select_reference_gene g (i0 :: il) (decide_strand f r (p_polya p) (p_polyt p))); cbn [snd]; intros H; inversion H; subst; exact NS. Qed.

(* generate_monoexon_from_clustered: clusters in dictionary order; a cluster above the cut-off takes two numbers (transcript, gene)
   before it is tested against the models emitted so far *)
Definition intersection_len (a b:intron) : Z := Z.max 0 (Z.min (snd a) (snd b) - Z.max (fst a) (fst b) + 1).
Record cluster := { c_three : Z; c_reads : list (Z * Z) }.           (* 3' position; (first exon start, last exon end) of each read *)
Inductive mono_out := MonoNone | MonoSkipped | Mono (st:strand) (tid:str) (gid:str) (coords:intron).
Definition mono_step (cutoff:Z) (forb:list Z) (chr:str) (forward:bool) (s:Z * list (list intron)) (c:cluster) : (Z * list (list intron)) * mono_out :=
  let '(v, models) := s in
  if Z.of_nat (length (c_reads c)) <? cutoff then (s, MonoNone) else
  let five := if forward then fold_left Z.min (map fst (c_reads c)) (fst (hd (0, 0) (c_reads c)))
              else fold_left Z.max (map snd (c_reads c)) (snd (hd (0, 0) (c_reads c))) in
  let coords := if forward then (five, c_three c) else (c_three c, five) in
  let n1 := increment forb v in let n2 := increment forb n1 in
  let len := snd coords - fst coords + 1 in
  if existsb (fun m => existsb (fun e => len <? 2 * intersection_len e coords) m) models then ((n2, models), MonoSkipped)
  else ((n2, models ++ [[coords]]), Mono (if forward then Plus else Minus) (transcript_id n1 chr false) (novel_gene_id chr n2) coords).
Fixpoint mono_run (cutoff:Z) (forb:list Z) (chr:str) (forward:bool) (s:Z * list (list intron)) (cs:list cluster) : (Z * list (list intron)) * list mono_out :=
  match cs with [] => (s, []) | c :: t => let '(s1, o) := mono_step cutoff forb chr forward s c in let '(s2, os) := mono_run cutoff forb chr forward s1 t in (s2, o :: os) end.

(* with --report_canonical all a novel model may be reported with strand '.' (see C04) *)
Example dot_strand_report_all :
  let w := {| wstart := 1; wseq := [65;65;65;65;65;65;65;65;65;65;65;65;65;65;65;65;65;65] |} in
  let pr := {| min_novel_count := 1; min_known_count := 1; require_monointronic_polya := false; report_level := ReportAll |} in
  let g := {| g_empty := true; g_intron_genes := []; g_strands := []; g_known_introns := [] |} in
  let p := {| p_count := 5; p_polyt := false; p_polya := false; p_introns := [(3,6);(9,12)]; p_matching := false; p_in_known := false |} in
  match snd (fl_step w pr g [] [99] (0, []) p) with Novel Dot _ _ _ => True | _ => False end.
Proof. vm_compute. exact I. Qed.

(* ------------------------------------------------------------------ witnesses *)
Definition text_ex : str := [65;65;65;65;71;84;65;65;65;65;65;65;65;71;65;65;65;65;65;65;65;65;65;65;65;65;71;84;65;65].  (* AAAAGTAAAAAAAGAAAAAAAAAAAAGTAA *)
Definition ref_ex (p:Z) : Z := nth (Z.to_nat (p - 1)) text_ex 0.
Definition whole_ex : window := {| wstart := 1; wseq := text_ex |}.
Lemma whole_ex_covers : covers ref_ex whole_ex.
Proof. intros k Hk. unfold ref_ex, whole_ex. cbn [wstart wseq]. f_equal. lia. Qed.
(* the intron 5..14 is GT..AG: canonical on '+', not on '-' *)
Example canonical_example : canonical_on whole_ex Plus (5, 14) = true /\ canonical_on whole_ex Minus (5, 14) = false /\ inside whole_ex (5, 14).
Proof. vm_compute. repeat split; congruence. Qed.

(* memo keyed by the intron only (code before the repair): the answer for '+' depends on whether '-' was asked before *)
Example memo_history_dependent_cur_refuted :
  snd (check_sites_cur whole_ex (fst (check_sites_cur whole_ex [] Minus [(5, 14)])) Plus [(5, 14)]) = false /\
  snd (check_sites_cur whole_ex [] Plus [(5, 14)]) = true /\
  snd (run_queries whole_ex [] [(Minus, [(5, 14)]); (Plus, [(5, 14)])]) = [false; true].
Proof. vm_compute. repeat split; reflexivity. Qed.

(* soft-masked reference: the unrepaired test compares the raw slice, get_intron_strand upper-cases *)
Example lower_case_raw_refuted :
  let w := {| wstart := 1; wseq := map (fun c => c + 32) text_ex |} in
  canonical_on_raw w Plus (5, 14) = false /\ canonical_on w Plus (5, 14) = true /\ get_intron_strand w (5, 14) = Plus.
Proof. vm_compute. repeat split; reflexivity. Qed.

(* the stored window does not reach the intron (stage 2 stores the gene cluster only): the look-up wraps or comes back empty.
   Window = bases 10..30 of the same reference. *)
Definition late_ex : window := {| wstart := 10; wseq := skipn 9 text_ex |}.
Lemma nth_skipn_add : forall (l:str) m n, nth n (skipn m l) 0 = nth (m + n) l 0.
Proof. induction l as [|c l IH]; intros m n; [destruct m, n; reflexivity|]. destruct m as [|m]; [reflexivity|]. cbn [skipn Nat.add nth]. apply IH. Qed.
Lemma late_ex_covers : covers ref_ex late_ex.
Proof. intros k Hk. unfold wlen, late_ex in Hk. cbn [wseq] in Hk. change (Z.of_nat (length (skipn 9 text_ex))) with 21 in Hk.
  unfold ref_ex, late_ex. cbn [wstart wseq]. rewrite nth_skipn_add. f_equal. lia. Qed.
Example outside_window_refuted :
  canonical_ref ref_ex Plus (5, 14) = true /\ canonical_on late_ex Plus (5, 14) = false /\ ~ inside late_ex (5, 14) /\
  (* and a wrapped look-up can also turn a non-canonical intron into a canonical one: 6..14 is TA..AG, the window's [-4:-2] is GT *)
  canonical_ref ref_ex Plus (6, 14) = false /\ canonical_on late_ex Plus (6, 14) = true.
Proof. split; [vm_compute; reflexivity|]. split; [vm_compute; reflexivity|]. split; [unfold inside, late_ex; cbn [wstart fst]; lia|]. split; vm_compute; reflexivity. Qed.

(* detector: two '+' introns against one '-' intron; a tie is broken by the polyA tail only *)
Example strand_examples :
  decide_strand 2 1 false true = Plus /\ decide_strand 1 1 true false = Plus /\ decide_strand 1 1 false true = Minus /\ decide_strand 1 1 true true = Dot /\
  decide_clean 2 1 = Dot /\ decide_clean 2 0 = Plus.
Proof. vm_compute. repeat split; reflexivity. Qed.

Print Assumptions canonical_pure_spec.
Print Assumptions memo_history_independent.
Print Assumptions detector_history_independent.
Print Assumptions reported_novel_has_strand.
