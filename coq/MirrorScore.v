(* C11: LongReadAssigner.select_best_among_inconsistent (bit-exact float model of C01, AssignerScore.v) does not distinguish left from right:
   swapping left/right in every event type leaves every penalty, and hence the selection, unchanged. *)
From Coq Require Import ZArith NArith QArith List Bool Floats.
From IQ.gen Require Import Prims Tables.
From IQ Require Import CorrSupport Mirror Junctions AssignerDefs AssignerScore.
Import ListNotations. Open Scope Z_scope.

Definition swap_sev (e:sev) : sev := mks (swap_mes (s_type e)) (s_iso e) (s_read e) (s_info e).
Definition swap_matches (ms:list (Z * list sev)) : list (Z * list sev) := map (fun m => (fst m, map swap_sev (snd m))) ms.

Lemma event_count_swap e : event_count (swap_sev e) = event_count e.
Proof. destruct e as [t i r x]. destruct t; reflexivity. Qed.
(* the length-dependent elongation penalty applies to the left and to the right elongation events alike *)
Lemma event_penalty_swap P e : event_penalty P (swap_sev e) = event_penalty P e.
Proof. unfold event_penalty. rewrite event_count_swap. destruct e as [t i r x]. destruct t; reflexivity. Qed.
Lemma penalty_swap P : forall evs acc, penalty P (map swap_sev evs) acc = penalty P evs acc.
Proof. induction evs as [|e t IH]; intros acc; [reflexivity|]. cbn [map penalty]. rewrite event_penalty_swap. destruct (event_penalty P e); [apply IH|reflexivity]. Qed.
Lemma scores_swap P : forall ms, scores P (swap_matches ms) = scores P ms.
Proof. induction ms as [|[id evs] t IH]; [reflexivity|]. cbn [swap_matches map scores fst snd]. fold (swap_matches t). rewrite penalty_swap, IH. reflexivity. Qed.
Theorem select_best_swap P ms : select_best P (swap_matches ms) = select_best P ms.
Proof. unfold select_best. rewrite scores_swap. reflexivity. Qed.

(* the same on the exact rational penalty of the specification (no primitive floats: these are the statements of props/C11.v) *)
Lemma event_penalty_q_swap P e : event_penalty_q P (swap_sev e) = event_penalty_q P e.
Proof. unfold event_penalty_q. rewrite event_count_swap. destruct e as [t i r x]. destruct t; reflexivity. Qed.
Theorem penalty_q_swap P evs : penalty_q P (map swap_sev evs) = penalty_q P evs.
Proof. unfold penalty_q. generalize 0%Q. induction evs as [|e t IH]; intros a; [reflexivity|]. cbn [map fold_left]. rewrite event_penalty_q_swap. apply IH. Qed.
