(* C17 — decidable specifications evaluated on the implementation's outputs, and the glue of the correspondences. *)
From Coq Require Import ZArith NArith List Bool Lia.
From IQ Require Import CorrSupport Ids.
Import ListNotations. Open Scope Z_scope.

Definition strs_eqb : list str -> list str -> bool := list_eqb str_eqb.
Definition set_eqb (a b:list Z) : bool := forallb (fun x => mem x b) a && forallb (fun x => mem x a) b.
Fixpoint increasing (l:list Z) : bool := match l with a :: ((b :: _) as t) => (a <? b) && increasing t | _ => true end.

(* ------------------------------------------------------------------ naming constants and formats *)
(* (transcript_prefix, novel_gene_prefix, nic suffix, nnic suffix) as found in TranscriptNaming *)
Definition naming_check (c:str * str * str * str) : bool :=
  let '(tp, gp, nic, nnic) := c in str_eqb tp transcript_prefix && str_eqb gp novel_gene_prefix && str_eqb nic nic_suffix && str_eqb nnic nnic_suffix.
(* "%d" % n and int(s) *)
Definition dec_check (c:Z * str) : bool := str_eqb (print_dec (fst c)) (snd c).
Definition int_check (c:str * outcome Z) : bool := outcome_eqb Z.eqb (match py_int (fst c) with Some v => Ok v | None => Raises 1 end) (snd c).

(* ------------------------------------------------------------------ ExcludingIdDistributor on a (fake) gene database *)
(* a feature of the database: (seqid, kind, id); kind 0 = gene, 1 = transcript, 2 = mRNA, anything else = other feature types *)
Notation db_feature := (str * Z * str)%type.
Definition genes_of (chr:str) (db:list db_feature) : list str :=
  map snd (filter (fun f => str_eqb (fst (fst f)) chr && (snd (fst f) =? 0)) db).
Definition transcripts_of (chr:str) (db:list db_feature) : list str :=
  map snd (filter (fun f => str_eqb (fst (fst f)) chr && ((snd (fst f) =? 1) || (snd (fst f) =? 2))) db).
Definition db_forbidden (has_db:bool) (chr:str) (db:list db_feature) : list Z :=
  if has_db then forbidden_ids (genes_of chr db) (transcripts_of chr db) else [].
(* case: ((has_db, chr, db, n), (sorted forbidden_ids of the object, numbers returned by n calls of increment())) *)
Definition distributor_check (c:(bool * str * list db_feature * Z) * (list Z * list Z)) : bool :=
  let '(has_db, chr, db, n) := fst c in
  let forb := db_forbidden has_db chr db in
  set_eqb forb (fst (snd c)) && zs_eqb (issue forb 0 (Z.to_nat n)) (snd (snd c)).
(* specification on the implementation's output: strictly increasing positive numbers, none forbidden, and no id built from
   them (either suffix) equals a reference id of that chromosome *)
Definition distributor_prop (c:(bool * str * list db_feature * Z) * (list Z * list Z)) : bool :=
  let '(has_db, chr, db, n) := fst c in
  let issued := snd (snd c) in
  let genes := if has_db then genes_of chr db else [] in let transcripts := if has_db then transcripts_of chr db else [] in
  (Z.of_nat (length issued) =? n) && increasing issued && forallb (fun x => 0 <? x) issued &&
  forallb (fun x => negb (smem (transcript_id x chr true) transcripts) && negb (smem (transcript_id x chr false) transcripts) &&
                    negb (smem (novel_gene_id chr x) genes)) issued.

(* ------------------------------------------------------------------ FeatureIdStorage *)
(* a feature of the database: (seqid, type (0 = exon), start, end, strand, exon_id attribute (None: absent or empty list)) *)
Notation db_exon := (str * Z * Z * Z * str * option str)%type.
Definition ref_features (chr:str) (db:list db_exon) : list ref_feature :=
  flat_map (fun f => let '(sid, ty, st, en, sd, v) := f in if str_eqb sid chr && (ty =? 0) then [(st, en, sd, v)] else []) db.
Definition storage_init (has_db:bool) (chr:str) (db:list db_exon) : store := if has_db then init_store chr (ref_features chr db) else empty_store.

Notation row := (key * str)%type.
Definition functional_b (rows:list row) : bool :=
  forallb (fun a => forallb (fun b => negb (key_eqb (fst a) (fst b)) || str_eqb (snd a) (snd b)) rows) rows.
Definition injective_b (rows:list row) : bool :=
  forallb (fun a => forallb (fun b => negb (str_eqb (snd a) (snd b)) || key_eqb (fst a) (fst b)) rows) rows.
Definition ref_rows (chr:str) (fs:list ref_feature) : list row :=
  flat_map (fun f => let '(st, en, sd, v) := f in match v with Some x => [((chr, st, en, sd), x)] | None => [] end) fs.
(* the exon-id specification on a list of (key, id) rows observed from the implementation, against the reference rows:
   - the observed rows are functional;
   - if the reference rows are functional, reference and observed rows together are (reference ids preserved);
   - an observed row whose key is not a reference key (a new exon) shares its id with no other key, reference keys included;
   - if the reference rows are injective, so is everything together *)
Definition exon_ids_ok (refr obs:list row) : bool :=
  functional_b obs &&
  (negb (functional_b refr) || functional_b (refr ++ obs)) &&
  forallb (fun a => existsb (fun r => key_eqb (fst a) (fst r)) refr ||
                    forallb (fun b => negb (str_eqb (snd a) (snd b)) || key_eqb (fst a) (fst b)) (refr ++ obs)) obs &&
  (negb (injective_b refr) || injective_b (refr ++ obs)).

(* case: ((has_db, chr, db, keys queried in order), ids returned) *)
Definition storage_check (c:(bool * str * list db_exon * list key) * list str) : bool :=
  let '(has_db, chr, db, ks) := fst c in strs_eqb (snd (run get_id (storage_init has_db chr db) ks)) (snd c).
Definition storage_prop (c:(bool * str * list db_exon * list key) * list str) : bool :=
  let '(has_db, chr, db, ks) := fst c in
  (length ks =? length (snd c))%nat && exon_ids_ok (if has_db then ref_rows chr (ref_features chr db) else []) (combine ks (snd c)).

(* ------------------------------------------------------------------ shapes of ids found in output files *)
Definition ends_with (suf s:str) : bool := starts_with (rev suf) (rev s).
Definition drop_last_n (n:nat) (s:str) : str := rev (skipn n (rev s)).
Definition digits_num (d:str) : option Z :=
  match d with [] => None | _ => if forallb is_digit d then py_int d else None end.
(* hints only: the result is always re-printed with the model's constructor and compared with the id *)
Definition parse_transcript_id (s:str) : option (Z * str * bool) :=
  if starts_with transcript_prefix s then
    let rest := skipn (length transcript_prefix) s in
    let d := first_field 46 rest in
    match digits_num d with
    | Some n => let tail := skipn (Datatypes.S (length d)) rest in
                if ends_with nnic_suffix tail then Some (n, drop_last_n (length nnic_suffix) tail, false)
                else if ends_with nic_suffix tail then Some (n, drop_last_n (length nic_suffix) tail, true) else None
    | None => None
    end
  else None.
Definition is_transcript_id_of (chr:str) (s:str) : option (Z * bool) :=
  match parse_transcript_id s with
  | Some (n, c, nic) => if str_eqb c chr && str_eqb (transcript_id n chr nic) s then Some (n, nic) else None
  | None => None
  end.
Definition is_novel_gene_id_of (chr:str) (s:str) : option Z :=
  match digits_num (last_field 95 s) with
  | Some n => if str_eqb (novel_gene_id chr n) s then Some n else None
  | None => None
  end.
Definition is_exon_id_of (chr:str) (s:str) : option Z :=
  match digits_num (last_field 46 s) with
  | Some n => if str_eqb (exon_id chr n) s then Some n else None
  | None => None
  end.

(* ------------------------------------------------------------------ ids_ok: the output GTFs of one run against its reference annotation *)
Notation iv := (Z * Z)%type.
(* a transcript of a GTF: id, gene id, chromosome, strand, exons sorted *)
Record tr := { t_id : str; t_gene : str; t_chr : str; t_strand : str; t_exons : list iv }.
(* a GTF file as parsed by the harness: ids of its transcript lines and gene lines in file order (with the chromosome of the line),
   its transcripts, and its exon lines (key, exon_id) in file order *)
Record gtf := { f_tlines : list str; f_glines : list (str * str); f_trs : list tr; f_exons : list row }.

Fixpoint snodup (l:list str) : bool := match l with [] => true | x :: t => negb (smem x t) && snodup t end.
Definition ivs_eqb' (a b:list iv) : bool := list_eqb (fun x y => (fst x =? fst y) && (snd x =? snd y)) a b.
Definition same_tr (a b:tr) : bool :=
  str_eqb (t_chr a) (t_chr b) && str_eqb (t_strand a) (t_strand b) && ivs_eqb' (t_exons a) (t_exons b) && str_eqb (t_gene a) (t_gene b).
Fixpoint find_tr (id:str) (l:list tr) : option tr := match l with [] => None | t :: r => if str_eqb id (t_id t) then Some t else find_tr id r end.
Definition introns_of (ex:list iv) : list iv :=
  (fix go (l:list iv) := match l with a :: ((b :: _) as t) => (snd a + 1, fst b - 1) :: go t | _ => [] end) ex.
Definition intron_known (ref:gtf) (chr:str) (i:iv) : bool :=
  existsb (fun r => str_eqb (t_chr r) chr && existsb (fun j => (fst i =? fst j) && (snd i =? snd j)) (introns_of (t_exons r))) (f_trs ref).

(* one output file against the reference:
   - transcript ids and gene ids are unique among the transcript resp. gene lines;
   - a transcript carrying a reference id IS that reference transcript (same chromosome, strand, exons, gene): a novel model never takes a reference id;
   - every other transcript id has the generated shape for its chromosome, with the suffix .nic iff all its introns are reference introns
     (mono-exonic: .nnic), and its number differs from every other novel transcript's number on that chromosome;
   - a gene id that is not a reference gene id has the generated shape for the chromosome of its line *)
Definition file_ids_ok (ref out:gtf) : bool :=
  snodup (f_tlines out) && snodup (map fst (f_glines out)) &&
  forallb (fun t => match find_tr (t_id t) (f_trs ref) with
                    | Some r => same_tr r t
                    | None => match is_transcript_id_of (t_chr t) (t_id t) with
                              | Some (n, nic) => Bool.eqb nic (match introns_of (t_exons t) with [] => false | l => forallb (intron_known ref (t_chr t)) l end)
                              | None => false
                              end
                    end) (f_trs out) &&
  forallb (fun g => smem (fst g) (map fst (f_glines ref)) || smem (fst g) (map t_gene (f_trs ref)) ||
                    match is_novel_gene_id_of (snd g) (fst g) with Some _ => true | None => false end) (f_glines out) &&
  (* no number is used twice on a chromosome, whether for a transcript or for a gene *)
  snodup (flat_map (fun t => match find_tr (t_id t) (f_trs ref) with Some _ => [] | None =>
                               match is_transcript_id_of (t_chr t) (t_id t) with Some (n, _) => [exon_id (t_chr t) n] | None => [] end end) (f_trs out) ++
          flat_map (fun g => if smem (fst g) (map fst (f_glines ref)) || smem (fst g) (map t_gene (f_trs ref)) then [] else
                               match is_novel_gene_id_of (snd g) (fst g) with Some n => [exon_id (snd g) n] | None => [] end) (f_glines out)).

(* exon ids across both output files: a function of the key, reference ids preserved, new ids collision-free and of the shape chr.N *)
Definition ids_ok (ref models extended:gtf) : bool :=
  file_ids_ok ref models && file_ids_ok ref extended &&
  exon_ids_ok (f_exons ref) (f_exons models ++ f_exons extended) &&
  forallb (fun a => existsb (fun r => key_eqb (fst a) (fst r)) (f_exons ref) ||
                    match is_exon_id_of (fst (fst (fst (fst a)))) (snd a) with Some _ => true | None => false end) (f_exons models ++ f_exons extended).

(* ------------------------------------------------------------------ the model's own output satisfies the exon-id specification *)
Lemma forallb_forall2 {A} (f:A -> A -> bool) (l:list A) :
  forallb (fun a => forallb (fun b => f a b) l) l = true <-> forall a b, In a l -> In b l -> f a b = true.
Proof. rewrite forallb_forall. split.
 - intros H a b Ha Hb. specialize (H a Ha). rewrite forallb_forall in H. apply H, Hb.
 - intros H a Ha. rewrite forallb_forall. intros b Hb. apply H; assumption. Qed.
Lemma in_combine_nth {A B} : forall (l:list A) (r:list B) a b, In (a, b) (combine l r) -> exists i, nth_error l i = Some a /\ nth_error r i = Some b.
Proof. induction l as [|x l IH]; intros r a b H; [destruct H|]. destruct r as [|y r]; [destruct H|]. simpl in H. destruct H as [H|H].
 - inversion H; subst. exists 0%nat. auto.
 - destruct (IH r a b H) as (i & A1 & A2). exists (Datatypes.S i). auto. Qed.
(* for every store and call sequence the returned rows are functional *)
Theorem model_rows_functional s ks : functional_b (combine ks (snd (run get_id s ks))) = true.
Proof. unfold functional_b. apply forallb_forall2. intros [k1 v1] [k2 v2] H1 H2. cbn [fst snd].
  destruct (key_eqb k1 k2) eqn:E; [|reflexivity]. cbn [negb orb]. apply key_eqb_eq in E. subst k2.
  apply in_combine_nth in H1, H2. destruct H1 as (i & A1 & A2), H2 as (j & B1 & B2).
  pose proof (exon_id_functional s ks i j k1 A1 B1) as F. rewrite A2, B2 in F. inversion F. apply str_eqb_refl. Qed.
(* ... and injective when the store satisfies the invariant (e.g. an injective reference) *)
Theorem model_rows_injective s ks : inv s -> injective_b (combine ks (snd (run get_id s ks))) = true.
Proof. intros I. unfold injective_b. apply forallb_forall2. intros [k1 v1] [k2 v2] H1 H2. cbn [fst snd].
  destruct (str_eqb v1 v2) eqn:E; [|reflexivity]. cbn [negb orb]. apply str_eqb_eq in E. subst v2.
  apply in_combine_nth in H1, H2. destruct H1 as (i & A1 & A2), H2 as (j & B1 & B2).
  apply key_eqb_eq. eapply exon_id_injective; eauto. Qed.
Print Assumptions model_rows_functional.
Print Assumptions model_rows_injective.
